/-
  C12 / C05 / C06 — `$variables` INSIDE the closed form of `scope.fetch`, continued.

  1. Parser lemmas (Phil/Proofs/FetchVars2.lean §A, second invariant of `collectObjects`): every output of
     `parseObjs` is `Fresh` (no resolution recorded), names every scope (`ScopesNamed`) and numbers its
     definitions with present, pairwise distinct ids.  Hence the theorems of Props/C12Fetch.lean for
     PARSED source texts with no side hypothesis besides the master class.
-/
import Phil.Proofs.FetchVars2
import Phil.Props.C12Fetch
import Phil.Props.C05TreeMulti
set_option linter.unusedVariables false
namespace Phil.C12Fetch2
open Phil Phil.C12 Phil.C12Fetch

/-! ## 1. parser lemmas -/

/-- **Every parsed document is `Fresh`**: the parser records no `resolve_variables` outcome. -/
theorem parse_fresh (text : Str) (doc : List Obj) (h : parseObjs text = .ok doc) : Fresh doc :=
  parse_fresh_pv text doc h

/-- **Every parsed document names its scopes** (scope names and the components of dotted names are
    standard identifiers, hence non-empty). -/
theorem parse_scopesNamed (text : Str) (doc : List Obj) (h : parseObjs text = .ok doc) : ScopesNamed doc :=
  parse_scopesNamed_pv text doc h

/-- **The ids of the definitions of a parsed document** (all of them, disabled ones included, in
    document order: `didsList`) **are present and pairwise distinct.**  (Scopes may share an id with the
    object of a dotted name; definitions never share one.) -/
theorem parse_definition_ids (text : Str) (doc : List Obj) (h : parseObjs text = .ok doc) :
    (didsList doc).Nodup ∧ ∀ x ∈ didsList doc, x ≠ none :=
  (parseObjs_extra_pv text doc h).2

/-- … in the form the C06 theorems use: the entries of `all_definitions` of the denoted document -/
theorem parse_allDefinitions_ids (env : Env) (diff : Bool) (text : Str) (doc : List Obj)
    (h : parseObjs text = .ok doc) :
    (∀ x ∈ allDefinitions (denoteDoc env diff doc), x.2.1.id ≠ none) ∧
      ((allDefinitions (denoteDoc env diff doc)).map (fun x => x.2.1.id)).Nodup :=
  parse_allDefinitions_ids_pv env diff text doc h

/-- all three for a list of parsed texts -/
theorem parsed_docs_wellformed (texts : List Str) (docs : List (List Obj))
    (hp : texts.mapM parseObjs = .ok docs) :
    (∀ d ∈ docs, DocIds d) ∧ (∀ d ∈ docs, Fresh d) ∧ ScopesNamed docs.flatten := by
  have hm := mapM_parse_mem_pv texts docs hp
  refine ⟨?_, ?_, scopesNamed_flatten_pv docs ?_⟩
  · intro d hd; obtain ⟨t, ht⟩ := hm d hd; exact parse_docIds t d ht
  · intro d hd; obtain ⟨t, ht⟩ := hm d hd; exact parse_fresh_pv t d ht
  · intro d hd; obtain ⟨t, ht⟩ := hm d hd; exact parse_scopesNamed_pv t d ht

/-! ## 1b. the fetch theorems for parsed texts, no side hypothesis -/

/-- **`master.fetch(sources)` with `$variables`, parsed source texts**: the fetch of the pre-resolved
    documents is `treeFetch` on the denoted documents.  Hypotheses: the master class only. -/
theorem fetch_with_variables_of_texts (e : Envs) (env : Env) (master : List Obj) (texts : List Str)
    (docs : List (List Obj)) (hp : texts.mapM parseObjs = .ok docs)
    (hf : TreeMaster master) (hd : depthL master ≤ 1000) :
    fetchRoot e false master (docs.map (preResolve env false)) =
      treeFetch { name := [], id := some 0 } master (docs.map (denoteDoc env false)).flatten :=
  fetch_with_variables_parsed e env master texts docs hp hf hd (parsed_docs_wellformed texts docs hp).2.2

/-- **C05 with variables, parsed source texts.**  The last enabled source definition reached by the
    path of a master definition wins, with its DENOTED words. -/
theorem last_value_wins_of_texts (e : Envs) (env : Env) (master : List Obj) (texts : List Str)
    (docs : List (List Obj)) (hp : texts.mapM parseObjs = .ok docs)
    (hf : TreeMaster master) (hd : depthL master ≤ 1000)
    (ro : Obj) (used : List Nat)
    (h : fetchRoot e false master (docs.map (preResolve env false)) = .ok (ro, used))
    (ps : List Str) (n : Str) (mm : Meta) (mws : List Word)
    (hm : defAt master ps n = some (.defn mm mws)) :
    (lastDef (srcAt (docs.map (denoteDoc env false)).flatten ps) n = none ∧
        defAt ro.children ps n = some (.defn mm mws)) ∨
      ∃ doc ∈ docs, ∃ pos m ws r, objAt doc pos = some (.defn m ws) ∧ m.name = n ∧ m.disabled = false ∧
        lastDef (srcAt (docs.map (denoteDoc env false)).flatten ps) n =
          some (annObj env false doc pos (.defn m ws)) ∧
        denote env doc pos false = .ok r ∧
        defAt ro.children ps n = some (.defn { mm with tmpl := 0 } r) :=
  have hw := parsed_docs_wellformed texts docs hp
  last_value_wins_with_variables e env master docs hf hd hw.1 hw.2.1 hw.2.2 ro used h ps n mm mws hm

/-- **C06 with variables (consumed ids, exactly), parsed source texts.** -/
theorem used_exact_of_texts (e : Envs) (env : Env) (master : List Obj) (texts : List Str)
    (docs : List (List Obj)) (hp : texts.mapM parseObjs = .ok docs)
    (hf : TreeMaster master) (hd : depthL master ≤ 1000) (hinc : NoIncludeTree master)
    (ro : Obj) (used : List Nat)
    (h : fetchRoot e false master (docs.map (preResolve env false)) = .ok (ro, used)) (i : Nat) :
    i ∈ used ↔
      ∃ x ∈ allDefinitions (docs.map (denoteDoc env false)).flatten,
        x.1 ∈ (allDefinitions master).map (·.1) ∧
          (x.2.1.id = some i ∨ i ∈ srcRefs (.defn x.2.1 x.2.2)) :=
  have hw := parsed_docs_wellformed texts docs hp
  used_with_variables_exact e env master docs hf hd hinc hw.1 hw.2.2 ro used h i

/-- **C06 with variables (the reported list, exactly), ONE parsed source text.**  An entry of
    `all_definitions(source)` is reported iff its path names no master definition and no entry whose
    path names a master definition consulted it.  (One text: every parse numbers from 1, so the ids of
    two parsed documents clash — `two_texts_share_ids`; the driver shifts the ids per document.) -/
theorem unused_exact_of_text (e : Envs) (env : Env) (master : List Obj) (text : Str) (doc : List Obj)
    (hp : parseObjs text = .ok doc)
    (hf : TreeMaster master) (hd : depthL master ≤ 1000) (hinc : NoIncludeTree master)
    (ro : Obj) (used : List Nat)
    (h : fetchRoot e false master [preResolve env false doc] = .ok (ro, used))
    (x : Str × Meta × List Word) :
    x ∈ C06.unusedOf (denoteDoc env false doc) used ↔
      x ∈ allDefinitions (denoteDoc env false doc) ∧
        x.1 ∉ (allDefinitions master).map (·.1) ∧
        ∀ y ∈ allDefinitions (denoteDoc env false doc),
          y.1 ∈ (allDefinitions master).map (·.1) →
            ∀ i, x.2.1.id = some i → i ∉ srcRefs (.defn y.2.1 y.2.2) := by
  have hids := parse_allDefinitions_ids_pv env false text doc hp
  have hfl : ([doc].map (denoteDoc env false)).flatten = denoteDoc env false doc := by simp
  have := unused_with_variables_exact e env master [doc] hf hd hinc
    (by intro d hd'; rw [List.mem_singleton] at hd'; subst hd'; exact parse_docIds text _ hp)
    (by simpa using parse_scopesNamed_pv text doc hp)
    (by rw [hfl]; exact hids.1) (by rw [hfl]; exact hids.2) ro used (by simpa using h) x
  rw [hfl] at this
  exact this

/-! ### non-vacuity and sharpness -/

/-- a source text: helper `q`, a mixture, a chain of references through a dotted name, an undefined
    variable in a definition that names no master parameter, a single-quoted `$` -/
def srcText : String := "q = 5 6\na = $q x$q\nr = 0\ns.b = $a\nz = $nope\ns {\n  c = $(s.b) '$q'\n}\n"
/-- a second text, parsed separately -/
def srcText2 : String := "a = $q\n"

theorem srcTexts_parse : [srcText.toList, srcText2.toList].mapM parseObjs = .ok [parsed srcText, parsed srcText2] := by
  rw [mapM_cons_vs, parsed_ok srcText (by decide +kernel), mapM_cons_vs, parsed_ok srcText2 (by decide +kernel),
    mapM_nil_vs]

/-- the theorems apply to the parsed texts with the master `a = 1 ; s { b = 2 ; c = 3 }`: the
    hypotheses left are the master class, kernel-evaluated -/
example (env : Env) : fetchRoot env12 false mT [preResolve env false (parsed srcText), preResolve env false (parsed srcText2)] =
    treeFetch { name := [], id := some 0 } mT (denoteDoc env false (parsed srcText) ++ denoteDoc env false (parsed srcText2)) := by
  have h := fetch_with_variables_of_texts env12 env mT _ _ srcTexts_parse (treeMasterB_sound mT (by decide +kernel))
    (by decide +kernel)
  simpa using h

/-- on the instance: the second text's `$q` is undefined IN ITS OWN document (Python: "Undefined
    variable: $q (input line 1)") although the first text defines `q` -/
example : errOf (fetchRoot env12 false mT [preResolve noEnv false (parsed srcText), preResolve noEnv false (parsed srcText2)]) =
    some (Err.runtime "undefined_variable" (some 1)) := by decide +kernel

/-- two parsed texts share ids: the pairwise-distinctness of ids holds per document only -/
theorem two_texts_share_ids :
    (allDefinitions ((C06.objsOf "a = 1\n") ++ (C06.objsOf "b = 2\n"))).map (fun x => x.2.1.id) = [some 1, some 1] := by
  decide +kernel

/-! ## 2. whole-fetch environment independence (C12) -/

/-- **C12 lifted to the whole fetch.**  If the fetch succeeds on the documents pre-resolved with the
    EMPTY environment — every reference of every consumed definition resolves inside its own document,
    `consumed_definitions_resolved` — then under EVERY environment the fetch gives the same result: the
    same tree and the same consumed ids.  The environment never overrides an earlier definition, and
    definitions that are not consumed (here: whatever they refer to) do not matter. -/
theorem fetch_env_independent (e : Envs) (env : Env) (master : List Obj) (docs : List (List Obj))
    (hf : TreeMaster master) (hd : depthL master ≤ 1000) (hdocs : ∀ d ∈ docs, DocIds d)
    (hnamed : ScopesNamed docs.flatten) (r : Obj × List Nat)
    (h : fetchRoot e false master (docs.map (preResolve emptyEnv false)) = .ok r) :
    fetchRoot e false master (docs.map (preResolve env false)) = .ok r :=
  fetchRoot_env_independent_pv e env master docs hf hd hdocs hnamed r h

/-- … for parsed source texts: master class only -/
theorem fetch_env_independent_of_texts (e : Envs) (env : Env) (master : List Obj) (texts : List Str)
    (docs : List (List Obj)) (hp : texts.mapM parseObjs = .ok docs)
    (hf : TreeMaster master) (hd : depthL master ≤ 1000) (r : Obj × List Nat)
    (h : fetchRoot e false master (docs.map (preResolve emptyEnv false)) = .ok r) :
    fetchRoot e false master (docs.map (preResolve env false)) = .ok r :=
  have hw := parsed_docs_wellformed texts docs hp
  fetchRoot_env_independent_pv e env master docs hf hd hw.1 hw.2.2 r h

/-- two arbitrary environments give the same fetch -/
theorem fetch_same_under_two_envs (e : Envs) (env1 env2 : Env) (master : List Obj) (texts : List Str)
    (docs : List (List Obj)) (hp : texts.mapM parseObjs = .ok docs)
    (hf : TreeMaster master) (hd : depthL master ≤ 1000) (r : Obj × List Nat)
    (h : fetchRoot e false master (docs.map (preResolve emptyEnv false)) = .ok r) :
    fetchRoot e false master (docs.map (preResolve env1 false)) =
      fetchRoot e false master (docs.map (preResolve env2 false)) := by
  rw [fetch_env_independent_of_texts e env1 master texts docs hp hf hd r h,
    fetch_env_independent_of_texts e env2 master texts docs hp hf hd r h]

/-- what the hypothesis says: after a successful fetch with the empty environment every CONSUMED
    definition — every enabled source definition reached by the path of a master definition —
    resolved (its denotation with the empty environment is a value) -/
theorem consumed_definitions_resolved (e : Envs) (master : List Obj) (docs : List (List Obj))
    (hf : TreeMaster master) (hd : depthL master ≤ 1000) (hdocs : ∀ d ∈ docs, DocIds d)
    (hnamed : ScopesNamed docs.flatten) (r : Obj × List Nat)
    (h : fetchRoot e false master (docs.map (preResolve emptyEnv false)) = .ok r)
    (ps : List Str) (n : Str) (mm : Meta) (mws : List Word)
    (hm : defAt master ps n = some (.defn mm mws)) :
    ∀ d ∈ defsNamed n (srcAt (docs.map (denoteDoc emptyEnv false)).flatten ps), srcErrOf d = none := by
  rw [fetchRoot_preResolved e _ master docs hf hd hdocs hnamed] at h
  unfold treeFetch at h
  cases hfe : firstErr master (docs.map (denoteDoc emptyEnv false)).flatten with
  | some err => rw [hfe] at h; cases h
  | none => exact firstErr_none_matched ps master _ n mm mws hfe hm

/-- the congruence behind it: a successful closed form is unchanged when the sources are replaced by
    sources that are identical wherever the original carries no resolution error -/
theorem treeFetch_congruence (sm : Meta) (mkids s1 s2 : List Obj) (hr : envRelList s1 s2)
    (r : Obj × List Nat) (h : treeFetch sm mkids s1 = .ok r) : treeFetch sm mkids s2 = .ok r :=
  treeFetch_envRel_pv sm mkids s1 s2 hr r h

/-- an environment that defines `q`, `nope` and `X` -/
def someEnv : Env := fun n =>
  if n = "q".toList then some "ENVQ".toList else if n = "nope".toList then some "ENVNOPE".toList
  else if n = "X".toList then some "7".toList else none

/-- instance: `srcText` has the unconsumed `z = $nope` (undefined without the environment) — the fetch
    succeeds with the empty environment, hence is the same under `someEnv`, which defines `q` (shadowed
    by the earlier definition) and `nope` (only used by the unconsumed `z`) -/
example : fetchRoot env12 false mT [preResolve someEnv false (parsed srcText)] =
    fetchRoot env12 false mT [preResolve emptyEnv false (parsed srcText)] := by
  have hp : [srcText.toList].mapM parseObjs = .ok [parsed srcText] := by
    rw [mapM_cons_vs, parsed_ok srcText (by decide +kernel), mapM_nil_vs]
  cases hr : fetchRoot env12 false mT ([parsed srcText].map (preResolve emptyEnv false)) with
  | error e0 =>
    have hden := preResolve_is_denotation_parsed emptyEnv false _ _ (parsed_ok srcText (by decide +kernel))
    have : errOf (fetchRoot env12 false mT [denoteDoc emptyEnv false (parsed srcText)]) = none := by
      decide +kernel
    simp only [List.map_cons, List.map_nil, hden] at hr
    rw [hr] at this; cases this
  | ok r =>
    have h := fetch_env_independent_of_texts env12 someEnv mT _ _ hp (treeMasterB_sound mT (by decide +kernel))
      (by decide +kernel) r hr
    simp only [List.map_cons, List.map_nil] at h hr
    rw [h, hr]

/-- **the hypothesis is sharp**: with a consumed definition that does not resolve inside its document
    (`a = $X`), the fetch fails with the empty environment and succeeds — with the environment's
    value — under `someEnv` (Python: `os.environ["X"] = "7"` gives `a = "7"`, without it
    "Undefined variable: $X (input line 1)") -/
theorem closed_needed :
    errOf (fetchRoot env12 false (C06.objsOf "a = 1\n") [preResolve emptyEnv false (C06.objsOf "a = $X\n")]) =
      some (Err.runtime "undefined_variable" (some 1)) ∧
    (fetchRoot env12 false (C06.objsOf "a = 1\n") [preResolve someEnv false (C06.objsOf "a = $X\n")]).toOption.map
      (fun r => C06.valsOf r.1.children) = some [("a", ["7"])] := by
  decide +kernel

/-! ## 3. masters with `.multiple` definitions: the candidates are the DENOTED words (C05, C12) -/

/-- **Total closed form of the fetch of a nested master whose definitions may be `.multiple`
    (`TreeMultiMaster`) on annotated sources of ANY kind** — no `SrcTree`, no `SrcNoDollar`: the error of
    the first offending source object in master order (a recorded `resolve_variables` error of a
    matching definition, `.multiple` or not, or "incompatible"), else `treeMultiResult` — whose
    candidates are built from the RESOLVED words — with the consumed ids `treeUsed`. -/
theorem fetch_tree_multi_vars_total (e : Envs) (fuel : Nat) (sm : Meta) (mkids srcs : List Obj)
    (hf : TreeMultiMaster mkids) (hfuel : depthL mkids + 1 ≤ fuel) (hsd : sm.disabled = false)
    (hsrc : ScopesNamed srcs) (hkeys : KeysDefinedTree e mkids srcs) :
    fetchScope e fuel false sm mkids srcs = treeMultiFetch e sm mkids srcs :=
  Phil.fetch_tree_multi_vars_total e fuel sm mkids srcs hf hfuel hsd hsrc hkeys

/-- **`master.fetch(sources)` with `$variables`, master with `.multiple` definitions, parsed source
    texts.**  Hypotheses: the master class, and the keys of the list rule are defined. -/
theorem fetch_multi_with_variables_of_texts (e : Envs) (env : Env) (master : List Obj) (texts : List Str)
    (docs : List (List Obj)) (hp : texts.mapM parseObjs = .ok docs)
    (hf : TreeMultiMaster master) (hd : depthL master ≤ 1000)
    (hkeys : KeysDefinedTree e master (docs.map (denoteDoc env false)).flatten) :
    fetchRoot e false master (docs.map (preResolve env false)) =
      treeMultiFetch e { name := [], id := some 0 } master (docs.map (denoteDoc env false)).flatten :=
  have hw := parsed_docs_wellformed texts docs hp
  fetchRoot_multi_preResolved_pv e env master docs hf hd hw.1 hw.2.2 hkeys

/-- **C05 list rule with variables.**  After a successful fetch, where the master has the `.multiple`
    definition `.defn mm mws` at the path `ps.n`: the enabled objects called `n` at that path of the
    result are the template followed by the `dedupKeepLast` survivors of the candidates built, in
    document order, from the enabled source definitions reached by that path IN THE DENOTED DOCUMENTS;
    every such source definition is the definition at some position `pos` of one of the documents,
    resolved, and its candidate carries the denoted words `denote env doc pos`. -/
theorem multiple_list_rule_with_variables (e : Envs) (env : Env) (master : List Obj) (texts : List Str)
    (docs : List (List Obj)) (hp : texts.mapM parseObjs = .ok docs)
    (hf : TreeMultiMaster master) (hd : depthL master ≤ 1000)
    (hkeys : KeysDefinedTree e master (docs.map (denoteDoc env false)).flatten)
    (ro : Obj) (used : List Nat)
    (h : fetchRoot e false master (docs.map (preResolve env false)) = .ok (ro, used))
    (ps : List Str) (n : Str) (mm : Meta) (mws : List Word)
    (hm : defAt master ps n = some (.defn mm mws)) (hmult : isMultiple (.defn mm mws) = true) :
    activeNamed n (srcAt ro.children ps) =
        multiBlock (.defn mm mws) (keyOf e 0 (.defn mm mws) (.defn mm mws))
          (candsOf e 0 (.defn mm mws) (defsNamed n (srcAt (docs.map (denoteDoc env false)).flatten ps))) ∧
      ∀ d ∈ defsNamed n (srcAt (docs.map (denoteDoc env false)).flatten ps),
        ∃ doc ∈ docs, ∃ pos m ws r, objAt doc pos = some (.defn m ws) ∧ m.name = n ∧ m.disabled = false ∧
          d = annObj env false doc pos (.defn m ws) ∧ denote env doc pos false = .ok r ∧
          candOfSrc (.defn mm mws) d = .defn { mm with tmpl := 0 } r := by
  have hw := parsed_docs_wellformed texts docs hp
  rw [fetchRoot_multi_preResolved_pv e env master docs hf hd hw.1 hw.2.2 hkeys] at h
  unfold treeMultiFetch at h
  cases hfe : firstErr master (docs.map (denoteDoc env false)).flatten with
  | some err => rw [hfe] at h; cases h
  | none =>
    rw [hfe] at h
    simp only [Except.ok.injEq, Prod.mk.injEq] at h
    have hch : ro.children = treeMultiResult e master (docs.map (denoteDoc env false)).flatten := by
      rw [← h.1]; rfl
    refine ⟨by rw [hch]; exact multiple_list_rule_at_depth_tm e master _ hf ps n mm mws hm hmult, ?_⟩
    intro d hdm
    obtain ⟨doc, hdoc, pos, m, ws, ho, hn, hdis, hdx, herr, hok⟩ :=
      matched_denoted_pv env docs hw.1 hw.2.1 ps n d hdm
    have hnone := firstErr_none_matched ps master _ n mm mws hfe hm d hdm
    rw [hnone] at herr
    cases hden : denote env doc pos false with
    | error e0 => rw [hden] at herr; cases herr
    | ok r =>
      refine ⟨doc, hdoc, pos, m, ws, r, ho, hn, hdis, hdx, hden, ?_⟩
      unfold candOfSrc
      rw [(hok r hden).1]
      rfl

/-- master `a = 1 (.multiple) ; b = 2` -/
def mM : List Obj := C06.objsOf "a = 1\n.multiple = True\nb = 2\n"
/-- source: three values for `a`, two of them through `$q` -/
def srcM : String := "q = 5\na = $q\na = 7\nb = $q\na = $q\n"

/-- the hypotheses of `fetch_multi_with_variables_of_texts` hold on the parsed instance, and the result:
    template, then `a = 7`, `a = 5` — the two `$q` candidates denote the same words, the LAST stays
    (Python: `a = 7`, `a = 5`, `b = 5`) -/
example : (treeMultiMasterB mM && decide (depthL mM ≤ 1000) &&
    keysDefinedTreeB env12 mM (denoteDoc emptyEnv false (parsed srcM))) = true ∧
    (treeMultiFetch env12 { name := [], id := some 0 } mM (denoteDoc emptyEnv false (parsed srcM))).toOption.map
      (fun r => (C06.valsOf r.1.children, r.2)) =
      some ([("a", ["1"]), ("a", ["7"]), ("a", ["5"]), ("b", ["5"])], [2, 1, 3, 5, 1, 4, 1]) := by
  decide +kernel

example : fetchRoot env12 false mM [preResolve emptyEnv false (parsed srcM)] =
    treeMultiFetch env12 { name := [], id := some 0 } mM (denoteDoc emptyEnv false (parsed srcM)) := by
  have hp : [srcM.toList].mapM parseObjs = .ok [parsed srcM] := by
    rw [mapM_cons_vs, parsed_ok srcM (by decide +kernel), mapM_nil_vs]
  have h := fetch_multi_with_variables_of_texts env12 emptyEnv mM _ _ hp
    (treeMultiMasterB_sound mM (by decide +kernel)) (by decide +kernel)
    (keysDefinedTreeB_sound env12 mM _ (by
      simp only [List.map_cons, List.map_nil, List.flatten_cons, List.flatten_nil, List.append_nil]
      decide +kernel))
  simpa using h

/-- a candidate of a `.multiple` definition that does not resolve fails the fetch with ITS error
    (Python: "Undefined variable: $nope (input line 2)"), before the later `b = $alsonope` -/
theorem multiple_candidate_error_first :
    errOf (treeMultiFetch env12 { name := [], id := some 0 } mM
      (denoteDoc emptyEnv false (parsed "a = 7\na = $nope\nb = $alsonope\n"))) =
      some (Err.runtime "undefined_variable" (some 2)) := by
  decide +kernel

/-! ## 4. diff mode (`resolve_variables(diff_mode=True)`, used by `fetch_diff`) — what changes

  Python (`common.py`, `definition.resolve_variables`): `diff_mode` only replaces the ENVIRONMENT lookup
  of the definition being fetched — a variable of ITS OWN words that no earlier definition defines
  becomes the word `"$name"` (double-quoted), whether or not `os.environ` has it.  A referenced
  definition is resolved by `substitution_source.resolve_variables()` — `diff_mode` is not passed on —
  so inside references the environment is still consulted and an undefined variable still raises.
  Only the one-step statement is proved here for all inputs; the fetch-level closed form of
  `fetchRoot e true` with variables is NOT done (see REPORT.md). -/

/-- **diff mode, one variable**: a variable that no earlier definition defines stands for the word
    `"$name"` — the environment is not consulted, nothing is raised -/
theorem diff_mode_keeps_undefined (env : Env) (ref : Str → VarRef) (w : Word) (name : Str)
    (h : ref name = .undefined) : varWords env true ref w name = .ok [wordDq ('$' :: name)] := by
  unfold varWords
  rw [h]
  rfl

/-- … while in non-diff mode the same variable takes the environment's value or raises -/
theorem nondiff_mode_uses_env (env : Env) (ref : Str → VarRef) (w : Word) (name : Str)
    (h : ref name = .undefined) :
    varWords env false ref w name =
      match env name with
      | some v => .ok [wordDq v]
      | none => .error (.runtime "undefined_variable" w.line) := by
  unfold varWords
  rw [h]
  rfl

/-- kernel-checked instances, replayed on Python (`X` unset, then `X=7`):
    `a = $X` in diff mode gives `a = "$X"` with or without `X` in the environment;
    `q = $X ; a = $q` in diff mode raises "Undefined variable: $X (input line 1)" without `X` and gives
    `a = "7"` with it: inside a reference diff mode changes nothing. -/
theorem diff_mode_instances :
    (denote emptyEnv (parsed "a = $X\n") [0] true).toOption.map (fun ws => ws.map (fun w => (String.ofList w.value, w.quote)))
      = some [("$X", some .d1)] ∧
    (denote someEnv (parsed "a = $X\n") [0] true).toOption.map (fun ws => ws.map (fun w => (String.ofList w.value, w.quote)))
      = some [("$X", some .d1)] ∧
    errOf (denote emptyEnv (parsed "q = $X\na = $q\n") [1] true) = some (Err.runtime "undefined_variable" (some 1)) ∧
    (denote someEnv (parsed "q = $X\na = $q\n") [1] true).toOption.map (fun ws => ws.map (fun w => String.ofList w.value))
      = some ["7"] := by
  decide +kernel

end Phil.C12Fetch2

#print axioms Phil.C12Fetch2.parse_fresh
#print axioms Phil.C12Fetch2.parse_scopesNamed
#print axioms Phil.C12Fetch2.parse_definition_ids
#print axioms Phil.C12Fetch2.parse_allDefinitions_ids
#print axioms Phil.C12Fetch2.parsed_docs_wellformed
#print axioms Phil.C12Fetch2.fetch_with_variables_of_texts
#print axioms Phil.C12Fetch2.last_value_wins_of_texts
#print axioms Phil.C12Fetch2.used_exact_of_texts
#print axioms Phil.C12Fetch2.unused_exact_of_text
#print axioms Phil.C12Fetch2.two_texts_share_ids
#print axioms Phil.C12Fetch2.fetch_env_independent
#print axioms Phil.C12Fetch2.fetch_env_independent_of_texts
#print axioms Phil.C12Fetch2.fetch_same_under_two_envs
#print axioms Phil.C12Fetch2.consumed_definitions_resolved
#print axioms Phil.C12Fetch2.treeFetch_congruence
#print axioms Phil.C12Fetch2.closed_needed
#print axioms Phil.C12Fetch2.fetch_tree_multi_vars_total
#print axioms Phil.C12Fetch2.fetch_multi_with_variables_of_texts
#print axioms Phil.C12Fetch2.multiple_list_rule_with_variables
#print axioms Phil.C12Fetch2.multiple_candidate_error_first
#print axioms Phil.C12Fetch2.diff_mode_keeps_undefined
#print axioms Phil.C12Fetch2.nondiff_mode_uses_env
#print axioms Phil.C12Fetch2.diff_mode_instances
