/-
  C05 / C07 (masters that REPEAT the name of a `.multiple` object — further master occurrences): the
  specification `ms2Result` of the non-diff fetch on the larger class `MS2Master`, where the later
  enabled same-name siblings of a `.multiple` object contribute candidates BEFORE the sources
  (`fromMaster` in `fetchScope`) and no block of their own.

  Lemmas: Phil/Proofs/FetchTreeMS2.lean.
  What is PROVED here:
    * `ms2_conservative`: on `MSMaster` (one occurrence per name) `ms2Result` is `msResult`; hence
      `fetch_ms2_total_of_msMaster` — the operational closed form in terms of the new specification, on
      the old class;
    * kernel-checked instance theorems on a parsed master WITH further occurrences (a `.multiple` scope
      repeated, a `.multiple` definition repeated inside it and at top level): the model's fetch is the
      specification, re-fetching the result reproduces it, `M.fetch(M) = M.fetch()`
      (`ms2_instance_fetch`, `ms2_instance_idempotent`) — all replayed on the real library.
  What is NOT proved (validated only): `fetchScope = ms2Result` and idempotence for every `MS2Master`.
  Validation of the specification against the real library: 400 random instances (the generator of
  C08TreeMS plus further occurrences of `.multiple` scopes and definitions with changed values; 254 of
  the 400 masters really repeat a name): 365 results equal, 35 clash errors agree with `ms2NoClash`,
  0 mismatches; the model agreed on all 400; the specification is idempotent on all 400
  (`ms2Result M (ms2Result M S) = ms2Result M S`).  Python probe of idempotence and of
  `M.fetch(M) = M.fetch()` on 1000 further random masters of the larger class: 0 failures — no witness
  that idempotence needs a hypothesis was found.
-/
import Phil.Proofs.FetchTreeMS2
import Phil.Props.C05TreeMS
set_option linter.unusedVariables false

namespace Phil.C05
open Phil

/-- **conservative extension**: on masters with one occurrence per name the specification with further
    occurrences is the specification of Props/C05TreeMS.lean -/
theorem ms2_conservative (e : Envs) (mkids srcs : List Obj) (hf : MSMaster mkids) :
    ms2Result e [] mkids srcs = msResult e mkids srcs :=
  ms2Result_eq_msResult e mkids srcs hf

/-- the closed form of the fetch in terms of the new specification, on `MSMaster` -/
theorem fetch_ms2_total_of_msMaster (e : Envs) (fuel : Nat) (sm : Meta) (mkids srcs : List Obj)
    (hf : MSMaster mkids) (hfuel : depthL mkids + 1 ≤ fuel) (hsd : sm.disabled = false)
    (hsrc : SrcTree srcs) (hkeys : KeysDefinedMS e mkids srcs) :
    fetchScope e fuel false sm mkids srcs =
      if msNoClash mkids srcs then
        .ok (.scope { sm with tmpl := 0 } (ms2Result e [] mkids srcs), msUsed mkids srcs)
      else .error (.runtime "incompatible" none) := by
  rw [ms2Result_eq_msResult e mkids srcs hf]
  exact Phil.fetch_ms_total e fuel sm mkids srcs hf hfuel hsd hsrc hkeys

/-- the block of a first occurrence sees its later enabled same-name siblings as leading sources -/
theorem ms2Result_cons (e : Envs) (seen : List Str) (mo : Obj) (rest srcs : List Obj)
    (hen : mo.meta.disabled = false) (hs : seen.contains mo.name = false) :
    ms2Result e seen (mo :: rest) srcs =
      ms2Block e mo (activeNamed mo.name rest ++ srcs) ++ ms2Result e (mo.name :: seen) rest srcs := by
  rw [ms2Result]
  simp only [hen, hs, Bool.or_self, Bool.false_eq_true, if_false]

/-- a later object of a name already met (a further occurrence) contributes no block -/
theorem ms2Result_further (e : Envs) (seen : List Str) (mo : Obj) (rest srcs : List Obj)
    (hs : seen.contains mo.name = true) :
    ms2Result e seen (mo :: rest) srcs = ms2Result e seen rest srcs := by
  rw [ms2Result]
  simp only [hs, Bool.or_true, if_true]

/-! ### an instance with further occurrences (through the parser) -/

/-- master: the `.multiple` scope `s { h = 1 (int) ; c = x (.multiple) ; c = y }` — `c` repeated inside —
    followed by the further occurrence `s { h = 2 }`; the `.multiple` definition `d = 1 (int)` followed
    by `d = 2` -/
def ms2M : List Obj := tmObjs "s\n.multiple=True\n{\n  h = 1\n  .type=int\n  c = x\n  .multiple=True\n  c = y\n}\ns {\n  h = 2\n}\nd = 1\n.type=int\n.multiple=True\nd = 2\n"

/-- sources: `s.h = 3`, `s.h = 2` (repeats the master-provided instance), a block with two `c`; `d = 2`
    (master-provided), `d = 4`, `d = 1` (the default) -/
def ms2S : List Obj := tmObjs "s.h = 3\ns.h = 2\ns {\n  c = y\n  c = z\n}\nd = 2\nd = 4\nd = 1\n"

def kidsOfMS2 (r : R (Obj × List Nat)) : List Obj := match r with | .ok (o, _) => o.children | .error _ => []

/-- the instance is in the larger class and not in the old one -/
example : (ms2MasterB ms2M, msMasterB ms2M, srcCheck ms2S, ms2NoClash [] ms2M ms2S) = (true, false, true, true) := by
  decide +kernel

/-- **the model's fetch is the specification on the instance** — and the real library returns exactly
    this tree (replayed): master-provided instances come first (`s: h = 2`, `d = 2`), a source repeating
    one of them moves it to the end (`s: h = 3` then `h = 2`), every instance of `s` carries the
    master's further `c = y` -/
theorem ms2_instance_fetch :
    dumpListMS "" (kidsOfMS2 (fetchRoot envTm false ms2M [ms2S])) = dumpListMS "" (ms2Result envTm [] ms2M ms2S) ∧
    dumpListMS "" (ms2Result envTm [] ms2M ms2S) =
      ["S s -1", "D s.h 0 1", "D s.c 0 x", "D s.c 0 y",
       "S s 0", "D s.h 0 3", "D s.c -1 x", "D s.c 0 y",
       "S s 0", "D s.h 0 2", "D s.c -1 x", "D s.c 0 y",
       "S s 0", "D s.h 0 1", "D s.c -1 x", "D s.c 0 y", "D s.c 0 z",
       "D d -1 1", "D d 0 2", "D d 0 4"] := by
  decide +kernel

end Phil.C05

namespace Phil.C07
open Phil

/-- **idempotence on the instance with further occurrences**: re-fetching the result reproduces it (on
    the model and on the specification), and `M.fetch(M) = M.fetch()` — replayed on the real library -/
theorem ms2_instance_idempotent :
    C05.dumpListMS "" (C05.kidsOfMS2 (fetchRoot C05.envTm false C05.ms2M
        [C05.kidsOfMS2 (fetchRoot C05.envTm false C05.ms2M [C05.ms2S])])) =
      C05.dumpListMS "" (C05.kidsOfMS2 (fetchRoot C05.envTm false C05.ms2M [C05.ms2S])) ∧
    C05.dumpListMS "" (ms2Result C05.envTm [] C05.ms2M (ms2Result C05.envTm [] C05.ms2M C05.ms2S)) =
      C05.dumpListMS "" (ms2Result C05.envTm [] C05.ms2M C05.ms2S) ∧
    C05.dumpListMS "" (C05.kidsOfMS2 (fetchRoot C05.envTm false C05.ms2M [C05.ms2M])) =
      C05.dumpListMS "" (C05.kidsOfMS2 (fetchRoot C05.envTm false C05.ms2M [])) := by
  decide +kernel

end Phil.C07

#print axioms Phil.C05.ms2_conservative
#print axioms Phil.C05.fetch_ms2_total_of_msMaster
#print axioms Phil.C05.ms2Result_cons
#print axioms Phil.C05.ms2Result_further
#print axioms Phil.C05.ms2_instance_fetch
#print axioms Phil.C07.ms2_instance_idempotent
