/-
  C06 (exact form, NESTED masters) — "every source definition is either consumed or reported as
  unused: the reported list is EXACTLY the set of active source definitions whose full path names no
  active master parameter."

  Model: Phil/Fetch.lean (`fetchScope`/`fetchRoot`; the `.tmp` marks are the returned list `used`),
  Phil/CmdLine.lean (`allDefinitions`); the driver reports `unusedOf sources used`
  (Phil/Props/C06.lean).  Lemmas: Phil/Proofs/FetchTree.lean.

  Class covered (unbounded: every such master, every such source list, every adequate fuel):
    * master: a TREE without `.multiple` (`TreeMaster`) — enabled definitions (typed or not; not
      `.multiple`, not `.deprecated`, no choice type) and enabled, non-multiple scopes of such
      objects to ANY depth, names non-empty and dot-free (the parser nests dotted spellings),
      sibling names pairwise distinct; non-diff mode; fetched at the root (`sm.name = []`) or as a
      sub-scope (any `sm.name`);
    * sources: arbitrary lists of definitions and scopes to any depth, enabled or disabled, repeated
      or not, in any spelling (`SrcTree`: below enabled scopes, enabled definitions resolve —
      `SrcOK`, e.g. variable-free — and enabled scopes are named; for the exact account of the ids
      also `SrcPlain`: no ids consulted for variables, dot-free names);
    * fuel: `depthL mkids + 1 ≤ fuel` (`depthL` = nesting depth of the master, 0 for a flat one);
      the fuel `fetchRoot` computes is adequate for masters nested at most 1000 deep
      (`fetchRoot_fuel_tree`).
  Specification functions (Phil/Proofs/FetchTree.lean, structural recursion on the master tree):
    `srcStep objs n`   the children of all enabled scopes called `n` among `objs`, document order;
    `srcAt objs ps`    `srcStep` iterated along the path `ps`;
    `lastDef objs n`   the last enabled definition called `n` among `objs`;
    `treeResult mkids srcs`, `treeUsed mkids srcs`, `noClash mkids srcs`, `defPaths mkids p`.
  Facts:
    * `fetch_tree_total`: the fetch equals `treeResult`/`treeUsed` when `noClash`, and fails with
      RuntimeError ("incompatible") otherwise — a TOTAL description (`fetch_tree`, `tree_clash_fails`);
    * `tree_used_exact`: the consumed ids are exactly the ids of the entries of
      `all_definitions(sources)` whose dotted path is the path of a master definition;
    * `tree_unused_exact` / `reported_iff_tree` / `fetchRoot_tree_unused_exact`: with pairwise
      distinct ids the reported list is exactly the sub-list of `all_definitions(sources)` whose
      path is not among `all_definitions(master)`.
-/
import Phil.Proofs.FetchTree
import Phil.Props.C06
import Phil.Parse
set_option linter.unusedVariables false
namespace Phil.C06
open Phil

/-- **Closed form of the fetch of a nested master (total).**  With fuel beyond the nesting depth the
    fetch succeeds exactly when no enabled source scope sits where the master has a definition and
    no enabled source definition where the master has a scope, at any depth (`noClash`); its result
    is `treeResult`, the consumed ids are `treeUsed` (in this order); otherwise it raises
    RuntimeError ("incompatible"). -/
theorem fetch_tree_total (e : Envs) (fuel : Nat) (sm : Meta) (mkids srcs : List Obj)
    (hf : TreeMaster mkids) (hfuel : depthL mkids + 1 ≤ fuel) (hsd : sm.disabled = false)
    (hsrc : SrcTree srcs) :
    fetchScope e fuel false sm mkids srcs =
      if noClash mkids srcs then
        .ok (.scope { sm with tmpl := 0 } (treeResult mkids srcs), treeUsed mkids srcs)
      else .error (.runtime "incompatible" none) :=
  Phil.fetch_tree_total e fuel sm mkids srcs hf hfuel hsd hsrc

/-- **`fetch_tree`** — the success case. -/
theorem fetch_tree (e : Envs) (fuel : Nat) (sm : Meta) (mkids srcs : List Obj)
    (hf : TreeMaster mkids) (hfuel : depthL mkids + 1 ≤ fuel) (hsd : sm.disabled = false)
    (hsrc : SrcTree srcs) (hnc : noClash mkids srcs = true) :
    fetchScope e fuel false sm mkids srcs =
      .ok (.scope { sm with tmpl := 0 } (treeResult mkids srcs), treeUsed mkids srcs) :=
  Phil.fetch_tree e fuel sm mkids srcs hf hfuel hsd hsrc hnc

/-- **A clash of kinds at any depth is an error.** -/
theorem tree_clash_fails (e : Envs) (fuel : Nat) (sm : Meta) (mkids srcs : List Obj)
    (hf : TreeMaster mkids) (hfuel : depthL mkids + 1 ≤ fuel) (hsd : sm.disabled = false)
    (hsrc : SrcTree srcs) (hnc : noClash mkids srcs = false) :
    fetchScope e fuel false sm mkids srcs = .error (.runtime "incompatible" none) :=
  Phil.fetch_tree_clash e fuel sm mkids srcs hf hfuel hsd hsrc hnc

/-- **`master.fetch(sources)`** on parsed roots: the fuel `fetchRoot` computes is adequate. -/
theorem fetchRoot_tree (e : Envs) (master : List Obj) (ss : List (List Obj))
    (hf : TreeMaster master) (hd : depthL master ≤ 1000) (hsrc : SrcTree ss.flatten) :
    fetchRoot e false master ss =
      if noClash master ss.flatten then
        .ok (.scope { name := [], id := some 0 } (treeResult master ss.flatten), treeUsed master ss.flatten)
      else .error (.runtime "incompatible" none) :=
  Phil.fetchRoot_tree e master ss hf hd hsrc

/-- **Consumed ids, exactly.**  Whenever the fetch of a tree master succeeds, `i` is consumed iff it
    is the id of an entry of `all_definitions(sources)` — an enabled definition below enabled scopes
    only, at any depth, in any spelling — whose dotted path is the path of a master definition. -/
theorem tree_used_exact (e : Envs) (fuel : Nat) (sm : Meta) (mkids srcs : List Obj)
    (hf : TreeMaster mkids) (hfuel : depthL mkids + 1 ≤ fuel) (hsd : sm.disabled = false)
    (hinc : NoIncludeTree mkids) (hsrc : SrcTree srcs) (hs : SrcPlain srcs)
    (ro : Obj) (used : List Nat)
    (h : fetchScope e fuel false sm mkids srcs = .ok (ro, used)) (i : Nat) :
    i ∈ used ↔ ∃ x ∈ allDefinitions srcs, x.2.1.id = some i ∧ x.1 ∈ defPaths mkids [] := by
  obtain ⟨_, _, hu⟩ := fetch_tree_ok e fuel sm mkids srcs hf hfuel hsd hsrc ro used h
  subst hu
  exact Phil.tree_used_exact mkids srcs hf hinc hs i

/-- the paths `defPaths` lists are the paths of `all_definitions(master)`: the active master
    parameters -/
theorem defPaths_eq_allDefinitions (mkids : List Obj) (hf : TreeMaster mkids) (hinc : NoIncludeTree mkids) :
    defPaths mkids [] = (allDefinitions mkids).map (·.1) :=
  Phil.defPaths_eq_allDefinitions mkids hf hinc

/-- **The reported list, exactly.**  Whenever the fetch of a tree master succeeds and the entries of
    `all_definitions(sources)` carry pairwise distinct ids, the reported list is the list of the
    entries of `all_definitions(sources)` (in order) whose full path is not the path of an active
    master parameter. -/
theorem tree_unused_exact (e : Envs) (fuel : Nat) (sm : Meta) (mkids srcs : List Obj)
    (hf : TreeMaster mkids) (hfuel : depthL mkids + 1 ≤ fuel) (hsd : sm.disabled = false)
    (hinc : NoIncludeTree mkids) (hsrc : SrcTree srcs) (hs : SrcPlain srcs)
    (hsome : ∀ x ∈ allDefinitions srcs, x.2.1.id ≠ none)
    (hids : ((allDefinitions srcs).map (fun x => x.2.1.id)).Nodup)
    (ro : Obj) (used : List Nat)
    (h : fetchScope e fuel false sm mkids srcs = .ok (ro, used)) :
    unusedOf srcs used =
      (allDefinitions srcs).filter (fun x => !((allDefinitions mkids).map (·.1)).contains x.1) := by
  rw [← Phil.defPaths_eq_allDefinitions mkids hf hinc]
  exact Phil.tree_unused_exact e fuel sm mkids srcs hf hfuel hsd hinc hsrc hs hsome hids ro used h

/-- membership form: an entry of `all_definitions(sources)` is reported iff its path names no active
    master parameter -/
theorem reported_iff_tree (e : Envs) (fuel : Nat) (sm : Meta) (mkids srcs : List Obj)
    (hf : TreeMaster mkids) (hfuel : depthL mkids + 1 ≤ fuel) (hsd : sm.disabled = false)
    (hinc : NoIncludeTree mkids) (hsrc : SrcTree srcs) (hs : SrcPlain srcs)
    (hsome : ∀ x ∈ allDefinitions srcs, x.2.1.id ≠ none)
    (hids : ((allDefinitions srcs).map (fun x => x.2.1.id)).Nodup)
    (ro : Obj) (used : List Nat)
    (h : fetchScope e fuel false sm mkids srcs = .ok (ro, used))
    (x : Str × Meta × List Word) :
    x ∈ unusedOf srcs used ↔
      x ∈ allDefinitions srcs ∧ x.1 ∉ (allDefinitions mkids).map (·.1) := by
  rw [tree_unused_exact e fuel sm mkids srcs hf hfuel hsd hinc hsrc hs hsome hids ro used h,
    List.mem_filter]
  simp

/-- **`master.fetch(sources, track_unused_definitions=True)`** on parsed roots, with the side
    conditions in their executable form (`masterCheck`, `srcCheck`). -/
theorem fetchRoot_tree_unused_exact (e : Envs) (master : List Obj) (ss : List (List Obj))
    (hm : masterCheck master = true) (hs : srcCheck ss.flatten = true)
    (hsome : ∀ x ∈ allDefinitions ss.flatten, x.2.1.id ≠ none)
    (hids : ((allDefinitions ss.flatten).map (fun x => x.2.1.id)).Nodup)
    (ro : Obj) (used : List Nat)
    (h : fetchRoot e false master ss = .ok (ro, used)) :
    unusedOf ss.flatten used =
      (allDefinitions ss.flatten).filter
        (fun x => !((allDefinitions master).map (·.1)).contains x.1) := by
  have hM := masterCheck_sound master hm
  have hS := srcCheck_sound ss.flatten hs
  exact tree_unused_exact e _ _ master ss.flatten hM.tree (fetchRoot_fuel_tree master hM.depth) rfl
    hM.noInclude hS.tree hS.plain hsome hids ro used h

/-! ### non-vacuity: a nested instance through the parser -/

def objsOf (t : String) : List Obj :=
  match parseObjs t.toList with
  | .ok m => m
  | .error _ => []

/-- master: `a = 1 (.type=int) ; s { b = x ; t { c = None ; d = 2 } }` -/
def treeM : List Obj := objsOf "a = 1\n.type=int\ns {\n  b = x\n  t {\n    c = None\n    d = 2\n  }\n}\n"

/-- sources: dotted and braced spellings, repeated scopes, disabled objects, unknown names -/
def treeS : List Obj :=
  objsOf "s.t.c = 4\ns {\n  b = 5\n  !b = 6\n  q = 0\n}\nz = 1\ns.t {\n  c = 6\n  e = 1\n}\n!s.t.c = 9\n!s { b = 8 }\na = 7\n"

/-- the (path, words) pairs of the definitions of a tree -/
def valsOf (kids : List Obj) : List (String × List String) :=
  (allDefinitions kids).map (fun x => (String.ofList x.1, x.2.2.map (fun w => String.ofList w.value)))

/-- the parsed instance satisfies every hypothesis (the parser's output: dot-free names, named
    scopes, pairwise distinct ids) -/
example : (treeM.length == 2 && treeS.length == 7 && masterCheck treeM && srcCheck treeS &&
    noClash treeM treeS && depthL treeM == 2 &&
    decide (((allDefinitions treeS).map (fun x => x.2.1.id)).Nodup) &&
    (allDefinitions treeS).all (fun x => x.2.1.id.isSome)) = true := by
  decide +kernel

/-- the specification functions on the instance -/
example : valsOf (treeResult treeM treeS) = [("a", ["7"]), ("s.b", ["5"]), ("s.t.c", ["6"]), ("s.t.d", ["2"])] := by
  decide +kernel

example : (defPaths treeM []).map String.ofList = ["a", "s.b", "s.t.c", "s.t.d"] := by decide +kernel

/-- the model agrees with the specification on the instance (result, consumed ids, reported list) -/
example :
    (match fetchRoot env12 false treeM [treeS] with
     | .ok (ro, used) => some (valsOf ro.children, used == treeUsed treeM treeS,
         (unusedOf treeS used).map (fun x => String.ofList x.1))
     | .error _ => none) =
      some ([("a", ["7"]), ("s.b", ["5"]), ("s.t.c", ["6"]), ("s.t.d", ["2"])], true, ["s.q", "z", "s.t.e"]) := by
  decide +kernel

/-- the theorem applied to the instance: the reported list follows from `fetchRoot_tree_unused_exact`
    (all its hypotheses are discharged by kernel evaluation) -/
example (ro : Obj) (used : List Nat) (h : fetchRoot env12 false treeM [treeS] = .ok (ro, used)) :
    (unusedOf treeS used).map (fun x => String.ofList x.1) = ["s.q", "z", "s.t.e"] := by
  have hfl : ([treeS] : List (List Obj)).flatten = treeS := by simp
  have := fetchRoot_tree_unused_exact env12 treeM [treeS] (by decide +kernel)
    (by rw [hfl]; decide +kernel)
    (by
      rw [hfl]
      intro x hx
      have hall : ((allDefinitions treeS).all (fun x => x.2.1.id.isSome)) = true := by decide +kernel
      have := List.all_eq_true.mp hall x hx
      intro hn; rw [hn] at this; cases this)
    (by rw [hfl]; decide +kernel)
    ro used h
  rw [hfl] at this
  rw [this]
  decide +kernel

/-- a source scope where the master has a definition (`s.b` is a definition of the master) at depth
    2: `noClash` is false and the fetch fails -/
example : (noClash treeM (objsOf "s.b.x = 1\n"),
    errOf (fetchRoot env12 false treeM [objsOf "s.b.x = 1\n"])) =
      (false, some (.runtime "incompatible" none)) := by
  decide +kernel

/-- a source definition where the master has a scope -/
example : (noClash treeM (objsOf "s.t = 1\n"),
    errOf (fetchRoot env12 false treeM [objsOf "s.t = 1\n"])) =
      (false, some (.runtime "incompatible" none)) := by
  decide +kernel

end Phil.C06
