/-
  C18 — Extracted parameter objects are guarded, self-describing and detached.
  Theorems about the scope_extract model (Phil/ScopeExtract.lean): path of every node, assignment
  guard, inject-once.  Detachment (no aliasing with the PHIL tree) is object identity and is validated
  by the harness, not proved.
-/
import Phil.ScopeExtract
set_option linter.unusedSimpArgs false
namespace Phil.C18
open Phil

theorem dotted_snoc (l : List Str) (x : Str) (h : l ≠ []) : dotted (l ++ [x]) = dotted l ++ '.' :: x := by
  induction l with
  | nil => exact absurd rfl h
  | cons a t ih =>
    cases t with
    | nil => simp [dotted]
    | cons b t' =>
      have := ih (by simp)
      simp [dotted] at this ⊢
      simp [this]

/-- the name chain (self first, root last) of the node reached from the root through `names` -/
def chainOf (rev : List Str) : List (Option Str) := rev.map some ++ [some []]

theorem philPath_step (own p : Str) (rest : List (Option Str)) (hp : p.isEmpty = false) (o : Option Str) :
    philPath (some own :: some p :: rest) o
      = (philPath (some p :: rest) none ++ '.' :: own) ++ (match o with | none => [] | some x => '.' :: x) := by
  cases o <;> simp [philPath, hp]

theorem nonempty_isEmpty {p : Str} (h : p ≠ []) : p.isEmpty = false := by
  cases p with
  | nil => exact absurd rfl h
  | cons _ _ => rfl

/-- Every extracted scope reached from the root through the non-empty names `n₁ … n_k` (given here
    self-first as `rev`) reports the dotted path `n₁.….n_k` — for any depth. -/
theorem phil_path_correct (rev : List Str) (hne : ∀ n ∈ rev, n ≠ []) (hk : rev ≠ []) :
    philPath (chainOf rev) none = dotted rev.reverse := by
  induction rev with
  | nil => exact absurd rfl hk
  | cons own parents ih =>
    cases parents with
    | nil => simp [chainOf, philPath, dotted]
    | cons p ps =>
      have hpe := nonempty_isEmpty (hne p (by simp))
      have ih' : philPath (chainOf (p :: ps)) none = dotted (p :: ps).reverse :=
        ih (fun n hn => hne n (by simp [hn])) (by simp)
      have hstep := philPath_step own p (ps.map some ++ [some []]) hpe none
      have hc1 : chainOf (own :: p :: ps) = some own :: some p :: (ps.map some ++ [some []]) := by
        simp [chainOf]
      have hc2 : chainOf (p :: ps) = some p :: (ps.map some ++ [some []]) := by simp [chainOf]
      rw [hc1, hstep, ← hc2, ih']
      have hrev : (own :: p :: ps).reverse = (p :: ps).reverse ++ [own] := by simp
      rw [hrev, dotted_snoc _ _ (by simp)]
      simp

/-- … and the path it reports for one of its parameters is that path extended by the parameter name. -/
theorem phil_path_of_parameter (rev : List Str) (hne : ∀ n ∈ rev, n ≠ []) (hk : rev ≠ []) (o : Str) :
    philPath (chainOf rev) (some o) = dotted (rev.reverse ++ [o]) := by
  have base := phil_path_correct rev hne hk
  cases rev with
  | nil => exact absurd rfl hk
  | cons own parents =>
    cases parents with
    | nil =>
      have hoe := nonempty_isEmpty (hne own (by simp))
      cases own with
      | nil => simp at hoe
      | cons c cs => simp [chainOf, philPath, dotted]
    | cons p ps =>
      have hpe := nonempty_isEmpty (hne p (by simp))
      have hc1 : chainOf (own :: p :: ps) = some own :: some p :: (ps.map some ++ [some []]) := by
        simp [chainOf]
      have h1 := philPath_step own p (ps.map some ++ [some []]) hpe none
      have h2 := philPath_step own p (ps.map some ++ [some []]) hpe (some o)
      rw [hc1] at base ⊢
      rw [h2]
      rw [h1] at base
      simp only [List.append_nil] at base
      rw [base, dotted_snoc _ _ (by simp)]

/-- the root object reports the bare parameter name -/
theorem root_path (o : Str) : philPath (chainOf []) (some o) = o ∧ philPath (chainOf []) none = [] := by
  simp [chainOf, philPath]

/-- Assignment guard: a declared parameter is accepted … -/
theorem setattr_declared (chain : List (Option Str)) (fields : List (Str × PVal)) (name : Str) (v : PVal)
    (h : fields.any (·.1 == name) = true) :
    setAttr chain fields name v = .ok (fieldSet fields name v) := by
  simp [setAttr, hasAttr, h]

/-- … and any other (non-reserved) name is rejected with an AttributeError whose text spells
    `path.name`. -/
theorem setattr_guard (chain : List (Option Str)) (fields : List (Str × PVal)) (name : Str) (v : PVal)
    (h1 : fields.any (·.1 == name) = false) (h2 : builtinAttrs.contains (String.ofList name) = false) :
    setAttr chain fields name v = .attributeError (errPath chain name) := by
  have h2' : String.ofList name ∉ builtinAttrs := by simpa using h2
  simp [setAttr, hasAttr, h1, h2']

/-- the path spelled in the error is the node's dotted path followed by the rejected name -/
theorem setattr_error_path (rev : List Str) (hne : ∀ n ∈ rev, n ≠ []) (hk : rev ≠ []) (name : Str) :
    errPath (chainOf rev) name = dotted (rev.reverse ++ [name]) := by
  have hb := phil_path_correct rev hne hk
  have hne' : (philPath (chainOf rev) none).isEmpty = false := by
    rw [hb]
    cases hr : rev.reverse with
    | nil => simp at hr; exact absurd hr hk
    | cons a t =>
      have ha : a ≠ [] := hne a (by
        have : a ∈ rev.reverse := by rw [hr]; simp
        simpa using this)
      cases a with
      | nil => exact absurd rfl ha
      | cons c cs => cases t <;> simp [dotted]
  simp only [errPath, hne', Bool.false_eq_true, ↓reduceIte]
  rw [hb, dotted_snoc _ _ (by simpa using hk)]

/-- Injecting a new name works exactly once. -/
theorem inject_once (chain : List (Option Str)) (fields : List (Str × PVal)) (name : Str) (v v' : PVal)
    (h1 : fields.any (·.1 == name) = false) (h2 : builtinAttrs.contains (String.ofList name) = false) :
    ∃ fields', inject chain fields name v = .ok fields' ∧
      inject chain fields' name v' = .attributeError (errPath chain name) := by
  have h2' : String.ofList name ∉ builtinAttrs := by simpa using h2
  refine ⟨fieldSet fields name v, ?_, ?_⟩
  · simp [inject, hasAttr, h1, h2']
  · have : (fieldSet fields name v).any (·.1 == name) = true := by
      simp [fieldSet, h1]
    simp [inject, hasAttr, this]

/-- non-vacuity: a node two levels deep -/
example : philPath (chainOf ["b".toList, "a".toList]) (some "x".toList) = "a.b.x".toList := by
  rw [phil_path_of_parameter _ (by simp) (by simp)]; rfl

end Phil.C18
