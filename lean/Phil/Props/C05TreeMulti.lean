/-
  C05 (NESTED masters whose DEFINITIONS may be `.multiple`) — "multiples accumulate, everything else:
  last value wins", at every depth; with the companions for the same class of C04 — "a fetch result
  has the master's parameter structure" —, C06 — "the reported list is exactly the set of source
  definitions whose path names no master parameter" — and C07 — "fetching is idempotent"
  (namespaces `Phil.C05`, `Phil.C04`, `Phil.C06`, `Phil.C07`).

  Model: Phil/Fetch.lean (`fetchScope`/`fetchRoot`).  Lemmas: Phil/Proofs/FetchTreeMulti.lean, which
  combines the list rule for flat masters (Phil/Proofs/FetchSpec.lean, Props/C05Multi.lean) with the
  closed form for nested masters without `.multiple` (Phil/Proofs/FetchTree.lean, Props/C05Tree.lean,
  Props/C06Tree.lean).

  Class covered (unbounded: every such master, every such source list, every adequate fuel):
    * master: `TreeMultiMaster` — a TREE of enabled, NON-multiple scopes to any depth (names non-empty
      and dot-free, sibling names pairwise distinct) whose definitions are enabled, not
      `.deprecated`, not choices, typed or not, `.multiple` or not, at any depth.  (`.multiple`
      SCOPES stay outside: their keys are renderings of whole blocks.)  Non-diff mode; fetched at
      the root or as a sub-scope.
    * sources: arbitrary lists of definitions and scopes to any depth, enabled or disabled, repeated
      or not, in any spelling (`SrcTree`; for the exact account of the ids also `SrcPlain`).
    * keys: `KeysDefinedTree e mkids srcs` — at every `.multiple` master definition,
      `extract_format` succeeds on the master definition and on the candidate built from every
      enabled source definition reached by its path (it fails e.g. on `x` for an `int`); `eval` and
      `"%.10g"` stay abstract (`Envs`).  For a definition the key does not depend on the fuel, so
      the specification is fuel-free (`keyOf e 0`).
    * fuel: `depthL mkids + 1 ≤ fuel`; `fetchRoot` provides it for masters nested ≤ 1000 deep.
  Specification (structural recursion on the master tree, sources followed by `srcStep`):
    `tmBlock e mo srcs` — what the master child `mo` contributes, given the source objects at its
        level: a non-multiple definition — `[lastWins mo (defsNamed mo.name srcs)]`; a `.multiple`
        definition — `multiBlock mo k₀ cands`: the template (flag 0 mandatory / 1 nothing survives /
        -1) followed by the `dedupKeepLast` survivors among the candidates whose key differs from
        the master's key `k₀`, the candidates being built from `defsNamed mo.name srcs` in document
        order; a scope — itself, rebuilt from `srcStep srcs mo.name`;
    `treeMultiResult e mkids srcs` — the concatenation of the blocks, in master order;
    `treeMultiUsed = treeUsed`, `noClash`, `defPaths` — as for masters without `.multiple`.
  Facts:
    * C05 `fetch_tree_multi_total`: the fetch equals `treeMultiResult`/`treeMultiUsed` when
      `noClash`, and fails with RuntimeError ("incompatible") otherwise — a TOTAL description;
      `multiple_list_rule_at_depth`, `multiple_list_rule_all_definitions`,
      `last_value_wins_at_depth_multi`: what stands at the path of a master definition;
    * C04 `tree_multi_result_shape` (skeleton = master skeleton with `.multiple` definitions repeated
      once per survivor), `tree_multi_result_paths`;
    * C06 `tree_multi_used_exact`, `tree_multi_unused_exact`, `reported_iff_tree_multi`;
    * C07 `tree_multi_refetch_idempotent`.
  Validation of the specification against the real library before proving: 900 random instances
  (nested masters, multiple definitions at depths 0–3, typed/untyped, non-canonical defaults;
  sources repeating values, equal to defaults, dotted/braced/mixed spellings, disabled, clashes):
  858 compared (832 results, 26 clash errors), 42 outside the class (undefined keys), 0 mismatches.
-/
import Phil.Proofs.FetchTreeMulti
import Phil.Props.C06
import Phil.Parse
set_option linter.unusedVariables false

namespace Phil.C05
open Phil

/-! ### the closed form -/

/-- **Closed form of the fetch of a nested master whose definitions may be `.multiple` (total).**
    With fuel beyond the nesting depth and defined keys, the fetch succeeds exactly when no enabled
    source scope sits where the master has a definition (`.multiple` or not) and no enabled source
    definition where the master has a scope, at any depth (`noClash`); its result is
    `treeMultiResult`, the consumed ids are `treeMultiUsed` (in this order); otherwise it raises
    RuntimeError ("incompatible"). -/
theorem fetch_tree_multi_total (e : Envs) (fuel : Nat) (sm : Meta) (mkids srcs : List Obj)
    (hf : TreeMultiMaster mkids) (hfuel : depthL mkids + 1 ≤ fuel) (hsd : sm.disabled = false)
    (hsrc : SrcTree srcs) (hkeys : KeysDefinedTree e mkids srcs) :
    fetchScope e fuel false sm mkids srcs =
      if noClash mkids srcs then
        .ok (.scope { sm with tmpl := 0 } (treeMultiResult e mkids srcs), treeMultiUsed mkids srcs)
      else .error (.runtime "incompatible" none) :=
  Phil.fetch_tree_multi_total e fuel sm mkids srcs hf hfuel hsd hsrc hkeys

/-- the success case -/
theorem fetch_tree_multi (e : Envs) (fuel : Nat) (sm : Meta) (mkids srcs : List Obj)
    (hf : TreeMultiMaster mkids) (hfuel : depthL mkids + 1 ≤ fuel) (hsd : sm.disabled = false)
    (hsrc : SrcTree srcs) (hkeys : KeysDefinedTree e mkids srcs) (hnc : noClash mkids srcs = true) :
    fetchScope e fuel false sm mkids srcs =
      .ok (.scope { sm with tmpl := 0 } (treeMultiResult e mkids srcs), treeMultiUsed mkids srcs) :=
  Phil.fetch_tree_multi e fuel sm mkids srcs hf hfuel hsd hsrc hkeys hnc

/-- **A clash of kinds at any depth is an error** — also where the master definition is
    `.multiple`. -/
theorem tree_multi_clash_fails (e : Envs) (fuel : Nat) (sm : Meta) (mkids srcs : List Obj)
    (hf : TreeMultiMaster mkids) (hfuel : depthL mkids + 1 ≤ fuel) (hsd : sm.disabled = false)
    (hsrc : SrcTree srcs) (hkeys : KeysDefinedTree e mkids srcs) (hnc : noClash mkids srcs = false) :
    fetchScope e fuel false sm mkids srcs = .error (.runtime "incompatible" none) :=
  Phil.fetch_tree_multi_clash e fuel sm mkids srcs hf hfuel hsd hsrc hkeys hnc

/-- **`master.fetch(sources)`** on parsed roots: the fuel `fetchRoot` computes is adequate. -/
theorem fetchRoot_tree_multi (e : Envs) (master : List Obj) (ss : List (List Obj))
    (hf : TreeMultiMaster master) (hd : depthL master ≤ 1000) (hsrc : SrcTree ss.flatten)
    (hkeys : KeysDefinedTree e master ss.flatten) :
    fetchRoot e false master ss =
      if noClash master ss.flatten then
        .ok (.scope { name := [], id := some 0 } (treeMultiResult e master ss.flatten),
             treeMultiUsed master ss.flatten)
      else .error (.runtime "incompatible" none) :=
  Phil.fetchRoot_tree_multi e master ss hf hd hsrc hkeys

/-- the specification spelled out: a `.multiple` definition … -/
theorem tmBlock_multiple (e : Envs) (mm : Meta) (mws : List Word) (srcs : List Obj)
    (h : isMultiple (.defn mm mws) = true) :
    tmBlock e (.defn mm mws) srcs =
      multiBlock (.defn mm mws) (keyOf e 0 (.defn mm mws) (.defn mm mws))
        ((defsNamed mm.name srcs).map (fun d =>
          (Obj.defn { mm with tmpl := 0 } d.srcWords,
           keyOf e 0 (.defn mm mws) (Obj.defn { mm with tmpl := 0 } d.srcWords)))) := by
  rw [tmBlock]; simp only [h, if_true]; rfl

/-- … a non-multiple definition … -/
theorem tmBlock_plain (e : Envs) (mm : Meta) (mws : List Word) (srcs : List Obj)
    (h : isMultiple (.defn mm mws) = false) :
    tmBlock e (.defn mm mws) srcs = [lastWins (.defn mm mws) (defsNamed mm.name srcs)] := by
  rw [tmBlock]; simp only [h, Bool.false_eq_true, if_false]

/-- … a scope … -/
theorem tmBlock_scope (e : Envs) (mm : Meta) (kids srcs : List Obj) :
    tmBlock e (.scope mm kids) srcs =
      [.scope { mm with tmpl := 0 } (treeMultiResult e kids (srcStep srcs mm.name))] := by
  rw [tmBlock]

/-- … and the whole result: the blocks in master order. -/
theorem treeMultiResult_eq (e : Envs) (mkids srcs : List Obj) :
    treeMultiResult e mkids srcs = mkids.flatMap (fun mo => tmBlock e mo srcs) :=
  treeMultiResult_eq_flatMap e srcs mkids

/-- for a master without `.multiple` the specification is that of Props/C06Tree.lean -/
theorem treeMultiResult_of_treeMaster (e : Envs) (mkids srcs : List Obj) (hf : TreeMaster mkids) :
    treeMultiResult e mkids srcs = treeResult mkids srcs :=
  treeMultiResult_eq_treeResult_tm e mkids srcs hf.kids

/-- the keys of definitions do not depend on the fuel: `KeysDefined` and the keys of the flat rule
    (`keyOf e fuel`, Props/C05Multi.lean) are those used here (`keyOf e 0`) -/
theorem key_fuel_independent (e : Envs) (fuel : Nat) (mm : Meta) (mws : List Word) (d : Obj) :
    keyOf e fuel (.defn mm mws) (candOfSrc (.defn mm mws) d) =
        keyOf e 0 (.defn mm mws) (candOfSrc (.defn mm mws) d) ∧
      keyOf e fuel (.defn mm mws) (.defn mm mws) = keyOf e 0 (.defn mm mws) (.defn mm mws) :=
  ⟨keyOf_cand_fuel_tm e fuel mm mws d, keyOf_self_fuel_tm e fuel mm mws⟩

/-! ### what stands at the path of a master definition -/

/-- **The list rule at every depth.**  Whenever the fetch succeeds: where the master has the
    `.multiple` definition `.defn mm mws` at the path `ps.n`, the enabled objects called `n` that the
    result has at that path are the template followed by the survivors of the list rule
    (`multiBlock`) over the candidates built, in document order, from the enabled source definitions
    called `n` reached by that path (`srcAt`: all sources, all spellings, enabled scopes only):
    candidates whose key is the master's are dropped, of candidates with equal keys the LAST stays,
    the survivors are ordered by their last occurrence. -/
theorem multiple_list_rule_at_depth (e : Envs) (fuel : Nat) (sm : Meta) (mkids srcs : List Obj)
    (hf : TreeMultiMaster mkids) (hfuel : depthL mkids + 1 ≤ fuel) (hsd : sm.disabled = false)
    (hsrc : SrcTree srcs) (hkeys : KeysDefinedTree e mkids srcs) (ro : Obj) (used : List Nat)
    (h : fetchScope e fuel false sm mkids srcs = .ok (ro, used))
    (ps : List Str) (n : Str) (mm : Meta) (mws : List Word)
    (hm : defAt mkids ps n = some (.defn mm mws)) (hmult : isMultiple (.defn mm mws) = true) :
    activeNamed n (srcAt ro.children ps) =
      multiBlock (.defn mm mws) (keyOf e 0 (.defn mm mws) (.defn mm mws))
        (candsOf e 0 (.defn mm mws) (defsNamed n (srcAt srcs ps))) := by
  obtain ⟨_, hro, _⟩ := fetch_tree_multi_ok e fuel sm mkids srcs hf hfuel hsd hsrc hkeys ro used h
  subst hro
  exact multiple_list_rule_at_depth_tm e mkids srcs hf ps n mm mws hm hmult

/-- the instances alone: the `dedupKeepLast` of the candidates at the path `ps.n` whose key differs
    from the master's, in the order of their last occurrence -/
theorem multiple_instances_at_depth (e : Envs) (fuel : Nat) (sm : Meta) (mkids srcs : List Obj)
    (hf : TreeMultiMaster mkids) (hfuel : depthL mkids + 1 ≤ fuel) (hsd : sm.disabled = false)
    (hsrc : SrcTree srcs) (hkeys : KeysDefinedTree e mkids srcs) (ro : Obj) (used : List Nat)
    (h : fetchScope e fuel false sm mkids srcs = .ok (ro, used))
    (ps : List Str) (n : Str) (mm : Meta) (mws : List Word)
    (hm : defAt mkids ps n = some (.defn mm mws)) (hmult : isMultiple (.defn mm mws) = true) :
    (activeNamed n (srcAt ro.children ps)).tail =
      (dedupKeepLast ((candsOf e 0 (.defn mm mws) (defsNamed n (srcAt srcs ps))).filter
        (fun y => y.2 != keyOf e 0 (.defn mm mws) (.defn mm mws)))).map (·.1) := by
  rw [multiple_list_rule_at_depth e fuel sm mkids srcs hf hfuel hsd hsrc hkeys ro used h ps n mm mws hm hmult]
  rfl

/-- **… in terms of `all_definitions(sources)`** (sources with dot-free names, as parsed): the
    candidates are built from the entries of `all_definitions(sources)` whose dotted path is `ps.n`,
    in order. -/
theorem multiple_list_rule_all_definitions (e : Envs) (fuel : Nat) (sm : Meta) (mkids srcs : List Obj)
    (hf : TreeMultiMaster mkids) (hfuel : depthL mkids + 1 ≤ fuel) (hsd : sm.disabled = false)
    (hsrc : SrcTree srcs) (hkeys : KeysDefinedTree e mkids srcs)
    (hdot : ∀ x, ActiveIn x srcs → '.' ∉ x.name) (ro : Obj) (used : List Nat)
    (h : fetchScope e fuel false sm mkids srcs = .ok (ro, used))
    (ps : List Str) (n : Str) (hinc : n ≠ "include".toList) (mm : Meta) (mws : List Word)
    (hm : defAt mkids ps n = some (.defn mm mws)) (hmult : isMultiple (.defn mm mws) = true) :
    activeNamed n (srcAt ro.children ps) =
      multiBlock (.defn mm mws) (keyOf e 0 (.defn mm mws) (.defn mm mws))
        (candsOf e 0 (.defn mm mws)
          (((allDefinitions srcs).filter (fun x => x.1 == dottedPath ps n)).map
            (fun x => Obj.defn x.2.1 x.2.2))) := by
  obtain ⟨_, hro, _⟩ := fetch_tree_multi_ok e fuel sm mkids srcs hf hfuel hsd hsrc hkeys ro used h
  subst hro
  exact multiple_list_rule_allDefs_tm e mkids srcs hf hdot ps n hinc mm mws hm hmult

/-- **Last value wins at every depth** for the NON-multiple definitions of such a master: the result
    has exactly one enabled object called `n` at the path `ps` — the master definition with the
    (resolved) words of the LAST enabled source definition reached by that path, or the master
    definition itself if there is none. -/
theorem last_value_wins_at_depth_multi (e : Envs) (fuel : Nat) (sm : Meta) (mkids srcs : List Obj)
    (hf : TreeMultiMaster mkids) (hfuel : depthL mkids + 1 ≤ fuel) (hsd : sm.disabled = false)
    (hsrc : SrcTree srcs) (hkeys : KeysDefinedTree e mkids srcs) (ro : Obj) (used : List Nat)
    (h : fetchScope e fuel false sm mkids srcs = .ok (ro, used))
    (ps : List Str) (n : Str) (mm : Meta) (mws : List Word)
    (hm : defAt mkids ps n = some (.defn mm mws)) (hmult : isMultiple (.defn mm mws) = false) :
    activeNamed n (srcAt ro.children ps) =
      [match lastDef (srcAt srcs ps) n with
       | some d => .defn { mm with tmpl := 0 } d.srcWords
       | none => .defn mm mws] := by
  obtain ⟨_, hro, _⟩ := fetch_tree_multi_ok e fuel sm mkids srcs hf hfuel hsd hsrc hkeys ro used h
  subst hro
  exact last_value_wins_at_depth_tm e mkids srcs hf ps n mm mws hm hmult

/-- the block of any master definition at any depth, in one statement -/
theorem block_at_path (e : Envs) (mkids srcs : List Obj) (hf : TreeMultiMaster mkids)
    (ps : List Str) (n : Str) (mm : Meta) (mws : List Word)
    (hm : defAt mkids ps n = some (.defn mm mws)) :
    activeNamed n (srcAt (treeMultiResult e mkids srcs) ps) = tmBlock e (.defn mm mws) (srcAt srcs ps) :=
  block_at_path_tm e ps mkids srcs n mm mws hf hm

/-- **`master.fetch(sources)`** on parsed roots, side conditions in executable form
    (`masterCheck_tm`, `srcCheck`, `keysDefinedTreeB`) -/
theorem fetchRoot_multiple_list_rule_at_depth (e : Envs) (master : List Obj) (ss : List (List Obj))
    (hm : masterCheck_tm master = true) (hs : srcCheck ss.flatten = true)
    (hk : keysDefinedTreeB e master ss.flatten = true)
    (ro : Obj) (used : List Nat)
    (h : fetchRoot e false master ss = .ok (ro, used))
    (ps : List Str) (n : Str) (mm : Meta) (mws : List Word)
    (hdef : defAt master ps n = some (.defn mm mws)) (hmult : isMultiple (.defn mm mws) = true) :
    activeNamed n (srcAt ro.children ps) =
      multiBlock (.defn mm mws) (keyOf e 0 (.defn mm mws) (.defn mm mws))
        (candsOf e 0 (.defn mm mws) (defsNamed n (srcAt ss.flatten ps))) :=
  have hM := masterCheck_tm_sound master hm
  have hS := srcCheck_sound ss.flatten hs
  multiple_list_rule_at_depth e _ _ master ss.flatten hM.tree (fetchRoot_fuel_tree master hM.depth) rfl
    hS.tree (keysDefinedTreeB_sound e master _ hk) ro used h ps n mm mws hdef hmult

/-! ### non-vacuity: a nested instance through the parser -/

def tmObjs (t : String) : List Obj :=
  match parseObjs t.toList with
  | .ok m => m
  | .error _ => []

/-- `eval` knows the digits and `4/2` (= 2.0), `"%.10g"` the digits -/
def envTm : Envs :=
  { eval := fun s =>
      if s == "4/2".toList then some (.num (.flt 2 1))
      else match s with
        | [c] => if c.isDigit then some (.num (.int (c.toNat - 48))) else none
        | _ => none,
    fmt := fun n => match n with
      | .int i => if 0 ≤ i && i ≤ 9 then some [Char.ofNat (48 + i.toNat)] else none
      | _ => none }

/-- master: `a = 1 (int) ; s { d = 4/2 (int, multiple) ; b = x ;
    t { f = yes (bool, multiple, mandatory) ; w = p q (multiple) } }` -/
def tmM : List Obj := tmObjs "a = 1\n.type=int\ns {\n  d = 4/2\n  .type=int\n  .multiple=True\n  b = x\n  t {\n    f = yes\n    .type=bool\n    .multiple=True\n    .optional=False\n    w = p q\n    .multiple=True\n  }\n}\n"

/-- sources: dotted and braced spellings; `s.d`: 3, 2 (= the default `4/2`), 5, 3 again, and once
    disabled; `s.t.f`: no, True (= the default `yes`), no again; `s.t.w`: `p q` (the default), r -/
def tmS : List Obj :=
  tmObjs "s.d = 3\ns {\n  d = 2\n  d = 5\n}\ns.t.f = no\ns.d = 3\ns.t {\n  f = True\n  w = p q\n  w = r\n}\ns.t.f = no\na = 7\nz = 1\ns.t.e = 2\n!s.d = 9\n"

/-- the (path, template flag, words) triples of the definitions of a tree -/
def instOf (kids : List Obj) : List (String × Int × List String) :=
  (allDefinitions kids).map (fun x => (String.ofList x.1, x.2.1.tmpl, x.2.2.map (fun w => String.ofList w.value)))

/-- the parsed instance satisfies every hypothesis -/
example : (tmM.length == 2 && tmS.length == 10 && masterCheck_tm tmM && srcCheck tmS &&
    keysDefinedTreeB envTm tmM tmS && noClash tmM tmS && depthL tmM == 2 &&
    decide (((allDefinitions tmS).map (fun x => x.2.1.id)).Nodup) &&
    (allDefinitions tmS).all (fun x => x.2.1.id.isSome)) = true := by
  decide +kernel

/-- the specification on the instance (the real library returns exactly this): `s.d`: template `-1`,
    then 5 and 3 (3 moved behind 5 by its repetition; 2 is the default `4/2`); `s.t.f` (mandatory):
    template `0`, then `no` once (`True` is the default `yes`); `s.t.w`: template `-1`, then `r` -/
example : instOf (treeMultiResult envTm tmM tmS) =
    [("a", 0, ["7"]), ("s.d", -1, ["4/2"]), ("s.d", 0, ["5"]), ("s.d", 0, ["3"]), ("s.b", 0, ["x"]),
     ("s.t.f", 0, ["yes"]), ("s.t.f", 0, ["no"]), ("s.t.w", -1, ["p", "q"]), ("s.t.w", 0, ["r"])] := by
  decide +kernel

/-- the candidates of `s.d` in document order, its master key and the surviving keys -/
example :
    ((defsNamed "d".toList (srcAt tmS ["s".toList])).map (fun o => o.words.map (fun w => String.ofList w.value)),
     (defAt tmM ["s".toList] "d".toList).map (fun mo => String.ofList (keyOf envTm 0 mo mo)),
     (defAt tmM ["s".toList] "d".toList).map (fun mo =>
        (survivorsOf_tm envTm mo (srcAt tmS ["s".toList])).map (fun x => String.ofList x.2))) =
    ([["3"], ["2"], ["5"], ["3"]], some "d = 2\n", some ["d = 5\n", "d = 3\n"]) := by
  decide +kernel

/-- the model agrees with the specification on the instance (result, consumed ids, reported list) -/
example :
    (match fetchRoot envTm false tmM [tmS] with
     | .ok (ro, used) => some (instOf ro.children, used == treeMultiUsed tmM tmS,
         (C06.unusedOf tmS used).map (fun x => String.ofList x.1))
     | .error _ => none) =
      some ([("a", 0, ["7"]), ("s.d", -1, ["4/2"]), ("s.d", 0, ["5"]), ("s.d", 0, ["3"]), ("s.b", 0, ["x"]),
             ("s.t.f", 0, ["yes"]), ("s.t.f", 0, ["no"]), ("s.t.w", -1, ["p", "q"]), ("s.t.w", 0, ["r"])],
            true, ["z", "s.t.e"]) := by
  decide +kernel

/-- the theorem applied to the instance: what stands at `s.d` follows from
    `fetchRoot_multiple_list_rule_at_depth` (all its hypotheses are discharged by kernel evaluation) -/
example (ro : Obj) (used : List Nat) (h : fetchRoot envTm false tmM [tmS] = .ok (ro, used)) :
    (activeNamed "d".toList (srcAt ro.children ["s".toList])).map
      (fun o => (o.meta.tmpl, o.words.map (fun w => String.ofList w.value))) =
      [(-1, ["4/2"]), (0, ["5"]), (0, ["3"])] := by
  have hfl : ([tmS] : List (List Obj)).flatten = tmS := by simp
  have hm : ∃ mm mws, defAt tmM ["s".toList] "d".toList = some (.defn mm mws) ∧
      isMultiple (.defn mm mws) = true := by
    have : (match defAt tmM ["s".toList] "d".toList with
            | some (.defn mm mws) => isMultiple (.defn mm mws)
            | _ => false) = true := by decide +kernel
    split at this
    · rename_i mm mws heq
      exact ⟨mm, mws, heq, this⟩
    · cases this
  obtain ⟨mm, mws, hm, hmult⟩ := hm
  have := fetchRoot_multiple_list_rule_at_depth envTm tmM [tmS] (by decide +kernel)
    (by rw [hfl]; decide +kernel) (by rw [hfl]; decide +kernel) ro used h _ _ mm mws hm hmult
  rw [hfl] at this
  rw [this]
  have hb : (match defAt tmM ["s".toList] "d".toList with
      | some mo => (multiBlock mo (keyOf envTm 0 mo mo)
          (candsOf envTm 0 mo (defsNamed "d".toList (srcAt tmS ["s".toList])))).map
            (fun o => (o.meta.tmpl, o.words.map (fun w => String.ofList w.value)))
      | none => []) = [(-1, ["4/2"]), (0, ["5"]), (0, ["3"])] := by decide +kernel
  rw [hm] at hb
  exact hb

/-- a source scope where the master has a `.multiple` definition (`s.d`): `noClash` is false and
    the fetch fails -/
example : (noClash tmM (tmObjs "s.d = 3\ns.d.x = 1\n"),
    errOf (fetchRoot envTm false tmM [tmObjs "s.d = 3\ns.d.x = 1\n"])) =
      (false, some (.runtime "incompatible" none)) := by
  decide +kernel

/-- a source definition where the master has a scope -/
example : (noClash tmM (tmObjs "s.t = 1\n"),
    errOf (fetchRoot envTm false tmM [tmObjs "s.t = 1\n"])) =
      (false, some (.runtime "incompatible" none)) := by
  decide +kernel

end Phil.C05

namespace Phil.C04
open Phil

/-- **C04 for nested masters with `.multiple` definitions: the result has the master's parameter
    structure.**  Whenever the fetch succeeds, the skeleton of the result (`shapeObj`: words and
    template marks erased; kinds, names, attributes, ids, order and nesting kept) is `tmShape`: the
    master's skeleton in which every non-multiple definition and every scope stands exactly once
    and a `.multiple` definition stands `1 +` (number of survivors of the list rule) times, in
    place. -/
theorem tree_multi_result_shape (e : Envs) (fuel : Nat) (sm : Meta) (mkids srcs : List Obj)
    (hf : TreeMultiMaster mkids) (hfuel : depthL mkids + 1 ≤ fuel) (hsd : sm.disabled = false)
    (hsrc : SrcTree srcs) (hkeys : KeysDefinedTree e mkids srcs) (ro : Obj) (used : List Nat)
    (h : fetchScope e fuel false sm mkids srcs = .ok (ro, used)) :
    shapeObj ro = .scope { sm with tmpl := 0 } (tmShape e mkids srcs) := by
  obtain ⟨_, hro, _⟩ := fetch_tree_multi_ok e fuel sm mkids srcs hf hfuel hsd hsrc hkeys ro used h
  subst hro
  rw [shapeObj, shapeList_treeMultiResult_tm]

/-- `tmShape` spelled out for a definition … -/
theorem tmShapeObj_defn (e : Envs) (mm : Meta) (mws : List Word) (srcs : List Obj) :
    tmShapeObj e (.defn mm mws) srcs =
      List.replicate
        (if isMultiple (.defn mm mws) then (survivorsOf_tm e (.defn mm mws) srcs).length + 1 else 1)
        (shapeObj (.defn mm mws)) := by
  rw [tmShapeObj]

/-- … and for a scope -/
theorem tmShapeObj_scope (e : Envs) (mm : Meta) (kids srcs : List Obj) :
    tmShapeObj e (.scope mm kids) srcs =
      [.scope { mm with tmpl := 0 } (tmShape e kids (srcStep srcs mm.name))] := by
  rw [tmShapeObj]

/-- the result declares exactly the master's parameter paths (a `.multiple` one possibly several
    times): no path is lost, none is invented -/
theorem tree_multi_result_paths (e : Envs) (fuel : Nat) (sm : Meta) (mkids srcs : List Obj)
    (hf : TreeMultiMaster mkids) (hfuel : depthL mkids + 1 ≤ fuel) (hsd : sm.disabled = false)
    (hsrc : SrcTree srcs) (hkeys : KeysDefinedTree e mkids srcs) (ro : Obj) (used : List Nat)
    (h : fetchScope e fuel false sm mkids srcs = .ok (ro, used)) (q : Str) :
    q ∈ defPaths ro.children [] ↔ q ∈ defPaths mkids [] := by
  obtain ⟨_, hro, _⟩ := fetch_tree_multi_ok e fuel sm mkids srcs hf hfuel hsd hsrc hkeys ro used h
  subst hro
  exact mem_defPaths_treeMultiResult_tm e mkids srcs [] q

example : ((defPaths C05.tmM []).map String.ofList,
    (defPaths (treeMultiResult C05.envTm C05.tmM C05.tmS) []).map String.ofList) =
    (["a", "s.d", "s.b", "s.t.f", "s.t.w"],
     ["a", "s.d", "s.d", "s.d", "s.b", "s.t.f", "s.t.f", "s.t.w", "s.t.w"]) := by
  decide +kernel

end Phil.C04

namespace Phil.C06
open Phil

/-- **Consumed ids, exactly.**  Whenever the fetch succeeds, `i` is consumed iff it is the id of an
    entry of `all_definitions(sources)` — an enabled definition below enabled scopes only, at any
    depth, in any spelling — whose dotted path is the path of a master definition, `.multiple` or
    not (instances equal to the default or superseded by a later equal one are consumed too). -/
theorem tree_multi_used_exact (e : Envs) (fuel : Nat) (sm : Meta) (mkids srcs : List Obj)
    (hf : TreeMultiMaster mkids) (hfuel : depthL mkids + 1 ≤ fuel) (hsd : sm.disabled = false)
    (hinc : NoIncludeTree mkids) (hsrc : SrcTree srcs) (hs : SrcPlain srcs)
    (hkeys : KeysDefinedTree e mkids srcs) (ro : Obj) (used : List Nat)
    (h : fetchScope e fuel false sm mkids srcs = .ok (ro, used)) (i : Nat) :
    i ∈ used ↔ ∃ x ∈ allDefinitions srcs, x.2.1.id = some i ∧ x.1 ∈ defPaths mkids [] := by
  obtain ⟨_, _, hu⟩ := fetch_tree_multi_ok e fuel sm mkids srcs hf hfuel hsd hsrc hkeys ro used h
  subst hu
  exact tree_multi_used_exact_tm mkids srcs hf hinc hs i

/-- **The reported list, exactly.**  Whenever the fetch succeeds and the entries of
    `all_definitions(sources)` carry pairwise distinct ids, the reported list is the list of the
    entries of `all_definitions(sources)` (in order) whose full path is not the path of an active
    master parameter. -/
theorem tree_multi_unused_exact (e : Envs) (fuel : Nat) (sm : Meta) (mkids srcs : List Obj)
    (hf : TreeMultiMaster mkids) (hfuel : depthL mkids + 1 ≤ fuel) (hsd : sm.disabled = false)
    (hinc : NoIncludeTree mkids) (hsrc : SrcTree srcs) (hs : SrcPlain srcs)
    (hkeys : KeysDefinedTree e mkids srcs)
    (hsome : ∀ x ∈ allDefinitions srcs, x.2.1.id ≠ none)
    (hids : ((allDefinitions srcs).map (fun x => x.2.1.id)).Nodup)
    (ro : Obj) (used : List Nat)
    (h : fetchScope e fuel false sm mkids srcs = .ok (ro, used)) :
    unusedOf srcs used =
      (allDefinitions srcs).filter (fun x => !((allDefinitions mkids).map (·.1)).contains x.1) := by
  rw [← defPaths_eq_allDefinitions_tm mkids hf hinc]
  exact tree_multi_unused_exact_tm e fuel sm mkids srcs hf hfuel hsd hinc hsrc hs hkeys hsome hids ro used h

/-- membership form: an entry of `all_definitions(sources)` is reported iff its path names no active
    master parameter -/
theorem reported_iff_tree_multi (e : Envs) (fuel : Nat) (sm : Meta) (mkids srcs : List Obj)
    (hf : TreeMultiMaster mkids) (hfuel : depthL mkids + 1 ≤ fuel) (hsd : sm.disabled = false)
    (hinc : NoIncludeTree mkids) (hsrc : SrcTree srcs) (hs : SrcPlain srcs)
    (hkeys : KeysDefinedTree e mkids srcs)
    (hsome : ∀ x ∈ allDefinitions srcs, x.2.1.id ≠ none)
    (hids : ((allDefinitions srcs).map (fun x => x.2.1.id)).Nodup)
    (ro : Obj) (used : List Nat)
    (h : fetchScope e fuel false sm mkids srcs = .ok (ro, used))
    (x : Str × Meta × List Word) :
    x ∈ unusedOf srcs used ↔
      x ∈ allDefinitions srcs ∧ x.1 ∉ (allDefinitions mkids).map (·.1) := by
  rw [tree_multi_unused_exact e fuel sm mkids srcs hf hfuel hsd hinc hsrc hs hkeys hsome hids ro used h,
    List.mem_filter]
  simp

/-- **`master.fetch(sources, track_unused_definitions=True)`** on parsed roots, with the side
    conditions in their executable form. -/
theorem fetchRoot_tree_multi_unused_exact (e : Envs) (master : List Obj) (ss : List (List Obj))
    (hm : masterCheck_tm master = true) (hs : srcCheck ss.flatten = true)
    (hk : keysDefinedTreeB e master ss.flatten = true)
    (hsome : ∀ x ∈ allDefinitions ss.flatten, x.2.1.id ≠ none)
    (hids : ((allDefinitions ss.flatten).map (fun x => x.2.1.id)).Nodup)
    (ro : Obj) (used : List Nat)
    (h : fetchRoot e false master ss = .ok (ro, used)) :
    unusedOf ss.flatten used =
      (allDefinitions ss.flatten).filter
        (fun x => !((allDefinitions master).map (·.1)).contains x.1) := by
  have hM := masterCheck_tm_sound master hm
  have hS := srcCheck_sound ss.flatten hs
  exact tree_multi_unused_exact e _ _ master ss.flatten hM.tree (fetchRoot_fuel_tree master hM.depth) rfl
    hM.noInclude hS.tree hS.plain (keysDefinedTreeB_sound e master _ hk) hsome hids ro used h

/-- the theorem applied to the instance of `Phil.C05`: the reported list follows from
    `fetchRoot_tree_multi_unused_exact` (hypotheses discharged by kernel evaluation) -/
example (ro : Obj) (used : List Nat) (h : fetchRoot C05.envTm false C05.tmM [C05.tmS] = .ok (ro, used)) :
    (unusedOf C05.tmS used).map (fun x => String.ofList x.1) = ["z", "s.t.e"] := by
  have hfl : ([C05.tmS] : List (List Obj)).flatten = C05.tmS := by simp
  have := fetchRoot_tree_multi_unused_exact C05.envTm C05.tmM [C05.tmS] (by decide +kernel)
    (by rw [hfl]; decide +kernel) (by rw [hfl]; decide +kernel)
    (by
      rw [hfl]
      intro x hx
      have hall : ((allDefinitions C05.tmS).all (fun x => x.2.1.id.isSome)) = true := by decide +kernel
      have := List.all_eq_true.mp hall x hx
      intro hn; rw [hn] at this; cases this)
    (by rw [hfl]; decide +kernel)
    ro used h
  rw [hfl] at this
  rw [this]
  decide +kernel

end Phil.C06

namespace Phil.C07
open Phil

/-- **C07 for nested masters with `.multiple` definitions: fetching is idempotent.**  Whenever the
    fetch succeeds, fetching its result again — as the only source — succeeds and returns the same
    result (master definitions not template-marked, no recorded variable resolutions, variable-free
    words: `RefetchTree`, `SrcNoDollar`).  No stability hypothesis on the keys is needed: the
    candidate built from a surviving instance is that instance, the one built from the template is
    the master definition, whose key is the master's — it is dropped again. -/
theorem tree_multi_refetch_idempotent (e : Envs) (fuel : Nat) (sm : Meta) (mkids srcs : List Obj)
    (hf : TreeMultiMaster mkids) (hfuel : depthL mkids + 1 ≤ fuel) (hsd : sm.disabled = false)
    (hr : RefetchTree mkids) (hsrc : SrcTree srcs) (hdol : SrcNoDollar srcs)
    (hkeys : KeysDefinedTree e mkids srcs) (ro : Obj) (used : List Nat)
    (h : fetchScope e fuel false sm mkids srcs = .ok (ro, used)) :
    ∃ used', fetchScope e fuel false sm mkids ro.children = .ok (ro, used') := by
  obtain ⟨_, hro, _⟩ := fetch_tree_multi_ok e fuel sm mkids srcs hf hfuel hsd hsrc hkeys ro used h
  subst hro
  exact ⟨_, tree_multi_refetch_idempotent_tm e fuel sm mkids srcs hf hfuel hsd hr hdol hkeys⟩

/-- the specification is idempotent -/
theorem treeMultiResult_idempotent (e : Envs) (mkids srcs : List Obj) (hf : TreeMultiMaster mkids)
    (hr : RefetchTree mkids) :
    treeMultiResult e mkids (treeMultiResult e mkids srcs) = treeMultiResult e mkids srcs :=
  treeMultiResult_idem_tm e mkids srcs hf hr

/-- the re-fetch needs no further hypotheses: the result never clashes with its master and its keys
    are defined -/
theorem refetch_hypotheses (e : Envs) (mkids srcs : List Obj) (hf : TreeMultiMaster mkids)
    (hr : RefetchTree mkids) (hdol : SrcNoDollar srcs) (hkeys : KeysDefinedTree e mkids srcs) :
    noClash mkids (treeMultiResult e mkids srcs) = true ∧ SrcTree (treeMultiResult e mkids srcs) ∧
      KeysDefinedTree e mkids (treeMultiResult e mkids srcs) :=
  ⟨noClash_treeMultiResult_tm e mkids srcs hf, srcTree_treeMultiResult_tm e mkids srcs hf hr hdol,
    keysDefined_treeMultiResult_tm e mkids srcs hf hr hkeys⟩

/-- **`master.fetch(source=master.fetch(sources))`** on parsed roots, side conditions in executable
    form -/
theorem fetchRoot_tree_multi_idempotent (e : Envs) (master : List Obj) (ss : List (List Obj))
    (hm : masterCheck_tm master = true) (hs : srcCheck ss.flatten = true)
    (hk : keysDefinedTreeB e master ss.flatten = true)
    (ro : Obj) (used : List Nat)
    (h : fetchRoot e false master ss = .ok (ro, used)) :
    ∃ used', fetchRoot e false master [ro.children] = .ok (ro, used') := by
  have hM := masterCheck_tm_sound master hm
  have hS := srcCheck_sound ss.flatten hs
  have hfl : ([ro.children] : List (List Obj)).flatten = ro.children := by simp
  unfold fetchRoot
  rw [hfl]
  exact tree_multi_refetch_idempotent e _ _ master ss.flatten hM.tree (fetchRoot_fuel_tree master hM.depth) rfl
    hM.refetch hS.tree hS.noDollar (keysDefinedTreeB_sound e master _ hk) ro used h

/-- the theorem applied to the instance of `Phil.C05` (hypotheses discharged by kernel evaluation) -/
example (ro : Obj) (used : List Nat) (h : fetchRoot C05.envTm false C05.tmM [C05.tmS] = .ok (ro, used)) :
    ∃ used', fetchRoot C05.envTm false C05.tmM [ro.children] = .ok (ro, used') :=
  fetchRoot_tree_multi_idempotent C05.envTm C05.tmM [C05.tmS] (by decide +kernel) (by decide +kernel)
    (by decide +kernel) ro used h

/-- the instance: the second fetch reproduces the first -/
example :
    (match fetchRoot C05.envTm false C05.tmM [C05.tmS] with
     | .ok (ro, _) =>
       (match fetchRoot C05.envTm false C05.tmM [ro.children] with
        | .ok (ro2, _) => some (C05.instOf ro.children == C05.instOf ro2.children, (C05.instOf ro2.children).length)
        | .error _ => none)
     | .error _ => none) = some (true, 9) := by
  decide +kernel

end Phil.C07
