/-
  C17, the `fetch_diff` clause, abstraction level: the heap-level model `fetchDiffH` (Phil/HeapFetchDiff.lean — what
  `scope.fetch(diff=True)` / `definition.fetch_diff` ALLOCATE, WRITE and SHARE) REFINES the pure model `fetchScope`
  with `diff = true` (Phil/Fetch.lean — WHAT the result is; the model the diff properties are proved about).  Diff twin
  of `C17FetchHeap.fetchH_abs`.  Simulation lemmas: Phil/Proofs/HeapFetchDiffAbs.lean (`fetchDiffH_sim`, via
  `fetchScope_succ_diff` naming the pure loop bodies in diff mode; the non-diff recursion for the master key of a
  `.multiple` scope is discharged by `fetchH_sim`).

  * `fetchDiffH_abs`      — master scope cell `.scope sm mk sp`, children denote `mobjs`, source objects denote `cobjs`:
                             whenever `fetchDiffH` returns `(s', r)`, `fetchScope e fuel true sm mobjs cobjs` returns and
                             `r` denotes its result in the new heap;
  * `fetchDiffH_abs_eq`   — the executable abstraction of the result cell, whenever it answers, is the pure result;
  * `fetchDiffRootH_abs`  — `master.fetch_diff(sources=…)` of parsed documents refines `fetchRoot e true` (no
                             hypothesis beyond "the call returned").

  Input class: every heap without dangling child / parent reference (`closedB`; every parsed document), every master
  scope in it whose children denote trees, every list of source objects that denote trees, every fuel, outcome `ok`.
-/
import Phil.Proofs.HeapFetchDiffAbs
import Phil.Props.C17FetchDiffHeap
namespace Phil.C17FetchDiffAbs
open Phil Phil.Heap Phil.C17FetchHeap Phil.C17FetchDiffHeap

/-- **The heap-level diff fetch refines the pure model.**  Let the master scope `self` be the cell
    `.scope sm mk sp`, let its children denote the trees `mobjs` and the source objects `combined` the trees
    `cobjs`.  Whenever `fetchDiffH` returns `(s', r)`, the pure `fetchScope` in diff mode returns on
    `(sm, mobjs, cobjs)` with the same fuel, and `r` denotes its result in the new heap. -/
theorem fetchDiffH_abs (e : Envs) (fuel self : Nat) (combined : List Nat) (s s' : HS) (r : Nat)
    (sm : Meta) (mk : List Nat) (sp : Option Nat) (mobjs cobjs : List Obj)
    (hc : closedB s.heap = true) (hself : self < s.heap.length)
    (hcell : s.heap[self]? = some (.scope sm mk sp))
    (hm : Rel2 (Abs s.heap) mk mobjs) (hs : Rel2 (Abs s.heap) combined cobjs)
    (hf : fetchDiffH e fuel self combined s = .ok (s', r)) :
    ∃ ro used, fetchScope e fuel true sm mobjs cobjs = .ok (ro, used) ∧ Abs s'.heap r ro :=
  fetchDiffH_sim e s.heap.length fuel self combined s s' r sm mk sp mobjs cobjs (Nat.le_refl _)
    (closedB_sound hc).below hself hcell hm hs hf

/-- `abs` form: the executable abstraction of the result, whenever it answers, is the pure result -/
theorem fetchDiffH_abs_eq (e : Envs) (fuel self : Nat) (combined : List Nat) (s s' : HS) (r : Nat)
    (sm : Meta) (mk : List Nat) (sp : Option Nat) (mobjs cobjs : List Obj)
    (hc : closedB s.heap = true) (hself : self < s.heap.length)
    (hcell : s.heap[self]? = some (.scope sm mk sp))
    (hm : Rel2 (Abs s.heap) mk mobjs) (hs : Rel2 (Abs s.heap) combined cobjs)
    (hf : fetchDiffH e fuel self combined s = .ok (s', r)) (o : Obj) (ho : abs s'.heap r = some o) :
    (fetchScope e fuel true sm mobjs cobjs).map (·.1) = .ok o := by
  obtain ⟨ro, used, h1, h2⟩ := fetchDiffH_abs e fuel self combined s s' r sm mk sp mobjs cobjs hc hself hcell hm hs hf
  rw [h1, Abs_unique ⟨_, ho⟩ h2]
  rfl

/-- **`master.fetch_diff(sources=…)` of parsed documents refines the pure `fetchRoot` in diff mode**: if the
    heap-level call returns, so does `fetchRoot e true`, and the result object denotes the pure result. -/
theorem fetchDiffRootH_abs (e : Envs) (master : List Obj) (sources : List (List Obj)) (s' : HS) (r : Nat)
    (hf : (fetchDiffRootH e master sources).2 = .ok (s', r)) :
    ∃ ro used, fetchRoot e true master sources = .ok (ro, used) ∧ Abs s'.heap r ro := by
  obtain ⟨hc, hpos⟩ := fetchRootH_start e master sources
  have hb := build_abs (.scope { name := [], id := some 0 } master) none []
  obtain ⟨⟨ext, he⟩, hr⟩ := buildSources_spec sources (build (.scope { name := [], id := some 0 } master) none []).1
  have hroot : Abs (fetchRootH e master sources).1 0 (.scope { name := [], id := some 0 } master) := by
    show Abs (buildSources _ sources).1 0 _
    rw [he]; exact hb.append ext
  rcases Abs_cell hroot with ⟨m, ws, p, _, hx⟩ | ⟨m, ks, p, os, hcell, hx, hks⟩
  · cases hx
  · cases hx
    have hcomb : Rel2 (Abs (fetchRootH e master sources).1)
        ((buildSources (build (.scope { name := [], id := some 0 } master) none []).1 sources).2.flatMap
          (kidsOf (fetchRootH e master sources).1)) sources.flatten := by
      rw [List.flatten_eq_flatMap]
      exact Rel2.flatMap _ _ (fun a b hab => Abs_kidsOf hab) hr
    exact fetchDiffH_abs e _ 0 _ { heap := (fetchRootH e master sources).1, tmp := [] } s' r _ ks p master sources.flatten
      hc hpos hcell hks hcomb hf

/-! ### the hypotheses are satisfiable: the witness run `dRun` of Phil/Props/C17FetchDiffHeap.lean returns
    (`example : dRun.isSome = true` there), so `fetchDiffRootH_abs` applies to it; the pure diff result has exactly the
    children the heap result denotes (`diff_witness_result`): the `s` instance and `b` -/

theorem diff_witness_pure : (match parseObjs dMaster.toList, parseObjs dSource.toList with
    | .ok m, .ok s =>
      (match fetchRoot envNone true m [s] with
       | .ok (ro, _) => some (ro.children.map (fun k => (k.name, k.meta.tmpl)))
       | .error _ => none)
    | _, _ => none) = some [("s".toList, 0), ("b".toList, 0)] := by
  decide +kernel

#print axioms fetchDiffH_abs
#print axioms fetchDiffH_abs_eq
#print axioms fetchDiffRootH_abs
#print axioms diff_witness_pure

end Phil.C17FetchDiffAbs
