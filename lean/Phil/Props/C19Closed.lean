/-
  C19 in closed form — "printing a parsed tree with an expert level k shows precisely the objects whose
  own expert level is unset or at most k and all of whose enclosing scopes are shown (a negative or
  absent k shows everything; a scope that exists only as the dotted prefix of a hidden object is
  hidden with it), and the filtered text parses to exactly that sub-tree; … a prefix is prepended to
  every line and changes nothing else."

  Property theorems only; the lemmas are in Phil/Proofs/ExpertRoundTrip.lean (which builds on
  Phil/Proofs/PrintParseNested.lean — the nested print → parse round trip — and
  Phil/Proofs/ShowLaws.lean — gate = pruning, prefix law).  All statements are unbounded: any depth,
  any number of children, every print width.

  What is covered: trees of ENABLED definitions and scopes with good undotted names, empty scopes and
  dotted chains included (the class `RTTree` of Phil/Props/C01Nested.lean), now carrying ARBITRARY
  attributes (`RTTreeA`), printed at attributes level 0 — where `show_attributes` prints nothing.
  The one attribute (besides `expert_level`) that the printer looks at below level 1 is `deprecated`:
  a definition with a truthy `deprecated` is hidden below attributes level 3.  `RTTreeA` EXCLUDES a
  truthy `deprecated` on definitions (it is not treated as a second gate; see `deprecated_is_hidden`).
  What is not covered: attributes levels > 0 (the attribute lines themselves are not parsed back
  here; their monotonicity is `attrs_level_mono` in Phil/Props/C19.lean), disabled objects, templates.
-/
import Phil.Proofs.ExpertRoundTrip
import Phil.Props.C19
import Phil.Props.C01Nested
set_option linter.unusedSimpArgs false
set_option linter.unusedVariables false
namespace Phil.C19
open Phil

attribute [local instance] C01.objDecEqInst C01.exceptDecEqRT

/-! ### the class of trees, and equality up to ids, positions and attributes

  * `Obj.stripAttrs` / `stripAttrsList`: the tree with every `attrs := []` (everything else kept).
  * `Obj.eraseAttrs` / `eraseAttrsList`: the tree with every `id := none`, `line := none`,
    `attrs := []` and the `line` of every word erased — what is left is the nesting, the names, the
    flags (`disabled`, `merge_names`, `is_template`) and the words with values and quote styles.
    `eraseAttrs x = (stripAttrs x).erase = (x.erase).stripAttrs`.
  * `Obj.noDeprecated`: no definition of the tree has a truthy `deprecated` attribute.
  * `RTTreeA x`: `x` without its attributes is an `RTTree` (Phil/Props/C01Nested.lean), and
    `x.noDeprecated`.  Spelled out in `RTTreeA_defn` / `RTTreeA_scope`. -/

/-- the class of trees of the closed form of C19 -/
def RTTreeA (x : Obj) : Prop := RTNodeA [] x

instance (x : Obj) : Decidable (RTTreeA x) := by unfold RTTreeA; exact inferInstance

theorem RTTreeA_iff (x : Obj) : RTTreeA x ↔ (C01.RTTree x.stripAttrs ∧ x.noDeprecated = true) := Iff.rfl

/-- object data of an enabled object with `is_template = 0`: `merge_names` is `mg`; `primary_id`,
    source line and ATTRIBUTES are arbitrary -/
def AttrMeta (mg : Bool) (m : Meta) : Prop :=
  m = { name := m.name, id := m.id, line := m.line, mergeNames := mg, attrs := m.attrs }

theorem plainMeta_stripAttrs (mg : Bool) (m : Meta) : PlainMetaPP mg m.stripAttrs ↔ AttrMeta mg m := by
  cases m
  simp [PlainMetaPP, AttrMeta, Meta.stripAttrs]

/-- `RTTreeA` for a definition: enabled, not a template, good name, at least one word, good words,
    any attributes except a truthy `deprecated` -/
theorem RTTreeA_defn (m : Meta) (ws : List Word) :
    RTTreeA (.defn m ws) ↔
      (AttrMeta false m ∧ depSet m = false ∧ goodName m.name = true ∧ ws ≠ [] ∧
        ∀ w ∈ ws, goodWord w = true) := by
  rw [RTTreeA_iff, Obj.stripAttrs_defn, C01.RTTree_defn, plainMeta_stripAttrs, noDeprecated_defn_ert]
  simp only [Bool.not_eq_true', stripAttrs_name_ert]
  constructor
  · rintro ⟨⟨h1, h2, h3, h4⟩, h5⟩; exact ⟨h1, h5, h2, h3, h4⟩
  · rintro ⟨h1, h5, h2, h3, h4⟩; exact ⟨⟨h1, h2, h3, h4⟩, h5⟩

theorem RTTreeA_forall (os : List Obj) : (∀ c ∈ os, RTTreeA c) ↔ RTAllA os :=
  (RTAllA_iff_ert os).symm

/-- `RTTreeA` for a scope: enabled, not a template, good name, any attributes; the children are any
    number (also none) of trees of the class — a proper scope — or exactly one tree that continues the
    dotted name (`RTNodeA [m.name] c`: the child has `merge_names`, and so on down the chain) -/
theorem RTTreeA_scope (m : Meta) (os : List Obj) :
    RTTreeA (.scope m os) ↔
      (AttrMeta false m ∧ goodName m.name = true ∧
        ((∀ c ∈ os, RTTreeA c) ∨ ∃ c, os = [c] ∧ RTNodeA [m.name] c)) := by
  rw [RTTreeA_iff, Obj.stripAttrs_scope, C01.RTTree_scope, plainMeta_stripAttrs,
    noDeprecated_scope_ert, RTTreeA_forall]
  simp only [stripAttrs_name_ert]
  have hall : (∀ c ∈ stripAttrsList os, C01.RTTree c) ↔ RTAll (stripAttrsList os) :=
    (RTAll_iff _).symm
  rw [hall]
  constructor
  · rintro ⟨⟨h1, h2, h3⟩, h4⟩
    refine ⟨h1, h2, ?_⟩
    rcases h3 with h3 | ⟨c, hc, h3⟩
    · exact Or.inl ⟨h3, h4⟩
    · cases os with
      | nil => rw [stripAttrsList_nil] at hc; cases hc
      | cons y ys =>
        cases ys with
        | nil =>
          rw [stripAttrsList_cons, stripAttrsList_nil] at hc
          cases hc
          rw [noDeprecatedList_cons_ert, Bool.and_eq_true] at h4
          exact Or.inr ⟨y, rfl, h3, h4.1⟩
        | cons z zs => rw [stripAttrsList_cons, stripAttrsList_cons] at hc; cases hc
  · rintro ⟨h1, h2, h3⟩
    rcases h3 with h3 | ⟨c, rfl, h3⟩
    · exact ⟨⟨h1, h2, Or.inl h3.1⟩, h3.2⟩
    · refine ⟨⟨h1, h2, Or.inr ⟨c.stripAttrs, ?_, h3.1⟩⟩, ?_⟩
      · rw [stripAttrsList_cons, stripAttrsList_nil]
      · rw [noDeprecatedList_cons_ert, h3.2]; rfl

/-- an attribute-free tree of the nested round trip is in the class -/
theorem RTTree.toTreeA {x : Obj} (h : C01.RTTree x) (hs : x.stripAttrs = x) : RTTreeA x := by
  refine ⟨by rw [hs]; exact h, ?_⟩
  have : ∀ y : Obj, y.stripAttrs.noDeprecated = true := by
    intro y
    induction y using Obj.rec
      (motive_2 := fun os => noDeprecatedList (stripAttrsList os) = true) with
    | defn m ws => rw [Obj.stripAttrs_defn, noDeprecated_defn_ert]; rfl
    | scope m os ih => rw [Obj.stripAttrs_scope, noDeprecated_scope_ert]; exact ih
    | nil => rfl
    | cons y ys ihy ihys => rw [stripAttrsList_cons, noDeprecatedList_cons_ert, ihy, ihys]; rfl
  rw [← hs]; exact this x

/-- every tree of the class satisfies `DottedWF` (the second side condition of `show_expert_prune`),
    which is therefore not a hypothesis below -/
theorem RTTreeA.dottedWF {x : Obj} (h : RTTreeA x) : DottedWF x = true :=
  dottedWF_of_RTNode_ert x [] h.1

private theorem allDefnsList_of_forall {P : List Word → Prop} {objs : List Obj}
    (h : ∀ x ∈ objs, x.allDefns P) : allDefnsList P objs := (allDefnsList_iff P objs).mpr h

/-! ### 1. the round trip for trees with attributes (gate off) -/

/-- **Attributes are invisible at level 0.**  With the expert gate off, a forest of the class prints —
    at every width and under every prefix — exactly as the same forest without attributes. -/
theorem print_ignores_attrs (o : ShowOpts) (hl : o.level = 0) (he : o.expert = none) (objs : List Obj)
    (h : ∀ x ∈ objs, RTTreeA x) (pre : Str) :
    asStr o (rootOf objs) pre = asStr o (rootOf (stripAttrsList objs)) pre := by
  rw [asStr_root_pre_ert, asStr_root_pre_ert,
    showObjs_stripAttrs_ert o (by omega) he objs [] pre ((RTTreeA_forall objs).mp h).2]

/-- the printed text: `kidsText` of Phil/Props/C01Nested.lean (it reads names, words and the
    `merge_names` flags only) -/
theorem print_treeA (o : ShowOpts) (hl : o.level = 0) (he : o.expert = none) (objs : List Obj)
    (h : ∀ x ∈ objs, RTTreeA x) :
    asStr o (rootOf objs) = .ok (kidsText o.width objs [] []) := by
  rw [print_ignores_attrs o hl he objs h, ← kidsText_stripAttrs_ert]
  exact C01.print_tree o hl _ ((RTAll_iff _).mp ((RTTreeA_forall objs).mp h).1)

/-- **C01 for trees with attributes.**  At attributes level 0, gate off, EVERY print width: if in
    every definition only the last word may contain a newline character, printing the root scope and
    parsing the text succeeds, and the parser returns the trees WITHOUT their attributes, up to ids and
    source positions: `eraseList objs' = eraseAttrsList objs` — in particular (the form asked for)
    `eraseAttrsList objs' = eraseAttrsList objs`.  Ids as in `C01.print_parse_tree`.
    Proof: `print_ignores_attrs`, then `C01.print_parse_tree` for the attribute-free forest. -/
theorem print_parse_treeA (o : ShowOpts) (hl : o.level = 0) (he : o.expert = none) (objs : List Obj)
    (h : ∀ x ∈ objs, RTTreeA x) (hnl : ∀ x ∈ objs, x.allDefns NlOnlyLast) :
    ∃ text objs', asStr o (rootOf objs) = .ok text ∧ parseObjs text = .ok objs' ∧
      eraseAttrsList objs' = eraseAttrsList objs ∧ eraseList objs' = eraseAttrsList objs ∧
      idsList objs' = (expIdsSeq 1 objs).map some := by
  have hA := (RTTreeA_forall objs).mp h
  obtain ⟨text, objs', h1, h2, h3, h4⟩ := C01.print_parse_tree o hl (stripAttrsList objs)
    ((RTAll_iff _).mp hA.1)
    ((allDefnsList_iff _ _).mp
      ((allDefnsList_stripAttrs_ert NlOnlyLast objs).mpr (allDefnsList_of_forall hnl)))
  refine ⟨text, objs', by rw [print_ignores_attrs o hl he objs h]; exact h1, h2, ?_, ?_, ?_⟩
  · rw [eraseAttrsList_of_eraseList_ert h3, eraseAttrsList_stripAttrsList_ert]
  · rw [h3, eraseList_stripAttrsList_ert]
  · rw [h4, expIdsSeq_stripAttrs_ert]

/-! ### 2. the filtered text parses to exactly the pruned sub-tree -/

/-- pruning stays inside the class -/
theorem prune_preserves_class (k : Int) (objs : List Obj) (h : ∀ x ∈ objs, RTTreeA x) :
    ∀ x ∈ pruneList k objs, RTTreeA x :=
  (RTTreeA_forall _).mpr (pruneList_RTAllA_ert k objs ((RTTreeA_forall objs).mp h))

/-- **C19, expert level `k ≥ 0`.**  For a forest of the class in which every `expert_level` is unset
    or an integer (`ExpertWFs`; `DottedWF` follows from the class), at attributes level 0 and EVERY
    print width `w`: printing with `expert_level = k` succeeds, the text is the text of the pruned
    forest `pruneList k objs` (`prune_spec` below says which objects that is), it parses, and the
    parser returns exactly the pruned forest up to ids, source positions and attributes
    (`eraseList objs' = eraseAttrsList …` says moreover that the re-parsed objects carry no attributes
    at all).  Ids: one per printed item of the pruned forest, from 1. -/
theorem filtered_text_parses_to_subtree (k : Int) (hk : 0 ≤ k) (w : Int) (objs : List Obj)
    (h : ∀ x ∈ objs, RTTreeA x) (hnl : ∀ x ∈ objs, x.allDefns NlOnlyLast)
    (hw : ExpertWFs objs = true) :
    ∃ text objs', asStr { level := 0, width := w, expert := some k } (rootOf objs) = .ok text ∧
      parseObjs text = .ok objs' ∧
      eraseAttrsList objs' = eraseAttrsList (pruneList k objs) ∧
      text = kidsText w (pruneList k objs) [] [] ∧
      eraseList objs' = eraseAttrsList (pruneList k objs) ∧
      idsList objs' = (expIdsSeq 1 (pruneList k objs)).map some := by
  obtain ⟨objs', h1, h2, h3, h4⟩ := filtered_round_trip_ert
    { level := 0, width := w, expert := some k } rfl objs ((RTTreeA_forall objs).mp h)
    (allDefnsList_of_forall hnl) (fun _ _ _ => hw) [] (by intro c hc; cases hc)
  simp only [shownAt_nonneg_ert k hk] at h1 h2 h3 h4
  exact ⟨_, objs', h1, h2, eraseAttrsList_of_eq_ert h3, rfl, h3, h4⟩

/-- the same for any option record with `level = 0` and `expert = some k` -/
theorem filtered_text_parses_to_subtree' (o : ShowOpts) (hl : o.level = 0) (k : Int) (hk : 0 ≤ k)
    (he : o.expert = some k) (objs : List Obj)
    (h : ∀ x ∈ objs, RTTreeA x) (hnl : ∀ x ∈ objs, x.allDefns NlOnlyLast)
    (hw : ExpertWFs objs = true) :
    ∃ text objs', asStr o (rootOf objs) = .ok text ∧ parseObjs text = .ok objs' ∧
      eraseAttrsList objs' = eraseAttrsList (pruneList k objs) := by
  obtain ⟨text, objs', h1, h2, h3, _⟩ := filtered_text_parses_to_subtree k hk o.width objs h hnl hw
  have ho : o = { level := 0, width := o.width, expert := some k } := by
    cases o; simp only at hl he; subst hl; subst he; rfl
  exact ⟨text, objs', by rw [ho]; exact h1, h2, h3⟩

/-! ### 3. which objects survive `prune k`

  `ownShown k m`: the own `expert_level` of the object is not an integer above `k`; under `ExpertWF`
  (`ownShown_iff`): it is unset or an integer `≤ k`.
  `Visible k x` (inductive, Phil/Proofs/ExpertRoundTrip.lean): `x` is shown provided its enclosing
  scopes are —
      a definition or a proper scope (also an empty one): `ownShown k`;
      a scope that is only the dotted prefix of its children: `ownShown k` and some child `Visible k`.
  `x.pruneKids k`: `x` with its children replaced by `pruneList k children`. -/

theorem ownShown_iff (k : Int) (m : Meta) (h : expertOk m = true) :
    ownShown k m ↔ (m.attrs.get "expert_level" = .none ∨
      ∃ e, m.attrs.get "expert_level" = .int e ∧ e ≤ k) :=
  ownShown_wf_ert k m h

theorem visible_defn (k : Int) (m : Meta) (ws : List Word) :
    Visible k (.defn m ws) ↔ ownShown k m :=
  ⟨fun h => by cases h; assumption, Visible.defn m ws⟩

/-- a scope is visible iff its own level allows it and — when it exists only as the dotted prefix of
    its children — at least one child is visible -/
theorem visible_scope (k : Int) (m : Meta) (os : List Obj) :
    Visible k (.scope m os) ↔
      (ownShown k m ∧ (firstMerges os = true → ∃ c ∈ os, Visible k c)) := by
  constructor
  · intro h
    cases h with
    | scope _ _ ho hf => exact ⟨ho, fun hf' => by rw [hf] at hf'; cases hf'⟩
    | dotted _ _ c ho hf hc hv => exact ⟨ho, fun _ => ⟨c, hc, hv⟩⟩
  · rintro ⟨ho, hc⟩
    cases hf : firstMerges os with
    | false => exact Visible.scope m os ho hf
    | true =>
      obtain ⟨c, hc, hv⟩ := hc hf
      exact Visible.dotted m os c ho hf hc hv

/-- **`prune` keeps exactly the visible objects**, each with its children pruned … -/
theorem prune_spec (k : Int) (x x' : Obj) :
    prune k x = some x' ↔ (Visible k x ∧ x' = x.pruneKids k) :=
  prune_eq_some_iff_ert k x x'

theorem prune_spec_hidden (k : Int) (x : Obj) : prune k x = none ↔ ¬ Visible k x :=
  prune_eq_none_iff_ert k x

/-- … a forest is pruned child by child, hidden children dropped, order kept … -/
theorem prune_spec_list (k : Int) (os : List Obj) : pruneList k os = os.filterMap (prune k) :=
  pruneList_eq_filterMap_ert k os

theorem prune_spec_mem (k : Int) (os : List Obj) (x' : Obj) :
    x' ∈ pruneList k os ↔ ∃ x ∈ os, Visible k x ∧ x' = x.pruneKids k :=
  mem_pruneList_iff_ert k os x'

/-- … so **the objects of the pruned forest, each with its chain of enclosing scopes** (`IsPath os
    [x₁, …, xₙ]`: `x₁ ∈ os`, `xᵢ₊₁` a child of `xᵢ`), **are exactly the objects of the original forest
    that are visible and all of whose enclosing scopes are visible.** -/
theorem prune_spec_paths (k : Int) (os p' : List Obj) :
    IsPath (pruneList k os) p' ↔
      ∃ p, IsPath os p ∧ (∀ x ∈ p, Visible k x) ∧ p' = p.map (Obj.pruneKids k) :=
  pruneList_paths_ert k p' os

/-- when no object has a level above `k` nothing is removed -/
theorem prune_all_shown (k : Int) (x : Obj) (h : AllVisible k x = true) : prune k x = some x :=
  prune_of_allVisible_ert k x h

/-! ### 4. a negative or absent level shows everything -/

/-- **C19, `k < 0` or no expert level.**  The whole forest is printed and read back (up to ids,
    source positions and attributes).  `ExpertWF` is not needed: no comparison is made. -/
theorem negative_or_absent_shows_everything (o : ShowOpts) (hl : o.level = 0)
    (he : o.expert = none ∨ ∃ k, o.expert = some k ∧ k < 0) (objs : List Obj)
    (h : ∀ x ∈ objs, RTTreeA x) (hnl : ∀ x ∈ objs, x.allDefns NlOnlyLast) :
    ∃ text objs', asStr o (rootOf objs) = .ok text ∧ parseObjs text = .ok objs' ∧
      eraseAttrsList objs' = eraseAttrsList objs ∧ text = kidsText o.width objs [] [] ∧
      eraseList objs' = eraseAttrsList objs ∧ idsList objs' = (expIdsSeq 1 objs).map some := by
  obtain ⟨objs', h1, h2, h3, h4⟩ := filtered_round_trip_ert o hl objs ((RTTreeA_forall objs).mp h)
    (allDefnsList_of_forall hnl)
    (fun k hk h0 => by
      rcases he with he | ⟨k', he, hk'⟩
      · rw [he] at hk; cases hk
      · rw [he] at hk; cases hk; omega)
    [] (by intro c hc; cases hc)
  have hs : shownAt o.expert objs = objs := by
    rcases he with he | ⟨k, he, hk⟩
    · rw [he]; rfl
    · rw [he]; exact shownAt_neg_ert k hk objs
  rw [hs] at h1 h2 h3 h4
  exact ⟨_, objs', h1, h2, eraseAttrsList_of_eq_ert h3, rfl, h3, h4⟩

/-! ### all expert settings at once -/

/-- `shownAt e objs` (Phil/Proofs/ExpertRoundTrip.lean): `objs` for `e = none` or `some k`, `k < 0`;
    `pruneList k objs` for `some k`, `k ≥ 0`. -/
theorem shownAt_cases (e : Option Int) (objs : List Obj) :
    (e = none ∧ shownAt e objs = objs) ∨ (∃ k, e = some k ∧ k < 0 ∧ shownAt e objs = objs) ∨
    (∃ k, e = some k ∧ 0 ≤ k ∧ shownAt e objs = pruneList k objs) := by
  cases e with
  | none => exact Or.inl ⟨rfl, rfl⟩
  | some k =>
    by_cases hk : 0 ≤ k
    · exact Or.inr (Or.inr ⟨k, rfl, hk, shownAt_nonneg_ert k hk objs⟩)
    · exact Or.inr (Or.inl ⟨k, rfl, by omega, shownAt_neg_ert k (by omega) objs⟩)

/-! ### 5. a prefix is prepended to every line and changes nothing else -/

/-- **C19, prefix (ANY string `p`).**  Let `lines` be what the root scope prints WITHOUT the prefix at
    the width reduced by `|p|`.  Printing under the prefix `p` gives exactly these lines, each with
    `p` prepended (and joined by newlines); stripping `p` from every printed line gives the lines back;
    and the text so obtained parses to the shown objects (`shownAt`: everything, or the pruned forest)
    up to ids, source positions and attributes.  A "line" is one printed line of `show` — a quoted
    word containing a newline character stays inside its line, `p` is not inserted into it. -/
theorem prefix_changes_nothing_else (o : ShowOpts) (hl : o.level = 0) (objs : List Obj)
    (h : ∀ x ∈ objs, RTTreeA x) (hnl : ∀ x ∈ objs, x.allDefns NlOnlyLast)
    (hw : ExpertWFs objs = true) (p : Str) :
    ∃ lines objs',
      showObj { o with width := o.width - p.length } (rootOf objs) [] [] = .ok lines ∧
      asStr o (rootOf objs) p = .ok (unlines (lines.map (p ++ ·))) ∧
      (lines.map (p ++ ·)).map (List.drop p.length) = lines ∧
      parseObjs (unlines lines) = .ok objs' ∧
      eraseAttrsList objs' = eraseAttrsList (shownAt o.expert objs) := by
  obtain ⟨objs', h1, h2, h3, _⟩ := filtered_round_trip_ert { o with width := o.width - p.length } hl
    objs ((RTTreeA_forall objs).mp h) (allDefnsList_of_forall hnl) (fun _ _ _ => hw) []
    (by intro c hc; cases hc)
  have h1' : (showObj { o with width := o.width - p.length } (rootOf objs) [] []).map unlines
      = .ok (kidsText (o.width - p.length) (shownAt o.expert objs) [] []) := h1
  cases hs : showObj { o with width := o.width - p.length } (rootOf objs) [] [] with
  | error e => rw [hs] at h1'; cases h1'
  | ok lines =>
    rw [hs] at h1'
    have ht : unlines lines = kidsText (o.width - p.length) (shownAt o.expert objs) [] [] := by
      exact Except.ok.inj h1'
    refine ⟨lines, objs', rfl, ?_, map_drop_prefix_ert p lines, by rw [ht]; exact h2,
      eraseAttrsList_of_eq_ert h3⟩
    have := as_str_prefix o (rootOf objs) p []
    rw [List.append_nil, hs] at this
    exact this

/-- **C19, prefix of blanks: the prefixed text itself parses.**  When `p` consists of blanks the text
    printed under `p` — at every width, every expert setting — parses WITHOUT stripping anything, to
    the shown objects up to ids, source positions and attributes. -/
theorem blank_prefix_text_parses (o : ShowOpts) (hl : o.level = 0) (objs : List Obj)
    (h : ∀ x ∈ objs, RTTreeA x) (hnl : ∀ x ∈ objs, x.allDefns NlOnlyLast)
    (hw : ExpertWFs objs = true) (p : Str) (hp : ∀ c ∈ p, c = ' ') :
    ∃ text objs', asStr o (rootOf objs) p = .ok text ∧ parseObjs text = .ok objs' ∧
      eraseAttrsList objs' = eraseAttrsList (shownAt o.expert objs) ∧
      text = kidsText o.width (shownAt o.expert objs) [] p ∧
      idsList objs' = (expIdsSeq 1 (shownAt o.expert objs)).map some := by
  obtain ⟨objs', h1, h2, h3, h4⟩ := filtered_round_trip_ert o hl objs ((RTTreeA_forall objs).mp h)
    (allDefnsList_of_forall hnl) (fun _ _ _ => hw) p hp
  exact ⟨_, objs', h1, h2, eraseAttrsList_of_eq_ert h3, rfl, h4⟩

/-! ### 6. non-vacuity: a document with expert levels 0..3 at several depths

  ```
  a = 1              .expert_level = 0
  s                  .expert_level = 1
  {
    x = 2
    y = 3 4          .expert_level = 2
    t                .expert_level = 3
    {
      z = 5          .expert_level = 1   (inside a scope of level 3)
      u = 6          .expert_level = 3
    }
    e { }            (an empty scope)
    e2 { }           .expert_level = 2   (an empty scope with a level)
  }
  c.d.f = 7          .expert_level = 2 on the leaf `f`; `c`, `d` exist only as its dotted prefix
  w = 9              .help = "some help"
  ```
  Replayed on the Python library (`freephil.parse(exSrc).as_str(expert_level=k, print_width=…,
  prefix=…)`, then `freephil.parse` of the result): the texts below at k = 0, 1 (width 79) and at
  k = 2 (width 6, prefix of three blanks) are byte-identical, and the re-parsed trees have the same
  shape (names, nesting, `merge_names`, words) as `pruneList k exForest`; also k = None, -1, 3 give
  the full text.  No disagreement between model and library was found. -/

/-- the source text (what `freephil.parse` is given) -/
def exSrc : Str :=
  ("a = 1\n  .expert_level = 0\ns\n  .expert_level = 1\n{\n  x = 2\n  y = 3 4\n    .expert_level = 2\n" ++
   "  t\n    .expert_level = 3\n  {\n    z = 5\n      .expert_level = 1\n    u = 6\n" ++
   "      .expert_level = 3\n  }\n  e {\n  }\n  e2\n    .expert_level = 2\n  {\n  }\n}\n" ++
   "c.d.f = 7\n  .expert_level = 2\nw = 9\n  .help = \"some help\"\n").toList

private def lvl (i : Int) : Attrs := [("expert_level", .int i)]
private def d1 (n : String) (v : String) (a : Attrs := []) (mg : Bool := false) : Obj :=
  .defn { name := n.toList, attrs := a, mergeNames := mg } [{ value := v.toList }]

/-- the parsed forest (ids and source positions erased) -/
def exForest : List Obj :=
  [ d1 "a" "1" (lvl 0),
    .scope { name := ['s'], attrs := lvl 1 }
      [ d1 "x" "2",
        .defn { name := ['y'], attrs := lvl 2 } [{ value := ['3'] }, { value := ['4'] }],
        .scope { name := ['t'], attrs := lvl 3 } [d1 "z" "5" (lvl 1), d1 "u" "6" (lvl 3)],
        .scope { name := ['e'] } [],
        .scope { name := "e2".toList, attrs := lvl 2 } [] ],
    .scope { name := ['c'] }
      [.scope { name := ['d'], mergeNames := true } [d1 "f" "7" (lvl 2) true]],
    d1 "w" "9" [("help", .str "some help".toList)] ]

/-- `exForest` is what the parser builds from `exSrc` -/
example : (parseObjs exSrc).map eraseList = .ok exForest := by decide +kernel

theorem exForest_ok : ∀ x ∈ exForest, RTTreeA x := by decide +kernel
theorem exForest_nl : ∀ x ∈ exForest, x.allDefns NlOnlyLast := by decide +kernel
theorem exForest_wf : ExpertWFs exForest = true := by decide +kernel

/-- what survives at `k = 1`: `y` (2), `t` (3) with `z` (1 — its enclosing scope is hidden) and `u`,
    `e2` (2) and the whole dotted chain `c.d.f` (leaf level 2) are gone; the empty scope `e` stays -/
example : pruneList 1 exForest =
    [ d1 "a" "1" (lvl 0),
      .scope { name := ['s'], attrs := lvl 1 } [d1 "x" "2", .scope { name := ['e'] } []],
      d1 "w" "9" [("help", .str "some help".toList)] ] := by decide +kernel

/-- at `k = 0` the scope `s` (level 1) is hidden with everything inside -/
example : pruneList 0 exForest = [d1 "a" "1" (lvl 0), d1 "w" "9" [("help", .str "some help".toList)]] := by
  decide +kernel

/-- at `k = 2` only `t` (level 3) is hidden; at `k = 3` nothing is -/
example : pruneList 3 exForest = exForest ∧ (pruneList 2 exForest).length = 4 := by decide +kernel

/-- the printed texts (the Python library prints the same) -/
example : asStr { expert := some 1 } (rootOf exForest)
    = .ok "a = 1\ns {\n  x = 2\n  e {\n  }\n}\nw = 9\n".toList := by decide +kernel
example : asStr { expert := some 0 } (rootOf exForest) = .ok "a = 1\nw = 9\n".toList := by
  decide +kernel
example : asStr { expert := some 2, width := 6 } (rootOf exForest) "   ".toList
    = .ok ("   a = 1\n   s {\n     x = 2\n     y = 3 \\\n         4\n     e {\n     }\n     e2 {\n" ++
           "     }\n   }\n   c.d.f = 7\n   w = 9\n").toList := by decide +kernel
example : asStr { expert := some (-1) } (rootOf exForest)
    = .ok ("a = 1\ns {\n  x = 2\n  y = 3 4\n  t {\n    z = 5\n    u = 6\n  }\n  e {\n  }\n  e2 {\n  }\n}\n" ++
           "c.d.f = 7\nw = 9\n").toList := by decide +kernel

/-- through `filtered_text_parses_to_subtree` at `k = 1`: the filtered text parses to the pruned
    forest -/
example : ∃ objs', parseObjs "a = 1\ns {\n  x = 2\n  e {\n  }\n}\nw = 9\n".toList = .ok objs' ∧
    eraseAttrsList objs' = eraseAttrsList (pruneList 1 exForest) ∧
    idsList objs' = [some 1, some 2, some 3, some 4, some 5] := by
  obtain ⟨text, objs', h1, h2, h3, _, _, h6⟩ :=
    filtered_text_parses_to_subtree 1 (by decide) 79 exForest exForest_ok exForest_nl exForest_wf
  have e : asStr { level := 0, width := 79, expert := some 1 } (rootOf exForest)
      = .ok "a = 1\ns {\n  x = 2\n  e {\n  }\n}\nw = 9\n".toList := by decide +kernel
  rw [e] at h1
  cases h1
  exact ⟨objs', h2, h3, by rw [h6]; decide +kernel⟩

/-- through `blank_prefix_text_parses` at `k = 2`, width 6, prefix of three blanks: the prefixed text
    itself parses to the pruned forest (the dotted chain `c.d.f` is kept at `k = 2`) -/
example : ∃ objs', parseObjs ("   a = 1\n   s {\n     x = 2\n     y = 3 \\\n         4\n     e {\n" ++
      "     }\n     e2 {\n     }\n   }\n   c.d.f = 7\n   w = 9\n").toList = .ok objs' ∧
    eraseAttrsList objs' = eraseAttrsList (pruneList 2 exForest) := by
  obtain ⟨text, objs', h1, h2, h3, _⟩ :=
    blank_prefix_text_parses { expert := some 2, width := 6 } rfl exForest exForest_ok exForest_nl
      exForest_wf "   ".toList (by decide)
  have e : asStr { expert := some 2, width := 6 } (rootOf exForest) "   ".toList
      = .ok ("   a = 1\n   s {\n     x = 2\n     y = 3 \\\n         4\n     e {\n     }\n     e2 {\n" ++
             "     }\n   }\n   c.d.f = 7\n   w = 9\n").toList := by decide +kernel
  rw [e] at h1
  cases h1
  exact ⟨objs', h2, h3⟩

/-- the model parser on the filtered text, evaluated directly (no theorem involved) -/
example : (parseObjs "a = 1\ns {\n  x = 2\n  e {\n  }\n}\nw = 9\n".toList).map eraseAttrsList
    = .ok (eraseAttrsList (pruneList 1 exForest)) := by decide +kernel

/-- `Visible` on the example: the dotted-prefix scope `c` is visible at 2 but not at 1 (its only
    leaf is hidden); the empty scope `e` is visible at every level, the empty scope `e2` from 2 on -/
example : Visible 2 (.scope { name := ['c'] }
      [.scope { name := ['d'], mergeNames := true } [d1 "f" "7" (lvl 2) true]]) ∧
    ¬ Visible 1 (.scope { name := ['c'] }
      [.scope { name := ['d'], mergeNames := true } [d1 "f" "7" (lvl 2) true]]) ∧
    Visible 0 (.scope { name := ['e'] } []) ∧
    ¬ Visible 1 (.scope { name := "e2".toList, attrs := lvl 2 } []) := by
  simp only [← prune_isSome_iff_ert]
  decide +kernel

/-! ### sharp edges (kernel-checked in the model) -/

/-- **Why a truthy `deprecated` is excluded from the class.**  A definition with `.deprecated = True`
    is hidden below attributes level 3 — with no expert level involved — so the level-0 text of
    `a = 1 (.deprecated = True)`, `b = 2` is just `b = 2` and does not parse back to both. -/
theorem deprecated_is_hidden :
    let t : List Obj := [d1 "a" "1" [("deprecated", .bool true)], d1 "b" "2"]
    asStr {} (rootOf t) = .ok "b = 2\n".toList ∧ ¬ (∀ x ∈ t, RTTreeA x) ∧
    (∀ x ∈ [d1 "a" "1" [("deprecated", .bool false)], d1 "b" "2"], RTTreeA x) := by
  decide +kernel

/-- **`.deprecated = False` in a source text does not hide the definition** (repaired defect D43: the
    attribute used to be stored as the string `False`, which is truthy, so `definition.show` hid `a`;
    it is now read with the bool spelling table like `.optional` and `.multiple`). -/
theorem deprecated_false_in_source_shows :
    (parseObjs "a = 1\n .deprecated = False\nb = 2\n".toList).map eraseList
      = .ok [d1 "a" "1" [("deprecated", .bool false)], d1 "b" "2"] ∧
    asStr {} (rootOf [d1 "a" "1" [("deprecated", .bool false)], d1 "b" "2"])
      = .ok "a = 1\nb = 2\n".toList := by
  decide +kernel

/-- … while `.deprecated = True` still does, and any other spelling is refused -/
theorem deprecated_true_in_source_hides :
    (parseObjs "a = 1\n .deprecated = True\nb = 2\n".toList).map eraseList
      = .ok [d1 "a" "1" [("deprecated", .bool true)], d1 "b" "2"] ∧
    asStr {} (rootOf [d1 "a" "1" [("deprecated", .bool true)], d1 "b" "2"])
      = .ok "b = 2\n".toList ∧
    parseObjs "a = 1\n .deprecated = maybe\n".toList = .error (.runtime "bool_expected" (some 2)) := by
  decide +kernel

/-- **Why `ExpertWFs` is a hypothesis.**  A non-integer `expert_level` makes the gated print fail
    (`TypeError` of the comparison in Python) although the tree is in the class. -/
theorem non_integer_level_fails :
    let t : List Obj := [d1 "a" "1" [("expert_level", .str "x".toList)]]
    (∀ x ∈ t, RTTreeA x) ∧ ExpertWFs t = false ∧
    asStr { expert := some 0 } (rootOf t) = .error (.stray "TypeError" "expert_level_compare") ∧
    asStr { expert := some (-1) } (rootOf t) = .ok "a = 1\n".toList := by
  decide +kernel

/-- **An object inside a hidden scope is hidden whatever its own level** (`z`, level 1, inside `t`,
    level 3, at `k = 1`), and **a proper scope all of whose children are hidden is still shown**, as an
    empty scope — only dotted-prefix scopes disappear with their content. -/
theorem emptied_proper_scope_stays :
    let t : List Obj := [.scope { name := ['p'] } [d1 "q" "1" (lvl 5)],
                         .scope { name := ['r'] } [d1 "q" "1" (lvl 5) true]]
    (∀ x ∈ t, RTTreeA x) ∧
    asStr { expert := some 0 } (rootOf t) = .ok "p {\n}\n".toList ∧
    pruneList 0 t = [.scope { name := ['p'] } []] := by
  decide +kernel

#print axioms RTTreeA_iff
#print axioms plainMeta_stripAttrs
#print axioms RTTreeA_defn
#print axioms RTTreeA_forall
#print axioms RTTreeA_scope
#print axioms RTTree.toTreeA
#print axioms RTTreeA.dottedWF
#print axioms print_ignores_attrs
#print axioms print_treeA
#print axioms print_parse_treeA
#print axioms prune_preserves_class
#print axioms filtered_text_parses_to_subtree
#print axioms filtered_text_parses_to_subtree'
#print axioms ownShown_iff
#print axioms visible_defn
#print axioms visible_scope
#print axioms prune_spec
#print axioms prune_spec_hidden
#print axioms prune_spec_list
#print axioms prune_spec_mem
#print axioms prune_spec_paths
#print axioms prune_all_shown
#print axioms negative_or_absent_shows_everything
#print axioms shownAt_cases
#print axioms prefix_changes_nothing_else
#print axioms blank_prefix_text_parses
#print axioms exForest_ok
#print axioms exForest_nl
#print axioms exForest_wf
#print axioms deprecated_is_hidden
#print axioms deprecated_false_in_source_shows
#print axioms deprecated_true_in_source_hides
#print axioms non_integer_level_fails
#print axioms emptied_proper_scope_stays

end Phil.C19
