/-
  C17 on the object-identity model, open ends closed (Phil/Heap.lean, Phil/Proofs/HeapTotal.lean):

  (1) `deepcopy` is TOTAL: on every heap without dangling reference (`closedB`) and for every object of it
      `deepcopy h x` is `some _` (fuel adequacy of `visit` with `visitFuel`).  Every theorem of
      Phil/Props/C17Heap.lean that assumed `deepcopy h x = some c` is restated without that hypothesis
      (`…_total`: the copy exists AND has the property).
  (2) every heap built from an abstract tree (`build` into the empty heap, `ofObjs`: the parser-shaped
      construction) satisfies `wfB` — `closedB`, `kidsLinkedB`, `parentListsB`, `nodupKidsB`, `acyclicB` — so
      all C17Heap theorems apply to every parsed document without per-document kernel evaluation
      (`deepcopy_of_parsed_document`).
-/
import Phil.Props.C17Heap
import Phil.Proofs.HeapTotal
namespace Phil.C17HeapTotal
open Phil Phil.Heap

/-! ### (1) totality -/

/-- **`deepcopy` / pickle round trip always succeed** on a heap without dangling reference, for every
    object of the heap. -/
theorem deepcopy_total (h : Heap) (x : Nat) (hc : closedB h = true) (hx : x < h.length) :
    ∃ c, deepcopy h x = some c :=
  Phil.Heap.deepcopy_total h x hc hx

/-- the traversal itself: from any state whose stack holds ids of the heap, `visit` ends as soon as the
    fuel covers `todo.length + Σ_{unseen i} (succs(i).length + 1) + 1` -/
theorem visit_fuel_adequate (f : Nat) (h : Heap) (todo : List Nat) (seen : List (Nat × Node))
    (hc : closedB h = true) (ht : ∀ y ∈ todo, y < h.length)
    (hf : todo.length + costFrom (seen.map (·.1)) 0 h + 1 ≤ f) : ∃ comp, visit f h todo seen = some comp :=
  visit_total f h todo seen (closedB_sound hc) ht hf

/-- `isSome` form, for evaluation -/
theorem deepcopy_isSome (h : Heap) (x : Nat) (hc : closedB h = true) (hx : x < h.length) :
    (deepcopy h x).isSome = true := by
  obtain ⟨c, hd⟩ := deepcopy_total h x hc hx
  rw [hd]; rfl

/-- **Isomorphic (total).** -/
theorem deepcopy_isomorphic_total (h : Heap) (x : Nat) (o : Obj) (hc : closedB h = true) (ha : Abs h x o) :
    ∃ c, deepcopy h x = some c ∧ Abs c.heap c.result o := by
  have hx : x < h.length := by
    obtain ⟨f, hf⟩ := ha
    cases f with
    | zero => simp [absF] at hf
    | succ f =>
      rw [absF] at hf
      cases hg : h[x]? with
      | none => rw [hg] at hf; simp at hf
      | some n => exact (List.getElem?_eq_some_iff.mp hg).1
  obtain ⟨c, hd⟩ := deepcopy_total h x hc hx
  exact ⟨c, hd, C17Heap.deepcopy_isomorphic h x c o hd ha⟩

/-- every copied object denotes in the copy what it denoted in the original, at every fuel -/
theorem deepcopy_isomorphic_everywhere_total (h : Heap) (x : Nat) (hc : closedB h = true) (hx : x < h.length) :
    ∃ c, deepcopy h x = some c ∧
      ∀ i ∈ c.comp, ∀ f, absF f c.heap (memo h.length c.comp i) = absF f h i := by
  obtain ⟨c, hd⟩ := deepcopy_total h x hc hx
  exact ⟨c, hd, fun i hi f => C17Heap.deepcopy_isomorphic_everywhere h x c hd i hi f⟩

/-- executable form -/
theorem deepcopy_abs_total (h : Heap) (x : Nat) (o : Obj) (hc : closedB h = true) (hx : x < h.length)
    (ha : abs h x = some o) : ∃ c, deepcopy h x = some c ∧ abs c.heap c.result = some o := by
  obtain ⟨c, hd⟩ := deepcopy_total h x hc hx
  exact ⟨c, hd, C17Heap.deepcopy_abs h x c o hd ha⟩

/-- the copy is made cell by cell -/
theorem deepcopy_cell_total (h : Heap) (x : Nat) (hc : closedB h = true) (hx : x < h.length) :
    ∃ c, deepcopy h x = some c ∧ ∀ i ∈ c.comp, ∃ n, h[i]? = some n ∧
      c.heap[memo h.length c.comp i]? = some (n.rename (memo h.length c.comp)) := by
  obtain ⟨c, hd⟩ := deepcopy_total h x hc hx
  exact ⟨c, hd, fun i hi => C17Heap.deepcopy_cell h x c hd i hi⟩

/-- what is copied: `x`, and with every copied object its children and its parent -/
theorem deepcopy_component_total (h : Heap) (x : Nat) (hc : closedB h = true) (hx : x < h.length) :
    ∃ c, deepcopy h x = some c ∧ x ∈ c.comp ∧ c.comp.Nodup ∧
    ∀ i ∈ c.comp, ∃ n, h[i]? = some n ∧ (∀ k ∈ n.kids, k ∈ c.comp) ∧ (∀ p, n.parent = some p → p ∈ c.comp) := by
  obtain ⟨c, hd⟩ := deepcopy_total h x hc hx
  exact ⟨c, hd, C17Heap.deepcopy_component h x c hd⟩

/-- **Disjoint (total).**  The copy consists of `c.comp.length` new objects; nothing is shared. -/
theorem deepcopy_disjoint_total (h : Heap) (x : Nat) (hc : closedB h = true) (hx : x < h.length) :
    ∃ c, deepcopy h x = some c ∧
    c.heap.length = h.length + c.comp.length ∧
    h.length ≤ c.result ∧ c.result < c.heap.length ∧
    (∀ i ∈ c.comp, i < h.length ∧ h.length ≤ memo h.length c.comp i ∧ memo h.length c.comp i < c.heap.length) ∧
    (∀ i ∈ c.comp, ∀ j ∈ c.comp, memo h.length c.comp i = memo h.length c.comp j → i = j) := by
  obtain ⟨c, hd⟩ := deepcopy_total h x hc hx
  exact ⟨c, hd, C17Heap.deepcopy_disjoint h x c hd⟩

/-- every reference held by an object of the copy is an object of the copy -/
theorem deepcopy_references_inside_total (h : Heap) (x : Nat) (hc : closedB h = true) (hx : x < h.length) :
    ∃ c, deepcopy h x = some c ∧ ∀ i ∈ c.comp, ∀ n', c.heap[memo h.length c.comp i]? = some n' →
      ∀ y ∈ n'.succs, h.length ≤ y ∧ ∃ j ∈ c.comp, y = memo h.length c.comp j := by
  obtain ⟨c, hd⟩ := deepcopy_total h x hc hx
  exact ⟨c, hd, fun i hi n' hn' => C17Heap.deepcopy_references_inside h x c hd i hi n' hn'⟩

/-- **Children linked to their own parent (total).** -/
theorem deepcopy_children_linked_total (h : Heap) (x : Nat) (hc : closedB h = true) (hx : x < h.length)
    (hl : kidsLinkedB h = true) :
    ∃ c, deepcopy h x = some c ∧ ∀ i ∈ c.comp, ∀ n', c.heap[memo h.length c.comp i]? = some n' →
      ∀ k ∈ n'.kids, ∃ nk, c.heap[k]? = some nk ∧ nk.parent = some (memo h.length c.comp i) ∧ h.length ≤ k := by
  obtain ⟨c, hd⟩ := deepcopy_total h x hc hx
  exact ⟨c, hd, fun i hi n' hn' => C17Heap.deepcopy_children_linked h x c hd hl i hi n' hn'⟩

/-- **The parent of the copied root (total).** -/
theorem deepcopy_root_parent_total (h : Heap) (x : Nat) (hc : closedB h = true) (hx : x < h.length) :
    ∃ c, deepcopy h x = some c ∧ ∃ n n', h[x]? = some n ∧ c.heap[c.result]? = some n' ∧
      n'.parent = n.parent.map (memo h.length c.comp) ∧ ∀ p', n'.parent = some p' → h.length ≤ p' := by
  obtain ⟨c, hd⟩ := deepcopy_total h x hc hx
  exact ⟨c, hd, C17Heap.deepcopy_root_parent h x c hd⟩

/-- deepcopy writes no slot of any existing object -/
theorem deepcopy_frame_total (h : Heap) (x : Nat) (hc : closedB h = true) (hx : x < h.length) :
    ∃ c, deepcopy h x = some c ∧ ∀ i, i < h.length → c.heap[i]? = h[i]? := by
  obtain ⟨c, hd⟩ := deepcopy_total h x hc hx
  exact ⟨c, hd, C17Heap.deepcopy_frame h x c hd⟩

/-- **Frame theorem (total).**  The copy exists, and any later history of slot assignments to objects of
    the copy (or to later objects) leaves every original cell and every original abstract tree unchanged. -/
theorem deepcopy_assign_frame_total (h : Heap) (x : Nat) (hc : closedB h = true) (hx : x < h.length) :
    ∃ c, deepcopy h x = some c ∧ ∀ (ops : List (Nat × Assign)), (∀ op ∈ ops, h.length ≤ op.1) →
      (∀ i, i < h.length → (assignMany c.heap ops)[i]? = h[i]?) ∧
      (∀ f i, i < h.length → absF f (assignMany c.heap ops) i = absF f h i) ∧
      (∀ i, i < h.length → ∀ o, Abs (assignMany c.heap ops) i o ↔ Abs h i o) := by
  obtain ⟨c, hd⟩ := deepcopy_total h x hc hx
  refine ⟨c, hd, fun ops hops => ?_⟩
  obtain ⟨a, b⟩ := C17Heap.deepcopy_assign_frame h x c hd hc ops hops
  exact ⟨a, b, fun i hi o => C17Heap.deepcopy_assign_frame_abs h x c hd hc ops hops i hi o⟩

/-! ### sharp edges of (1), kernel-checked -/

/-- a heap with a dangling child id (object 0 lists object 5) -/
def danglingHeap : Heap := [.scope { name := [] } [5] none]

/-- **`closedB` is needed**: with a dangling reference the traversal fails (Python: cannot happen — a slot
    always holds an object; the hypothesis excludes junk heaps of the model only). -/
theorem deepcopy_of_dangling_fails : closedB danglingHeap = false ∧ deepcopy danglingHeap 0 = none := by
  decide +kernel

/-- **`x < h.length` is needed**: an id that is no object of the heap cannot be copied -/
theorem deepcopy_of_no_object_fails :
    closedB C17Heap.fetchShaped = true ∧ deepcopy C17Heap.fetchShaped 3 = none := by
  decide +kernel

/-- how generous the bound is: on the one-object heap `visitFuel` is 3, two steps are needed (enter the
    object, see the empty stack), one is not enough -/
theorem visitFuel_tight_example :
    visitFuel [Node.defn { name := "a".toList } [] none] = 3 ∧
    visit 1 [Node.defn { name := "a".toList } [] none] [0] [] = none ∧
    (visit 2 [Node.defn { name := "a".toList } [] none] [0] []).isSome = true := by
  decide +kernel

/-- the hypotheses of the total theorems on a fetch-shaped heap that is NOT a tree (object 2 lists the
    master's definition): closed, so every object can be deep-copied -/
example : ∀ x, x < 3 → ∃ c, deepcopy C17Heap.fetchShaped x = some c :=
  fun x hx => deepcopy_total C17Heap.fetchShaped x (by decide +kernel) hx

/-! ### (2) every built heap is well-formed; parsed documents -/

/-- **A tree allocated in the empty heap is well-formed**: no dangling reference, every child points to its
    scope, every object with a parent is listed by it, no duplicate child, no parent cycle.  Every tree. -/
theorem build_wf (o : Obj) : wfB (build o none []).1 = true := by
  have : (build o none []).1 = cells o none 0 := by simp [build]
  rw [this]
  exact (cells_treeHeap o).wfB

theorem build_closedB (o : Obj) : closedB (build o none []).1 = true := by
  have : (build o none []).1 = cells o none 0 := by simp [build]
  rw [this]
  exact (cells_treeHeap o).closedB

theorem build_kidsLinkedB (o : Obj) : kidsLinkedB (build o none []).1 = true := by
  have : (build o none []).1 = cells o none 0 := by simp [build]
  rw [this]
  exact (cells_treeHeap o).kidsLinkedB

/-- the heap of a document (root scope with the parsed objects) is well-formed, whatever the objects -/
theorem ofObjs_wf (os : List Obj) : wfB (ofObjs os) = true := (ofObjs_treeHeap os).wfB

/-- `heapOfText` of every text is well-formed (a text that does not parse gives the empty heap) -/
theorem heapOfText_wf (t : String) : wfB (C17Heap.heapOfText t) = true := by
  unfold C17Heap.heapOfText
  cases parseObjs t.toList with
  | ok os => exact ofObjs_wf os
  | error e => rfl

/-- allocating a tree in ANY heap (under any parent that is an object of the result) keeps `closedB` and
    `kidsLinkedB` — the hypotheses of the C17Heap theorems — e.g. a source document next to a master -/
theorem build_keeps_closed_linked (o : Obj) (p : Option Nat) (h : Heap)
    (hc : closedB h = true) (hl : kidsLinkedB h = true) (hp : ∀ q, p = some q → q < h.length + size o) :
    closedB (build o p h).1 = true ∧ kidsLinkedB (build o p h).1 = true :=
  ⟨closedB_complete (build_closed o p h (closedB_sound hc) hp),
   kidsLinkedB_complete (build_kidsLinked o p h (closedB_sound hc) (kidsLinkedB_sound hl))⟩

/-- every object of a document heap denotes an abstract tree -/
theorem ofObjs_abs_isSome (os : List Obj) (x : Nat) (hx : x < (ofObjs os).length) :
    (abs (ofObjs os) x).isSome = true :=
  (ofObjs_treeHeap os).abs_isSome x hx

/-- the root object denotes the document -/
theorem ofObjs_root (os : List Obj) : Abs (ofObjs os) 0 (.scope { name := [] } os) := by
  have := build_abs (.scope { name := [] } os) none []
  simpa [ofObjs, build] using this

/-- **Deep copies of parsed documents.**  For every text that parses and EVERY object `x` of its heap (the
    root, a scope, a definition at any depth): `copy.deepcopy(x)` / a pickle round trip succeeds; `x` denotes
    a tree `o` and the result denotes the same `o`; the copy consists of new objects only, one per copied
    object; every child of a copied scope is a new object whose parent is that copied scope; the original
    cells are untouched; and no later history of slot assignments to the copy (or to later objects) changes
    any original cell or what any original object denotes.  No per-document evaluation is involved. -/
theorem deepcopy_of_parsed_document (text : List Char) (objs : List Obj) (_hp : parseObjs text = .ok objs)
    (x : Nat) (hx : x < (ofObjs objs).length) :
    wfB (ofObjs objs) = true ∧ Abs (ofObjs objs) 0 (.scope { name := [] } objs) ∧
    ∃ c o, deepcopy (ofObjs objs) x = some c ∧
      abs (ofObjs objs) x = some o ∧ abs c.heap c.result = some o ∧
      c.heap.length = (ofObjs objs).length + c.comp.length ∧
      (ofObjs objs).length ≤ c.result ∧ c.result < c.heap.length ∧
      (∀ i ∈ c.comp, ∀ j ∈ c.comp, memo (ofObjs objs).length c.comp i = memo (ofObjs objs).length c.comp j → i = j) ∧
      (∀ i ∈ c.comp, ∀ n', c.heap[memo (ofObjs objs).length c.comp i]? = some n' →
        (∀ y ∈ n'.succs, (ofObjs objs).length ≤ y) ∧
        ∀ k ∈ n'.kids, ∃ nk, c.heap[k]? = some nk ∧ nk.parent = some (memo (ofObjs objs).length c.comp i)) ∧
      (∀ (ops : List (Nat × Assign)), (∀ op ∈ ops, (ofObjs objs).length ≤ op.1) →
        (∀ i, i < (ofObjs objs).length → (assignMany c.heap ops)[i]? = (ofObjs objs)[i]?) ∧
        (∀ f i, i < (ofObjs objs).length → absF f (assignMany c.heap ops) i = absF f (ofObjs objs) i)) := by
  have t := ofObjs_treeHeap objs
  have hc := t.closedB
  have hl := t.kidsLinkedB
  refine ⟨t.wfB, ofObjs_root objs, ?_⟩
  obtain ⟨c, hd⟩ := deepcopy_total _ x hc hx
  have ha := t.abs_isSome x hx
  cases hab : abs (ofObjs objs) x with
  | none => rw [hab] at ha; cases ha
  | some o =>
    obtain ⟨d1, d2, d3, _, d5⟩ := C17Heap.deepcopy_disjoint _ x c hd
    refine ⟨c, o, hd, rfl, C17Heap.deepcopy_abs _ x c o hd hab, d1, d2, d3, d5, ?_, ?_⟩
    · intro i hi n' hn'
      refine ⟨fun y hy => (C17Heap.deepcopy_references_inside _ x c hd i hi n' hn' y hy).1, ?_⟩
      intro k hk
      obtain ⟨nk, a, b, _⟩ := C17Heap.deepcopy_children_linked _ x c hd hl i hi n' hn' k hk
      exact ⟨nk, a, b⟩
    · intro ops hops
      exact C17Heap.deepcopy_assign_frame _ x c hd hc ops hops

/-- the hypotheses are satisfiable: a concrete parsed text with six objects; the theorem applies to each -/
example : ∃ objs, parseObjs "a = 1\ns {\n  b = 2 3\n  t { c = x }\n}\n".toList = .ok objs ∧
    (ofObjs objs).length = 6 := by
  have key : (match parseObjs "a = 1\ns {\n  b = 2 3\n  t { c = x }\n}\n".toList with
      | .ok os => decide ((ofObjs os).length = 6) | .error _ => false) = true := by decide +kernel
  cases h : parseObjs "a = 1\ns {\n  b = 2 3\n  t { c = x }\n}\n".toList with
  | error e => rw [h] at key; cases key
  | ok objs => rw [h] at key; exact ⟨objs, rfl, of_decide_eq_true key⟩

/-! ### sharp edges of (2) -/

/-- **Only heaps built in the EMPTY heap are `wfB`**: a tree allocated under a parent that does not list it
    (what `build o (some p) h` does — and what `copy()` produces: D21) violates `parentListsB`; `closedB` and
    `kidsLinkedB` survive (`build_keeps_closed_linked`). -/
theorem build_under_parent_not_wf :
    wfB (build (.defn { name := "a".toList } []) (some 0) (ofObjs [])).1 = false ∧
    closedB (build (.defn { name := "a".toList } []) (some 0) (ofObjs [])).1 = true ∧
    kidsLinkedB (build (.defn { name := "a".toList } []) (some 0) (ofObjs [])).1 = true := by
  decide +kernel

/-- the bound on the parent in `build_keeps_closed_linked` is needed -/
theorem build_under_dangling_parent_not_closed :
    closedB (build (.defn { name := "a".toList } []) (some 7) (ofObjs [])).1 = false := by
  decide +kernel

end Phil.C17HeapTotal

#print axioms Phil.C17HeapTotal.deepcopy_total
#print axioms Phil.C17HeapTotal.visit_fuel_adequate
#print axioms Phil.C17HeapTotal.deepcopy_isSome
#print axioms Phil.C17HeapTotal.deepcopy_isomorphic_total
#print axioms Phil.C17HeapTotal.deepcopy_isomorphic_everywhere_total
#print axioms Phil.C17HeapTotal.deepcopy_abs_total
#print axioms Phil.C17HeapTotal.deepcopy_cell_total
#print axioms Phil.C17HeapTotal.deepcopy_component_total
#print axioms Phil.C17HeapTotal.deepcopy_disjoint_total
#print axioms Phil.C17HeapTotal.deepcopy_references_inside_total
#print axioms Phil.C17HeapTotal.deepcopy_children_linked_total
#print axioms Phil.C17HeapTotal.deepcopy_root_parent_total
#print axioms Phil.C17HeapTotal.deepcopy_frame_total
#print axioms Phil.C17HeapTotal.deepcopy_assign_frame_total
#print axioms Phil.C17HeapTotal.deepcopy_of_dangling_fails
#print axioms Phil.C17HeapTotal.deepcopy_of_no_object_fails
#print axioms Phil.C17HeapTotal.visitFuel_tight_example
#print axioms Phil.C17HeapTotal.build_wf
#print axioms Phil.C17HeapTotal.build_closedB
#print axioms Phil.C17HeapTotal.build_kidsLinkedB
#print axioms Phil.C17HeapTotal.ofObjs_wf
#print axioms Phil.C17HeapTotal.heapOfText_wf
#print axioms Phil.C17HeapTotal.build_keeps_closed_linked
#print axioms Phil.C17HeapTotal.ofObjs_abs_isSome
#print axioms Phil.C17HeapTotal.ofObjs_root
#print axioms Phil.C17HeapTotal.deepcopy_of_parsed_document
#print axioms Phil.C17HeapTotal.build_under_parent_not_wf
#print axioms Phil.C17HeapTotal.build_under_dangling_parent_not_closed
