/-
  C09 on whole trees — "For every master and every extracted parameter object whose values lie in the
  declared types' domains, formatting it against the master and extracting the result returns equal
  values."

  Phil/Props/C09.lean proves the round trip `from_words (as_words v) = v` per converter.  Here it is
  lifted to `master.format(v).extract()` for a whole tree:
    1. `format_closed` — the fuelled model `formatObj` equals the structural specification
       `formatSpec` (no fuel) on every master without `.multiple` (objects enabled, sibling names
       pairwise distinct; definitions of any type), for EVERY Python value; `format_record_child` —
       what a child contributes when the value is a `scope_extract`;
    2. `RoundTripLeaf` — the hypotheses of the per-converter theorems, one constructor each;
       `leaf_round_trip` — one leaf; `choice_str_round_trip` — a selected alternative of a single
       choice (a per-converter theorem Phil/Props/C09.lean lacks);
    3. `format_extract_tree` — the whole tree; `format_tree_total` — … or `format` refuses, and the
       refusal is `definition.format`'s refusal of the value at one path;
       `extract_format_extract_tree` — starting from an extracted object;
    4. witnesses that the leaf hypotheses are needed, kernel-checked instances through the parser,
       each replayed on the Python library.
  Property theorems only; lemmas are in Phil/Proofs/ExtractTree.lean.
-/
import Phil.Proofs.ExtractTree
import Phil.Props.C09
import Phil.Props.C10Tree
namespace Phil.C09
open Phil

/-! ### 1. the closed form of `scope.format`

  Specification functions (Phil/Proofs/ExtractTree.lean):
  ```
  formatSpec e (.defn m ws) v     = formatDefn e m ws v          -- words := type.as_words(v, master)
  formatSpec e (.scope m kids) v  = (formatSpecKids e kids v).map (.scope { m with tmpl := 0 })
  formatSpecKids e [] v           = .ok []
  formatSpecKids e (o :: os) v    = kidFormat_xt (formatSpec e o) o.name v ++ formatSpecKids e os v
                                                                  -- first error wins
  kidFormat_xt F nm None          = [F None]                      -- likewise Auto
  kidFormat_xt F nm v             = for each pi of (pobjsOf_xt v):   -- [v] for a scope_extract, the
                                      itemFormat_xt F nm pi         -- elements of a list;
                                                                  -- TypeError otherwise
  itemFormat_xt F nm (.record fs) = [] if fs has no field nm, [F (fs.nm)] otherwise
  itemFormat_xt F nm _            = AttributeError (`__phil_get__`)
  ```
  `FObj_xt o`: nothing is `.multiple`, every object is enabled, sibling names are pairwise distinct at
  every depth.  `TreeMaster` implies it; it also admits choices and `.deprecated` definitions. -/

/-- **closed form of `scope.format` / `definition.format`**, every Python value -/
theorem format_closed (e : Envs) (fuel : Nat) (master : Obj) (hf : FObj_xt master) (hd : depthT master < fuel)
    (v : PVal) : formatObj e fuel master v = formatSpec e master v :=
  formatObj_eq_spec_xt e fuel master hf hd v

/-- the root scope of a `TreeMaster` is such a master -/
theorem fobj_root_of_treeMaster (kids : List Obj) (hf : TreeMaster kids) :
    FObj_xt (.scope { name := [], id := some 0 } kids) := by
  rw [FObj_xt]
  exact ⟨rfl, rfl, fkids_of_treeKids_xt kids hf.kids, hf.distinct⟩

/-- on a `scope_extract` a master child contributes nothing when the object has no attribute of its
    name, and itself formatted with the attribute's value otherwise -/
theorem format_record_child (F : PVal → R Obj) (nm : Str) (fs : List (Str × PVal)) :
    kidFormat_xt F nm (.record fs) =
      match fieldGet fs nm with
      | none => .ok []
      | some sub => (F sub).map (fun r => [r]) :=
  kidFormat_record_xt F nm fs

/-! ### 2. one leaf -/

/-- **a selected alternative of a single `choice` round-trips**: if `as_words` accepts the name `s`
    (exactly one alternative of the master is called `s`) and no alternative of the master carries
    two stars, the words written are the master's alternatives with the star on `s` only, and they
    read back as `s`. -/
theorem choice_str_round_trip (fmt : FmtEnv) (env : EvalEnv) (opt : AttrVal) (mws ws : List Word)
    (s : Str) (hds : NoDoubleStar mws) (h : asWords (.choice false) fmt opt mws (.str s) = .ok ws) :
    ws = mws.map (starAt_xt s) ∧ fromWords (.choice false) env opt ws = .ok (.str s) :=
  choice_str_round_trip_xt fmt env opt mws ws s hds h

example : asWords (.choice false) (fun _ => none) .none [wordOf "*a", wordOf "b"] (.str "b".toList)
    = .ok [wordOf "a", wordOf "*b"] := rfl
example : fromWords (.choice false) (fun _ => none) .none [wordOf "a", wordOf "*b"] = .ok (.str "b".toList) :=
  (choice_str_round_trip (fun _ => none) _ .none [wordOf "*a", wordOf "b"] _ _
    (noDoubleStarB_sound_xt _ (by decide)) rfl).2

/-- `RoundTripLeaf c mws x` (Phil/Proofs/ExtractTree.lean) collects the hypotheses of the
    per-converter theorems — one constructor per theorem:
    `auto` (any type), `none` (any type but a choice), `choiceNone` / `multiEmpty` (`NoDoubleStar`,
    and the unstarred master is not the bare word `auto`), `choiceStr` (`NoDoubleStar`), `bool`,
    `str` (`str`, `key`), `path` (not starting with `~`), `strings`, `int`, `ints` (length ≥ 2, or
    one int).
    **One leaf**: whatever `as_words` writes for such a value, `from_words` reads back as it. -/
theorem leaf_round_trip (c : Conv) (fmt : FmtEnv) (env : EvalEnv) (opt : AttrVal) (mws ws : List Word)
    (x : PVal) (henv : EnvDecimal env) (hx : RoundTripLeaf c mws x)
    (h : asWords c fmt opt mws x = .ok ws) : fromWords c env opt ws = .ok x :=
  leaf_round_trip_xt c fmt env opt mws ws x henv hx h

/-! ### 3. the whole tree

  `RTObj master v`: `v` has exactly the master's shape — for a scope a `scope_extract` with one
  attribute per master child, in the master's order; for a definition of declared type `c`
  (`strings` if none) and master words `mws`, a value with `RoundTripLeaf c mws`. -/

/-- **C09, whole tree (`format_extract_tree`).**  Master without `.multiple`, fuel beyond its depth,
    an evaluator that reads decimal integer literals; `v` of the master's shape with leaves covered
    by the per-converter theorems: whatever `master.format(v)` returns extracts back to `v`. -/
theorem format_extract_tree (e : Envs) (henv : EnvDecimal e.eval) (fuel : Nat) (master : Obj) (v : PVal)
    (w : Obj) (hf : FObj_xt master) (hd : depthT master < fuel) (hv : RTObj master v)
    (h : formatObj e fuel master v = .ok w) : extractObj e fuel w = .ok v :=
  format_extract_tree_xt e henv fuel master v w hf hd hv h

/-- **`format_tree_total`**: … and `master.format(v)` either succeeds (and then extracts back to
    `v`), or fails with the error `definition.format` (i.e. `as_words`: a bound, a size, an unknown
    alternative, a forbidden `None`) raises for one master definition and the value `v` holds at
    its path. -/
theorem format_tree_total (e : Envs) (henv : EnvDecimal e.eval) (fuel : Nat) (m : Meta) (kids : List Obj)
    (v : PVal) (hf : FObj_xt (.scope m kids)) (hd : depthL kids + 1 < fuel)
    (hv : RTObj (.scope m kids) v) :
    (∃ w, formatObj e fuel (.scope m kids) v = .ok w ∧ extractObj e fuel w = .ok v) ∨
    (∃ err ps n dm dws x, formatObj e fuel (.scope m kids) v = .error err ∧
      defAt kids ps n = some (.defn dm dws) ∧ valueAt v ps n = some x ∧
      formatDefn e dm dws x = .error err) :=
  format_tree_total_xt e henv fuel m kids v hf hd hv

/-- the same for a `TreeMaster` at the root, as `master.format(v)` sees it -/
theorem format_extract_treeMaster (e : Envs) (henv : EnvDecimal e.eval) (fuel : Nat) (kids : List Obj)
    (v : PVal) (w : Obj) (hf : TreeMaster kids) (hd : depthL kids + 1 < fuel)
    (hv : RTObj (.scope { name := [], id := some 0 } kids) v)
    (h : formatObj e fuel (.scope { name := [], id := some 0 } kids) v = .ok w) :
    extractObj e fuel w = .ok v :=
  format_extract_tree e henv fuel _ v w (fobj_root_of_treeMaster kids hf) (by rw [depthT]; exact hd) hv h

/-- **starting from an extracted object** (the property as worded): if `v` is what `tree.extract()`
    returned for any tree of the master's shape, and `v` satisfies `RTObj`, then
    `master.format(v).extract()` is `v` again. -/
theorem extract_format_extract_tree (e : Envs) (henv : EnvDecimal e.eval) (fuel : Nat) (master src : Obj)
    (v : PVal) (w : Obj) (hf : FObj_xt master) (hd : depthT master < fuel)
    (hsrc : extractObj e fuel src = .ok v) (hv : RTObj master v)
    (h : formatObj e fuel master v = .ok w) : extractObj e fuel w = extractObj e fuel src := by
  rw [hsrc]
  exact format_extract_tree e henv fuel master v w hf hd hv h

/-! ### what is missing for the other types

  `RoundTripLeaf` has no constructor — because Phil/Props/C09.lean has no theorem — for:
  `float`/`floats` (the written text is the oracle `"%.10g" % x`; a statement needs an axiom-free
  link between `fmt` and `eval`), `qstr` (re-tokenisation, property C03), `words`, a non-empty
  selection of a multi `choice`, and for the values below, which do NOT round-trip. -/

/-- a `True` held by an `int` is written `1` and read back as the int `1` (in Python `True == 1`) -/
theorem int_bool_collapses (fmt : FmtEnv) (env : EvalEnv) (henv : EnvDecimal env) :
    asWords (.int {}) fmt .none [] (.bool true) = .ok [{ value := intStr 1 }] ∧
    fromWords (.int {}) env .none [{ value := intStr 1 }] = .ok (.num (.int 1)) := by
  refine ⟨rfl, ?_⟩
  have h : asWords (.int {}) fmt .none [] (.num (.int 1)) = .ok [{ value := intStr 1 }] := rfl
  exact (int_round_trip {} fmt env .none .none [] _ 1 henv h).2

/-! ### 4. instances through the parser (each replayed on the Python library) -/

open Phil.C10 (objsT envT masterT yields yields_sound)

theorem envT_decimal : EnvDecimal envT.eval := fun i => by
  show (parseIntLit (intStr i)).map (fun i => EvalRes.num (.int i)) = _
  rw [parseIntLit_intStr]; rfl

/-- the root scope `master.format` is called on -/
def rootT (t : String) : Obj := .scope { name := [], id := some 0 } (objsT t)

/-- `master.format(v).extract()` -/
def formatExtractT (m : String) (v : PVal) : R PVal :=
  match formatObj envT 50 (rootT m) v with
  | .error err => .error err
  | .ok w => extractObj envT 50 w

/-- `master.format(v).as_str()` -/
def formatStrT (m : String) (v : PVal) : Option String :=
  match formatObj envT 50 (rootT m) v with
  | .error _ => none
  | .ok w =>
    match showObj {} w [] [] with
    | .ok l => some (String.ofList (unlines l))
    | .error _ => none

private def S (s : String) : Str := s.toList
private def I (i : Int) : PVal := .num (.int i)

/-- a parameter object for `masterT` (three levels; int, bool, str, ints, choice) -/
def v1 : PVal :=
  .record [(S "a", I 7), (S "s", .record [(S "b", .bool false), (S "name", .str (S "None")),
    (S "t", .record [(S "ns", .list [I 4, I (-5)]), (S "c", .str (S "blue"))])])]

/-- one with `None`, `Auto`, the empty string, a one-element list, no alternative selected -/
def v2 : PVal :=
  .record [(S "a", .none), (S "s", .record [(S "b", .auto), (S "name", .str (S "")),
    (S "t", .record [(S "ns", .list [I 9]), (S "c", .none)])])]

example : yields (formatExtractT masterT v1) v1 = true := by decide +kernel
example : yields (formatExtractT masterT v2) v2 = true := by decide +kernel
example : formatStrT masterT v1
    = some "a = 7\ns {\n  b = False\n  name = \"None\"\n  t {\n    ns = 4 -5\n    c = red green *blue\n  }\n}\n" := by
  decide +kernel
example : formatStrT masterT v2
    = some "a = None\ns {\n  b = Auto\n  name = \"\"\n  t {\n    ns = 9\n    c = red green blue\n  }\n}\n" := by
  decide +kernel

/-- master and objects satisfy the executable hypotheses of `format_extract_tree` -/
example : (fobjB_xt (rootT masterT) && decide (depthT (rootT masterT) = 3) &&
    rtObjB_xt (rootT masterT) v1 && rtObjB_xt (rootT masterT) v2) = true := by
  decide +kernel

/-- **the theorem applied to the parsed master**: whatever `format` returns for `v1` extracts to `v1` -/
example (w : Obj) (h : formatObj envT 50 (rootT masterT) v1 = .ok w) : extractObj envT 50 w = .ok v1 :=
  format_extract_tree envT envT_decimal 50 (rootT masterT) v1 w (fobjB_sound_xt _ (by decide +kernel))
    (by have : depthT (rootT masterT) = 3 := by decide +kernel
        omega)
    (rtObjB_sound_xt _ _ (by decide +kernel)) h

/-- `master.fetch(source).extract()`, formatted and extracted again, is unchanged -/
example : (match Phil.C10.fetchExtractT masterT "s.t.c = blue\na = 7\ns {\n b = no\n t.ns = 4 5\n}\n" with
    | .ok v => yields (formatExtractT masterT v) v && rtObjB_xt (rootT masterT) v
    | .error _ => false) = true := by
  decide +kernel

/-- refusals of `format` are refusals of a leaf: a bound, an unknown alternative, a size -/
example : Phil.errOf (formatExtractT masterT
    (.record [(S "a", I (-1)), (S "s", .record [(S "b", .bool false), (S "name", .str (S "q")),
      (S "t", .record [(S "ns", .list [I 4, I 5]), (S "c", .str (S "blue"))])])]))
    = some (.runtime "value_min" none) := by decide +kernel
example : Phil.errOf (formatExtractT masterT
    (.record [(S "a", I 1), (S "s", .record [(S "b", .bool false), (S "name", .str (S "q")),
      (S "t", .record [(S "ns", .list [I 4, I 5]), (S "c", .str (S "purple"))])])]))
    = some (.runtime "invalid_choice" none) := by decide +kernel
example : Phil.errOf (formatExtractT masterT
    (.record [(S "a", I 1), (S "s", .record [(S "b", .bool false), (S "name", .str (S "q")),
      (S "t", .record [(S "ns", .list [I 1, I 2, I 3, I 4, I 5]), (S "c", .str (S "red"))])])]))
    = some (.runtime "too_many" none) := by decide +kernel

/-- outside `RTObj`: a `True` in the int leaf comes back as `1` … -/
example : yields (formatExtractT masterT
    (.record [(S "a", .bool true), (S "s", .record [(S "b", .bool false), (S "name", .str (S "q")),
      (S "t", .record [(S "ns", .list [I 4, I 5]), (S "c", .str (S "red"))])])]))
    (.record [(S "a", I 1), (S "s", .record [(S "b", .bool false), (S "name", .str (S "q")),
      (S "t", .record [(S "ns", .list [I 4, I 5]), (S "c", .str (S "red"))])])]) = true := by
  decide +kernel
/-- … a partial object yields a partial tree, `None` for the whole tree a tree of `None`s -/
example : yields (formatExtractT masterT (.record [(S "a", I 3)])) (.record [(S "a", I 3)]) = true := by
  decide +kernel
example : yields (formatExtractT masterT .none)
    (.record [(S "a", .none), (S "s", .record [(S "b", .none), (S "name", .none),
      (S "t", .record [(S "ns", .none), (S "c", .none)])])]) = true := by
  decide +kernel
/-- … and the empty list of `ints`, which `RTObj` excludes because it has no spelling
    (`Phil.C09.empty_list_has_no_spelling`), does survive `format`/`extract` at the object level: the
    formatted definition has no words and an empty word list is read as `[]` -/
example : yields (formatExtractT masterT
    (.record [(S "a", I 1), (S "s", .record [(S "b", .bool false), (S "name", .str (S "q")),
      (S "t", .record [(S "ns", .list []), (S "c", .str (S "red"))])])]))
    (.record [(S "a", I 1), (S "s", .record [(S "b", .bool false), (S "name", .str (S "q")),
      (S "t", .record [(S "ns", .list []), (S "c", .str (S "red"))])])]) = true := by
  decide +kernel

end Phil.C09
