/-
  C18, detachment clause, on the object-identity model (Phil/Heap.lean, Phil/HeapExtract.lean):
  "changing or appending to any extracted value never alters the PHIL tree it came from nor what later
  extractions return" — with the raw word list of `.type = words` as the stated exception.

  A store is a PHIL heap and a separate value heap.  `extractStore` reads the PHIL heap and appends the
  objects of the extracted value to the value heap; `mutate` rewrites one value object in place (append,
  item assignment, clear, attribute assignment / `__inject__`), and acts on the PHIL heap only through an
  alias cell `wordsOf d` — the `words` list handed out by `words_converters.from_words`.
-/
import Phil.Proofs.HeapExtractLemmas
import Phil.Parse
namespace Phil.C18Detach
open Phil Phil.Heap

/-- **Extraction only allocates.**  The PHIL heap is not written and every earlier value object is left
    as it was; the result is the reified value tree `extractT` reads off the PHIL heap. -/
theorem extract_frame (e : Envs) (fuel : Nat) (s s' : Store) (x : Nat) (v : VRef)
    (h : extractStore e fuel s x = .ok (s', v)) :
    s'.phil = s.phil ∧
    ∃ t, extractT e fuel s.phil x = .ok t ∧ s'.vals = s.vals ++ (reify t s.vals.length).1 ∧
      v = (reify t s.vals.length).2 := by
  unfold extractStore at h
  cases ht : extractT e fuel s.phil x with
  | error err => rw [ht] at h; cases h
  | ok t =>
    rw [ht] at h
    simp only [Except.ok.injEq, Prod.mk.injEq] at h
    obtain ⟨rfl, rfl⟩ := h
    exact ⟨rfl, t, rfl, rfl, rfl⟩

/-- **Mutation frame.**  Any finite history of in-place mutations of value objects, none of which goes
    through a handed-out word list, leaves the PHIL heap exactly as it was (every object, every slot) —
    hence also its abstract tree and its printed form. -/
theorem mutations_leave_phil_heap (s : Store) (ops : List (Nat × MutOp)) (hs : SafeHist s ops) :
    (mutateMany s ops).phil = s.phil :=
  mutateMany_phil ops s hs

/-- **Detachment.**  Extract; then mutate the extracted objects (and any other value objects) by any
    history that does not go through a handed-out word list; then the PHIL heap is unchanged, and a
    later extraction of ANY object `y` (with any fuel) reads the same value tree as it would have
    before the mutations — in particular the later `x.extract()` builds the reification of the very
    tree `t` the first extraction built, in objects that are all new. -/
theorem detached (e : Envs) (fuel : Nat) (s s1 : Store) (x : Nat) (v1 : VRef)
    (h1 : extractStore e fuel s x = .ok (s1, v1)) (ops : List (Nat × MutOp)) (hs : SafeHist s1 ops) :
    (mutateMany s1 ops).phil = s.phil ∧
    (∀ fuel' y, extractT e fuel' (mutateMany s1 ops).phil y = extractT e fuel' s.phil y) ∧
    ∃ t, extractT e fuel s.phil x = .ok t ∧ v1 = (reify t s.vals.length).2 ∧
      extractStore e fuel (mutateMany s1 ops) x =
        .ok ({ phil := s.phil, vals := (mutateMany s1 ops).vals ++ (reify t (mutateMany s1 ops).vals.length).1 },
             (reify t (mutateMany s1 ops).vals.length).2) := by
  obtain ⟨hp, t, ht, _, hv⟩ := extract_frame e fuel s s1 x v1 h1
  have hphil : (mutateMany s1 ops).phil = s.phil := by rw [mutateMany_phil ops s1 hs, hp]
  refine ⟨hphil, fun fuel' y => by rw [hphil], t, ht, hv, ?_⟩
  unfold extractStore
  rw [hphil, ht]

/-- mutations never create or delete value objects (they rewrite one) -/
theorem mutations_keep_object_count (s : Store) (ops : List (Nat × MutOp)) :
    (mutateMany s ops).vals.length = s.vals.length :=
  mutateMany_vals_length ops s

/-- **No `.type = words` in sight: unconditional detachment.**  If the value heap has no alias cell
    before the extraction and the extracted value tree hands out no word list, then EVERY history of
    mutations is safe: whatever is changed or appended, on whichever extracted list or nested
    extracted scope, the PHIL heap and all later extractions are unaffected. -/
theorem detached_without_words (e : Envs) (fuel : Nat) (s s1 : Store) (x : Nat) (v1 : VRef)
    (h1 : extractStore e fuel s x = .ok (s1, v1)) (hn : noAliasB s.vals = true)
    (hw : ∀ t, extractT e fuel s.phil x = .ok t → t.noHandout = true)
    (ops : List (Nat × MutOp)) :
    SafeHist s1 ops ∧ (mutateMany s1 ops).phil = s.phil ∧
    (∀ fuel' y, extractT e fuel' (mutateMany s1 ops).phil y = extractT e fuel' s.phil y) := by
  obtain ⟨_, t, ht, hvals, _⟩ := extract_frame e fuel s s1 x v1 h1
  have hsafe : SafeHist s1 ops := by
    apply safe_of_noAlias
    rw [hvals]
    exact noAlias_append _ _ hn (reify_noAlias t _ (hw t ht))
  obtain ⟨a, b, _⟩ := detached e fuel s s1 x v1 h1 ops hsafe
  exact ⟨hsafe, a, b⟩

/-- a reified value without handed-out word list consists of lists and scope_extracts only -/
theorem reified_has_no_alias (t : TVal) (b : Nat) (h : t.noHandout = true) : noAliasB (reify t b).1 = true :=
  reify_noAlias t b h

/-! ### the stated exception, kernel-checked (replayed on Python: REPORT.md) -/

def heapOfText (t : String) : Heap :=
  match parseObjs t.toList with
  | .ok os => ofObjs os
  | .error _ => []

def noEnv : Envs := { eval := fun _ => none, fmt := fun _ => none }

/-- the words of definition `d` -/
def wordsAt (h : Heap) (d : Nat) : Option (List Str) :=
  match h[d]? with
  | some (.defn _ ws _) => some (ws.map (·.value))
  | _ => none

/-- the document `w = a b (.type = words)`, `s { l = x y (.type = strings)  t = 1 }` -/
def docText : String := "w = a b\n  .type = words\ns {\n  l = x y\n    .type = strings\n  t = 1\n}\n"

/-- after extracting the root into an empty value heap -/
def extracted : Option Store :=
  match extractStore noEnv 10 ⟨heapOfText docText, []⟩ 0 with
  | .ok (s, _) => some s
  | .error _ => none

/-- **The exception.**  Object 1 of the value heap is the alias of the word list of PHIL object 1
    (`w`): `ex.w.append(word("Z"))` rewrites the PHIL definition (`w = a b Z`) — the hypothesis
    `SafeHist` of `detached` is sharp … -/
theorem words_list_is_handed_out :
    extracted.map (fun s => (s.vals.length, wordsAt s.phil 1,
      wordsAt (mutate s 1 (.append (.atom (.str "Z".toList)))).phil 1)) =
    some (5, some ["a".toList, "b".toList], some ["a".toList, "b".toList, "Z".toList]) := by
  decide +kernel

/-- … whereas the same append on the extracted `.type = strings` list (value object 3) leaves the PHIL
    heap as it was (instance of `mutations_leave_phil_heap`, here evaluated) -/
example :
    extracted.map (fun s => decide ((mutate s 3 (.append (.atom (.str "Z".toList)))).phil = s.phil)) =
    some true := by
  decide +kernel

/-- the hypotheses of `detached_without_words` hold on a concrete document without `.type = words` -/
example :
    (match extractT noEnv 10 (heapOfText "a = 1 2\ns {\n  l = x y\n    .type = strings\n}\n") 0 with
     | .ok t => t.noHandout
     | .error _ => false) = true := by
  decide +kernel

end Phil.C18Detach

#print axioms Phil.C18Detach.extract_frame
#print axioms Phil.C18Detach.mutations_leave_phil_heap
#print axioms Phil.C18Detach.detached
#print axioms Phil.C18Detach.mutations_keep_object_count
#print axioms Phil.C18Detach.detached_without_words
#print axioms Phil.C18Detach.reified_has_no_alias
#print axioms Phil.C18Detach.words_list_is_handed_out
