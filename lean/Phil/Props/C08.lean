/-
  C08 — fetch_diff is faithful and minimal.
    "`master.fetch_diff(source)` returns just the parameters whose value differs from the master's."

  Model: Phil/Fetch.lean with `diff = true`.  Lemmas and auxiliary definitions (`NoEmptyScope`,
  `stepG`, `fetchMatching`) are in Phil/Proofs/FetchLemmas.lean.

  Status: PARTIAL.  Proved here, for every master, all sources and all fuel: the *structural* part of
  minimality — a diff never contains an empty scope or a template object, at any depth, and a
  non-multiple master scope with nothing to report contributes nothing — together with the shape,
  order, disabled-objects and tracking theorems of C04/C06, which hold for both modes.  The
  value-level statements (every reported definition differs from the default under the canonical
  rendering; re-merging the diff restores the values) are checked by the harness; the idempotence
  counterexample of C07 (`.multiple` inside `.multiple`) applies to re-merging as well.
-/
import Phil.Proofs.FetchLemmas
set_option linter.unusedVariables false
namespace Phil.C08
open Phil

/-- **Empty scopes are dropped.**  In diff mode, the iteration of the master loop for a non-multiple
    master scope whose recursive diff has no children appends nothing to the result (the definitions
    consumed below it are still recorded). -/
theorem diff_drops_empty_scopes (e : Envs) (fuel : Nat) (sm : Meta) (mkids combined : List Obj)
    (st : List Obj × List Nat) (idx : Nat) (mm : Meta) (kids : List Obj) (ro : Obj) (u2 : List Nat)
    (hmult : isMultiple (.scope mm kids) = false)
    (hnd : (fetchMatching fuel sm combined (.scope mm kids)).find? (·.isDefn) = none)
    (hrec : fetchScope e fuel true mm kids
      ((fetchMatching fuel sm combined (.scope mm kids)).flatMap Obj.children) = .ok (ro, u2))
    (hempty : ro.children = []) :
    stepG (fetchScope e fuel) e fuel true sm mkids combined st (idx, .scope mm kids) =
      .ok (st.1, st.2 ++ u2) :=
  Phil.diff_drops_empty_scopes e fuel sm mkids combined st idx mm kids ro u2 hmult hnd hrec hempty

/-- … and a non-empty recursive diff is appended as it is. -/
theorem diff_keeps_nonempty_scopes (e : Envs) (fuel : Nat) (sm : Meta) (mkids combined : List Obj)
    (st : List Obj × List Nat) (idx : Nat) (mm : Meta) (kids : List Obj) (ro : Obj) (u2 : List Nat)
    (hmult : isMultiple (.scope mm kids) = false)
    (hnd : (fetchMatching fuel sm combined (.scope mm kids)).find? (·.isDefn) = none)
    (hrec : fetchScope e fuel true mm kids
      ((fetchMatching fuel sm combined (.scope mm kids)).flatMap Obj.children) = .ok (ro, u2))
    (hne : ro.children ≠ []) :
    stepG (fetchScope e fuel) e fuel true sm mkids combined st (idx, .scope mm kids) =
      .ok (st.1 ++ [ro], st.2 ++ u2) :=
  Phil.diff_keeps_nonempty_scopes e fuel sm mkids combined st idx mm kids ro u2 hmult hnd hrec hne

/-- **A diff contains no empty scope, at any depth** (multiple or not): every child of a diff result
    is a definition or a scope with at least one child, recursively.  In particular no template
    copy of a master object occurs in a diff. -/
theorem diff_no_empty_scopes (e : Envs) (fuel : Nat) (sm : Meta) (mkids combined : List Obj)
    (ro : Obj) (used : List Nat) (h : fetchScope e fuel true sm mkids combined = .ok (ro, used)) :
    ∀ k ∈ ro.children, NoEmptyScope k :=
  Phil.diff_no_empty_scopes e fuel sm mkids combined ro used h

/-- a diff has the master's structure, like every fetch (C04, deep form) -/
theorem diff_conforms (e : Envs) (fuel : Nat) (sm : Meta) (mkids combined : List Obj)
    (ro : Obj) (used : List Nat) (h : fetchScope e fuel true sm mkids combined = .ok (ro, used)) :
    ConfObj (.scope sm mkids) ro :=
  Phil.fetch_conforms e fuel true sm mkids combined ro used h

/-- splitting the sources does not change a diff (C05) -/
theorem diff_split_law (e : Envs) (master s1 s2 : List Obj) :
    fetchRoot e true master [s1 ++ s2] = fetchRoot e true master [s1, s2] :=
  Phil.split_law e true master s1 s2

/-! ### non-vacuity: concrete diffs -/

/-- `a = 1 .type=int ; s { b = x }` -/
def exMaster : List Obj :=
  [.defn { name := ['a'], id := some 1, attrs := [("type", .conv (.int {}))] } [{ value := ['1'] }],
   .scope { name := ['s'], id := some 2 }
     [.defn { name := ['b'], id := some 3 } [{ value := ['x'] }]]]

/-- names of the children and grandchildren of a result -/
def summary (r : R (Obj × List Nat)) : Option (List Str × List Str) :=
  match r with
  | .ok (o, _) => some (o.children.map Obj.name, (o.children.flatMap Obj.children).map Obj.name)
  | .error _ => none

/-- the self-diff is empty: with no sources nothing is reported, the scope `s` is dropped -/
example : summary (fetchRoot env12 true exMaster []) = some ([], []) := by decide +kernel

/-- `a = 2 ; a = 1 ; s.b = z` (last `a` equals the default): only `s { b }` is reported -/
example : summary (fetchRoot env12 true exMaster
    [[.defn { name := ['a'], id := some 11 } [{ value := ['2'] }],
      .defn { name := ['a'], id := some 12 } [{ value := ['1'] }],
      .scope { name := ['s'], id := some 14 } [.defn { name := ['b'], id := some 16 } [{ value := ['z'] }]]]])
    = some ([['s']], [['b']]) := by decide +kernel

/-- a source that only repeats the defaults gives the empty diff -/
example : summary (fetchRoot env12 true exMaster
    [[.defn { name := ['a'], id := some 11 } [{ value := ['1'] }],
      .scope { name := ['s'], id := some 14 } [.defn { name := ['b'], id := some 16 } [{ value := ['x'] }]]]])
    = some ([], []) := by decide +kernel

end Phil.C08
