/-
  C02 (closed form, flat documents, extended layout grammar) — the spellings named by the property
  that the grammar of Phil/Props/C02Layout.lean does not have are now *inside* the grammar:
    (a) backslash continuation lines,
    (b) quoted continuation lines (a quoted word on a later line continues the value),
    (c) regions switched off with `#phil __OFF__` … `#phil __ON__` wherever filler lines are allowed,
        and a document cut by `#phil __END__`,
    (d) newlines inside quoted words in every position the parser accepts them.
  The theorems say: whatever well-formed layout is chosen, `parse` succeeds and returns the same tree
  (names, word values, quote styles, order) with ids 1..n.

  Property theorems only; lemmas are in Phil/Proofs/Layout3.lean.

  ## The layout (definitions in Phil/Proofs/Layout3.lean; `FillLine`, `Terminator`, `inlineB`, `cmtSafe`
  as in Phil/Props/C02Layout.lean)

  * `Gap`             — what stands in front of a word: `bs : Option Str`, `ws : Str`;
                        text `ws`, or `b ++ "\\" ++ ws` when `bs = some b`.
  * `gapOK first same g w` (`first`: first word of the value; `same`: the previous word — or the name —
                        ended on the line on which it started):
                        `ws` is white space (any `str.isspace()` characters, newlines included) and
                        - no backslash: `ws` non-empty unless `first`; the word `w` is quoted (then `ws`
                          may contain newlines and blank lines: quoted continuation), or `same` holds and
                          `ws` has no newline;
                        - backslash: `b` inline blanks, non-empty unless `first`; `ws` non-empty (a
                          newline, but also `"  \n\n  "` or just `" "`); `same` holds (the backslash is an
                          unquoted word and must stand on the line on which the previous word started).
  * `gapsOK3 first same gaps ws` — one well-formed gap per word, `same` for the next word being
                        "this word contains no newline".
  * `OffRegion`       — `ind #phil b1 __OFF__ rest ⏎ body₁ ⏎ … bodyₙ ⏎ #phil junk b2 __ON__ b3 ⏎`:
                        `ind`, `b1`, `b2`, `b3` inline blanks (`b1`, `b2` non-empty); `rest` anything
                        without a newline that does not continue the word `__OFF__`; `junk` any characters
                        other than white space glued to the closing `#phil`; every body line `offLineOk`:
                        ANY text without a newline that does not start with `#phil` in column 0
                        (unbalanced quotes and braces, `;`, backslashes, indented `#phil __ON__` …), or
                        a line starting with `#phil` that is inert (`inertDirective`: after `#phil…` and
                        blanks comes a word that is neither `__ON__…` nor `__END__…`, or such a word
                        followed by more text on the line: `#phil __OFF__`, `#phil __ON__ x`).  Excluded:
                        the activating lines, and `#phil…` followed by blanks only (it continues on
                        the next line, see `on_split_over_lines_closes`).
  * `Pre3`            — filler in front of a name: `segs` (each: filler lines, then a region), `lines`,
                        `ind`.
  * `DocEnd`          — `eof`, or `cut b1 tail`: `#phil b1 __END__ tail` with ARBITRARY `tail` (it only
                        must not continue the word `__END__`).
  * `DefLayout3`      — `pre : Pre3`, `sp1`, `gaps : List Gap`, `term : Terminator`.
  * `termOK3`         — `eof` only on the last definition of an uncut text with nothing but blanks after
                        it; after `;` the next `#phil` directive must not stand on the same line (at
                        least one filler line in front of it).
  * `goodDef3 d`      — `goodName d.1`, at least one word, every word `goodWord` (quoted with any
                        content, or plain unquoted).
  * `wfDoc3 ds post e`, `render3 ds post e` — well-formedness (decidable) and the text.
-/
import Phil.Proofs.Layout3
import Phil.Props.C02Layout
set_option linter.unusedSimpArgs false
namespace Phil.C02
open Phil

/-- **C02, extended layout: the tree does not depend on the layout.**  `ds` pairs every definition
    `(name, words)` with a layout, `post` is the filler after the last definition, `e` says whether the
    text ends or is cut by `#phil __END__`.  For every well-formed choice `parse` of the rendered text
    succeeds; the tree is — up to ids and source lines — the abstract tree of the definitions alone,
    and the ids are `1, 2, …, n`.  Continuation lines (backslash, quoted), blank lines inside a
    continuation, multi-line quoted words, switched-off regions of any admissible content and
    whatever follows `#phil __END__` are invisible in the tree. -/
theorem layout3_independent (ds : List (DefSpec × DefLayout3)) (post : Pre3) (e : DocEnd)
    (h : wfDoc3 ds post e = true) :
    ∃ objs, parseObjs (render3 ds post e) = .ok objs ∧
      eraseList objs = eraseList (flatTree (ds.map Prod.fst)) ∧
      objs.map (fun x => x.meta.id) = (List.range' 1 ds.length).map some :=
  ⟨parsedLay3 1 1 ds, parseObjs_render3 ds post e h,
    by rw [parsedLay3_erase post e ds 1 1 h, erase_flatTree], parsedLay3_ids ds 1 1⟩

/-- **Two layouts, one tree** (extended grammar): two well-formed layouts of the same definitions
    parse to trees that are equal up to source lines, ids included. -/
theorem two_layouts3_same_tree (ds1 ds2 : List (DefSpec × DefLayout3)) (post1 post2 : Pre3)
    (e1 e2 : DocEnd) (hsame : ds1.map Prod.fst = ds2.map Prod.fst)
    (h1 : wfDoc3 ds1 post1 e1 = true) (h2 : wfDoc3 ds2 post2 e2 = true) :
    ∃ o1 o2, parseObjs (render3 ds1 post1 e1) = .ok o1 ∧ parseObjs (render3 ds2 post2 e2) = .ok o2 ∧
      eraseList o1 = eraseList o2 ∧
      o1.map (fun x => x.meta.id) = o2.map (fun x => x.meta.id) := by
  obtain ⟨o1, p1, e1', i1⟩ := layout3_independent ds1 post1 e1 h1
  obtain ⟨o2, p2, e2', i2⟩ := layout3_independent ds2 post2 e2 h2
  refine ⟨o1, o2, p1, p2, by rw [e1', e2', hsame], ?_⟩
  have hl : ds1.length = ds2.length := by
    have := congrArg List.length hsame
    simpa using this
  rw [i1, i2, hl]

/-- **What follows `#phil __END__` is ignored, whatever it is**: the parse result (ids and source
    lines included) is the same for every admissible tail, and the same as for the uncut text when
    that is well formed too. -/
theorem cut_tail_ignored (ds : List (DefSpec × DefLayout3)) (post : Pre3) (b1 t1 t2 : Str)
    (h1 : wfDoc3 ds post (.cut b1 t1) = true) (h2 : wfDoc3 ds post (.cut b1 t2) = true) :
    parseObjs (render3 ds post (.cut b1 t1)) = parseObjs (render3 ds post (.cut b1 t2)) := by
  rw [parseObjs_render3 ds post _ h1, parseObjs_render3 ds post _ h2]

theorem cut_same_as_end_of_text (ds : List (DefSpec × DefLayout3)) (post : Pre3) (b1 t : Str)
    (h1 : wfDoc3 ds post (.cut b1 t) = true) (h2 : wfDoc3 ds post .eof = true) :
    parseObjs (render3 ds post (.cut b1 t)) = parseObjs (render3 ds post .eof) := by
  rw [parseObjs_render3 ds post _ h1, parseObjs_render3 ds post _ h2]

/-- **The content of a switched-off region is invisible** — not only in the tree: two layouts that
    differ only in what stands between `#phil __OFF__` and `#phil __ON__` (same number of lines) give
    the same objects with the same ids and the same source lines.  (`parsedLay3` reads from a layout
    only the line counts `Pre3.nl`, the gaps and the terminators.) -/
theorem parse_result_closed_form (ds : List (DefSpec × DefLayout3)) (post : Pre3) (e : DocEnd)
    (h : wfDoc3 ds post e = true) : parseObjs (render3 ds post e) = .ok (parsedLay3 1 1 ds) :=
  parseObjs_render3 ds post e h

/-- **The extended grammar contains the old one**: every layout of Phil/Props/C02Layout.lean is a layout
    of the extended grammar with the same text, and its well-formedness carries over. -/
theorem old_layouts_embed (ds : List (DefSpec × DefLayout)) (post : Pre) (h : wfDoc ds post = true) :
    render3 (liftDoc ds) (liftPre post) .eof = render ds post ∧
      wfDoc3 (liftDoc ds) (liftPre post) .eof = true :=
  ⟨render3_lift ds post, wfDoc3_lift ds post h⟩

/-- **Every extended layout agrees with the canonical print** `name = w1 … wk⏎` (C01). -/
theorem same_as_canonical_text3 (ds : List (DefSpec × DefLayout3)) (post : Pre3) (e : DocEnd)
    (h : wfDoc3 ds post e = true) :
    ∃ o1 o2, parseObjs (render3 ds post e) = .ok o1 ∧ parseObjs (docText (ds.map Prod.fst)) = .ok o2 ∧
      eraseList o1 = eraseList o2 := by
  obtain ⟨o1, p1, e1, _⟩ := layout3_independent ds post e h
  have hgood : ∀ d ∈ ds.map Prod.fst, GoodDefn d := by
    intro d hd
    obtain ⟨x, hx, rfl⟩ := List.mem_map.mp hd
    obtain ⟨k, hk⟩ := List.getElem?_of_mem hx
    obtain ⟨hg, hw⟩ := wfDoc3_get post e ds k x.1 x.2 h hk
    obtain ⟨h1, h2, h3⟩ := goodDef3_facts hg
    simp only [wfDef3, Bool.and_eq_true] at hw
    exact ⟨h1, h2, h3, gapsOK3_chainOK x.1.2 x.2.gaps true true hw.1.2⟩
  refine ⟨o1, _, p1, parseObjs_docText _ hgood, ?_⟩
  rw [e1, erase_flatTree]
  have : ∀ (specs : List DefSpec) (l i : Nat), eraseList (parsedDefs l i specs) = treeOf specs := by
    intro specs
    induction specs with
    | nil => intro l i; simp [parsedDefs, treeOf, eraseList]
    | cons d ds ih =>
      intro l i
      simp only [parsedDefs, eraseList_cons, ih, treeOf, List.map_cons]
      simp [Obj.erase, reline_erase, Meta.erase]
  rw [this]

/-! ### the pieces, one by one (the value collector and the region scanner) -/

/-- **`collect_assigned_words` under continuation lines**: with the gaps of the extended grammar the
    words of a value come back with value, quote style and start line; see `relineG`. -/
theorem value_under_continuations (ws : List Word) (gaps : List Gap) (t : Terminator)
    (ls : List FillLine) (ind X : Str) (l : Nat) (lead : Word)
    (hne : ws ≠ []) (hgood : ∀ w ∈ ws, goodWord w = true)
    (hgaps : gapsOK3 true true gaps ws = true) (ht : t.wf = true) (hls : ls.all FillLine.wf = true)
    (hind : inlineB ind = true) (hX : StopHead X) (heof : t.isEof = true → ls = [] ∧ X = [])
    (hlead : lead.line = some l) (hbs : isUnq lead "\\" = false) :
    ∃ ci4, collectAssigned ⟨wordsLay3 gaps ws ++ (t.text ++ (linesStr ls ++ (ind ++ X))), l⟩ lead
        = .ok (relineG l gaps ws, ci4) :=
  let ⟨ci4, h, _⟩ := collectAssigned_layout3 ws gaps t ls ind X l lead hne hgood hgaps ht hls hind hX heof hlead hbs
  ⟨ci4, h⟩

/-- **`scan_for_start` over a switched-off region** (closed form): started right after the word
    `__OFF__` it answers 1 (`__ON__` found), stands at the first character after the closing line,
    and has advanced the line counter by the number of lines of the region. -/
theorem off_region_scan (r : OffRegion) (hwf : r.wf = true) (after : Str) (line : Nat) :
    scanForStart "#phil".toList ["__END__".toList, "__ON__".toList]
        ((r.afterOff ++ after).length + 1) (r.afterOff ++ after) line
      = (1, ⟨after, line + r.nl⟩) :=
  scanOff_region r hwf after line

/-! ### non-vacuity: the document of C02Layout in a layout that uses everything -/

/-- a region with unbalanced quote and brace, an empty line, an indented `#phil __ON__` (which does
    not close), closed by `#philxx⇥__ON__ ` -/
def exRegion3 : OffRegion :=
  { b1 := [' '], rest := " junk { \"".toList,
    body := ["b = '".toList, [], " #phil __ON__".toList, "}".toList],
    junk := "xx".toList, b2 := ['\t'], b3 := [' '] }

def exPreA3 : Pre3 :=
  { segs := [([⟨[], some " header".toList⟩], exRegion3)], lines := [⟨[], none⟩], ind := [' '] }
def exPreB3 : Pre3 := { segs := [([⟨[], none⟩], {})] }

/-- `a` with a backslash directly after `=`; `b_2` with a quoted continuation over a blank line and a
    backslash followed by a blank before the newline; `c` with its quoted words on later lines -/
def exCont3 : List (DefSpec × DefLayout3) :=
  [ (exSpecs[0]!, { pre := exPreA3, sp1 := [], gaps := [{ bs := some [], ws := "\n  ".toList }],
                    term := .semi [] }),
    (exSpecs[1]!, { pre := exPreB3,
                    gaps := [{ ws := [' '] }, { ws := "\n\n\t".toList },
                             { bs := some [' '], ws := " \n ".toList }],
                    term := .comment [' '] " done".toList }),
    (exSpecs[2]!, { gaps := [{ ws := ['\n'] }, { ws := "\r\n".toList }], term := .nl [] }) ]
def exPost3 : Pre3 := { lines := [⟨[], none⟩] }
def exEnd3 : DocEnd := .cut [' '] "\n}}} \" unbalanced".toList

example : render3 exCont3 exPost3 exEnd3 =
    ("# header\n#phil __OFF__ junk { \"\nb = '\n\n #phil __ON__\n}\n#philxx\t__ON__ \n\n a=\\\n  1;" ++
     "\n#phil __OFF__\n#phil __ON__\nb_2 = x*y\n\n\t\"p q\" \\ \n it's # done\n" ++
     "c =\n'''l1\nl2'''\r\n';#'\n\n#phil __END__\n}}} \" unbalanced").toList := by decide +kernel

theorem exCont3_wf : wfDoc3 exCont3 exPost3 exEnd3 = true := by decide +kernel

/-- the plain layout of C02Layout, embedded -/
def exPlain3 : List (DefSpec × DefLayout3) := liftDoc (exSpecs.map (fun d => (d, layPlain d.2.length)))
theorem exPlain3_wf : wfDoc3 exPlain3 {} .eof = true := by decide +kernel

/-- both layouts, through the theorem: same tree, same ids -/
example : ∃ o1 o2, parseObjs (render3 exCont3 exPost3 exEnd3) = .ok o1 ∧
    parseObjs (render3 exPlain3 {} .eof) = .ok o2 ∧
    eraseList o1 = eraseList o2 ∧ o1.map (fun x => x.meta.id) = o2.map (fun x => x.meta.id) :=
  two_layouts3_same_tree exCont3 exPlain3 exPost3 {} exEnd3 .eof (by decide +kernel) exCont3_wf exPlain3_wf

/-- satisfiability of `off_region_scan` / `value_under_continuations` hypotheses on the example -/
example : exRegion3.wf = true ∧ exRegion3.nl = 6 := by decide +kernel
example : gapsOK3 true true [{ ws := [' '] }, { ws := "\n\n\t".toList }, { bs := some [' '], ws := " \n ".toList }]
    exSpecs[1]!.2 = true := by decide +kernel

/-! ### sharp edges of the new constructs (kernel-checked on the model; each replayed on Python)

  `brief` is the decidable summary of Phil/Props/C02Layout.lean. -/

/-- positive: blanks between the backslash and the newline are fine (`Gap.ws` is any white space) -/
example : brief "a = 1 \\  \n 2\nb = 3" = .inr
    [some ("a".toList, some 1, some 1, [{ value := "1".toList, line := some 1 },
                                         { value := "2".toList, line := some 2 }]),
     some ("b".toList, some 2, some 3, [{ value := "3".toList, line := some 3 }])] := by decide +kernel

/-- positive: the "continuation" backslash need not be followed by a newline at all -/
example : brief "a = 1 \\ 2" = .inr
    [some ("a".toList, some 1, some 1, [{ value := "1".toList, line := some 1 },
                                         { value := "2".toList, line := some 1 }])] := by decide +kernel

/-- a backslash glued to the previous word is part of that word: the next line is not a continuation
    (`gapOK`: blanks in front of the backslash, non-empty unless first) -/
theorem backslash_glued_to_word_fails :
    brief "a = 1\\\n 2\nb = 3" = .inl (.runtime "improper_definition_name" (some 2)) := by decide +kernel

/-- a backslash glued to the next word is part of that word (`gapOK`: `ws` non-empty) -/
theorem backslash_glued_to_next_word :
    brief "a = 1 \\2\nb = 3" = .inr
    [some ("a".toList, some 1, some 1, [{ value := "1".toList, line := some 1 },
                                         { value := "\\2".toList, line := some 1 }]),
     some ("b".toList, some 2, some 2, [{ value := "3".toList, line := some 2 }])] := by decide +kernel

/-- a backslash after a quoted word that contains a newline does not continue (`gapOK`: `same`) -/
theorem backslash_after_multiline_fails :
    brief "a = \"x\ny\" \\\n 2\nb = 3" = .inl (.runtime "improper_definition_name" (some 2)) := by
  decide +kernel

/-- a second backslash directly after a continuation is taken as a word (`plainWord` excludes `\`) -/
theorem double_backslash_is_a_word :
    brief "a = 1 \\\n \\\n 2" = .inr
    [some ("a".toList, some 1, some 1, [{ value := "1".toList, line := some 1 },
        { value := "\\".toList, line := some 2 }, { value := "2".toList, line := some 3 }])] := by
  decide +kernel

/-- a comment line between the backslash and the continued word breaks the value (`Gap.ws` is white
    space only) -/
theorem comment_inside_continuation_fails :
    brief "a = 1 \\\n# c\n2\nb = 3" = .inl (.runtime "improper_definition_name" (some 3)) := by
  decide +kernel

/-- a `#phil` directive after a backslash is taken as two words of the value (a region is filler
    between definitions, not inside a value) -/
theorem directive_inside_continuation_is_words :
    brief "a = 1 \\\n#phil __OFF__\nb=2\n#phil __ON__\nc = 2" = .inr
    [some ("a".toList, some 1, some 1, [{ value := "1".toList, line := some 1 },
        { value := "#phil".toList, line := some 2 }, { value := "__OFF__".toList, line := some 2 }]),
     some ("b".toList, some 2, some 3, [{ value := "2".toList, line := some 3 }]),
     some ("c".toList, some 3, some 5, [{ value := "2".toList, line := some 5 }])] := by decide +kernel

/-- `#phil __OFF__` on the line of the previous definition (after `;`) is not a directive
    (`termOK3`: a filler line in front) … -/
theorem off_on_line_of_definition_fails :
    brief "a = 1; #phil __OFF__\nb=2\n#phil __ON__\nc = 2"
      = .inl (.runtime "improper_definition_name" (some 1)) := by decide +kernel

/-- … unless the value ended on a later line than the name (the test compares with the line of the
    *name*): `termOK3` is sufficient, not necessary -/
example : brief "a = \"x\ny\"; #phil __OFF__\nb=2\n#phil __ON__\nc = 2" = .inr
    [some ("a".toList, some 1, some 1, [{ value := "x\ny".toList, quote := some .d1, line := some 1 }]),
     some ("c".toList, some 2, some 5, [{ value := "2".toList, line := some 5 }])] := by decide +kernel

/-- the same for `#phil __END__` -/
theorem cut_on_line_of_definition_fails :
    brief "a = 1; #phil __END__\nb = 2" = .inl (.runtime "improper_definition_name" (some 1)) := by
  decide +kernel

/-- the opening `#phil __OFF__` may be indented, the closing `#phil __ON__` may NOT: an indented
    closing line is skipped and the rest of the text stays switched off, silently
    (`OffRegion.closing` starts in column 0; an indented one is an admissible *body* line) -/
theorem indented_on_does_not_close :
    brief "a = 1\n  #phil __OFF__\nb=2\n #phil __ON__\nc = 2" = .inr
    [some ("a".toList, some 1, some 1, [{ value := "1".toList, line := some 1 }])] := by decide +kernel

/-- `#phil __ON__ x` does not switch on (it is an admissible body line: `inertDirective`) … -/
theorem on_with_trailing_text_does_not_close :
    brief "a = 1\n#phil __OFF__\nb=2\n#phil __ON__ x\nc = 2\n#phil __ON__\nd=3" = .inr
    [some ("a".toList, some 1, some 1, [{ value := "1".toList, line := some 1 }]),
     some ("d".toList, some 2, some 7, [{ value := "3".toList, line := some 7 }])] := by decide +kernel

/-- … while `#phil`, blank lines, `__ON__` on a later line does: a body line `#phil…` followed by
    blanks only is outside `offLineOk` for this reason -/
theorem on_split_over_lines_closes :
    brief "a = 1\n#phil __OFF__\nb=2\n#phil\n\n__ON__\nd=3" = .inr
    [some ("a".toList, some 1, some 1, [{ value := "1".toList, line := some 1 }]),
     some ("d".toList, some 2, some 7, [{ value := "3".toList, line := some 7 }])] := by decide +kernel

/-- text glued to `__OFF__` / `__END__` makes an unknown directive (`stopsAt structSettings rest`) -/
theorem glued_directive_word_fails :
    brief "a = 1\n#phil __OFF__x\nb = 2\n#phil __ON__\nc = 3" = .inl (.runtime "unknown_phil" (some 2)) ∧
    brief "a = 1\n#phil __END__x\nb = 2" = .inl (.runtime "unknown_phil" (some 2)) ∧
    brief "a = 1\n#phil__OFF__\nb = 2" = .inl (.runtime "improper_definition_name" (some 2)) := by
  decide +kernel

/-- a region that is never closed, or is closed by `#phil __END__`, ends the document (outside the
    grammar: `OffRegion` has a closing `__ON__` line) -/
example : brief "a = 1\n#phil __OFF__\nb = 2" = .inr
    [some ("a".toList, some 1, some 1, [{ value := "1".toList, line := some 1 }])] ∧
    brief "a = 1\n#phil __OFF__\nb = 2\n#phil __END__\nc = 3\n#phil __ON__\nd = 4" = .inr
    [some ("a".toList, some 1, some 1, [{ value := "1".toList, line := some 1 }])] := by decide +kernel

/-- the class of switched-off lines -/
example : offLineOk " #phil __ON__".toList = true := by decide +kernel
example : offLineOk "b = ' \" { } ; \\".toList = true := by decide +kernel
example : offLineOk "#phil __ON__ x".toList = true := by decide +kernel
example : offLineOk "#phil __OFF__".toList = true := by decide +kernel
example : offLineOk "#philfoo\t__END__ {".toList = true := by decide +kernel
example : offLineOk "#phil __ON__  ".toList = false := by decide +kernel
example : offLineOk "#phil __END__".toList = false := by decide +kernel
example : offLineOk "#phil  ".toList = false := by decide +kernel
example : offLineOk "#philosophy".toList = false := by decide +kernel

end Phil.C02

#print axioms Phil.C02.layout3_independent
#print axioms Phil.C02.two_layouts3_same_tree
#print axioms Phil.C02.cut_tail_ignored
#print axioms Phil.C02.cut_same_as_end_of_text
#print axioms Phil.C02.parse_result_closed_form
#print axioms Phil.C02.old_layouts_embed
#print axioms Phil.C02.same_as_canonical_text3
#print axioms Phil.C02.value_under_continuations
#print axioms Phil.C02.off_region_scan
#print axioms Phil.C02.exCont3_wf
#print axioms Phil.C02.exPlain3_wf
#print axioms Phil.C02.backslash_glued_to_word_fails
#print axioms Phil.C02.backslash_glued_to_next_word
#print axioms Phil.C02.backslash_after_multiline_fails
#print axioms Phil.C02.double_backslash_is_a_word
#print axioms Phil.C02.comment_inside_continuation_fails
#print axioms Phil.C02.directive_inside_continuation_is_words
#print axioms Phil.C02.off_on_line_of_definition_fails
#print axioms Phil.C02.cut_on_line_of_definition_fails
#print axioms Phil.C02.indented_on_does_not_close
#print axioms Phil.C02.on_with_trailing_text_does_not_close
#print axioms Phil.C02.on_split_over_lines_closes
#print axioms Phil.C02.glued_directive_word_fails
