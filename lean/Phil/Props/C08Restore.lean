/-
  C08 (closed form on flat masters) — "fetch_diff is a faithful and minimal difference":
    for a master M and working parameters W = M.fetch(sources), D = M.fetch_diff(W) contains only
    parameters whose value differs from the master default; merging D back reproduces W; the
    difference of the master's own defaults is empty; the difference of a difference-restored W is
    D again.

  Model: Phil/Fetch.lean, `fetchScope … diff := true` (= `scope.fetch(diff=True)`, which is what
  `scope.fetch_diff` calls; `definition.fetch_diff` = the diff branch of `fetchDefn`).
  Lemmas: Phil/Proofs/DiffSpec.lean (on top of Phil/Proofs/FetchSpec.lean).

  Class covered (unbounded: every such master, every such source list, every fuel `f + 2`, every
  `Envs`): `DiffSetting e f sm mkids combined` —
    * master: `FlatMultiMaster` (root-level enabled definitions, `.multiple` or not, typed or not,
      pairwise distinct non-empty names, not `.deprecated`, not choices — the class of C05's list
      rule), fit for re-fetching (`RefetchOK`: not template-marked, `$`-free defaults), at the root;
    * sources: `$`-free definitions (`SrcOK`, `hasDollar … = false`);
    * `KeysDefined`: `extract_format` succeeds on every master definition and on the candidate of
      every matching source (kept abstract: `eval` and `"%.10g"` are parameters).
  Fuel: the diff branch of `definition.fetch` renders with the fuel of the loop iteration, which must
  be positive — hence `f + 2` (`fetchRoot` starts a flat master with fuel 4 = `diffFuel master + 2`).

  Results.
    1. `diff_closed_form`: the difference in closed form — per master definition `mo`
       (`diffBlockOf`): not `.multiple`: the candidate built from the LAST matching source iff its
       key differs from the key of `mo`, else nothing; `.multiple`: the survivors of the list rule
       (candidates with the key of `mo` dropped, of equal keys the last one kept, in the order of
       those last occurrences) WITHOUT the template copy of `mo`.
    2. `diff_minimal`: every definition of a difference has a key different from the key of its
       master definition.
    3. `self_diff_empty_nosrc`, `self_diff_empty`: no sources, or W₀ = M.fetch(): empty difference.
    4. `diff_of_working`: M.fetch_diff(M.fetch(S)) = M.fetch_diff(S) (children).
    5. `restore`: M.fetch(D) succeeds; its children `W'` are `restoredSet`, and correspond to `W`
       position by position (`RestoredAs`): `W'ᵢ = Wᵢ`, EXCEPT that a non-multiple working value
       whose key is the key of the master definition comes back as the master definition.
       Hence `restore_keys` (same meta data and same keys everywhere), `restore_exact` (`W' = W`
       as trees, template flags included, when no working value merely re-spells its default),
       `restore_values` (same extracted values PROVIDED a working value with the default's key
       has the default's value).
       Tree equality in general is FALSE: `restore_not_tree_equal` (`b = True .type=bool`,
       source `b = yes`: W says `yes`, W' says `True`; Python agrees).  Value equality in general
       is FALSE as well: `restore_values_fails_float` (`a = 0.5 .type=float`, source
       `a = 0.50000000000001`: both render as `0.5` under `"%.10g"`, D is empty, W' extracts 0.5
       but W extracts 0.50000000000001) — reproduced on the real code, see the comment there.
    5'. `restore_twice`: `W'` is a fixed point of M.fetch.
    6. `diff_restore_fixed_point`: M.fetch_diff(W') = D.
-/
import Phil.Proofs.DiffSpec
set_option linter.unusedVariables false
namespace Phil.C08
open Phil

variable {e : Envs} {f : Nat} {sm : Meta} {mkids combined : List Obj}

/-! ### 1. the difference in closed form -/

/-- the block of a non-multiple master definition in a difference: the candidate of the last
    enabled source definition of its name, unless its key is the key of the master definition -/
theorem diffBlockOf_plain (e : Envs) (fuel : Nat) (D : List Obj) (mo : Obj) (h : isMultiple mo = false) :
    diffBlockOf e fuel D mo =
      match (activeNamed mo.name D).getLast? with
      | none => []
      | some d =>
        if keyOf e fuel mo (candOfSrc mo d) == keyOf e fuel mo mo then [] else [candOfSrc mo d] :=
  diffBlockL_plain e fuel mo _ h

/-- the block of a `.multiple` master definition in a difference: the survivors of the list rule,
    no template -/
theorem diffBlockOf_multiple (e : Envs) (fuel : Nat) (D : List Obj) (mo : Obj) (h : isMultiple mo = true) :
    diffBlockOf e fuel D mo =
      (dedupKeepLast ((candsOf e fuel mo (activeNamed mo.name D)).filter
        (fun y => y.2 != keyOf e fuel mo mo))).map (·.1) := by
  unfold diffBlockOf diffBlockL survivorsOf; rw [h]; rfl

/-- … which is the non-diff block (C05's `multiBlock`) without its head, the template -/
theorem diffBlockOf_multiple_tail (e : Envs) (fuel : Nat) (D : List Obj) (mo : Obj) (h : isMultiple mo = true) :
    diffBlockOf e fuel D mo = (blockOf e fuel D mo).tail := by
  unfold diffBlockOf diffBlockL blockOf; rw [h]; simp only [if_true]; rw [multiBlock_eq_cons]; rfl

/-- **The difference in closed form.**  `master.fetch_diff(sources)` succeeds; its children are the
    concatenation, in master order, of `diffBlockOf` per master definition; every enabled source
    definition named like a master definition is consumed. -/
theorem diff_closed_form (e : Envs) (f : Nat) (sm : Meta) (mkids combined : List Obj)
    (hf : FlatMultiMaster mkids) (hsm : sm.name = []) (hsd : sm.disabled = false)
    (hdef : ∀ o ∈ combined, o.isDefn = true) (hsrc : ∀ o ∈ combined, SrcOK o)
    (hkeys : ∀ mo ∈ mkids, KeysDefined e (f + 1) mo (activeNamed mo.name combined)) :
    fetchScope e (f + 2) true sm mkids combined =
      .ok (.scope { sm with tmpl := 0 } (mkids.flatMap (diffBlockOf e (f + 1) combined)),
           flatUsed mkids combined) :=
  diff_flat_multi e f sm mkids combined hf hsm hsd hdef hsrc hkeys

/-- … with sources mixing root-level definitions and named scopes none of which bears a master name
    (the scopes are ignored) -/
theorem diff_closed_form_mixed (e : Envs) (f : Nat) (sm : Meta) (mkids combined : List Obj)
    (hf : FlatMultiMaster mkids) (hdot : ∀ mo ∈ mkids, '.' ∉ mo.name)
    (hsm : sm.name = []) (hsd : sm.disabled = false)
    (hmix : MixedSrc (mkids.map Obj.name) combined)
    (hsrc : ∀ o ∈ combined, o.isDefn = true → SrcOK o)
    (hkeys : ∀ mo ∈ mkids, KeysDefined e (f + 1) mo (activeNamed mo.name (defnsOf combined))) :
    fetchScope e (f + 2) true sm mkids combined =
      .ok (.scope { sm with tmpl := 0 } (mkids.flatMap (diffBlockOf e (f + 1) (defnsOf combined))),
           flatUsed mkids (defnsOf combined)) :=
  diff_flat_multi_mixed e f sm mkids combined hf hdot hsm hsd hmix hsrc hkeys

/-- **`master.fetch_diff(sources=…)`** — the same for the entry point on parsed roots -/
theorem fetchRoot_diff_closed_form (e : Envs) (master : List Obj) (ss : List (List Obj))
    (hf : FlatMultiMaster master)
    (hdef : ∀ o ∈ ss.flatten, o.isDefn = true) (hsrc : ∀ o ∈ ss.flatten, SrcOK o)
    (hkeys : ∀ mo ∈ master, KeysDefined e (diffFuel master + 1) mo (activeNamed mo.name ss.flatten)) :
    fetchRoot e true master ss =
      .ok (.scope { name := [], id := some 0 }
            (master.flatMap (diffBlockOf e (diffFuel master + 1) ss.flatten)),
           flatUsed master ss.flatten) := by
  rw [fetchRoot_eq_diffFuel]
  exact diff_flat_multi e _ _ master ss.flatten hf rfl rfl hdef hsrc hkeys

/-- in diff mode the iteration for a `.multiple` master definition (inside ANY master) appends the
    survivors only -/
theorem diff_multiple_step (F : FetchFn) (e : Envs) (f : Nat) (sm : Meta) (mkids combined : List Obj)
    (st : List Obj × List Nat) (idx : Nat) (mm : Meta) (mws : List Word) (k0 : Str)
    (cks : List (Obj × Str))
    (hmult : isMultiple (.defn mm mws) = true)
    (hfm : fromMasterOf mkids idx (.defn mm mws) = [])
    (hk0 : extractFormatStr e (f + 1 + 64) (.defn mm mws) (.defn mm mws) = .ok k0)
    (hl : Forall2 (fun ms ck => CandLink e (f + 1) (.defn mm mws) ms ck ∧ ∃ cm cws, ck.1 = .defn cm cws)
      (fetchMatching (f + 1) sm combined (.defn mm mws)) cks) :
    stepG F e (f + 1) true sm mkids combined st (idx, .defn mm mws) =
      .ok (st.1 ++ survivorsOf k0 cks,
           st.2 ++ (fetchMatching (f + 1) sm combined (.defn mm mws)).flatMap marksOf) :=
  diff_multi_step F e f sm mkids combined st idx mm mws k0 cks hmult hfm hk0 hl

/-! ### 2. minimality -/

/-- **Minimality.**  Every definition `o` of `master.fetch_diff(sources)` is the candidate built
    from an enabled source definition named like a master definition `mo`, and its key
    `mo.extract_format(source=o).as_str()` differs from `mo.extract_format().as_str()`. -/
theorem diff_minimal (e : Envs) (f : Nat) (sm : Meta) (mkids combined : List Obj)
    (hf : FlatMultiMaster mkids) (hsm : sm.name = []) (hsd : sm.disabled = false)
    (hdef : ∀ o ∈ combined, o.isDefn = true) (hsrc : ∀ o ∈ combined, SrcOK o)
    (hkeys : ∀ mo ∈ mkids, KeysDefined e (f + 1) mo (activeNamed mo.name combined))
    (rm : Meta) (D : List Obj) (used : List Nat)
    (h : fetchScope e (f + 2) true sm mkids combined = .ok (.scope rm D, used)) :
    ∀ o ∈ D, ∃ mo ∈ mkids, (∃ d ∈ activeNamed mo.name combined, o = candOfSrc mo d) ∧
      keyOf e (f + 1) mo o ≠ keyOf e (f + 1) mo mo :=
  Phil.diff_minimal e f sm mkids combined hf hsm hsd hdef hsrc hkeys rm D used h

/-- minimality for the difference of a working set (the statement of C08): every definition of
    `D = master.fetch_diff(W)`, `W = master.fetch(sources)`, has a key different from its master
    default's -/
theorem diff_of_working_minimal (S : DiffSetting e f sm mkids combined)
    (rm : Meta) (W : List Obj) (u : List Nat)
    (hW : fetchScope e (f + 2) false sm mkids combined = .ok (.scope rm W, u))
    (rd : Meta) (D : List Obj) (ud : List Nat)
    (hD : fetchScope e (f + 2) true sm mkids W = .ok (.scope rd D, ud)) :
    ∀ o ∈ D, ∃ mo ∈ mkids, o.name = mo.name ∧ keyOf e (f + 1) mo o ≠ keyOf e (f + 1) mo mo := by
  obtain ⟨ud', h⟩ := S.diff_of_working rm W u hW
  rw [h] at hD
  cases hD
  intro o ho
  obtain ⟨mo, hmo, ho'⟩ := List.mem_flatMap.mp ho
  obtain ⟨⟨d, _, rfl⟩, hk⟩ := mem_diffBlockL ho'
  exact ⟨mo, hmo, by cases mo <;> rfl, hk⟩

/-! ### 3. empty self-difference -/

/-- **No sources: empty difference** (nothing consumed). -/
theorem self_diff_empty_nosrc (e : Envs) (f : Nat) (sm : Meta) (mkids : List Obj)
    (hf : FlatMultiMaster mkids) (hsm : sm.name = []) (hsd : sm.disabled = false)
    (hk0 : ∀ mo ∈ mkids, ∃ k, extractFormatStr e (f + 1 + 64) mo mo = .ok k) :
    fetchScope e (f + 2) true sm mkids [] = .ok (.scope { sm with tmpl := 0 } [], []) :=
  Phil.self_diff_empty_nosrc e f sm mkids hf hsm hsd hk0

/-- **The difference of the master's own defaults is empty**: `W₀ = master.fetch()`,
    `master.fetch_diff(W₀)` has no children. -/
theorem self_diff_empty (e : Envs) (f : Nat) (sm : Meta) (mkids : List Obj)
    (hf : FlatMultiMaster mkids) (hr : RefetchOK mkids) (hsm : sm.name = []) (hsd : sm.disabled = false)
    (hk0 : ∀ mo ∈ mkids, ∃ k, extractFormatStr e (f + 1 + 64) mo mo = .ok k)
    (rm : Meta) (W0 : List Obj) (u : List Nat)
    (hW : fetchScope e (f + 2) false sm mkids [] = .ok (.scope rm W0, u)) :
    ∃ u', fetchScope e (f + 2) true sm mkids W0 = .ok (.scope rm [], u') :=
  Phil.self_diff_empty e f sm mkids hf hr hsm hsd hk0 rm W0 u hW

/-! ### 4. the difference of the working set is the difference of the sources -/

/-- **`master.fetch_diff(master.fetch(sources))` has the children of `master.fetch_diff(sources)`**
    (and never fails). -/
theorem diff_of_working (S : DiffSetting e f sm mkids combined)
    (rm : Meta) (W : List Obj) (u : List Nat)
    (hW : fetchScope e (f + 2) false sm mkids combined = .ok (.scope rm W, u)) :
    ∃ ud ud', fetchScope e (f + 2) true sm mkids W = .ok (.scope rm (diffSet e (f + 1) mkids combined), ud) ∧
      fetchScope e (f + 2) true sm mkids combined =
        .ok (.scope rm (diffSet e (f + 1) mkids combined), ud') := by
  obtain ⟨ud, h⟩ := S.diff_of_working rm W u hW
  have h2 := S.diff_sources
  rw [S.fetch_sources] at hW
  cases hW
  exact ⟨ud, _, h, h2⟩

/-! ### 5. restoring the working set from its difference -/

/-  Full-strength statement (FALSE, see `restore_not_tree_equal` below):
      … → ∃ u', fetchScope e (f + 2) false sm mkids D = .ok (.scope rm W, u')
    What is missing is exactly the second alternative of `RestoredAs`: a non-multiple working value
    that merely re-spells the default (`b = yes` for the default `b = True`, `a = 4/2` for `a = 2`,
    `c = "x"` for `c = x`) is not reported by the difference and comes back in the master's
    spelling.  `restore_exact` is the full-strength statement under the hypothesis that excludes
    this. -/

/-- **Restore.**  Let `W = master.fetch(sources)` and `D = master.fetch_diff(W)`.  Then
    `master.fetch(D)` succeeds; its children `W'` are `restoredSet`; `W'` has the length of `W` and
    at every position `W'ᵢ = Wᵢ`, except that where `Wᵢ` is the working value of a non-multiple
    master definition `mo` with the key of `mo`, `W'ᵢ = mo`.  (`.multiple` blocks — template flag,
    instances, their order — are reproduced exactly.) -/
theorem restore (S : DiffSetting e f sm mkids combined)
    (rm : Meta) (W : List Obj) (u : List Nat)
    (hW : fetchScope e (f + 2) false sm mkids combined = .ok (.scope rm W, u))
    (rd : Meta) (D : List Obj) (ud : List Nat)
    (hD : fetchScope e (f + 2) true sm mkids W = .ok (.scope rd D, ud)) :
    ∃ W' u', fetchScope e (f + 2) false sm mkids D = .ok (.scope rm W', u') ∧
      W' = restoredSet e (f + 1) mkids combined ∧
      Forall2 (fun o o' => ∃ mo ∈ mkids, ResObj mo o ∧ RestoredAs e (f + 1) mo o o') W W' :=
  S.restore rm W u hW rd D ud hD

/-- `RestoredAs` spelled out -/
theorem restoredAs_iff (e : Envs) (fuel : Nat) (mo o o' : Obj) :
    RestoredAs e fuel mo o o' ↔
      (o' = o ∨ (isMultiple mo = false ∧ o.meta = mo.meta ∧
        keyOf e fuel mo o = keyOf e fuel mo mo ∧ o' = mo)) := Iff.rfl

/-- **Restore, keys.**  `W'` and `W` agree position by position on the meta data (name,
    attributes, template flag, …) and on the key `mo.extract_format(source=·).as_str()`. -/
theorem restore_keys (S : DiffSetting e f sm mkids combined)
    (rm : Meta) (W : List Obj) (u : List Nat)
    (hW : fetchScope e (f + 2) false sm mkids combined = .ok (.scope rm W, u))
    (rd : Meta) (D : List Obj) (ud : List Nat)
    (hD : fetchScope e (f + 2) true sm mkids W = .ok (.scope rd D, ud)) :
    ∃ W' u', fetchScope e (f + 2) false sm mkids D = .ok (.scope rm W', u') ∧
      Forall2 (fun o o' => ∃ mo ∈ mkids, o.name = mo.name ∧ SameKey e (f + 1) mo o o') W W' := by
  obtain ⟨W', u', h1, _, h3⟩ := S.restore rm W u hW rd D ud hD
  exact ⟨W', u', h1, h3.imp (fun o o' ⟨mo, hmo, hres, hr⟩ => ⟨mo, hmo, hres.name, hr.sameKey⟩)⟩

/-- **Restore, exactly.**  If no working value merely re-spells its default (`NoRedundant`: a
    non-multiple working value with the key of its master definition IS the master definition),
    merging the difference back gives `W` itself — the same tree, template flags included. -/
theorem restore_exact (S : DiffSetting e f sm mkids combined)
    (hnr : NoRedundant e (f + 1) mkids combined)
    (rm : Meta) (W : List Obj) (u : List Nat)
    (hW : fetchScope e (f + 2) false sm mkids combined = .ok (.scope rm W, u))
    (rd : Meta) (D : List Obj) (ud : List Nat)
    (hD : fetchScope e (f + 2) true sm mkids W = .ok (.scope rd D, ud)) :
    ∃ u', fetchScope e (f + 2) false sm mkids D = .ok (.scope rm W, u') := by
  obtain ⟨W', u', h1, h2, _⟩ := S.restore rm W u hW rd D ud hD
  rw [S.fetch_sources] at hW
  cases hW
  rw [h2, S.restored_eq hnr] at h1
  exact ⟨u', h1⟩

/-- **Restore, values.**  If a non-multiple working value that has the key of its master definition
    also has its VALUE (true for bool/int/str/… values; false for floats that agree with the
    default to 10 significant digits only — `restore_values_fails_float`), then `W'` and `W`
    extract to the same Python values, whatever the enclosing scope and the fuel. -/
theorem restore_values (S : DiffSetting e f sm mkids combined)
    (rm : Meta) (W : List Obj) (u : List Nat)
    (hW : fetchScope e (f + 2) false sm mkids combined = .ok (.scope rm W, u))
    (hfaith : ∀ mo ∈ mkids, ∀ o ∈ W, o.name = mo.name → isMultiple mo = false →
      keyOf e (f + 1) mo o = keyOf e (f + 1) mo mo → extractObj e 1 o = extractObj e 1 mo)
    (rd : Meta) (D : List Obj) (ud : List Nat)
    (hD : fetchScope e (f + 2) true sm mkids W = .ok (.scope rd D, ud))
    (rw' : Meta) (W' : List Obj) (u' : List Nat)
    (hW' : fetchScope e (f + 2) false sm mkids D = .ok (.scope rw' W', u'))
    (m : Meta) (n : Nat) :
    extractObj e n (.scope m W') = extractObj e n (.scope m W) := by
  obtain ⟨W'', u'', h1, h2, _⟩ := S.restore rm W u hW rd D ud hD
  rw [h1] at hW'
  cases hW'
  rw [S.fetch_sources] at hW
  cases hW
  rw [h2]
  exact S.restored_values hfaith m n

/-- **Restoring twice**: `W'` is a fixed point of `master.fetch`. -/
theorem restore_twice (S : DiffSetting e f sm mkids combined) :
    ∃ u, fetchScope e (f + 2) false sm mkids (restoredSet e (f + 1) mkids combined) =
      .ok (.scope { sm with tmpl := 0 } (restoredSet e (f + 1) mkids combined), u) :=
  ⟨_, S.fetch_restoredSet⟩

/-! ### 6. the difference of the restored working set -/

/-- **The difference of a difference-restored `W` is `D` again**: with `W = master.fetch(sources)`,
    `D = master.fetch_diff(W)`, `W' = master.fetch(D)`: `master.fetch_diff(W')` succeeds and is `D`
    (same scope, same children). -/
theorem diff_restore_fixed_point (S : DiffSetting e f sm mkids combined)
    (rm : Meta) (W : List Obj) (u : List Nat)
    (hW : fetchScope e (f + 2) false sm mkids combined = .ok (.scope rm W, u))
    (rd : Meta) (D : List Obj) (ud : List Nat)
    (hD : fetchScope e (f + 2) true sm mkids W = .ok (.scope rd D, ud))
    (rw' : Meta) (W' : List Obj) (u' : List Nat)
    (hW' : fetchScope e (f + 2) false sm mkids D = .ok (.scope rw' W', u')) :
    ∃ ud', fetchScope e (f + 2) true sm mkids W' = .ok (.scope rd D, ud') :=
  S.diff_restore_fixed_point rm W u hW rd D ud hD rw' W' u' hW'

/-- the same chain for the entry point `fetchRoot` (`master.fetch(sources=…)`, `master.fetch_diff`) -/
theorem fetchRoot_restore_chain (e : Envs) (master : List Obj) (ss : List (List Obj))
    (S : DiffSetting e (diffFuel master) { name := [], id := some 0 } master ss.flatten) :
    ∃ u ud u' ud',
      fetchRoot e false master ss =
        .ok (.scope { name := [], id := some 0 } (workingSet e (diffFuel master + 1) master ss.flatten), u) ∧
      fetchRoot e true master [workingSet e (diffFuel master + 1) master ss.flatten] =
        .ok (.scope { name := [], id := some 0 } (diffSet e (diffFuel master + 1) master ss.flatten), ud) ∧
      fetchRoot e false master [diffSet e (diffFuel master + 1) master ss.flatten] =
        .ok (.scope { name := [], id := some 0 } (restoredSet e (diffFuel master + 1) master ss.flatten), u') ∧
      fetchRoot e true master [restoredSet e (diffFuel master + 1) master ss.flatten] =
        .ok (.scope { name := [], id := some 0 } (diffSet e (diffFuel master + 1) master ss.flatten), ud') := by
  have hfl : ∀ l : List Obj, ([l] : List (List Obj)).flatten = l := by intro l; simp
  refine ⟨flatUsed master ss.flatten,
    flatUsed master (workingSet e (diffFuel master + 1) master ss.flatten),
    flatUsed master (diffSet e (diffFuel master + 1) master ss.flatten),
    flatUsed master (restoredSet e (diffFuel master + 1) master ss.flatten), ?_, ?_, ?_, ?_⟩
  · rw [fetchRoot_eq_diffFuel]; exact S.fetch_sources
  · rw [fetchRoot_eq_diffFuel, hfl]; exact S.diff_working
  · rw [fetchRoot_eq_diffFuel, hfl]; exact S.fetch_diffSet
  · rw [fetchRoot_eq_diffFuel, hfl]; exact S.diff_restoredSet

/-! ### non-vacuity: an instance -/

/-- `d = x .multiple=True ; n = 1 .type=int .multiple=True .optional=False ; c = y ;
    b = True .type=bool` -/
def exM : List Obj :=
  [.defn { name := ['d'], id := some 1, attrs := [("multiple", .bool true)] } [{ value := ['x'] }],
   .defn { name := ['n'], id := some 2,
           attrs := [("type", .conv (.int {})), ("multiple", .bool true), ("optional", .bool false)] }
     [{ value := ['1'] }],
   .defn { name := ['c'], id := some 3 } [{ value := ['y'] }],
   .defn { name := ['b'], id := some 4, attrs := [("type", .conv .bool)] } [{ value := "True".toList }]]

def sd (n : Char) (i : Nat) (v : String) : Obj := .defn { name := [n], id := some i } [{ value := v.toList }]

/-- `d=p d=q n=2 d=p d=x c=z d=r n=1 d=q n=2 b=no b=yes` -/
def exS : List Obj :=
  [sd 'd' 11 "p", sd 'd' 12 "q", sd 'n' 13 "2", sd 'd' 14 "p", sd 'd' 15 "x", sd 'c' 16 "z",
   sd 'd' 17 "r", sd 'n' 18 "1", sd 'd' 19 "q", sd 'n' 20 "2", sd 'b' 21 "no", sd 'b' 22 "yes"]

theorem exM_flat : FlatMultiMaster exM := by
  constructor
  · intro mo hmo
    simp only [exM, List.mem_cons, List.not_mem_nil, or_false] at hmo
    rcases hmo with rfl | rfl | rfl | rfl <;>
      exact ⟨_, _, rfl, ⟨by decide, by intro b; cases b <;> decide⟩, by decide, rfl⟩
  · decide

theorem exM_refetchOK : RefetchOK exM := by
  intro mo hmo
  simp only [exM, List.mem_cons, List.not_mem_nil, or_false] at hmo
  rcases hmo with rfl | rfl | rfl | rfl <;> exact ⟨rfl, rfl, by decide⟩

theorem exS_all (P : Obj → Prop) (h : ∀ n i v, P (sd n i v)) : ∀ o ∈ exS, P o := by
  intro o ho
  simp only [exS, List.mem_cons, List.not_mem_nil, or_false] at ho
  rcases ho with rfl | rfl | rfl | rfl | rfl | rfl | rfl | rfl | rfl | rfl | rfl | rfl <;> exact h _ _ _

theorem exKeys (fuel : Nat) (hB : (exM.all (fun mo => keysDefinedB env12 fuel mo (activeNamed mo.name exS))) = true) :
    ∀ mo ∈ exM, KeysDefined env12 fuel mo (activeNamed mo.name exS) := by
  intro mo hmo
  exact keysDefined_of_B (List.all_eq_true.mp hB mo hmo)

/-- the instance is in the class -/
theorem exSetting : DiffSetting env12 (diffFuel exM) { name := [], id := some 0 } exM exS where
  flat := exM_flat
  refetch := exM_refetchOK
  root := rfl
  enabled := rfl
  defn := exS_all _ (fun _ _ _ => rfl)
  srcOK := by
    intro o ho
    simp only [exS, List.mem_cons, List.not_mem_nil, or_false] at ho
    rcases ho with rfl | rfl | rfl | rfl | rfl | rfl | rfl | rfl | rfl | rfl | rfl | rfl <;>
      exact .inr ⟨rfl, by decide⟩
  noDollar := by
    intro o ho
    simp only [exS, List.mem_cons, List.not_mem_nil, or_false] at ho
    rcases ho with rfl | rfl | rfl | rfl | rfl | rfl | rfl | rfl | rfl | rfl | rfl | rfl <;> decide
  keys := exKeys _ (by decide +kernel)

def view (l : List Obj) : List (Str × Int × List Str) :=
  l.map (fun k => (k.name, k.meta.tmpl, k.words.map Word.value))

/-- the working set the closed forms predict: `b = yes` (the last `b`) … -/
example : view (workingSet env12 (diffFuel exM + 1) exM exS) =
    [(['d'], -1, [['x']]), (['d'], 0, [['p']]), (['d'], 0, [['r']]), (['d'], 0, [['q']]),
     (['n'], 0, [['1']]), (['n'], 0, [['2']]), (['c'], 0, [['z']]), (['b'], 0, ["yes".toList])] := by
  decide +kernel

/-- … the difference: no templates, no `b` (`yes` has the key of `True`), no `n = 1`, no `d = x` … -/
example : view (diffSet env12 (diffFuel exM + 1) exM exS) =
    [(['d'], 0, [['p']]), (['d'], 0, [['r']]), (['d'], 0, [['q']]), (['n'], 0, [['2']]), (['c'], 0, [['z']])] := by
  decide +kernel

/-- … and the restored working set: `W` except for `b = True` -/
example : view (restoredSet env12 (diffFuel exM + 1) exM exS) =
    [(['d'], -1, [['x']]), (['d'], 0, [['p']]), (['d'], 0, [['r']]), (['d'], 0, [['q']]),
     (['n'], 0, [['1']]), (['n'], 0, [['2']]), (['c'], 0, [['z']]), (['b'], 0, ["True".toList])] := by
  decide +kernel

/-- the theorems apply: the four fetches of the chain succeed with these children -/
example : ∃ u ud u' ud',
    fetchRoot env12 false exM [exS] =
      .ok (.scope { name := [], id := some 0 } (workingSet env12 (diffFuel exM + 1) exM exS), u) ∧
    fetchRoot env12 true exM [workingSet env12 (diffFuel exM + 1) exM exS] =
      .ok (.scope { name := [], id := some 0 } (diffSet env12 (diffFuel exM + 1) exM exS), ud) ∧
    fetchRoot env12 false exM [diffSet env12 (diffFuel exM + 1) exM exS] =
      .ok (.scope { name := [], id := some 0 } (restoredSet env12 (diffFuel exM + 1) exM exS), u') ∧
    fetchRoot env12 true exM [restoredSet env12 (diffFuel exM + 1) exM exS] =
      .ok (.scope { name := [], id := some 0 } (diffSet env12 (diffFuel exM + 1) exM exS), ud') := by
  have hfl : ([exS] : List (List Obj)).flatten = exS := by simp
  have h := fetchRoot_restore_chain env12 exM [exS] (by rw [hfl]; exact exSetting)
  rw [hfl] at h
  exact h

/-- children of a result -/
def kidsOf (r : R (Obj × List Nat)) : Option (List Obj) :=
  match r with | .ok (o, _) => some o.children | .error _ => none

/-- the chain evaluated on the model's `fetchRoot` directly (not through the theorems) -/
def chain (e : Envs) (master source : List Obj) : Option (List Obj × List Obj × List Obj × List Obj) :=
  match kidsOf (fetchRoot e false master [source]) with
  | none => none
  | some W =>
    match kidsOf (fetchRoot e true master [W]) with
    | none => none
    | some D =>
      match kidsOf (fetchRoot e false master [D]) with
      | none => none
      | some W' =>
        match kidsOf (fetchRoot e true master [W']) with
        | none => none
        | some D' => some (W, D, W', D')

/-- the listings `[W, D, W', D']` of a chain -/
def chainViews (e : Envs) (master source : List Obj) : Option (List (List (Str × Int × List Str))) :=
  (chain e master source).map (fun c => [view c.1, view c.2.1, view c.2.2.1, view c.2.2.2])

/-- independent check by evaluation (Python gives the same four listings `[W, D, W', D']`) -/
example : chainViews env12 exM exS =
    some [[(['d'], -1, [['x']]), (['d'], 0, [['p']]), (['d'], 0, [['r']]), (['d'], 0, [['q']]),
           (['n'], 0, [['1']]), (['n'], 0, [['2']]), (['c'], 0, [['z']]), (['b'], 0, ["yes".toList])],
          [(['d'], 0, [['p']]), (['d'], 0, [['r']]), (['d'], 0, [['q']]), (['n'], 0, [['2']]), (['c'], 0, [['z']])],
          [(['d'], -1, [['x']]), (['d'], 0, [['p']]), (['d'], 0, [['r']]), (['d'], 0, [['q']]),
           (['n'], 0, [['1']]), (['n'], 0, [['2']]), (['c'], 0, [['z']]), (['b'], 0, ["True".toList])],
          [(['d'], 0, [['p']]), (['d'], 0, [['r']]), (['d'], 0, [['q']]), (['n'], 0, [['2']]), (['c'], 0, [['z']])]] := by
  decide +kernel

/-- the self-difference of the instance's master is empty -/
example : (kidsOf (fetchRoot env12 true exM [])).map view = some [] := by decide +kernel
example : ((kidsOf (fetchRoot env12 false exM [])).bind (fun W0 => kidsOf (fetchRoot env12 true exM [W0]))).map view
    = some [] := by decide +kernel

/-! ### counterexamples to the stronger statements (kernel-evaluated) -/

/-- `b = True .type=bool` -/
def boolM : List Obj :=
  [.defn { name := ['b'], id := some 1, attrs := [("type", .conv .bool)] } [{ value := "True".toList }]]
/-- `b = yes` -/
def boolS : List Obj := [.defn { name := ['b'], id := some 11 } [{ value := "yes".toList }]]

/-- **Tree equality `W' = W` fails**: master `b = True .type=bool`, source `b = yes`.  `W` is
    `b = yes`, the difference is empty (both render as `b = True`), `W'` is `b = True`.
    (Python: `M.fetch(S).as_str() = 'b = yes\n'`, `M.fetch_diff(W).as_str() = ''`,
    `M.fetch(D).as_str() = 'b = True\n'`.)  The extracted values agree (`True`). -/
theorem restore_not_tree_equal :
    chainViews envNone boolM boolS =
      some [[(['b'], 0, ["yes".toList])], [], [(['b'], 0, ["True".toList])], []] := by
  decide +kernel

/-- an environment that knows the floats `0.5` and `0.50000000000001` (exact binary ratios as
    `float.as_integer_ratio()` gives them) and their common rendering `"%.10g" % x = '0.5'` -/
def envHalf : Envs :=
  { eval := fun s =>
      if s == "0.5".toList then some (.num (.flt 1 2))
      else if s == "0.50000000000001".toList then some (.num (.flt 2251799813685293 4503599627370496))
      else none,
    fmt := fun n => match n with
      | .flt 1 2 => some "0.5".toList
      | .flt 2251799813685293 4503599627370496 => some "0.5".toList
      | _ => none }

/-- `a = 0.5 .type=float` -/
def floatM : List Obj :=
  [.defn { name := ['a'], id := some 1, attrs := [("type", .conv (.float {}))] } [{ value := "0.5".toList }]]
/-- `a = 0.50000000000001` -/
def floatS : List Obj := [.defn { name := ['a'], id := some 11 } [{ value := "0.50000000000001".toList }]]

/-- the number stored in the only field of an extracted scope -/
def onlyNum (r : R PVal) : Option PNum :=
  match r with
  | .ok (.record [(_, .num n)]) => some n
  | _ => none

/-- **Value equality fails for floats** (a genuine violation of C08's "merging D back reproduces W's
    extracted values exactly"): master `a = 0.5 .type=float`, source `a = 0.50000000000001`.  Both
    values render as `0.5` under `"%.10g"`, so `fetch_diff` reports nothing; merging the empty
    difference back gives the default 0.5, whereas `W` extracts 0.50000000000001.
    Python (unchanged tree):
      M = parse("a = 0.5\n  .type = float\n"); S = parse("a = 0.50000000000001\n")
      W = M.fetch(source=S); D = M.fetch_diff(source=W); W2 = M.fetch(source=D)
      W.as_str() == 'a = 0.50000000000001\n'; D.as_str() == ''; W2.as_str() == 'a = 0.5\n'
      W.extract().a == 0.50000000000001; W2.extract().a == 0.5 -/
theorem restore_values_fails_float :
    chainViews envHalf floatM floatS =
      some [[(['a'], 0, ["0.50000000000001".toList])], [], [(['a'], 0, ["0.5".toList])], []] ∧
    (chain envHalf floatM floatS).bind (fun c => onlyNum (extractObj envHalf 3 (.scope { name := [] } c.1))) =
      some (.flt 2251799813685293 4503599627370496) ∧
    (chain envHalf floatM floatS).bind (fun c => onlyNum (extractObj envHalf 3 (.scope { name := [] } c.2.2.1))) =
      some (.flt 1 2) := by
  decide +kernel

end Phil.C08
