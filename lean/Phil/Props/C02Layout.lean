/-
  C02 (closed form for flat documents) — all surface spellings of one abstract tree parse to that
  same tree.  A flat document is a list of definitions `name = w1 … wk` (no scopes, no attributes).
  Its *layout* is data: for every definition the filler in front of the name (blank lines, whole-line
  `#` comments, indentation), the blanks between name and `=`, the blanks in front of every word, and
  the way the definition ends (newline, `;`, trailing `# comment`, end of the text).  `render` turns
  definitions + layout into text.  The theorems say: whatever well-formed layout is chosen, `parse`
  succeeds and returns the same tree — names, word values, quote styles, order — with ids 1..n.

  Property theorems only; lemmas are in Phil/Proofs/Layout.lean.

  ## The layout (definitions in Phil/Proofs/Layout.lean)

  * `inlineB sp`      — every character of `sp` is white space (`str.isspace()`) other than the newline
                        (blank, tab, `\r`, form feed, no-break space, …).
  * `FillLine`        — `ind : Str`, `cmt : Option Str`; text `ind ++ ('#' ++ cmt)? ++ "\n"`;
                        well formed: `inlineB ind` and `cmtSafe cmt` for a comment line.
  * `cmtSafe c`       — no newline in `c`; `c` does not start with `phil`; and if the `#` stands alone
                        (`c` empty or starting with white space or one of `{ } ;`) then `commentOk false
                        true c`: no word of the comment starts with a quote character and its last word
                        is not a lone backslash.  (`#text` directly after the `#` may contain anything.)
  * `Pre`             — `lines : List FillLine`, `ind : Str` (blanks on the line of the name).
  * `Terminator`      — `nl tb` (`tb ++ "\n"`), `semi sb` (`sb ++ ";"`), `comment sb cmt`
                        (`sb ++ "#" ++ cmt ++ "\n"`, `sb` non-empty, `#` stand-alone, `commentOk`), `eof`.
  * `DefLayout`       — `pre : Pre`, `sp1 : Str` (between name and `=`, may be empty),
                        `gaps : List Str` (in front of each word; the first may be empty), `term`.
  * `wfDef d L`       — `L.pre.wf`, `inlineB L.sp1`, `gapsOK true L.gaps d.2` (one gap per word, all
                        `inlineB`, all but the first non-empty), `L.term.wf`.
  * `goodDef d`       — `goodName d.1`, at least one word, every word `goodWord` (quoted with ANY
                        content — also newlines — or a plain unquoted word), `chainOK true d.2` (an
                        unquoted word does not follow a quoted word that contains a newline).
  * `wfDoc ds post`   — every `goodDef`/`wfDef`; `eof` only on the last definition and then `post` has
                        no lines; `post.wf`.
  * `render ds post`  — the text.
-/
import Phil.Proofs.Layout
set_option linter.unusedSimpArgs false
namespace Phil.C02
open Phil

/-- the abstract tree of a flat document: one definition per `(name, words)`, no ids, no lines -/
def flatTree (specs : List DefSpec) : List Obj := specs.map (fun d => .defn { name := d.1 } d.2)

theorem erase_flatTree (specs : List DefSpec) : eraseList (flatTree specs) = treeOf specs := by
  induction specs with
  | nil => simp [flatTree, treeOf, eraseList]
  | cons d ds ih =>
    simp only [flatTree, treeOf, List.map_cons, eraseList_cons] at ih ⊢
    rw [ih]
    simp [Obj.erase, Meta.erase]

/-- **C02, flat documents: the tree does not depend on the layout.**
    `ds` pairs every definition `(name, words)` with a layout, `post` is the filler after the last
    definition, `wfDoc ds post` is the (decidable) well-formedness of the whole.  Then `parse` of the
    rendered text succeeds, the tree it returns is — up to ids and source lines (`eraseList`) — the
    abstract tree of the definitions alone (names, word values, quote styles, order; enabled, no
    attributes), and the ids are `1, 2, …, n` in document order.  Nothing of the layout (blank lines,
    comment lines, indentation, blanks around `=` and between words, the choice of newline / `;` /
    trailing comment / end of text) is visible in the tree. -/
theorem layout_independent (ds : List (DefSpec × DefLayout)) (post : Pre)
    (h : wfDoc ds post = true) :
    ∃ objs, parseObjs (render ds post) = .ok objs ∧
      eraseList objs = eraseList (flatTree (ds.map Prod.fst)) ∧
      objs.map (fun x => x.meta.id) = (List.range' 1 ds.length).map some :=
  ⟨parsedLay 1 1 ds, parseObjs_render ds post h,
    by rw [parsedLay_erase, erase_flatTree], parsedLay_ids ds 1 1⟩

/-- **Two layouts, one tree.**  Two well-formed layouts of the same list of definitions parse to
    trees that are equal up to ids and source lines — and the ids are equal too. -/
theorem two_layouts_same_tree (ds1 ds2 : List (DefSpec × DefLayout)) (post1 post2 : Pre)
    (hsame : ds1.map Prod.fst = ds2.map Prod.fst)
    (h1 : wfDoc ds1 post1 = true) (h2 : wfDoc ds2 post2 = true) :
    ∃ o1 o2, parseObjs (render ds1 post1) = .ok o1 ∧ parseObjs (render ds2 post2) = .ok o2 ∧
      eraseList o1 = eraseList o2 ∧
      o1.map (fun x => x.meta.id) = o2.map (fun x => x.meta.id) := by
  obtain ⟨o1, p1, e1, i1⟩ := layout_independent ds1 post1 h1
  obtain ⟨o2, p2, e2, i2⟩ := layout_independent ds2 post2 h2
  refine ⟨o1, o2, p1, p2, by rw [e1, e2, hsame], ?_⟩
  have hl : ds1.length = ds2.length := by
    have := congrArg List.length hsame
    simpa using this
  rw [i1, i2, hl]

/-- **Every layout agrees with the canonical print.**  The tree of any well-formed layout is the tree
    `parse` returns for the canonical text `name = w1 … wk⏎` per definition (what `definition.show`
    prints when nothing is wrapped, C01). -/
theorem same_as_canonical_text (ds : List (DefSpec × DefLayout)) (post : Pre)
    (h : wfDoc ds post = true) :
    ∃ o1 o2, parseObjs (render ds post) = .ok o1 ∧ parseObjs (docText (ds.map Prod.fst)) = .ok o2 ∧
      eraseList o1 = eraseList o2 := by
  obtain ⟨o1, p1, e1, _⟩ := layout_independent ds post h
  have hgood : ∀ d ∈ ds.map Prod.fst, GoodDefn d := by
    intro d hd
    obtain ⟨x, hx, rfl⟩ := List.mem_map.mp hd
    obtain ⟨k, hk⟩ := List.getElem?_of_mem hx
    exact goodDef_good (wfDoc_get post ds k x.1 x.2 h hk).1
  refine ⟨o1, _, p1, parseObjs_docText _ hgood, ?_⟩
  rw [e1, erase_flatTree]
  have : ∀ (specs : List DefSpec) (l i : Nat), eraseList (parsedDefs l i specs) = treeOf specs := by
    intro specs
    induction specs with
    | nil => intro l i; simp [parsedDefs, treeOf, eraseList]
    | cons d ds ih =>
      intro l i
      simp only [parsedDefs, eraseList_cons, ih, treeOf, List.map_cons]
      simp [Obj.erase, reline_erase, Meta.erase]
  rw [this]

/-! ### non-vacuity: one document, two very different layouts -/

/-- three definitions: a plain word, a mix of plain and quoted words, a multi-line quoted word -/
def exSpecs : List DefSpec :=
  [ ("a".toList, [{ value := "1".toList }]),
    ("b_2".toList, [{ value := "x*y".toList }, { value := "p q".toList, quote := some .d1 },
                    { value := "it's".toList }]),
    ("c".toList, [{ value := "l1\nl2".toList, quote := some .s3 },
                  { value := ";#".toList, quote := some .s1 }]) ]

/-- the plainest layout: `name = w1 w2⏎` -/
def layPlain (n : Nat) : DefLayout := { gaps := List.replicate n [' '] }

/-- a dense layout: comment header, no blanks around `=`, `;` separators on one line, the end of the
    text as last terminator -/
def exDense : List (DefSpec × DefLayout) :=
  [ (exSpecs[0]!, { pre := { lines := [⟨[], some "header 'x".toList⟩] }, sp1 := [], gaps := [[]],
                    term := .semi [] }),
    (exSpecs[1]!, { sp1 := [], gaps := [[], ['\t'], [' ', ' ']], term := .semi [' '] }),
    (exSpecs[2]!, { sp1 := [], gaps := [[], [' ']], term := .eof }) ]

/-- an airy layout: blank lines, indented comment lines (stand-alone `#` and `#text`), tabs,
    `\r\n` line ends, trailing comments -/
def exAiry : List (DefSpec × DefLayout) :=
  [ (exSpecs[0]!, { pre := { lines := [⟨[], none⟩, ⟨[' '], some " it's {x}; ok\\n".toList⟩], ind := ['\t'] },
                    sp1 := [' ', '\t'], gaps := [[' ', ' ']], term := .nl ['\r'] }),
    (exSpecs[1]!, { pre := { lines := [⟨[], some " a stand-alone comment read by the value collector".toList⟩,
                                        ⟨[' '], some "'quote".toList⟩, ⟨['\t'], none⟩] },
                    gaps := [[' '], ['\t', '\t'], [' ']], term := .comment [' '] " trailing; {comment}".toList }),
    (exSpecs[2]!, { pre := { lines := [⟨[], some "".toList⟩], ind := [' ', ' '] },
                    gaps := [[' '], [' ']], term := .nl [] }) ]

def exPost : Pre := { lines := [⟨[], none⟩, ⟨[], some " the end".toList⟩], ind := [' '] }

example : render exDense {} =
    "#header 'x\na=1;b_2=x*y\t\"p q\"  it's ;c='''l1\nl2''' ';#'".toList := by decide +kernel

example : render exAiry exPost =
    ("\n # it's {x}; ok\\n\n\ta \t=  1\r\n" ++
     "# a stand-alone comment read by the value collector\n #'quote\n\t\n" ++
     "b_2 = x*y\t\t\"p q\" it's # trailing; {comment}\n" ++
     "#\n  c = '''l1\nl2''' ';#'\n" ++
     "\n# the end\n ").toList := by decide +kernel

theorem exDense_wf : wfDoc exDense {} = true := by decide +kernel
theorem exAiry_wf : wfDoc exAiry exPost = true := by decide +kernel

/-- both layouts, through the theorem: same tree, same ids -/
example : ∃ o1 o2, parseObjs (render exDense {}) = .ok o1 ∧ parseObjs (render exAiry exPost) = .ok o2 ∧
    eraseList o1 = eraseList o2 ∧ o1.map (fun x => x.meta.id) = o2.map (fun x => x.meta.id) :=
  two_layouts_same_tree exDense exAiry {} exPost (by decide +kernel) exDense_wf exAiry_wf

/-! ### sharp edges: spellings outside the layout language, and what the parser does with them

  A summary of the parse result that has decidable equality: per definition its name, id, line and
  words; `none` for a scope. -/

def briefObj : Obj → Option (Str × Option Nat × Option Nat × List Word)
  | .defn m ws => some (m.name, m.id, m.line, ws)
  | .scope _ _ => none

inductive Brief
  | inl (e : Err)
  | inr (ds : List (Option (Str × Option Nat × Option Nat × List Word)))
  deriving DecidableEq

def brief (s : String) : Brief :=
  match parseObjs s.toList with
  | .error e => .inl e
  | .ok os => .inr (os.map briefObj)

/-- reference: two definitions on two lines -/
example : brief "a = 1\nb = 2" = .inr
    [some ("a".toList, some 1, some 1, [{ value := "1".toList, line := some 1 }]),
     some ("b".toList, some 2, some 2, [{ value := "2".toList, line := some 2 }])] := by decide +kernel

/-- `#` glued to text is not a comment in value context: `#c` becomes a word of `a`
    (`Terminator.comment` demands a stand-alone `#`) -/
example : brief "a = 1 #c\nb = 2" = .inr
    [some ("a".toList, some 1, some 1, [{ value := "1".toList, line := some 1 },
                                         { value := "#c".toList, line := some 1 }]),
     some ("b".toList, some 2, some 2, [{ value := "2".toList, line := some 2 }])] := by decide +kernel

/-- no blank in front of `#`: it is part of the word (`Terminator.comment` demands `sb ≠ []`) -/
example : brief "a = 1# c\nb = 2" = .inr
    [some ("a".toList, some 1, some 1, [{ value := "1#".toList, line := some 1 },
                                         { value := "c".toList, line := some 1 }]),
     some ("b".toList, some 2, some 2, [{ value := "2".toList, line := some 2 }])] := by decide +kernel

/-- a newline between the name and `=` is refused when the value is unquoted (`sp1` must be `inlineB`) -/
example : brief "a\n= 1" = .inl (.runtime "missing_value" (some 1)) := by decide +kernel

/-- … and a newline after `=` as well (`gaps` must be `inlineB`) -/
example : brief "a =\n1" = .inl (.runtime "missing_value" (some 1)) := by decide +kernel

/-- a quoted word at the start of the next line continues the value (a `Pre` cannot start with a quote) -/
example : brief "a = 1\n\"x\"\nb = 2" = .inr
    [some ("a".toList, some 1, some 1, [{ value := "1".toList, line := some 1 },
                                         { value := "x".toList, quote := some .d1, line := some 2 }]),
     some ("b".toList, some 2, some 3, [{ value := "2".toList, line := some 3 }])] := by decide +kernel

/-- a `;` directly followed by a quoted word: the structure tokenizer refuses it as a name -/
example : brief "a = 1;\"x\" = 2" = .inl (.runtime "unquoted_expected" (some 1)) := by decide +kernel

/-- two `;`: the second is glued to the next name (`;` is not special in structure context) -/
example : brief "a = 1;;b = 2" = .inl (.runtime "improper_definition_name" (some 1)) := by decide +kernel

/-- no terminator between two definitions (`eof` in the middle): one definition with four words -/
example : brief "a = 1 b = 2" = .inr
    [some ("a".toList, some 1, some 1, [{ value := "1".toList, line := some 1 },
       { value := "b".toList, line := some 1 }, { value := "=".toList, line := some 1 },
       { value := "2".toList, line := some 1 }])] := by decide +kernel

/-- missing blank between an unquoted and a quoted word: one word (`gapsOK`: inner gaps non-empty) -/
example : brief "a = 1\"x\"" = .inr
    [some ("a".toList, some 1, some 1, [{ value := "1\"x\"".toList, line := some 1 }])] := by decide +kernel

/-- an unquoted word after a quoted word that contains a newline ends the value and is then taken
    for a name (`chainOK`) -/
example : brief "a = \"x\ny\" z\nb = 2" = .inl (.runtime "expected" (some 3)) := by decide +kernel

/-- a stand-alone `#` comment line right after a newline-terminated value is read by the *value*
    collector: a word-initial quote in it swallows the following lines (`cmtSafe`; finding D20) … -/
example : brief "a = 1\n# c 'q\nb = 2'\nd = 3" = .inr
    [some ("a".toList, some 1, some 1, [{ value := "1".toList, line := some 1 }]),
     some ("d".toList, some 2, some 4, [{ value := "3".toList, line := some 4 }])] := by decide +kernel

/-- … while the same text glued to the `#` is skipped by the structure tokenizer and is harmless -/
example : brief "a = 1\n#c 'q\nb = 2" = .inr
    [some ("a".toList, some 1, some 1, [{ value := "1".toList, line := some 1 }]),
     some ("b".toList, some 2, some 3, [{ value := "2".toList, line := some 3 }])] := by decide +kernel

/-- a comment whose last word is a lone backslash continues over the next line: `b = 2` is lost -/
example : brief "a = 1 # foo \\\nb = 2\nc = 3" = .inr
    [some ("a".toList, some 1, some 1, [{ value := "1".toList, line := some 1 }]),
     some ("c".toList, some 2, some 3, [{ value := "3".toList, line := some 3 }])] := by decide +kernel

/-- `#phil` at the start of a word is a directive, not a comment (`cmtSafe`) -/
example : brief "a = 1\n #phil x\nb = 2" = .inl (.runtime "unknown_phil" (some 2)) := by decide +kernel

/-- the reader `cmtSafe` on these texts -/
example : cmtSafe " c 'q".toList = false := by decide +kernel
example : cmtSafe "c 'q".toList = true := by decide +kernel
example : cmtSafe "phil x".toList = false := by decide +kernel
example : cmtSafe " foo \\".toList = false := by decide +kernel
example : cmtSafe " say \"hi\"".toList = false := by decide +kernel
example : cmtSafe " it's {x}; ok\\n".toList = true := by decide +kernel

end Phil.C02
