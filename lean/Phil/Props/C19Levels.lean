/-
  C19 (part) — "Raising the attributes level only adds information: level 0 shows names and values,
  1 adds help and alias, 2 adds every attribute that is set, 3 adds the unset ones, and the tree
  re-parsed from any level is the same once attributes are ignored" — and the expert filter combined
  with attribute levels.  Generalises `filtered_text_parses_to_subtree` (Phil/Props/C19Closed.lean,
  attributes level 0) to every attributes level.  Property theorems only; lemmas in
  Phil/Proofs/AttrRoundTrip.lean.
-/
import Phil.Props.C01Attrs
import Phil.Props.C19Closed
set_option linter.unusedSimpArgs false
set_option linter.unusedVariables false
namespace Phil.C19
open Phil Phil.C01

attribute [local instance] objDecEqInst exceptDecEqRT

/-! ### which attributes a level shows -/

/-- level ≤ 0: no attribute line at all -/
theorem level0_shows_no_attribute (isDef : Bool) (L : Int) (hL : L ≤ 0) (attrs : Attrs) (pre : Str) (w : Int) :
    shownAttrs isDef L attrs = [] ∧ attrBlock isDef pre L w attrs = [] := by
  simp [shownAttrs, attrBlock, hL]

/-- level 1 shows exactly the help and alias attributes that are set -/
theorem level1_shows_help_and_alias (n : String) (v : AttrVal) :
    attrShown 1 n v = true ↔ (n = "help" ∨ n = "alias") ∧ v.isNone = false := by
  rw [attrShown_eq_B_art]
  have h1 : decide ((1 : Int) > 1) = false := by decide
  have h2 : decide ((1 : Int) > 2) = false := by decide
  rw [h1, h2]
  by_cases hh : n = "help"
  · subst hh
    have key : ∀ t i : Bool, (attrShownB false true false t i false false = true) ↔ i = false := by decide
    simpa using key v.truthy v.isNone
  · by_cases ha : n = "alias"
    · subst ha
      have key : ∀ t i : Bool, (attrShownB false false true t i false false = true) ↔ i = false := by decide
      simpa using key v.truthy v.isNone
    · have hh' : (n == "help") = false := by simpa using hh
      have ha' : (n == "alias") = false := by simpa using ha
      rw [hh', ha']
      have key : ∀ d t i : Bool, attrShownB d false false t i false false = false := by decide
      simp [key, hh, ha]

/-- level 2 shows exactly the attributes that are set (a `deprecated` only when it is truthy) -/
theorem level2_shows_set_attributes (n : String) (v : AttrVal) :
    attrShown 2 n v = true ↔ v.isNone = false ∧ (n = "deprecated" → v.truthy = true) := by
  rw [attrShown_eq_B_art]
  have h1 : decide ((2 : Int) > 1) = true := by decide
  have h2 : decide ((2 : Int) > 2) = false := by decide
  rw [h1, h2]
  by_cases hd : n = "deprecated"
  · subst hd
    have key : ∀ t i : Bool, (attrShownB true false false t i true false = true) ↔ (i = false ∧ t = true) := by
      decide
    simpa using key v.truthy v.isNone
  · have hd' : (n == "deprecated") = false := by simpa using hd
    rw [hd']
    have key : ∀ h a t i : Bool, (attrShownB false h a t i true false = true) ↔ i = false := by decide
    simp [key, hd]

/-- level 3 (and above) shows every attribute, set or not, except an unset `alias` and a `deprecated`
    that is not truthy -/
theorem level3_shows_unset_attributes (L : Int) (hL : 3 ≤ L) (n : String) (v : AttrVal) :
    attrShown L n v = true ↔
      (n = "deprecated" → v.truthy = true) ∧ (n = "alias" → v.isNone = false) := by
  rw [attrShown_eq_B_art]
  have h1 : decide (L > 1) = true := by simp; omega
  have h2 : decide (L > 2) = true := by simp; omega
  rw [h1, h2]
  by_cases hd : n = "deprecated"
  · subst hd
    have key : ∀ t i : Bool, (attrShownB true false false t i true true = true) ↔ t = true := by decide
    simpa using key v.truthy v.isNone
  · have hd' : (n == "deprecated") = false := by simpa using hd
    rw [hd']
    by_cases ha : n = "alias"
    · subst ha
      have key : ∀ t i : Bool, (attrShownB false false true t i true true = true) ↔ i = false := by decide
      simpa using key v.truthy v.isNone
    · have ha' : (n == "alias") = false := by simpa using ha
      rw [ha']
      have key : ∀ h t i : Bool, attrShownB false h false t i true true = true := by decide
      simp [key, hd, ha]

/-- **Raising the level only adds**: what is shown at a level is shown at every higher level … -/
theorem raising_level_only_adds (L L' : Int) (hLL : L ≤ L') (n : String) (v : AttrVal)
    (h : attrShown L n v = true) : attrShown L' n v = true := by
  obtain ⟨d, rfl⟩ : ∃ d : Nat, L' = L + d := ⟨(L' - L).toNat, by omega⟩
  clear hLL
  induction d with
  | zero => simpa using h
  | succ d ih =>
    have := attrShown_mono (L + d) n v ih
    have e : L + (d + 1 : Nat) = L + d + 1 := by omega
    rw [e]; exact this

/-- … with the same value when read back: the attributes read back from level `L` are read back from
    every higher level -/
theorem higher_level_reads_back_more (isDef : Bool) (L L' : Int) (hL : 0 < L) (hLL : L ≤ L')
    (attrs : Attrs) (n : String) (hn : n ∈ attrNamesOf isDef)
    (h : (shownAttrs isDef L attrs).get n ≠ .none) :
    (shownAttrs isDef L' attrs).get n = (shownAttrs isDef L attrs).get n := by
  rw [get_shownAttrs_art isDef L attrs n hn] at h ⊢
  rw [get_shownAttrs_art isDef L' attrs n hn]
  by_cases hs : attrShown L n (attrs.get n) = true
  · have hs' := raising_level_only_adds L L' hLL n _ hs
    have : 0 < L' := by omega
    simp [hs, hs', hL, this]
  · simp [hs] at h

/-! ### the re-parsed tree is the same at every level once attributes are ignored -/

/-- **The tree re-parsed from any attributes level is the same once attributes are ignored**: names,
    nesting, order, flags, words and quote styles (`eraseAttrsList`), at every level and width. -/
theorem any_level_reparses_to_same_tree (o : ShowOpts) (he : o.expert = none) (objs : List Obj)
    (h : ∀ x ∈ objs, RTTreeAttr o.level o.width x) (hnl : ∀ x ∈ objs, x.allDefns NlOnlyLast)
    (hnd : depPlacedList objs = true) :
    ∃ text objs', asStr o (rootOf objs) = .ok text ∧ parseObjs text = .ok objs' ∧
      eraseAttrsList objs' = eraseAttrsList objs := by
  obtain ⟨text, objs', h1, _, h2, h3, _⟩ := print_parse_tree_attrs o he objs h hnl hnd
  exact ⟨text, objs', h1, h2, by
    rw [eraseAttrsList_of_eraseList_ert h3, eraseAttrsList_normAList_art]⟩

/-! ### the expert filter at every attributes level -/

/-- **The filtered text parses to exactly the shown sub-tree, at every attributes level.**  For a
    forest of the class (`RTTreeAttr` at the level and width used), every expert setting (absent,
    negative, `k ≥ 0`), every width and every prefix `p` of blanks: the printed text is the text of
    the shown objects (`shownAt`: everything, or `pruneList k`) with their attribute lines; it parses,
    and the parser returns the shown objects, each with exactly the attributes printed at the level
    (`normAList`) — hence the shown sub-tree once attributes are ignored. -/
theorem filtered_text_parses_to_subtree_levels (o : ShowOpts) (objs : List Obj) (p : Str)
    (hp : ∀ c ∈ p, c = ' ')
    (h : RTAll (stripAttrsList objs)) (hok : attrsOKsAt o.level o.width objs p = true)
    (hnl : ∀ x ∈ objs, x.allDefns NlOnlyLast) (hnd : ∀ x ∈ objs, x.noDeprecated = true)
    (hw : ExpertWFs objs = true) :
    ∃ text objs', asStr o (rootOf objs) p = .ok text ∧
      text = kidsTextA o.level o.width (shownAt o.expert objs) [] p ∧
      parseObjs text = .ok objs' ∧
      eraseList objs' = eraseList (normAList o.level (shownAt o.expert objs)) ∧
      eraseAttrsList objs' = eraseAttrsList (shownAt o.expert objs) ∧
      idsList objs' = (expIdsSeq 1 (shownAt o.expert objs)).map some := by
  obtain ⟨objs', h1, h2, h3, h4⟩ := filtered_round_trip_attrs_art o objs p hp h hok
    ((noDeprecatedList_iff_ert objs).mpr hnd) ((allDefnsList_iff NlOnlyLast objs).mpr hnl)
    (fun _ _ _ => hw)
  exact ⟨_, objs', h1, rfl, h2, h3, by
    rw [eraseAttrsList_of_eraseList_ert h3, eraseAttrsList_normAList_art], h4⟩

/-- the case `expert_level = k ≥ 0`, empty prefix: the pruned forest -/
theorem filtered_text_parses_to_pruned_levels (k : Int) (hk : 0 ≤ k) (L w : Int) (objs : List Obj)
    (h : ∀ x ∈ objs, RTTreeAttr L w x) (hnl : ∀ x ∈ objs, x.allDefns NlOnlyLast)
    (hnd : ∀ x ∈ objs, x.noDeprecated = true) (hw : ExpertWFs objs = true) :
    ∃ text objs', asStr { level := L, width := w, expert := some k } (rootOf objs) = .ok text ∧
      parseObjs text = .ok objs' ∧
      eraseList objs' = eraseList (normAList L (pruneList k objs)) ∧
      eraseAttrsList objs' = eraseAttrsList (pruneList k objs) := by
  obtain ⟨r1, r2⟩ := rtAllAttr_of_forall h
  obtain ⟨text, objs', h1, _, h2, h3, h4, _⟩ := filtered_text_parses_to_subtree_levels
    { level := L, width := w, expert := some k } objs [] (by intro c hc; cases hc) r1 r2 hnl hnd hw
  simp only [shownAt_nonneg_ert k hk] at h3 h4
  exact ⟨text, objs', h1, h2, h3, h4⟩

/-! ### non-vacuity: the example document of Phil/Props/C01Attrs.lean, expert level 1, attributes level 3 -/

theorem exAttr_wf : ExpertWFs exAttrForest = true := by decide +kernel

/-- at expert level 1 the scope `s` (level 2) is hidden with everything in it; at attributes level 2
    the definition `a` keeps its three attributes -/
example : ∃ text objs', asStr { level := 2, width := 79, expert := some 1 } (rootOf exAttrForest) = .ok text ∧
    parseObjs text = .ok objs' ∧ eraseList objs' = exAttrForest.take 1 := by
  obtain ⟨text, objs', h1, h2, h3, _⟩ := filtered_text_parses_to_pruned_levels 1 (by decide) 2 79
    exAttrForest exAttr_ok2 exAttr_nl (by decide +kernel) exAttr_wf
  exact ⟨text, objs', h1, h2, by rw [h3]; decide +kernel⟩

example : ∃ text objs', asStr { level := 1 } (rootOf exAttrForest) = .ok text ∧
    parseObjs text = .ok objs' ∧ eraseAttrsList objs' = eraseAttrsList exAttrForest :=
  any_level_reparses_to_same_tree { level := 1 } rfl exAttrForest exAttr_ok1 exAttr_nl exAttr_nd

#print axioms level0_shows_no_attribute
#print axioms level1_shows_help_and_alias
#print axioms level2_shows_set_attributes
#print axioms level3_shows_unset_attributes
#print axioms raising_level_only_adds
#print axioms higher_level_reads_back_more
#print axioms any_level_reparses_to_same_tree
#print axioms filtered_text_parses_to_subtree_levels
#print axioms filtered_text_parses_to_pruned_levels
#print axioms exAttr_wf

end Phil.C19
