/-
  C18, detachment clause: a SYNTACTIC criterion for unconditional detachment.

  `detached_without_words` (Props/C18Detach.lean) assumes `noHandout` of the extracted value tree.  Here that
  hypothesis is derived from the PHIL tree itself: if no definition of the document has `.type = words`
  (`noWordsTypeB`, decidable, recursive over scopes) then the value tree `extractT` builds hands out no
  word list, so EVERY history of mutations of extracted values leaves the PHIL tree and all later
  extractions unchanged (`detached_of_no_words_type`).  The criterion is sharp: one `.type = words`
  definition and the word list is handed out (`C18Detach.words_list_is_handed_out`).
-/
import Phil.Props.C18Detach
namespace Phil.C18DetachSyntactic
open Phil Phil.Heap

/-! ### the criterion -/

/-- the `.type` of the object is not the `words` converter -/
def metaNoWords (m : Meta) : Bool :=
  match m.attrs.get "type" with
  | .conv .words => false
  | _ => true

mutual
/-- no definition of the tree has `.type = words` -/
def noWordsTypeB : Obj → Bool
  | .defn m _ => metaNoWords m
  | .scope _ os => noWordsTypeListB os
def noWordsTypeListB : List Obj → Bool
  | [] => true
  | o :: os => noWordsTypeB o && noWordsTypeListB os
end

/-- heap form: no definition object has `.type = words` -/
def nodeNoWords : Node → Bool
  | .defn m _ _ => metaNoWords m
  | .scope .. => true

def heapNoWordsB (h : Heap) : Bool := h.all nodeNoWords

/-! ### converters other than `words` never return the word list -/

def pvNotWords : PVal → Bool
  | .words _ => false
  | _ => true

theorem map_ok_nw {α : Type} {r : R α} {f : α → PVal} {v : PVal} (hf : ∀ a, pvNotWords (f a) = true)
    (h : r.map f = .ok v) : pvNotWords v = true := by
  cases r with
  | error e => cases h
  | ok a => cases h; exact hf a

theorem intFromNumber_nw (ws : List Word) (raw v : PVal) (h : intFromNumber ws raw = .ok v) :
    pvNotWords v = true := by
  unfold intFromNumber at h
  split at h <;> (try split at h) <;> cases h <;> rfl

theorem floatFromNumber_nw (ws : List Word) (raw v : PVal) (h : floatFromNumber ws raw = .ok v) :
    pvNotWords v = true := by
  unfold floatFromNumber at h
  split at h <;> (try split at h) <;> cases h <;> rfl

theorem fromWords_nw (c : Conv) (env : EvalEnv) (opt : AttrVal) (ws : List Word) (v : PVal)
    (hc : c ≠ .words) (h : fromWords c env opt ws = .ok v) : pvNotWords v = true := by
  cases c <;> simp only [fromWords] at h
  · exact absurd rfl hc
  all_goals (repeat' split at h)
  all_goals (first | (cases h; done) | (cases h; rfl) | (exact map_ok_nw (fun _ => rfl) h) | skip)
  all_goals (first
    | (rename_i heq; cases h; simp only [↓reduceIte] at heq; exact intFromNumber_nw _ _ _ heq)
    | (rename_i heq; cases h; simp only [Bool.false_eq_true, ↓reduceIte] at heq; exact floatFromNumber_nw _ _ _ heq)
    | skip)

theorem extractDefn_nw (e : Envs) (m : Meta) (ws : List Word) (v : PVal) (hm : metaNoWords m = true)
    (h : extractDefn e m ws = .ok v) : pvNotWords v = true := by
  unfold extractDefn at h
  unfold metaNoWords at hm
  split at h
  · exact fromWords_nw _ _ _ _ _ (by intro hh; cases hh) h
  · rename_i c hc
    rw [hc] at hm
    refine fromWords_nw _ _ _ _ _ ?_ h
    intro hh; subst hh; simp at hm
  · cases h
  · cases h

theorem extractDefnT_noHandout (e : Envs) (d : Nat) (m : Meta) (ws : List Word) (t : TVal)
    (hm : metaNoWords m = true) (h : extractDefnT e d m ws = .ok t) : t.noHandout = true := by
  unfold extractDefnT at h
  split at h
  · cases h
  · rename_i ws' hx
    have := extractDefn_nw e m ws _ hm hx
    cases this
  · cases h; simp [TVal.noHandout]

/-! ### `__phil_set__` / `__phil_join__` keep handout-free value trees handout-free -/

/-- membership form of `noHandoutFields` / `noHandoutList` -/
def NH (fs : List (Str × TVal)) : Prop := ∀ p ∈ fs, p.2.noHandout = true
def NHL (l : List TVal) : Prop := ∀ x ∈ l, x.noHandout = true

theorem nhF_iff : ∀ fs : List (Str × TVal), noHandoutFields fs = true ↔ NH fs
  | [] => by simp [noHandoutFields, NH]
  | (k, v) :: rest => by
    simp only [noHandoutFields, Bool.and_eq_true, nhF_iff rest, NH, List.mem_cons, forall_eq_or_imp]

theorem nhL_iff : ∀ l : List TVal, noHandoutList l = true ↔ NHL l
  | [] => by simp [noHandoutList, NHL]
  | v :: rest => by
    simp only [noHandoutList, Bool.and_eq_true, nhL_iff rest, NHL, List.mem_cons, forall_eq_or_imp]

theorem tGet_nh {fs : List (Str × TVal)} {k : Str} {v : TVal} (h : NH fs) (hg : tGet fs k = some v) :
    v.noHandout = true := by
  unfold tGet at hg
  cases hf : fs.find? (·.1 == k) with
  | none => rw [hf] at hg; cases hg
  | some p =>
    rw [hf] at hg
    simp only [Option.map_some, Option.some.injEq] at hg
    subst hg
    exact h p (List.mem_of_find?_eq_some hf)

theorem tSet_nh {fs : List (Str × TVal)} {k : Str} {v : TVal} (h : NH fs) (hv : v.noHandout = true) :
    NH (tSet fs k v) := by
  unfold tSet
  split
  · intro p hp
    rw [List.mem_map] at hp
    obtain ⟨q, hq, rfl⟩ := hp
    split
    · exact hv
    · exact h q hq
  · intro p hp
    rw [List.mem_append] at hp
    rcases hp with hp | hp
    · exact h p hp
    · simp only [List.mem_singleton] at hp; subst hp; exact hv

theorem foldlM_inv {α β : Type} (P : β → Prop) (f : β → α → R β) :
    ∀ (l : List α) (init r : β), P init →
      (∀ acc x acc', P acc → x ∈ l → f acc x = .ok acc' → P acc') → l.foldlM f init = .ok r → P r := by
  intro l
  induction l with
  | nil =>
    intro init r h0 _ h
    simp only [List.foldlM_nil, pure, Except.pure, Except.ok.injEq] at h
    subst h; exact h0
  | cons a as ih =>
    intro init r h0 hs h
    rw [List.foldlM_cons] at h
    cases hc : f init a with
    | error e' => rw [hc] at h; cases h
    | ok b' =>
      rw [hc] at h
      exact ih b' r (hs _ _ _ h0 List.mem_cons_self hc)
        (fun acc x acc' ha hm hf => hs acc x acc' ha (List.mem_cons_of_mem _ hm) hf) h

theorem multi_nh {o : AttrVal} {l : List TVal} : (TVal.multi o l).noHandout = true ↔ NHL l := by
  simp only [TVal.noHandout]; exact nhL_iff l

theorem record_nh {fs : List (Str × TVal)} : (TVal.record fs).noHandout = true ↔ NH fs := by
  simp only [TVal.noHandout]; exact nhF_iff fs

theorem philJoinT_nh : ∀ (fuel : Nat) (self other r : List (Str × TVal)), NH self → NH other →
    philJoinT fuel self other = .ok r → NH r := by
  intro fuel
  induction fuel with
  | zero => intro self other r _ _ h; cases h
  | succ fuel ih =>
    intro self other r hs ho h
    unfold philJoinT at h
    refine foldlM_inv NH _ other self r hs ?_ h
    intro acc kv acc' hacc hmem hstep
    obtain ⟨key, ov⟩ := kv
    have hov : ov.noHandout = true := ho _ hmem
    simp only at hstep
    split at hstep
    · cases hstep; exact hacc
    · split at hstep
      · cases hstep; exact tSet_nh hacc hov
      · rename_i opt l hg
        have hl : NHL l := multi_nh.mp (tGet_nh hacc hg)
        split at hstep
        · rename_i o2 l2
          have hl2 : NHL l2 := multi_nh.mp hov
          cases hstep
          apply tSet_nh hacc
          apply multi_nh.mpr
          have hl' : NHL (l ++ l2.filter (fun x => !x.isNone)) := by
            intro x hx
            rw [List.mem_append] at hx
            rcases hx with hx | hx
            · exact hl x hx
            · exact hl2 x (List.mem_filter.mp hx).1
          split
          · rename_i x rr heq
            split
            · intro y hy
              apply hl'
              rw [heq]; exact List.mem_cons_of_mem _ hy
            · exact hl'
          · exact hl'
        · cases hstep
      · rename_i sf hg
        have hsf : NH sf := record_nh.mp (tGet_nh hacc hg)
        split at hstep
        · rename_i of_
          have hof : NH of_ := record_nh.mp hov
          cases hj : philJoinT fuel sf of_ with
          | error err => rw [hj] at hstep; cases hstep
          | ok rr =>
            rw [hj] at hstep
            cases hstep
            exact tSet_nh hacc (record_nh.mpr (ih sf of_ rr hsf hof hj))
        · cases hstep
      · cases hstep; exact tSet_nh hacc hov

theorem ite_ok {α : Type} {c : Bool} {a b r : α}
    (h : (if c = true then (Except.ok a : R α) else .ok b) = .ok r) : r = a ∨ r = b := by
  cases c <;> simp at h <;> simp [h]

def XT.nh : XT → Prop
  | .disabled => True
  | .val v => v.noHandout = true

theorem philSetT_nh (fs r : List (Str × TVal)) (name : Str) (opt : AttrVal) (mult : Bool) (x : XT)
    (hfs : NH fs) (hx : XT.nh x) (h : philSetT fs name opt mult x = .ok r) : NH r := by
  unfold philSetT at h
  split at h
  · -- single
    have hv : (match x with | .disabled => TVal.pure .none | .val v => v).noHandout = true := by
      cases x with
      | disabled => rfl
      | val v => exact hx
    simp only at h
    split at h
    · rename_i node val hg hveq
      have hv' : (TVal.record val).noHandout = true := hveq ▸ hv
      cases hj : philJoinT (node.length + val.length + 64) node val with
      | error err => rw [hj] at h; cases h
      | ok rr =>
        rw [hj] at h
        cases h
        exact tSet_nh hfs (record_nh.mpr (philJoinT_nh _ _ _ _ (record_nh.mp (tGet_nh hfs hg)) (record_nh.mp hv') hj))
    · cases h; exact tSet_nh hfs hv
  · -- multiple
    cases hg : tGet fs name with
    | none =>
      rw [hg] at h
      simp only at h
      have hfs' : NH (tSet fs name (.multi opt [])) := tSet_nh hfs (multi_nh.mpr (fun _ hx => by cases hx))
      cases x with
      | disabled => cases h; exact hfs'
      | val v =>
        simp only at h
        rcases ite_ok h with rfl | rfl
        · apply tSet_nh hfs'
          apply multi_nh.mpr
          intro y hy
          simp only [List.nil_append, List.mem_singleton] at hy
          subst hy; exact hx
        · exact hfs'
    | some n =>
      rw [hg] at h
      simp only at h
      have hn := tGet_nh hfs hg
      split at h
      · rename_i o l heq
        cases heq
        cases x with
        | disabled => cases h; exact hfs
        | val v =>
          simp only at h
          rcases ite_ok h with rfl | rfl
          · apply tSet_nh hfs
            apply multi_nh.mpr
            intro y hy
            rw [List.mem_append] at hy
            rcases hy with hy | hy
            · exact multi_nh.mp hn y hy
            · simp only [List.mem_singleton] at hy; subst hy; exact hx
          · exact hfs
      · cases x with
        | disabled => cases h; exact hfs
        | val v => cases h

/-! ### extraction from a heap without `.type = words` hands out nothing -/

theorem heap_defn_noWords {h : Heap} {x : Nat} {m : Meta} {ws : List Word} {p : Option Nat}
    (hh : heapNoWordsB h = true) (hx : h[x]? = some (.defn m ws p)) : metaNoWords m = true := by
  unfold heapNoWordsB at hh
  rw [List.all_eq_true] at hh
  exact hh _ (List.mem_of_getElem? hx)

/-- **No `.type = words` definition in the heap ⇒ no handout**, for every object and every fuel. -/
theorem extractT_noHandout (e : Envs) (h : Heap) (hh : heapNoWordsB h = true) :
    ∀ (fuel : Nat) (x : Nat) (t : TVal), extractT e fuel h x = .ok t → t.noHandout = true := by
  intro fuel
  induction fuel with
  | zero => intro x t ht; cases ht
  | succ fuel ih =>
    intro x t ht
    unfold extractT at ht
    split at ht
    · cases ht
    · rename_i m ws p hx
      exact extractDefnT_noHandout e x m ws t (heap_defn_noWords hh hx) ht
    · rename_i m ks p hx
      simp only at ht
      generalize hstep : (fun (fs : List (Str × TVal)) (k : Nat) => _) = step at ht
      cases hf : ks.foldlM step ([] : List (Str × TVal)) with
      | error err => rw [hf] at ht; cases ht
      | ok fs =>
        rw [hf] at ht
        cases ht
        apply record_nh.mpr
        refine foldlM_inv NH step ks [] fs (fun _ hp => by cases hp) ?_ hf
        intro acc k acc' hacc _ hs
        subst hstep
        simp only at hs
        split at hs
        · cases hs
        · split at hs
          · cases hs; exact hacc
          · split at hs
            · cases hs
            · rename_i xv hxv
              refine philSetT_nh _ _ _ _ _ xv hacc ?_ hs
              split at hxv
              · cases hxv; trivial
              · cases hk : extractT e fuel h k with
                | error err => rw [hk] at hxv; cases hxv
                | ok tk => rw [hk] at hxv; cases hxv; exact ih k tk hk

/-! ### from the tree to the heap -/

mutual
theorem cells_noWords : ∀ (o : Obj) (p : Option Nat) (b : Nat), noWordsTypeB o = true →
    (cells o p b).all nodeNoWords = true
  | .defn m ws, p, b, h => by
    simp only [noWordsTypeB] at h
    simp [cells, nodeNoWords, h]
  | .scope m os, p, b, h => by
    simp only [noWordsTypeB] at h
    simp only [cells, List.all_cons, nodeNoWords, Bool.true_and]
    exact kidCells_noWords os b (b + 1) h
theorem kidCells_noWords : ∀ (os : List Obj) (p b : Nat), noWordsTypeListB os = true →
    (kidCells os p b).all nodeNoWords = true
  | [], _, _, _ => by simp [kidCells]
  | o :: os, p, b, h => by
    simp only [noWordsTypeListB, Bool.and_eq_true] at h
    simp only [kidCells, List.all_append, Bool.and_eq_true]
    exact ⟨cells_noWords o (some p) b h.1, kidCells_noWords os p (b + size o) h.2⟩
end

/-- the heap of a document none of whose definitions has `.type = words` -/
theorem ofObjs_noWords (os : List Obj) (h : noWordsTypeListB os = true) : heapNoWordsB (ofObjs os) = true := by
  unfold heapNoWordsB ofObjs build
  simp only [List.nil_append, List.length_nil]
  exact cells_noWords (.scope { name := [] } os) none 0 (by simpa [noWordsTypeB] using h)

/-- **The value tree of a `words`-free document has no handout** (any object of it, any fuel). -/
theorem noHandout_of_no_words_type (e : Envs) (os : List Obj) (hw : noWordsTypeListB os = true)
    (fuel x : Nat) (t : TVal) (ht : extractT e fuel (ofObjs os) x = .ok t) : t.noHandout = true :=
  extractT_noHandout e (ofObjs os) (ofObjs_noWords os hw) fuel x t ht

/-- **Unconditional detachment, from the syntax alone.**  Parse a document; if none of its definitions has
    `.type = words`, then after extracting ANY object `x` of it into a value heap without alias cell, EVERY
    history of mutations of value objects (append, item assignment, clear, attribute assignment, on any
    extracted list or nested scope_extract) is safe, leaves the PHIL heap exactly as it was, and every later
    extraction of every object reads what it would have read before.  No hypothesis on the value tree. -/
theorem detached_of_no_words_type (e : Envs) (text : List Char) (os : List Obj)
    (_hp : parseObjs text = .ok os) (hw : noWordsTypeListB os = true)
    (fuel : Nat) (vals : VHeap) (hn : noAliasB vals = true) (x : Nat) (s1 : Store) (v1 : VRef)
    (h1 : extractStore e fuel ⟨ofObjs os, vals⟩ x = .ok (s1, v1)) (ops : List (Nat × MutOp)) :
    SafeHist s1 ops ∧ (mutateMany s1 ops).phil = ofObjs os ∧
    (∀ fuel' y, extractT e fuel' (mutateMany s1 ops).phil y = extractT e fuel' (ofObjs os) y) :=
  C18Detach.detached_without_words e fuel ⟨ofObjs os, vals⟩ s1 x v1 h1 hn
    (fun t ht => noHandout_of_no_words_type e os hw fuel x t ht) ops

/-- heap form (any heap: trees, fetch results, copies) -/
theorem detached_of_heap_no_words (e : Envs) (fuel : Nat) (s s1 : Store) (x : Nat) (v1 : VRef)
    (hh : heapNoWordsB s.phil = true) (hn : noAliasB s.vals = true)
    (h1 : extractStore e fuel s x = .ok (s1, v1)) (ops : List (Nat × MutOp)) :
    SafeHist s1 ops ∧ (mutateMany s1 ops).phil = s.phil ∧
    (∀ fuel' y, extractT e fuel' (mutateMany s1 ops).phil y = extractT e fuel' s.phil y) :=
  C18Detach.detached_without_words e fuel s s1 x v1 h1 hn
    (fun t ht => extractT_noHandout e s.phil hh fuel x t ht) ops

/-! ### witnesses -/

def criterionOfText (t : String) : Option Bool :=
  match parseObjs t.toList with
  | .ok os => some (noWordsTypeListB os)
  | .error _ => none

/-- the hypotheses of `detached_of_no_words_type` hold on a parsed, non-trivial document (strings, a nested
    scope, a bool): the criterion answers `true` and the extraction succeeds -/
example : criterionOfText "a = 1 2\ns {\n  l = x y\n    .type = strings\n  b = True\n    .type = bool\n}\n" = some true := by
  decide +kernel

example :
    (match extractStore C18Detach.noEnv 10
        ⟨C18Detach.heapOfText "a = 1 2\ns {\n  l = x y\n    .type = strings\n  b = True\n    .type = bool\n}\n", []⟩ 0 with
     | .ok (s, _) => s.vals.length
     | .error _ => 0) = 4 := by
  decide +kernel

/-- **Sharpness.**  The criterion rejects the document of `C18Detach.words_list_is_handed_out`
    (`w = a b  .type = words`), on which the extracted `w` IS the definition's word list and
    `ex.w.append(...)` rewrites the PHIL definition. -/
theorem criterion_rejects_words_document : criterionOfText C18Detach.docText = some false := by
  decide +kernel

end Phil.C18DetachSyntactic

#print axioms Phil.C18DetachSyntactic.fromWords_nw
#print axioms Phil.C18DetachSyntactic.philJoinT_nh
#print axioms Phil.C18DetachSyntactic.philSetT_nh
#print axioms Phil.C18DetachSyntactic.extractT_noHandout
#print axioms Phil.C18DetachSyntactic.ofObjs_noWords
#print axioms Phil.C18DetachSyntactic.noHandout_of_no_words_type
#print axioms Phil.C18DetachSyntactic.detached_of_no_words_type
#print axioms Phil.C18DetachSyntactic.detached_of_heap_no_words
#print axioms Phil.C18DetachSyntactic.criterion_rejects_words_document
