/-
  C20 (GUI index on nested masters, continued) — uniform paths and edits of `.multiple` parameters.

    "… every parameter path that is not inside a multiple scope looks up to the live object(s) of the
     current working tree …  Applying the same edit twice in a row leaves the working parameters as
     after the first application."

  Phil/Props/C20Paths.lean proves `lookup_exact` under the hypothesis `UniformAt` (the live objects at
  the path are all `.multiple`, or there is exactly one and it is not).  Part 1 below DISCHARGES that
  hypothesis: on every *well-grouped* working tree (`wellGroupedB`, executable: sibling names non-empty
  and dot-free; two siblings of one name are both `.multiple`; recursively below every scope that is
  not `.multiple`) every path that does not lie below a live `.multiple` scope is uniform, and every
  fetch result of an `MSMaster` (`.multiple` scopes and definitions nested in any way,
  Phil/Proofs/FetchTreeMS.lean) or of a `TreeMultiMaster` is well grouped.  Lemmas:
  Phil/Proofs/IndexTreeLemmas2.lean (suffix `_it2`).

    1. `uniform_outside_multiple_scopes`, `fetch_result_well_grouped_ms/_tree`,
       `lookup_exact_well_grouped`, `lookup_exact_ms`, `lookup_exact_tree`,
       `tree_result_has_no_multiple_scope`; sharpness `bool_multiple_needed`, `pair_rule_needed`;
       inside `.multiple` scopes: `inside_multiple_scope_last_plain`, `inside_multiple_scope_all_multiple`
    2. edits that give values to `.multiple` DEFINITIONS of a nested master (`merge_phil` first deletes the
       current instances of every `.multiple` path the edit mentions — `delete_phil_objects` on a nested
       tree — then fetches [old, edit]):  `delete_closed_form_tree`, `merge_closed_form_multi`,
       `mentioned_take_edit_instances`, `unmentioned_as_plain_merge`, `merge_reached_multi`,
       `reached_invariant_tree_multi`, `same_edit_twice_tree_multi` (+ `_state`, `_reachable`),
       `lookup_exact_tree_multi`; witness `unlisted_keeps_old_instances` (replayed on the library).
       Class: `TreeCtx c` and `MultiCtx c` (nesting depth < 1000 = the model's fuel for the deletion; every
       recorded `.multiple` path that is the path of a master object is the path of a `.multiple`
       definition), working sets `ReachedT`, edits `TreeEdit`; for the same-edit-twice law also
       `ListedEdit` (every `.multiple` definition the edit gives a value to is among the deleted paths —
       true when the index recorded all `.multiple` definitions).  `MultiCtx.paths` and `ListedEdit` are
       executable (`multiCtxB`, `listedEditB`); they are what `build_index(collect_multiple=True)`
       guarantees and are NOT claimed to be sharp for idempotence (`dedupKeepLast` would absorb a repeated
       instance anyway); `ListedEdit` IS what the closed form "exactly the edit's instances" needs.
-/
import Phil.Props.C20Paths
import Phil.Props.C20Tree
import Phil.Proofs.IndexTreeLemmas2
set_option linter.unusedVariables false
namespace Phil.C20
open Phil Phil.Index

variable {E : Type}

/-! ### 1. uniform paths -/

/-- the path `p` lies strictly below a live `.multiple` scope of the working tree `w` -/
def InsideMultipleScope (w : List Obj) (p : Str) : Prop :=
  ∃ v ∈ liveVisits w, v.obj.isDefn = false ∧ multipleIsTrue v.obj = true ∧
    startsWith (v.path ++ ['.']) p = true

/-- executable form -/
def insideMultipleScopeB (w : List Obj) (p : Str) : Bool :=
  (liveVisits w).any (fun v => !v.obj.isDefn && multipleIsTrue v.obj && startsWith (v.path ++ ['.']) p)

theorem insideMultipleScope_iff (w : List Obj) (p : Str) :
    InsideMultipleScope w p ↔ insideMultipleScopeB w p = true := by
  unfold InsideMultipleScope insideMultipleScopeB
  rw [List.any_eq_true]
  constructor
  · rintro ⟨v, hv, h1, h2, h3⟩
    exact ⟨v, hv, by simp [h1, h2, h3]⟩
  · rintro ⟨v, hv, h⟩
    simp only [Bool.and_eq_true, Bool.not_eq_true'] at h
    exact ⟨v, hv, h.1.1, h.1.2, h.2⟩

/-- **C20, uniformity.**  On a well-grouped working tree, at every path that is not inside a live
    `.multiple` scope the live objects are all `.multiple`, or there is exactly one object and it is
    not `.multiple`. -/
theorem uniform_outside_multiple_scopes (w : List Obj) (hw : wellGroupedB w = true) (p : Str)
    (hout : ¬ InsideMultipleScope w p) : UniformAt w p := by
  apply uniform_of_wu_it2 w hw p
  intro v hv hd hm
  cases h : startsWith (v.path ++ ['.']) p with
  | false => rfl
  | true => exact absurd ⟨v, List.mem_cons_of_mem _ hv, hd, hm, h⟩ hout

/-- every fetch result of a master with `.multiple` scopes and definitions nested in any way
    (`MSMaster`, `.multiple` attributes booleans) is well grouped, for every source list -/
theorem fetch_result_well_grouped_ms (e : Envs) (master srcs : List Obj) (hf : MSMaster master)
    (hb : multBoolL master = true) : wellGroupedB (msResult e master srcs) = true :=
  wellGrouped_msResult_it2 e master srcs hf hb

/-- … and so is every fetch result of a `TreeMultiMaster` -/
theorem fetch_result_well_grouped_tree (e : Envs) (master srcs : List Obj) (hf : TreeMultiMaster master)
    (hb : multBoolL master = true) : wellGroupedB (treeMultiResult e master srcs) = true :=
  wellGrouped_treeMultiResult_it2 e master srcs hf hb

/-- the result of a `TreeMultiMaster` has no `.multiple` scope: no path is inside one -/
theorem tree_result_has_no_multiple_scope (e : Envs) (master srcs : List Obj) (hf : TreeMultiMaster master)
    (p : Str) : ¬ InsideMultipleScope (treeMultiResult e master srcs) p := by
  rintro ⟨v, hv, hd, hm, _⟩
  have hv' : v ∈ visitsOf skipNegI (treeMultiResult e master srcs) := hv
  unfold visitsOf at hv'
  rw [List.mem_cons] at hv'
  rcases hv' with rfl | hv'
  · cases hm
  · have := noMS_visitList_it2 skipNegI _ [] 1 (noMS_treeMultiResult_it2 e master srcs hf.kids) v hv' hd
    rw [this] at hm; cases hm

/-- **C20, lookup returns exactly the live objects (no uniformity hypothesis).**  For every kernel and
    every history: when the current working tree is well grouped, every path with a live object that
    is not inside a live `.multiple` scope looks up to an entry whose (position, object) pairs are
    EXACTLY the live objects at that path, in document order. -/
theorem lookup_exact_well_grouped (k : Kernel (List Obj) PVal E) (w : List Obj) (hw : tmplRangeList w = true)
    (ops : List (Op PVal E)) (p : Str)
    (hwg : wellGroupedB (run k (init k w) ops).working = true)
    (hne : liveAt (run k (init k w) ops).working p ≠ [])
    (hout : ¬ InsideMultipleScope (run k (init k w) ops).working p) :
    ∃ e, (irun k (iinit k w) ops).lookup p = some e ∧
      e.pairs = pairsOf (liveAt (run k (init k w) ops).working p) :=
  lookup_exact k w hw ops p hne (uniform_outside_multiple_scopes _ hwg p hout)

/-- the same whenever the current working tree is a fetch result of an `MSMaster` (any kernel: the
    concrete one produces such trees by `merge_phil`, `push`/`pop`, `set_state`) -/
theorem lookup_exact_ms (k : Kernel (List Obj) PVal E) (w : List Obj) (hw : tmplRangeList w = true)
    (ops : List (Op PVal E)) (p : Str) (e : Envs) (master srcs : List Obj) (hf : MSMaster master)
    (hb : multBoolL master = true)
    (hcur : (run k (init k w) ops).working = msResult e master srcs)
    (hne : liveAt (run k (init k w) ops).working p ≠ [])
    (hout : ¬ InsideMultipleScope (run k (init k w) ops).working p) :
    ∃ en, (irun k (iinit k w) ops).lookup p = some en ∧
      en.pairs = pairsOf (liveAt (run k (init k w) ops).working p) :=
  lookup_exact_well_grouped k w hw ops p (by rw [hcur]; exact fetch_result_well_grouped_ms e master srcs hf hb)
    hne hout

/-- **C20, `lookup_exact_tree`.**  Concrete kernel, nested `TreeMultiMaster` context, reached initial
    working set, every history of the invariant's class: EVERY path with a live object looks up to
    exactly the live object(s) at that path — no uniformity hypothesis, and no path is inside a
    `.multiple` scope. -/
theorem lookup_exact_tree (c : IndexCtx) (hc : TreeCtx c) (hb : multBoolL c.master = true) (w : List Obj)
    (hw : ReachedT c w) (hr : tmplRangeList w = true) (ops : List (Op PVal Str)) (hg : GoodOpsT c ops)
    (p : Str)
    (hne : liveAt (run (concreteKernel c) (init (concreteKernel c) w) ops).working p ≠ []) :
    ∃ e, (irun (concreteKernel c) (iinit (concreteKernel c) w) ops).lookup p = some e ∧
      e.pairs = pairsOf (liveAt (run (concreteKernel c) (init (concreteKernel c) w) ops).working p) := by
  obtain ⟨D, _, _, _, hD⟩ := reached_invariant_tree_init c hc w hw ops hg
  apply lookup_exact_well_grouped (concreteKernel c) w hr ops p _ hne
  · rw [hD]; exact tree_result_has_no_multiple_scope c.envs c.master D hc.ok.tree p
  · rw [hD]; exact fetch_result_well_grouped_tree c.envs c.master D hc.ok.tree hb

/-! #### inside `.multiple` scopes: what the index holds

  With `k` instances of a `.multiple` scope `m` there are `k` live objects at every path `m.x`.  The
  dict update overwrites for a non-multiple object and appends for a `.multiple` one, so (instances of
  `lookup_last_plain` / `lookup_all_multiple` of C20Paths, which need no uniformity):  -/

/-- the last live object at the path is not `.multiple` (a plain definition or scope inside `.multiple`
    scopes): the index holds that LAST object alone, whatever the number of instances -/
theorem inside_multiple_scope_last_plain (k : Kernel (List Obj) PVal E) (w : List Obj)
    (hw : tmplRangeList w = true) (ops : List (Op PVal E)) (p : Str) (vs : List Visit) (v : Visit)
    (hocc : liveAt (run k (init k w) ops).working p = vs ++ [v]) (hm : multipleIsTrue v.obj = false) :
    (irun k (iinit k w) ops).lookup p = some (.one v.pos v.obj) :=
  lookup_last_plain k w hw ops p vs v hocc hm

/-- all live objects at the path are `.multiple` (a `.multiple` definition inside `.multiple` scopes):
    the index holds the list of ALL of them, across all instances of the enclosing scopes -/
theorem inside_multiple_scope_all_multiple (k : Kernel (List Obj) PVal E) (w : List Obj)
    (hw : tmplRangeList w = true) (ops : List (Op PVal E)) (p : Str) (v : Visit) (vs : List Visit)
    (hocc : liveAt (run k (init k w) ops).working p = v :: vs)
    (hm : ∀ x ∈ v :: vs, multipleIsTrue x.obj = true) :
    (irun k (iinit k w) ops).lookup p = some (.many (pairsOf (v :: vs))) :=
  lookup_all_multiple k w hw ops p v vs hocc hm

/-! #### instances and sharpness -/

local notation "K₁" => concreteKernel pC

/-- the master of C20Paths (a `.multiple` definition inside a plain scope, a `.multiple` scope) is in the
    class, and the working tree after the history `pHist` is well grouped -/
example : msMasterB pMaster = true ∧ multBoolL pMaster = true := by decide +kernel

theorem pHist_well_grouped : wellGroupedB (run K₁ (init K₁ pW0) pHist).working = true := by decide +kernel

/-- `lookup_exact_well_grouped` applies to `g.s`, `m`, `n`, `g`, `g.b` — here `m` (two instances) -/
example : ∃ e, (irun K₁ (iinit K₁ pW0) pHist).lookup "m".toList = some e ∧
    e.pairs = pairsOf (liveAt (run K₁ (init K₁ pW0) pHist).working "m".toList) := by
  apply lookup_exact_well_grouped K₁ pW0 pW0_range pHist _ pHist_well_grouped
  · intro h
    have : (liveAt (run K₁ (init K₁ pW0) pHist).working "m".toList).length = 2 := by decide +kernel
    rw [h] at this; cases this
  · rw [insideMultipleScope_iff]
    have : insideMultipleScopeB (run K₁ (init K₁ pW0) pHist).working "m".toList = false := by decide +kernel
    rw [this]; exact Bool.false_ne_true

/-- `m.x` IS inside a `.multiple` scope (so the theorem does not apply; `inside_multiple_scope_only_last`
    of C20Paths shows the index holds only the last instance's object) -/
example : insideMultipleScopeB (run K₁ (init K₁ pW0) pHist).working "m.x".toList = true := by decide +kernel

local notation "K₂" => concreteKernel tC

theorem tMaster_multBool : multBoolL tC.master = true := by decide +kernel
theorem tW0_range : tmplRangeList tW0 = true := by decide +kernel

/-- `lookup_exact_tree` on the literal nested context of C20Tree, path `g.h.t` at depth 3 -/
example : ∃ e, (irun K₂ (iinit K₂ tW0) tHist).lookup "g.h.t".toList = some e ∧
    e.pairs = pairsOf (liveAt (run K₂ (init K₂ tW0) tHist).working "g.h.t".toList) := by
  apply lookup_exact_tree tC tC_tree tMaster_multBool tW0 tW0_reached tW0_range tHist tHist_good
  intro h
  have : (liveAt (run K₂ (init K₂ tW0) tHist).working "g.h.t".toList).length = 1 := by decide +kernel
  rw [h] at this; cases this

/-- a master definition whose `.multiple` attribute is truthy but not `True` (set by hand:
    `d.multiple = 1`; the parser always stores a bool) -/
def bmMaster : List Obj := [.defn { name := ['a'], attrs := [("multiple", .int 1)] } [⟨['x'], none, none⟩]]
def bmSrc : List Obj := [.defn { name := ['a'] } [⟨['y'], none, none⟩], .defn { name := ['a'] } [⟨['z'], none, none⟩]]

/-- **the hypothesis `multBoolL` is sharp** (kernel-checked; replayed on the library with
    `m.objects[0].multiple = 1` set by hand on the master `a = x`, sources `a = y`, `a = z`): the master is
    a `TreeMultiMaster`, fetch treats the truthy attribute as `.multiple` (template + two instances), the
    index tests `multiple is True`: two live objects at `a`, none `.multiple`, the result is not well
    grouped, `a` is not uniform and the index holds only the last instance.
    Library: `[('a', -1, ['x']), ('a', 0, ['y']), ('a', 0, ['z'])]`, `path_index['a']` is the `z` object. -/
theorem bool_multiple_needed :
    treeMultiMasterB bmMaster = true ∧ multBoolL bmMaster = false ∧
    wellGroupedB (treeMultiResult env12 bmMaster bmSrc) = false ∧
    (liveAt (treeMultiResult env12 bmMaster bmSrc) ['a']).map (fun v => (v.pos, multipleIsTrue v.obj)) =
      [(2, false), (3, false)] ∧
    ((reindex (treeMultiResult env12 bmMaster bmSrc)).get ['a']).map (fun e => (e.kind, e.positions)) =
      some ("one", [3]) := by
  refine ⟨by decide +kernel, by decide +kernel, by decide +kernel, by decide +kernel, by decide +kernel⟩

/-- **`wellGroupedB` is what uniformity needs**: a working tree that is not a fetch result — the plain
    parameter `n` of the context `tC` given twice (`tW0 ++ tW0`, cf. `refetch_needs_reached`) — is not well
    grouped, has two live non-multiple objects at `n`, and the index holds only the second -/
theorem well_grouped_needed :
    wellGroupedB (tW0 ++ tW0) = false ∧
    (liveAt (tW0 ++ tW0) ['n']).map (fun v => (v.pos, multipleIsTrue v.obj)) = [(1, false), (7, false)] ∧
    ((reindex (tW0 ++ tW0)).get ['n']).map (fun e => (e.kind, e.positions)) = some ("one", [7]) := by
  refine ⟨by decide +kernel, by decide +kernel, by decide +kernel⟩

/-! ### 2. edits of `.multiple` definitions of a nested master -/

/-- executable forms of the side conditions -/
def multiCtxB (c : IndexCtx) : Bool := decide (depthL c.master < 1000) && pathsOKL c.multiple [] c.master

def listedEditB (c : IndexCtx) (text : Str) : Bool :=
  match parseObjs text with
  | .ok edit => unlistedL (redundantOf c edit) [] c.master edit
  | .error _ => true

theorem multiCtx_of_B {c : IndexCtx} (h : multiCtxB c = true) : MultiCtx c := by
  unfold multiCtxB at h
  rw [Bool.and_eq_true, decide_eq_true_eq] at h
  exact ⟨h.1, h.2⟩

theorem listedEdit_of_B {c : IndexCtx} {text : Str} (h : listedEditB c text = true) : ListedEdit c text := by
  intro edit hp
  unfold listedEditB at h
  rw [hp] at h
  exact h

/-- **`delete_phil_objects` on a reached working set, closed form.**  The old working set
    `treeMultiResult master D` after the deletion `merge_phil` performs for the edit is `delResult`: in
    the block of every definition whose full path is among the mentioned `.multiple` paths the members
    that are not template-marked are gone (the template stays unless it is the live default of a
    mandatory definition); every other block, every scope, the order — unchanged. -/
theorem delete_closed_form_tree (c : IndexCtx) (hc : TreeCtx c) (hm : MultiCtx c) (edit D : List Obj) :
    oldOf c edit (treeMultiResult c.envs c.master D) =
      delResult c.envs (redundantOf c edit) [] c.master D :=
  oldOf_eq_del_it2 hc hm edit D

/-- **closed form of one edit (any parameters, `.multiple` definitions included).**  A successful
    `merge_phil` of a tree edit into the reached working set `treeMultiResult master D`: the edit alone
    fetches, there is no clash of kinds, and the new working set is the closed-form fetch of
    (pruned old working set) ++ edit. -/
theorem merge_closed_form_multi (c : IndexCtx) (hc : TreeCtx c) (hm : MultiCtx c) (D : List Obj)
    (hD : GoodTreeSrc D) (hk : KeysDefinedTree c.envs c.master D)
    (e : Str) (edit : List Obj) (hp : parseObjs e = .ok edit) (he : GoodTreeSrc edit)
    (hke : KeysDefinedTree c.envs c.master edit) (w' : List Obj)
    (h : (concreteKernel c).merge (treeMultiResult c.envs c.master D) e = some w') :
    (∃ r, fetchRoot c.envs false c.master [edit] = .ok r) ∧
    noClash c.master (delResult c.envs (redundantOf c edit) [] c.master D ++ edit) = true ∧
      w' = treeMultiResult c.envs c.master (delResult c.envs (redundantOf c edit) [] c.master D ++ edit) :=
  merge_multi_some_it2 hc hm hD hk hp he hke h

/-- … in which a MENTIONED `.multiple` definition takes exactly the edit's instances after the template:
    its block is the list rule over the edit's definitions of that name alone (stated for one level of
    the master: `l`, `D`, `A` are the master children, old sources and edit objects reached by the same
    scope path `pfx`) … -/
theorem mentioned_take_edit_instances (e : Envs) (paths : List Str) (pfx : Str) (l D A : List Obj)
    (hf : TreeMultiMaster l) (hr : RefetchTree l) (mm : Meta) (mws : List Word) (hmo : Obj.defn mm mws ∈ l)
    (hmult : isMultiple (.defn mm mws) = true) (hc : paths.contains (joinPath pfx mm.name) = true) :
    tmBlock e (.defn mm mws) (delResult e paths pfx l D ++ A) =
      multiBlock (.defn mm mws) (keyOf e 0 (.defn mm mws) (.defn mm mws))
        (candsOf e 0 (.defn mm mws) (defsNamed mm.name A)) := by
  rw [listed_block_it2 e paths pfx l D A hf hr mm mws hmo hmult hc, tmBlock]
  simp only [hmult, if_true]

/-- … and everything else is as after a plain merge of the edit into the old working set -/
theorem unmentioned_as_plain_merge (e : Envs) (paths : List Str) (pfx : Str) (l D A : List Obj)
    (hf : TreeMultiMaster l) (mm : Meta) (mws : List Word) (hmo : Obj.defn mm mws ∈ l)
    (hc : paths.contains (joinPath pfx mm.name) = false) :
    tmBlock e (.defn mm mws) (delResult e paths pfx l D ++ A) =
      tmBlock e (.defn mm mws) (treeMultiResult e l D ++ A) :=
  unlisted_block_it2 e paths pfx l D A hf mm mws hmo hc

/-- every successful merge of a tree edit from a reached working set yields a reached one -/
theorem merge_reached_multi (c : IndexCtx) (hc : TreeCtx c) (hm : MultiCtx c) (w : List Obj)
    (hw : ReachedT c w) (e : Str) (he : TreeEdit c e) (w' : List Obj)
    (h : (concreteKernel c).merge w e = some w') : ReachedT c w' :=
  merge_multi_reachedT_it2 hc hm hw he h

/-- **the invariant, edits of `.multiple` definitions included.**  From a state whose working set and
    saved states are reached, every history of `update` (ANY tree edits), `push`, `pop`, `set_state`,
    `get_python_object` leads to such a state. -/
theorem reached_invariant_tree_multi (c : IndexCtx) (hc : TreeCtx c) (hm : MultiCtx c)
    (s : State (List Obj) PVal) (ops : List (Op PVal Str)) (hg : GoodOpsM c ops) (hs : StateReachedT c s) :
    StateReachedT c (run (concreteKernel c) s ops) :=
  run_reachedM_it2 hc hm ops s hg hs

theorem reached_invariant_tree_multi_init (c : IndexCtx) (hc : TreeCtx c) (hm : MultiCtx c) (w : List Obj)
    (hw : ReachedT c w) (ops : List (Op PVal Str)) (hg : GoodOpsM c ops) :
    ReachedT c (run (concreteKernel c) (init (concreteKernel c) w) ops).working :=
  (run_reachedM_it2 hc hm ops _ hg (init_stateReachedT_itl hw)).1

/-- the absorption law behind the next theorem: prune the result of `D`, merge `A`; prune that, merge
    `A` again — the second round reproduces the first -/
theorem absorption_with_deletion (e : Envs) (paths : List Str) (l D A : List Obj) (hf : TreeMultiMaster l)
    (hr : RefetchTree l) (hp : pathsOKL paths [] l = true) (hu : unlistedL paths [] l A = true) :
    treeMultiResult e l (delResult e paths [] l (delResult e paths [] l D ++ A) ++ A) =
      treeMultiResult e l (delResult e paths [] l D ++ A) :=
  del_idem_it2 e paths _ l [] D A (Nat.lt_succ_self _) hf hr hp hu

/-- **C20, edit idempotence for edits of `.multiple` definitions (nested masters).**  Merging the edit
    into the result of merging it into a reached working set changes nothing: the second application
    deletes the instances the first one created and re-adds the same ones. -/
theorem same_edit_twice_tree_multi (c : IndexCtx) (hc : TreeCtx c) (hm : MultiCtx c) (e : Str)
    (he : TreeEdit c e) (hl : ListedEdit c e) : IdemKernelOn (concreteKernel c) (ReachedT c) e :=
  fun _ _ hw h => merge_multi_idem_it2 hc hm hw he hl h

theorem same_edit_twice_tree_multi_state (c : IndexCtx) (hc : TreeCtx c) (hm : MultiCtx c) (e : Str)
    (he : TreeEdit c e) (hl : ListedEdit c e) (s : State (List Obj) PVal) (hs : ReachedT c s.working) :
    run (concreteKernel c) s [.update e, .update e] = run (concreteKernel c) s [.update e] := by
  simp only [run_cons, run_nil]
  cases h : (concreteKernel c).merge s.working e with
  | none => rw [update_refused h, update_refused h]
  | some w' =>
    rw [update_accepted h]
    rw [update_accepted (w := w') (merge_multi_idem_it2 hc hm hs he hl h)]

/-- anywhere in a history from the initial state -/
theorem same_edit_twice_tree_multi_reachable (c : IndexCtx) (hc : TreeCtx c) (hm : MultiCtx c) (w : List Obj)
    (hw : ReachedT c w) (pre : List (Op PVal Str)) (hg : GoodOpsM c pre) (e : Str) (he : TreeEdit c e)
    (hl : ListedEdit c e) :
    (run (concreteKernel c) (init (concreteKernel c) w) (pre ++ [.update e, .update e])).working =
    (run (concreteKernel c) (init (concreteKernel c) w) (pre ++ [.update e])).working := by
  rw [run_append, run_append,
    same_edit_twice_tree_multi_state c hc hm e he hl _ (reached_invariant_tree_multi_init c hc hm w hw pre hg)]

/-- `lookup_exact_tree` for histories with edits of `.multiple` definitions -/
theorem lookup_exact_tree_multi (c : IndexCtx) (hc : TreeCtx c) (hm : MultiCtx c)
    (hb : multBoolL c.master = true) (w : List Obj) (hw : ReachedT c w) (hr : tmplRangeList w = true)
    (ops : List (Op PVal Str)) (hg : GoodOpsM c ops) (p : Str)
    (hne : liveAt (run (concreteKernel c) (init (concreteKernel c) w) ops).working p ≠ []) :
    ∃ e, (irun (concreteKernel c) (iinit (concreteKernel c) w) ops).lookup p = some e ∧
      e.pairs = pairsOf (liveAt (run (concreteKernel c) (init (concreteKernel c) w) ops).working p) := by
  obtain ⟨D, _, _, _, hD⟩ := reached_invariant_tree_multi_init c hc hm w hw ops hg
  apply lookup_exact_well_grouped (concreteKernel c) w hr ops p _ hne
  · rw [hD]; exact tree_result_has_no_multiple_scope c.envs c.master D hc.ok.tree p
  · rw [hD]; exact fetch_result_well_grouped_tree c.envs c.master D hc.ok.tree hb

/-! #### the literal nested context of C20Tree, edits of the `.multiple` definition `g.s` -/

/-- `g.s` three times (a repeated value), a value at depth 3, a plain parameter -/
def te4 : Str := "g {\n  s = y\n  s = z\n  s = y\n  h.t = 1\n}\nn = 2".toList

theorem tC_multi : MultiCtx tC := multiCtx_of_B (by decide +kernel)
theorem te3_tree : TreeEdit tC te3 := treeEdit_of_B (by decide +kernel)
theorem te4_tree : TreeEdit tC te4 := treeEdit_of_B (by decide +kernel)
theorem te3_listed : ListedEdit tC te3 := listedEdit_of_B (by decide +kernel)
theorem te4_listed : ListedEdit tC te4 := listedEdit_of_B (by decide +kernel)

/-- neither edit is a `PlainEdit` (C20Tree's theorems do not apply to them) -/
example : plainEditB tC te3 = false ∧ plainEditB tC te4 = false := by decide +kernel

def tPreM : List (Op PVal Str) := [.update te3, .push, .update te1, .pop]

theorem tPreM_good : GoodOpsM tC tPreM := ⟨te3_tree, te1_tree, trivial⟩

/-- the second edit REPLACES the instance `x` of `g.s` by the edit's own (`z`, `y`: the repeated `y`
    keeps its last place), by evaluation (library: the same, see `unlisted_keeps_old_instances`) … -/
example : obs2 (run K₂ (init K₂ tW0) [.update te3, .update te4]).working =
    [("n", 0, ["2"]), ("g", 0, []), ("g.s", -1, ["a"]), ("g.s", 0, ["z"]), ("g.s", 0, ["y"]),
     ("g.b", 0, ["True"]), ("g.h", 0, []), ("g.h.t", 0, ["1"])] := by decide +kernel

/-- … and applying it twice is applying it once: by the theorem (equality of the working sets) -/
example : (run K₂ (init K₂ tW0) (tPreM ++ [.update te4, .update te4])).working =
    (run K₂ (init K₂ tW0) (tPreM ++ [.update te4])).working :=
  same_edit_twice_tree_multi_reachable tC tC_tree tC_multi tW0 tW0_reached tPreM tPreM_good te4 te4_tree te4_listed

/-- the index after such a history: `g.s` looks up to exactly its two live instances -/
example : ∃ e, (irun K₂ (iinit K₂ tW0) (tPreM ++ [.update te4])).lookup "g.s".toList = some e ∧
    e.pairs = pairsOf (liveAt (run K₂ (init K₂ tW0) (tPreM ++ [.update te4])).working "g.s".toList) := by
  apply lookup_exact_tree_multi tC tC_tree tC_multi tMaster_multBool tW0 tW0_reached tW0_range
  · exact ⟨te3_tree, te1_tree, te4_tree, trivial⟩
  · intro h
    have : (liveAt (run K₂ (init K₂ tW0) (tPreM ++ [.update te4])).working "g.s".toList).length = 2 := by
      decide +kernel
    rw [h] at this; cases this

/-- the context whose index did NOT record the `.multiple` definition (`_multiple_defs` emptied by hand) -/
def tC0 : IndexCtx := { tC with multiple := [] }

/-- **`ListedEdit` is what "exactly the edit's instances" needs** (kernel-checked; replayed on the
    library with `idx._multiple_defs = []`): when the `.multiple` path is not recorded nothing is deleted,
    the old instance `x` stays in front of the edit's.  Library: recorded —
    `[('g.s', -1, ['a']), ('g.s', 0, ['z']), ('g.s', 0, ['y'])]`; emptied —
    `[('g.s', -1, ['a']), ('g.s', 0, ['x']), ('g.s', 0, ['z']), ('g.s', 0, ['y'])]`.  (The same-edit-twice
    law itself survives there — `dedupKeepLast` absorbs the repeated instances — so `ListedEdit` is not
    claimed sharp for it.) -/
theorem unlisted_keeps_old_instances :
    listedEditB tC0 te4 = false ∧
    obs2 (run (concreteKernel tC0) (init (concreteKernel tC0) tW0) [.update te3, .update te4]).working =
      [("n", 0, ["2"]), ("g", 0, []), ("g.s", -1, ["a"]), ("g.s", 0, ["x"]), ("g.s", 0, ["z"]), ("g.s", 0, ["y"]),
       ("g.b", 0, ["True"]), ("g.h", 0, []), ("g.h.t", 0, ["1"])] ∧
    obs2 (run (concreteKernel tC0) (init (concreteKernel tC0) tW0) [.update te3, .update te4, .update te4]).working =
      obs2 (run (concreteKernel tC0) (init (concreteKernel tC0) tW0) [.update te3, .update te4]).working := by
  refine ⟨by decide +kernel, by decide +kernel, by decide +kernel⟩

end Phil.C20

#print axioms Phil.C20.insideMultipleScope_iff
#print axioms Phil.C20.uniform_outside_multiple_scopes
#print axioms Phil.C20.fetch_result_well_grouped_ms
#print axioms Phil.C20.fetch_result_well_grouped_tree
#print axioms Phil.C20.tree_result_has_no_multiple_scope
#print axioms Phil.C20.lookup_exact_well_grouped
#print axioms Phil.C20.lookup_exact_ms
#print axioms Phil.C20.lookup_exact_tree
#print axioms Phil.C20.inside_multiple_scope_last_plain
#print axioms Phil.C20.inside_multiple_scope_all_multiple
#print axioms Phil.C20.pHist_well_grouped
#print axioms Phil.C20.tMaster_multBool
#print axioms Phil.C20.tW0_range
#print axioms Phil.C20.bool_multiple_needed
#print axioms Phil.C20.well_grouped_needed
#print axioms Phil.C20.multiCtx_of_B
#print axioms Phil.C20.listedEdit_of_B
#print axioms Phil.C20.delete_closed_form_tree
#print axioms Phil.C20.merge_closed_form_multi
#print axioms Phil.C20.mentioned_take_edit_instances
#print axioms Phil.C20.unmentioned_as_plain_merge
#print axioms Phil.C20.merge_reached_multi
#print axioms Phil.C20.reached_invariant_tree_multi
#print axioms Phil.C20.reached_invariant_tree_multi_init
#print axioms Phil.C20.absorption_with_deletion
#print axioms Phil.C20.same_edit_twice_tree_multi
#print axioms Phil.C20.same_edit_twice_tree_multi_state
#print axioms Phil.C20.same_edit_twice_tree_multi_reachable
#print axioms Phil.C20.lookup_exact_tree_multi
#print axioms Phil.C20.tC_multi
#print axioms Phil.C20.te3_tree
#print axioms Phil.C20.te4_tree
#print axioms Phil.C20.te3_listed
#print axioms Phil.C20.te4_listed
#print axioms Phil.C20.tPreM_good
#print axioms Phil.C20.unlisted_keeps_old_instances
