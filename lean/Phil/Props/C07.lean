/-
  C07 — Fetch is idempotent.
    "Fetching the result of a fetch against the same master reproduces it:
     M.fetch(M.fetch(S)) = M.fetch(S)."

  Model: Phil/Fetch.lean.  Lemmas and auxiliary definitions (`FlatMaster`, `RefetchOK`, `PlainMeta`,
  `flatResult`, `refetchCounts`, `w1Master`, `w1Source`) are in Phil/Proofs/FetchLemmas.lean.

  Status: PARTIAL.
    * `fetch_flat_idempotent_partial` proves idempotence for flat masters (all fuel, all
      definition-only sources whose variables resolve — `SrcOK` — to `$`-free words;
      `fetch_flat_idempotent_plain` is the reading for variable-free sources).
    * `refetch_stable_nested` (kernel evaluation): the former counterexample to the full property
      (finding D8: a `.multiple` definition inside a `.multiple` scope whose default is not in
      canonical spelling, `yes` for a bool — the second fetch had one more instance of the scope than
      the first) is gone.  The library now renders the key of a `.multiple` master scope from the
      scope's own fetch (fix of D9, `masterKeyOf` in the model), which also canonicalises the
      default; both fetches have one instance.  The former theorems `refetch_duplicates_nested`,
      `refetch_duplicates_nested_text` (counts `(1, 2)`) and `fetch_not_idempotent` derived from
      them are false for the model of the fixed tree and were removed.
-/
import Phil.Proofs.FetchLemmas
set_option linter.unusedVariables false
namespace Phil.C07
open Phil

/-- **Idempotence for flat masters (partial).**  Let the master consist of enabled plain
    definitions (not `.multiple`, not `.deprecated`, not of choice type) with non-empty, pairwise
    distinct names (`FlatMaster`), not template-marked, without a recorded variable resolution and
    with variable-free defaults (`RefetchOK` — the result of the first fetch carries the master's
    meta data and is the source of the second; a live `$` without a recorded resolution makes the
    model answer `unsupported`).  Then for every list `combined` of source *definitions* whose
    variable resolution succeeds (`SrcOK`: a recorded `varRes = some (.ok rws refs)`, or none and
    `$`-free words) and whose resolved words `srcWords` contain no live `$`: fetching the children
    of the result again reproduces the result.

    The full property additionally covers — and this theorem does not — master scopes (nested
    results, sources given as scopes or dotted names), `.multiple` definitions and scopes (template
    objects, de-duplication by rendered value), choice types (`*`-marking is re-interpreted by the
    second fetch), `.deprecated` definitions, disabled master objects, and diff mode (for
    `.multiple` inside `.multiple` see `refetch_stable_nested`). -/
theorem fetch_flat_idempotent_partial (e : Envs) (fuel : Nat) (mkids combined : List Obj)
    (hf : FlatMaster mkids) (hr : RefetchOK mkids)
    (hdef : ∀ o ∈ combined, o.isDefn = true) (hsrc : ∀ o ∈ combined, SrcOK o)
    (hdol : ∀ o ∈ combined, hasDollar o.srcWords = false)
    (rm : Meta) (out : List Obj) (used : List Nat)
    (h : fetchScope e (fuel + 1) false { name := [] } mkids combined = .ok (.scope rm out, used)) :
    ∃ used', fetchScope e (fuel + 1) false { name := [] } mkids out = .ok (.scope rm out, used') :=
  Phil.fetch_flat_idempotent_partial e fuel mkids combined hf hr hdef hsrc hdol rm out used h

/-- the variable-free reading: sources without recorded variable resolutions and without live `$` -/
theorem fetch_flat_idempotent_plain (e : Envs) (fuel : Nat) (mkids combined : List Obj)
    (hf : FlatMaster mkids) (hr : RefetchOK mkids)
    (hdef : ∀ o ∈ combined, o.isDefn = true) (hnone : ∀ o ∈ combined, o.meta.varRes = none)
    (hdol : ∀ o ∈ combined, hasDollar o.words = false)
    (rm : Meta) (out : List Obj) (used : List Nat)
    (h : fetchScope e (fuel + 1) false { name := [] } mkids combined = .ok (.scope rm out, used)) :
    ∃ used', fetchScope e (fuel + 1) false { name := [] } mkids out = .ok (.scope rm out, used') :=
  Phil.fetch_flat_idempotent_partial e fuel mkids combined hf hr hdef
    (fun o ho => SrcOK.of_none (hnone o ho) (hdol o ho))
    (fun o ho => by rw [srcWords_of_varRes_none o (hnone o ho)]; exact hdol o ho) rm out used h

/-- the hypothesis of the partial theorem is never vacuous: such a fetch always succeeds -/
theorem flat_fetch_succeeds (e : Envs) (fuel : Nat) (mkids combined : List Obj)
    (hf : FlatMaster mkids)
    (hdef : ∀ o ∈ combined, o.isDefn = true) (hsrc : ∀ o ∈ combined, SrcOK o) :
    fetchScope e (fuel + 1) false { name := [] } mkids combined =
      .ok (.scope { name := [] } (flatResult mkids combined), flatUsed mkids combined) :=
  Phil.fetch_flat e fuel _ mkids combined hf rfl rfl hdef hsrc

/-- the fixed point itself: the flat result is stable under re-fetching -/
theorem flatResult_idempotent (mkids combined : List Obj) (hf : FlatMaster mkids) (hr : RefetchOK mkids) :
    flatResult mkids (flatResult mkids combined) = flatResult mkids combined :=
  flatResult_idem mkids combined hf hr

/-! ### the former counterexample (D8) is repaired -/

/-- **Witness (D8 repaired).**  Master `s .multiple=True { d = yes .type=bool .multiple=True }`, source
    `s { d = no }`: the first fetch has one (non-template) instance of `s`, and so has the fetch of
    its result (before the fix of D9 the second fetch had two: the master key was rendered from the
    raw block, `yes`, and compared with the canonical `True` of the re-fetched template). -/
theorem refetch_stable_nested : refetchCounts envNone w1Master w1Source = some (1, 1) :=
  Phil.refetch_stable_nested

/-- the same on the parser's output for the two texts -/
theorem refetch_stable_nested_text :
    refetchCountsText envNone w1MasterText w1SourceText = some (1, 1) :=
  Phil.refetch_stable_nested_text

/-- pre-order listing of a tree: every object's meta data together with its words (a definition) or
    the number of its children (a scope).  Trees with the same listing are the same tree. -/
def preorder : Nat → Obj → List (Meta × (List Word ⊕ Nat))
  | 0, _ => []
  | _ + 1, .defn m ws => [(m, .inl ws)]
  | f + 1, .scope m kids => (m, .inr kids.length) :: kids.flatMap (preorder f)

/-- on this input the second fetch reproduces the first one exactly: the two result trees have the
    same pre-order listing (all meta data, all words) -/
theorem refetch_fixed_point_nested :
    (match fetchRoot envNone false w1Master [w1Source] with
     | .ok (r1, _) =>
       (match fetchRoot envNone false w1Master [r1.children] with
        | .ok (r2, _) => some (decide (preorder 8 r2 = preorder 8 r1), (preorder 8 r1).length)
        | .error _ => none)
     | .error _ => none) = some (true, 6) := by
  decide +kernel

end Phil.C07
