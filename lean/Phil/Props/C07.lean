/-
  C07 — Fetch is idempotent.
    "Fetching the result of a fetch against the same master reproduces it:
     M.fetch(M.fetch(S)) = M.fetch(S)."

  Model: Phil/Fetch.lean.  Lemmas and auxiliary definitions (`FlatMaster`, `RefetchOK`, `PlainMeta`,
  `flatResult`, `refetchCounts`, `w1Master`, `w1Source`) are in Phil/Proofs/FetchLemmas.lean.

  Status: PARTIAL + WITNESS.
    * `fetch_flat_idempotent_partial` proves idempotence for flat masters (all fuel, all
      definition-only sources whose variables resolve — `SrcOK` — to `$`-free words;
      `fetch_flat_idempotent_plain` is the reading for variable-free sources).
    * `refetch_duplicates_nested` is a kernel-checked counterexample to the full property (finding
      D8, a defect of the library): with a `.multiple` definition inside a `.multiple` scope whose
      default is not in canonical spelling (`yes` for a bool), the second fetch has one more
      instance of the scope than the first.
-/
import Phil.Proofs.FetchLemmas
set_option linter.unusedVariables false
namespace Phil.C07
open Phil

/-- **Idempotence for flat masters (partial).**  Let the master consist of enabled plain
    definitions (not `.multiple`, not `.deprecated`, not of choice type) with non-empty, pairwise
    distinct names (`FlatMaster`), not template-marked, without a recorded variable resolution and
    with variable-free defaults (`RefetchOK` — the result of the first fetch carries the master's
    meta data and is the source of the second; a live `$` without a recorded resolution makes the
    model answer `unsupported`).  Then for every list `combined` of source *definitions* whose
    variable resolution succeeds (`SrcOK`: a recorded `varRes = some (.ok rws refs)`, or none and
    `$`-free words) and whose resolved words `srcWords` contain no live `$`: fetching the children
    of the result again reproduces the result.

    The full property additionally covers — and this theorem does not — master scopes (nested
    results, sources given as scopes or dotted names), `.multiple` definitions and scopes (template
    objects, de-duplication by rendered value), choice types (`*`-marking is re-interpreted by the
    second fetch), `.deprecated` definitions, disabled master objects, and diff mode.  For
    `.multiple` inside `.multiple` it is false: see `refetch_duplicates_nested`. -/
theorem fetch_flat_idempotent_partial (e : Envs) (fuel : Nat) (mkids combined : List Obj)
    (hf : FlatMaster mkids) (hr : RefetchOK mkids)
    (hdef : ∀ o ∈ combined, o.isDefn = true) (hsrc : ∀ o ∈ combined, SrcOK o)
    (hdol : ∀ o ∈ combined, hasDollar o.srcWords = false)
    (rm : Meta) (out : List Obj) (used : List Nat)
    (h : fetchScope e (fuel + 1) false { name := [] } mkids combined = .ok (.scope rm out, used)) :
    ∃ used', fetchScope e (fuel + 1) false { name := [] } mkids out = .ok (.scope rm out, used') :=
  Phil.fetch_flat_idempotent_partial e fuel mkids combined hf hr hdef hsrc hdol rm out used h

/-- the variable-free reading: sources without recorded variable resolutions and without live `$` -/
theorem fetch_flat_idempotent_plain (e : Envs) (fuel : Nat) (mkids combined : List Obj)
    (hf : FlatMaster mkids) (hr : RefetchOK mkids)
    (hdef : ∀ o ∈ combined, o.isDefn = true) (hnone : ∀ o ∈ combined, o.meta.varRes = none)
    (hdol : ∀ o ∈ combined, hasDollar o.words = false)
    (rm : Meta) (out : List Obj) (used : List Nat)
    (h : fetchScope e (fuel + 1) false { name := [] } mkids combined = .ok (.scope rm out, used)) :
    ∃ used', fetchScope e (fuel + 1) false { name := [] } mkids out = .ok (.scope rm out, used') :=
  Phil.fetch_flat_idempotent_partial e fuel mkids combined hf hr hdef
    (fun o ho => SrcOK.of_none (hnone o ho) (hdol o ho))
    (fun o ho => by rw [srcWords_of_varRes_none o (hnone o ho)]; exact hdol o ho) rm out used h

/-- the hypothesis of the partial theorem is never vacuous: such a fetch always succeeds -/
theorem flat_fetch_succeeds (e : Envs) (fuel : Nat) (mkids combined : List Obj)
    (hf : FlatMaster mkids)
    (hdef : ∀ o ∈ combined, o.isDefn = true) (hsrc : ∀ o ∈ combined, SrcOK o) :
    fetchScope e (fuel + 1) false { name := [] } mkids combined =
      .ok (.scope { name := [] } (flatResult mkids combined), flatUsed mkids combined) :=
  Phil.fetch_flat e fuel _ mkids combined hf rfl rfl hdef hsrc

/-- the fixed point itself: the flat result is stable under re-fetching -/
theorem flatResult_idempotent (mkids combined : List Obj) (hf : FlatMaster mkids) (hr : RefetchOK mkids) :
    flatResult mkids (flatResult mkids combined) = flatResult mkids combined :=
  flatResult_idem mkids combined hf hr

/-! ### the full property is false for the model of the unchanged tree -/

/-- **Witness (D8).**  Master `s .multiple=True { d = yes .type=bool .multiple=True }`, source
    `s { d = no }`: the first fetch has one (non-template) instance of `s`, the fetch of its result
    has two. -/
theorem refetch_duplicates_nested : refetchCounts envNone w1Master w1Source = some (1, 2) :=
  Phil.refetch_duplicates_nested

/-- the same on the parser's output for the two texts -/
theorem refetch_duplicates_nested_text :
    refetchCountsText envNone w1MasterText w1SourceText = some (1, 2) :=
  Phil.refetch_duplicates_nested_text

/-- hence idempotence fails: the two results differ (already in the number of `s` instances) -/
theorem fetch_not_idempotent :
    ∃ (e : Envs) (master source : List Obj) (r1 r2 : Obj) (u1 u2 : List Nat),
      fetchRoot e false master [source] = .ok (r1, u1) ∧
      fetchRoot e false master [r1.children] = .ok (r2, u2) ∧
      countInst ['s'] r1 ≠ countInst ['s'] r2 := by
  have h := Phil.refetch_duplicates_nested
  unfold refetchCounts at h
  cases h1 : fetchRoot envNone false w1Master [w1Source] with
  | error err => rw [h1] at h; cases h
  | ok p1 =>
    obtain ⟨r1, u1⟩ := p1
    rw [h1] at h
    simp only at h
    cases h2 : fetchRoot envNone false w1Master [r1.children] with
    | error err => rw [h2] at h; cases h
    | ok p2 =>
      obtain ⟨r2, u2⟩ := p2
      rw [h2] at h
      simp only [Option.some.injEq, Prod.mk.injEq] at h
      exact ⟨envNone, w1Master, w1Source, r1, r2, u1, u2, h1, h2, by rw [h.1, h.2]; decide⟩

end Phil.C07
