/-
  C11 IN TREES — choices inside the closed form of fetch (namespace `Phil.C11`), with the companion
  facts for C05 ("the last value wins": for a choice the last enabled source DECIDES, but every
  matching source is CHECKED).

  Model: Phil/Fetch.lean (`fetchScope`/`fetchRoot`).  Lemmas: Phil/Proofs/FetchChoice.lean.
  Class: `TreeMasterC` — the nested masters of Phil/Props/C06Tree.lean (`TreeMaster`: enabled
  non-multiple scopes and definitions to any depth, names non-empty, dot-free, pairwise distinct
  among siblings) with the restriction "plain definition" DROPPED: definitions of any type, choices
  (single / multi, `.optional` anything) included, `.deprecated` or not.  Only `.multiple` stays
  outside.  Sources: arbitrary trees of definitions and named scopes, enabled or disabled, dotted or
  braced (`SrcTree`).

  Specification (fuel-free, structural recursion on the master):
    `srcVal mm mws ms`  what ONE matching source yields for the master definition `mm = mws`:
                        "incompatible" for a scope; for a definition `fetch_value`, i.e. for a choice
                        `choiceFetch mws optional ms.srcWords` — the MASTER's words, never the previous
                        result; `None` for a deprecated definition given its default;
    `firstErrC`         the error of the first failing matching source, in document order;
    `treeObjC`          a master definition: `firstErrC` of ALL matching sources, else the value of the
                        LAST (`lastDef`), else the master definition (nothing if deprecated); a master
                        scope: "incompatible" if an enabled definition bears its name, else rebuilt
                        from `srcStep`;
    `treeResultC`       the children of the result, or the first error in master order.
  Validation before proving: 1600 random (master, 0–3 sources) inputs, 432 of them errors: the
  specification agreed with the real `master.fetch(sources)` on all (words, quotes, dropped
  deprecated definitions, error class).
-/
import Phil.Proofs.FetchChoice
import Phil.Props.C11
import Phil.Props.C06Tree
set_option linter.unusedVariables false

namespace Phil.C11
open Phil

/-! ### 1. the closed form -/

/-- **Closed form of fetch on nested masters with choices and deprecated definitions.**  With fuel
    beyond the nesting depth, `fetchScope` IS `treeResultC`, error for error, and consumes
    `treeUsed`. -/
theorem fetch_tree_choice_total (e : Envs) (fuel : Nat) (sm : Meta) (mkids srcs : List Obj)
    (hf : TreeMasterC mkids) (hfuel : depthL mkids + 1 ≤ fuel) (hsd : sm.disabled = false)
    (hsrc : SrcTree srcs) :
    fetchScope e fuel false sm mkids srcs =
      match treeResultC mkids srcs with
      | .error err => .error err
      | .ok r => .ok (.scope { sm with tmpl := 0 } r, treeUsed mkids srcs) :=
  Phil.fetch_tree_choice_total e fuel sm mkids srcs hf hfuel hsd hsrc

/-- `master.fetch(sources)` on parsed roots -/
theorem fetchRoot_tree_choice (e : Envs) (master : List Obj) (ss : List (List Obj))
    (hf : TreeMasterC master) (hd : depthL master ≤ 1000) (hsrc : SrcTree ss.flatten) :
    fetchRoot e false master ss =
      match treeResultC master ss.flatten with
      | .error err => .error err
      | .ok r => .ok (.scope { name := [], id := some 0 } r, treeUsed master ss.flatten) :=
  Phil.fetchRoot_tree_choice e master ss hf hd hsrc

/-- the class extends `TreeMaster`: every theorem here applies to the masters of C06Tree/C05Tree -/
theorem treeMaster_is_treeMasterC {mkids : List Obj} (h : TreeMaster mkids) : TreeMasterC mkids := h.toC

theorem fetch_ok_is_spec (e : Envs) (fuel : Nat) (sm : Meta) (mkids srcs : List Obj)
    (hf : TreeMasterC mkids) (hfuel : depthL mkids + 1 ≤ fuel) (hsd : sm.disabled = false)
    (hsrc : SrcTree srcs) (ro : Obj) (used : List Nat)
    (h : fetchScope e fuel false sm mkids srcs = .ok (ro, used)) :
    treeResultC mkids srcs = .ok ro.children ∧ used = treeUsed mkids srcs := by
  rw [fetch_tree_choice_total e fuel sm mkids srcs hf hfuel hsd hsrc] at h
  cases hr : treeResultC mkids srcs with
  | error err => rw [hr] at h; cases h
  | ok r => rw [hr] at h; cases h; exact ⟨rfl, rfl⟩

/-! ### 2. the value of a choice at any depth: the LAST source decides, through `choiceFetch` -/

/-- **C11 at depth.**  Whenever the fetch succeeds: where the master has the (not deprecated) choice
    definition `mm = mws` at the path `ps.n`, the result has at the same path
    * the master definition itself when no enabled source definition is reached by the path;
    * otherwise the definition whose words are `choiceFetch mws optional d.srcWords` for the LAST
      such source `d` (over all sources and all spellings) — the master's own words re-drawn, so all
      theorems of Phil/Props/C11.lean apply to them (next theorems). -/
theorem choice_value_at_depth (e : Envs) (fuel : Nat) (sm : Meta) (mkids srcs : List Obj)
    (hf : TreeMasterC mkids) (hfuel : depthL mkids + 1 ≤ fuel) (hsd : sm.disabled = false)
    (hsrc : SrcTree srcs) (ro : Obj) (used : List Nat)
    (h : fetchScope e fuel false sm mkids srcs = .ok (ro, used))
    (ps : List Str) (n : Str) (mm : Meta) (mws : List Word) (b : Bool)
    (hm : defAt mkids ps n = some (.defn mm mws))
    (ht : mm.attrs.get "type" = .conv (.choice b)) (hdep : (mm.attrs.get "deprecated").truthy = false) :
    match lastDef (srcAt srcs ps) n with
    | none => defAt ro.children ps n = some (.defn mm mws)
    | some d => ∃ ws, choiceFetch mws (mm.attrs.get "optional") d.srcWords false = .ok ws ∧
        defAt ro.children ps n = some (.defn { mm with tmpl := 0 } ws) := by
  obtain ⟨hR, _⟩ := fetch_ok_is_spec e fuel sm mkids srcs hf hfuel hsd hsrc ro used h
  obtain ⟨os, ho1, ho2⟩ := defAt_treeResultC ps mkids srcs ro.children n mm mws hf hR hm
  have hn : mm.name = n := (defAt_name ps mkids n _ hm).1
  rw [treeObjC] at ho1
  split at ho1
  · cases ho1
  · rename_i hfe
    cases ho1
    rw [hn] at ho2 hfe
    cases hl : lastDef (srcAt srcs ps) n with
    | none =>
      rw [hl] at ho2
      simp only [finishC, hdep, Bool.false_eq_true, if_false, List.head?_cons] at ho2
      exact ho2
    | some d =>
      rw [hl] at ho2
      simp only at ho2 ⊢
      have hdm : d ∈ defsNamed n (srcAt srcs ps) := by
        unfold lastDef at hl; exact List.mem_of_getLast? hl
      have hd' := mem_defsNamed.mp hdm
      unfold firstErrC at hfe
      rw [List.findSome?_eq_none_iff] at hfe
      have hne := hfe d (mem_activeNamed.mpr ⟨hd'.1, hd'.2.2.1, hd'.2.2.2⟩)
      cases d with
      | scope m k => cases hd'.2.1
      | defn dm dws =>
        rw [srcVal_choice mm mws b dm dws ht hdep] at hne ho2
        cases hc : choiceFetch mws (mm.attrs.get "optional") (Obj.defn dm dws).srcWords false with
        | error err => rw [hc] at hne; cases hne
        | ok ws =>
          rw [hc] at ho2
          exact ⟨ws, rfl, ho2⟩

/-- **Alternatives preserved at depth** (C11, clause 1): names, order and quoting of the result
    definition at `ps.n` are the master's — for every number of sources at every depth.
    (`NoDoubleStar`: no master alternative spelt with two leading stars, finding D30; the last source
    not the plain word `Auto`, which replaces the whole value.) -/
theorem choice_alts_preserved_at_depth (e : Envs) (fuel : Nat) (sm : Meta) (mkids srcs : List Obj)
    (hf : TreeMasterC mkids) (hfuel : depthL mkids + 1 ≤ fuel) (hsd : sm.disabled = false)
    (hsrc : SrcTree srcs) (ro : Obj) (used : List Nat)
    (h : fetchScope e fuel false sm mkids srcs = .ok (ro, used))
    (ps : List Str) (n : Str) (mm : Meta) (mws : List Word) (b : Bool)
    (hm : defAt mkids ps n = some (.defn mm mws))
    (ht : mm.attrs.get "type" = .conv (.choice b)) (hdep : (mm.attrs.get "deprecated").truthy = false)
    (hds : NoDoubleStar mws)
    (hauto : ∀ d, lastDef (srcAt srcs ps) n = some d → isPlainAuto d.srcWords = false) :
    ∃ m ws, defAt ro.children ps n = some (.defn m ws) ∧ m.name = n ∧ m.attrs = mm.attrs ∧
      ws.map (fun w => ((stripStar w.value).1, w.quote)) =
        mws.map (fun w => ((stripStar w.value).1, w.quote)) := by
  have hn : mm.name = n := (defAt_name ps mkids n _ hm).1
  have key := choice_value_at_depth e fuel sm mkids srcs hf hfuel hsd hsrc ro used h ps n mm mws b hm ht hdep
  cases hl : lastDef (srcAt srcs ps) n with
  | none => rw [hl] at key; exact ⟨mm, mws, key, hn, rfl, rfl⟩
  | some d =>
    rw [hl] at key
    obtain ⟨ws, hc, hdef⟩ := key
    exact ⟨_, ws, hdef, hn, rfl, choice_alts_preserved mws _ _ false ws hds hc (hauto d hl)⟩

/-- **Only what was asked is selected, at depth** (C11, clause 2, star-only sources): when the last
    source reached by the path consists of starred words, an alternative of the result is starred
    iff its lower-cased name is one of the lower-cased source names. -/
theorem choice_selected_star_at_depth (e : Envs) (fuel : Nat) (sm : Meta) (mkids srcs : List Obj)
    (hf : TreeMasterC mkids) (hfuel : depthL mkids + 1 ≤ fuel) (hsd : sm.disabled = false)
    (hsrc : SrcTree srcs) (ro : Obj) (used : List Nat)
    (h : fetchScope e fuel false sm mkids srcs = .ok (ro, used))
    (ps : List Str) (n : Str) (mm : Meta) (mws : List Word) (b : Bool)
    (hm : defAt mkids ps n = some (.defn mm mws))
    (ht : mm.attrs.get "type" = .conv (.choice b)) (hdep : (mm.attrs.get "deprecated").truthy = false)
    (d : Obj) (hl : lastDef (srcAt srcs ps) n = some d)
    (hstar : ∀ w ∈ d.srcWords, (stripStar w.value).2 = true) :
    defAt ro.children ps n = some (.defn { mm with tmpl := 0 } (mws.map (fun w =>
      let v := (stripStar w.value).1
      { value := if lower v ∈ d.srcWords.map (fun x => lower (stripStar x.value).1) then '*' :: v else v,
        quote := w.quote, line := w.line }))) := by
  have key := choice_value_at_depth e fuel sm mkids srcs hf hfuel hsd hsrc ro used h ps n mm mws b hm ht hdep
  rw [hl] at key
  obtain ⟨ws, hc, hdef⟩ := key
  rw [hdef, choice_selected_star mws _ _ false ws hstar hc]

/-- **C05 on the larger class** ("the last value wins", unchanged for definitions that are not
    choices and not deprecated): the result definition at `ps.n` carries the (resolved) words of the
    LAST enabled source definition reached by the path, or is the master definition. -/
theorem plain_value_at_depth (e : Envs) (fuel : Nat) (sm : Meta) (mkids srcs : List Obj)
    (hf : TreeMasterC mkids) (hfuel : depthL mkids + 1 ≤ fuel) (hsd : sm.disabled = false)
    (hsrc : SrcTree srcs) (ro : Obj) (used : List Nat)
    (h : fetchScope e fuel false sm mkids srcs = .ok (ro, used))
    (ps : List Str) (n : Str) (mm : Meta) (mws : List Word)
    (hm : defAt mkids ps n = some (.defn mm mws))
    (ht : ∀ b, mm.attrs.get "type" ≠ .conv (.choice b))
    (hdep : (mm.attrs.get "deprecated").truthy = false) :
    defAt ro.children ps n =
      some (match lastDef (srcAt srcs ps) n with
            | some d => .defn { mm with tmpl := 0 } d.srcWords
            | none => .defn mm mws) := by
  obtain ⟨hR, _⟩ := fetch_ok_is_spec e fuel sm mkids srcs hf hfuel hsd hsrc ro used h
  obtain ⟨os, ho1, ho2⟩ := defAt_treeResultC ps mkids srcs ro.children n mm mws hf hR hm
  have hn : mm.name = n := (defAt_name ps mkids n _ hm).1
  rw [treeObjC] at ho1
  split at ho1
  · cases ho1
  · cases ho1
    rw [hn] at ho2
    cases hl : lastDef (srcAt srcs ps) n with
    | none =>
      rw [hl] at ho2
      simp only [finishC, hdep, Bool.false_eq_true, if_false, List.head?_cons] at ho2
      exact ho2
    | some d =>
      rw [hl] at ho2
      have hdm : d ∈ defsNamed n (srcAt srcs ps) := by
        unfold lastDef at hl; exact List.mem_of_getLast? hl
      cases d with
      | scope m k => cases (mem_defsNamed.mp hdm).2.1
      | defn dm dws =>
        have hv : srcVal mm mws (.defn dm dws) =
            .ok (some (.defn { mm with tmpl := 0 } (Obj.defn dm dws).srcWords)) := by
          simp only [srcVal, fetchValueW, hdep, Bool.false_and, Bool.false_eq_true, if_false]
          first
            | done
            | (split
               · rename_i b hb; exact absurd hb (ht b)
               all_goals rfl)
        simp only [hv, valOfC, finishC, List.head?_cons] at ho2
        exact ho2

/-- **`master.fetch(sources)` on parsed roots, hypotheses in executable form** (`treeMasterCB`,
    `srcCheck`): the value of a choice at any depth. -/
theorem fetchRoot_choice_value_at_depth (e : Envs) (master : List Obj) (ss : List (List Obj))
    (hmc : treeMasterCB master = true) (hs : srcCheck ss.flatten = true)
    (ro : Obj) (used : List Nat) (h : fetchRoot e false master ss = .ok (ro, used))
    (ps : List Str) (n : Str) (mm : Meta) (mws : List Word) (b : Bool)
    (hm : defAt master ps n = some (.defn mm mws))
    (ht : mm.attrs.get "type" = .conv (.choice b)) (hdep : (mm.attrs.get "deprecated").truthy = false) :
    match lastDef (srcAt ss.flatten ps) n with
    | none => defAt ro.children ps n = some (.defn mm mws)
    | some d => ∃ ws, choiceFetch mws (mm.attrs.get "optional") d.srcWords false = .ok ws ∧
        defAt ro.children ps n = some (.defn { mm with tmpl := 0 } ws) :=
  have hM := treeMasterCB_sound master hmc
  choice_value_at_depth e _ _ master ss.flatten hM.1 (fetchRoot_fuel_tree master hM.2) rfl
    (srcCheck_sound _ hs).tree ro used h ps n mm mws b hm ht hdep

/-! ### 3. every matching source is checked -/

/-- **An unknown selected name in ANY matching source is an error** — whether or not a later source
    overrides it: if some enabled source definition `d` reached by the path of a master choice is
    refused by `choiceFetch`, the whole fetch fails. -/
theorem choice_bad_source_anywhere_fails (e : Envs) (fuel : Nat) (sm : Meta) (mkids srcs : List Obj)
    (hf : TreeMasterC mkids) (hfuel : depthL mkids + 1 ≤ fuel) (hsd : sm.disabled = false)
    (hsrc : SrcTree srcs)
    (ps : List Str) (n : Str) (mm : Meta) (mws : List Word) (b : Bool)
    (hm : defAt mkids ps n = some (.defn mm mws))
    (ht : mm.attrs.get "type" = .conv (.choice b)) (hdep : (mm.attrs.get "deprecated").truthy = false)
    (d : Obj) (hd : d ∈ defsNamed n (srcAt srcs ps)) (err : Err)
    (hbad : choiceFetch mws (mm.attrs.get "optional") d.srcWords false = .error err) :
    ∃ err', fetchScope e fuel false sm mkids srcs = .error err' ∧ ChoiceErr err' := by
  have hsv : srcVal mm mws d = .error err := by
    cases d with
    | scope m k => cases (mem_defsNamed.mp hd).2.1
    | defn dm dws => rw [srcVal_choice mm mws b dm dws ht hdep, hbad]; rfl
  obtain ⟨err', he⟩ := treeResultC_error_of_bad_source ps mkids srcs n mm mws hf hm d hd err hsv
  refine ⟨err', ?_, treeResultC_error mkids srcs err' he⟩
  rw [fetch_tree_choice_total e fuel sm mkids srcs hf hfuel hsd hsrc, he]

/-- … in the wording of `choice_unknown_sorry`: a source word that is selected (starred, or the only
    word) and names no master alternative, in any matching source, outside the `a+b` form. -/
theorem choice_unknown_anywhere_fails (e : Envs) (fuel : Nat) (sm : Meta) (mkids srcs : List Obj)
    (hf : TreeMasterC mkids) (hfuel : depthL mkids + 1 ≤ fuel) (hsd : sm.disabled = false)
    (hsrc : SrcTree srcs)
    (ps : List Str) (n : Str) (mm : Meta) (mws : List Word) (b : Bool)
    (hm : defAt mkids ps n = some (.defn mm mws))
    (ht : mm.attrs.get "type" = .conv (.choice b)) (hdep : (mm.attrs.get "deprecated").truthy = false)
    (d : Obj) (hd : d ∈ defsNamed n (srcAt srcs ps))
    (hmw : (isPlainNone mws || isPlainAuto mws) = false)
    (ha : isPlainAuto d.srcWords = false)
    (hn : ((mm.attrs.get "optional").mandatory || !isPlainNone d.srcWords) = true)
    (hp : plusMode d.srcWords = false)
    (hbad : ∃ w ∈ d.srcWords, BadWord mws (d.srcWords.length == 1) w) :
    ∃ err', fetchScope e fuel false sm mkids srcs = .error err' ∧ ChoiceErr err' :=
  choice_bad_source_anywhere_fails e fuel sm mkids srcs hf hfuel hsd hsrc ps n mm mws b hm ht hdep d hd _
    (choice_unknown_sorry mws _ _ hmw ha hn hp hbad)

/-- **The only failures** of a fetch on this class: RuntimeError "incompatible" (a scope where the
    master has a definition or vice versa), or — from a choice definition of the master with words
    `mws` — Sorry listing ALL alternatives `mws`, or the assertion on a choice whose words are the
    plain `None`/`Auto`. -/
theorem choice_tree_errors (e : Envs) (fuel : Nat) (sm : Meta) (mkids srcs : List Obj)
    (hf : TreeMasterC mkids) (hfuel : depthL mkids + 1 ≤ fuel) (hsd : sm.disabled = false)
    (hsrc : SrcTree srcs) (err : Err)
    (h : fetchScope e fuel false sm mkids srcs = .error err) :
    err = incompatibleErr ∨
    ∃ (mm : Meta) (mws : List Word) (b : Bool), mm.attrs.get "type" = .conv (.choice b) ∧
      (((isPlainNone mws || isPlainAuto mws) = true ∧ err = .stray "AssertionError" "choice_fetch") ∨
       ((isPlainNone mws || isPlainAuto mws) = false ∧
         err = .sorry_ "not_a_possible_choice" (mws.map (·.value)))) := by
  rw [fetch_tree_choice_total e fuel sm mkids srcs hf hfuel hsd hsrc] at h
  cases hr : treeResultC mkids srcs with
  | ok r => rw [hr] at h; cases h
  | error err' =>
    rw [hr] at h
    cases h
    rcases treeResultC_error mkids srcs err hr with h1 | ⟨mm, mws, sws, b, hb, hc⟩
    · exact .inl h1
    · refine .inr ⟨mm, mws, b, hb, ?_⟩
      rcases choice_error_is_sorry mws _ sws false err hc with ⟨h1, h2⟩ | ⟨h1, _, h2⟩
      · exact .inl ⟨h1, h2⟩
      · exact .inr ⟨h1, h2⟩

/-! ### 4. deprecated definitions (the `dep` early exit of `fetch_value`), at depth -/

/-- A deprecated master definition without a source is NOT in the result. -/
theorem deprecated_unset_dropped (e : Envs) (fuel : Nat) (sm : Meta) (mkids srcs : List Obj)
    (hf : TreeMasterC mkids) (hfuel : depthL mkids + 1 ≤ fuel) (hsd : sm.disabled = false)
    (hsrc : SrcTree srcs) (ro : Obj) (used : List Nat)
    (h : fetchScope e fuel false sm mkids srcs = .ok (ro, used))
    (ps : List Str) (n : Str) (mm : Meta) (mws : List Word)
    (hm : defAt mkids ps n = some (.defn mm mws))
    (hdep : (mm.attrs.get "deprecated").truthy = true)
    (hl : lastDef (srcAt srcs ps) n = none) :
    defAt ro.children ps n = none := by
  obtain ⟨hR, _⟩ := fetch_ok_is_spec e fuel sm mkids srcs hf hfuel hsd hsrc ro used h
  obtain ⟨os, ho1, ho2⟩ := defAt_treeResultC ps mkids srcs ro.children n mm mws hf hR hm
  have hn : mm.name = n := (defAt_name ps mkids n _ hm).1
  rw [treeObjC] at ho1
  split at ho1
  · cases ho1
  · cases ho1
    rw [hn, hl] at ho2
    simp only [finishC, hdep, if_true, List.head?_nil] at ho2
    exact ho2

/-- A deprecated master definition is in the result exactly with the value of its LAST source,
    unless that value is the default (same word values, or both `None`, or both `Auto`): then it is
    dropped — whatever earlier sources said. -/
theorem deprecated_last_source_decides (e : Envs) (fuel : Nat) (sm : Meta) (mkids srcs : List Obj)
    (hf : TreeMasterC mkids) (hfuel : depthL mkids + 1 ≤ fuel) (hsd : sm.disabled = false)
    (hsrc : SrcTree srcs) (ro : Obj) (used : List Nat)
    (h : fetchScope e fuel false sm mkids srcs = .ok (ro, used))
    (ps : List Str) (n : Str) (mm : Meta) (mws : List Word)
    (hm : defAt mkids ps n = some (.defn mm mws))
    (hdep : (mm.attrs.get "deprecated").truthy = true)
    (d : Obj) (hl : lastDef (srcAt srcs ps) n = some d) :
    ∃ v, fetchValueW mm mws d.srcWords = .ok v ∧ defAt ro.children ps n = v := by
  obtain ⟨hR, _⟩ := fetch_ok_is_spec e fuel sm mkids srcs hf hfuel hsd hsrc ro used h
  obtain ⟨os, ho1, ho2⟩ := defAt_treeResultC ps mkids srcs ro.children n mm mws hf hR hm
  have hn : mm.name = n := (defAt_name ps mkids n _ hm).1
  rw [treeObjC] at ho1
  split at ho1
  · cases ho1
  · rename_i hfe
    cases ho1
    rw [hn] at ho2 hfe
    rw [hl] at ho2
    simp only at ho2
    have hdm : d ∈ defsNamed n (srcAt srcs ps) := by
      unfold lastDef at hl; exact List.mem_of_getLast? hl
    have hd' := mem_defsNamed.mp hdm
    unfold firstErrC at hfe
    rw [List.findSome?_eq_none_iff] at hfe
    have hne := hfe d (mem_activeNamed.mpr ⟨hd'.1, hd'.2.2.1, hd'.2.2.2⟩)
    cases d with
    | scope m k => cases hd'.2.1
    | defn dm dws =>
      rw [srcVal] at hne ho2
      cases hv : fetchValueW mm mws (Obj.defn dm dws).srcWords with
      | error err => rw [hv] at hne; cases hne
      | ok v =>
        rw [hv] at ho2
        refine ⟨v, rfl, ?_⟩
        cases v with
        | none => simp only [valOfC, finishC, hdep, if_true, List.head?_nil] at ho2; exact ho2
        | some x => simp only [valOfC, finishC, List.head?_cons] at ho2; exact ho2

/-! ### 5. instances through the parser; kernel-checked sharp edges (all replayed on Python) -/

/-- master: `t = 1 ; s { c = x X y (.type=choice) ; k = a *b (.type=choice(multi=True))
    ; o = 1 (.deprecated=True) ; u { e = a (.type=choice) } }` -/
def chM : List Obj :=
  C06.objsOf "t = 1\ns {\n  c = x X y\n  .type=choice\n  k = a *b\n  .type=choice(multi=True)\n  o = 1\n  .deprecated=True\n  u {\n    e = a\n    .type=choice\n  }\n}\n"

/-- sources: dotted and braced, two values for `s.k`, a disabled one -/
def chS : List Obj := C06.objsOf "s.c = *x\ns {\n  k = *a\n  !k = *zz\n}\ns.k = b+a\n"

/-- the instance satisfies the hypotheses of every theorem above -/
example : treeMasterCB chM = true ∧ srcCheck chS = true := by decide +kernel

def wordsAt (r : R (List Obj)) (ps : List String) (n : String) : Option (List String) :=
  match r with
  | .ok l => (defAt l (ps.map String.toList) n.toList).map (fun o => o.words.map (fun w => String.ofList w.value))
  | .error _ => none

/-- D19 inside a tree: `x` and `X` are both starred by `s.c = *x`; `s.k` takes the LAST source
    (`b+a`: both), the deprecated `s.o` is gone, the single-alternative `s.u.e = a` stays unstarred
    (Python: `s { c = *x *X y ; k = *a *b ; u { e = a } }`, `o` absent) -/
theorem choices_in_tree_evaluated :
    (wordsAt (treeResultC chM chS) ["s"] "c", wordsAt (treeResultC chM chS) ["s"] "k",
     wordsAt (treeResultC chM chS) ["s"] "o", wordsAt (treeResultC chM chS) ["s", "u"] "e",
     wordsAt (treeResultC chM chS) [] "t") =
    (some ["*x", "*X", "y"], some ["*a", "*b"], none, some ["a"], some ["1"]) := by decide +kernel

/-- the closed form applied to the instance: the real entry point returns that tree -/
example : ∃ ro used, fetchRoot env12 false chM [chS] = .ok (ro, used) ∧
    (defAt ro.children ["s".toList] "c".toList).map (fun o => o.words.map (fun w => String.ofList w.value))
      = some ["*x", "*X", "y"] := by
  have hc : treeMasterCB chM = true := by decide +kernel
  have hs : srcCheck ([chS] : List (List Obj)).flatten = true := by decide +kernel
  have hM := treeMasterCB_sound chM hc
  have hS := srcCheck_sound _ hs
  have h := fetchRoot_tree_choice env12 chM [chS] hM.1 hM.2 hS.tree
  have hfl : ([chS] : List (List Obj)).flatten = chS := by simp
  rw [hfl] at h
  cases hr : treeResultC chM chS with
  | error err =>
    have : (match treeResultC chM chS with | .ok _ => true | .error _ => false) = true := by decide +kernel
    rw [hr] at this; cases this
  | ok r =>
    rw [hr] at h
    refine ⟨_, _, h, ?_⟩
    have : wordsAt (treeResultC chM chS) ["s"] "c" = some ["*x", "*X", "y"] := by decide +kernel
    rw [hr] at this
    exact this

/-- **Sharp edge: an EARLIER bad source fails the fetch although a later one overrides it.**
    Master `s { c = a b (.type=choice) }`, sources `s.c = *zz` then `s { c = *a }`: Sorry listing
    `a b` (Python: `Sorry: Not a possible choice for s.c: zz`). -/
theorem earlier_unknown_choice_fails :
    errOf (treeResultC (C06.objsOf "s {\n c = a b\n .type=choice\n}\n")
        ((C06.objsOf "s.c = *zz\n") ++ (C06.objsOf "s { c = *a }\n"))) =
      some (.sorry_ "not_a_possible_choice" ["a".toList, "b".toList]) := by decide +kernel

/-- … while with a good earlier source the LAST one decides, and its stars replace the earlier ones
    (Python: `s.c = *b` then `s { c = a }` gives `c = *a b`) -/
theorem last_choice_source_decides :
    wordsAt (treeResultC (C06.objsOf "s {\n c = a b\n .type=choice\n}\n")
        ((C06.objsOf "s.c = *b\n") ++ (C06.objsOf "s { c = a }\n"))) ["s"] "c" = some ["*a", "b"] := by
  decide +kernel

/-- **Sharp edge for `choice_alts_preserved_at_depth` (hypothesis `hauto`)**: a last source that is
    the plain word `Auto` replaces the whole value — the alternatives are gone from the result
    (Python: master `s { c = a b (.type=choice) }`, source `s.c = Auto` gives `s { c = Auto }`). -/
theorem auto_source_replaces_alternatives :
    wordsAt (treeResultC (C06.objsOf "s {\n c = a b\n .type=choice\n}\n") (C06.objsOf "s.c = Auto\n"))
      ["s"] "c" = some ["Auto"] := by decide +kernel

def oneAltM : List Obj := C06.objsOf "s {\n c = a\n .type=choice\n}\n"

/-- **Sharp edge for C07 on this class: a single-alternative unstarred choice is starred by a
    re-fetch.**  Master `s { c = a (.type=choice) }`: the fetch without sources keeps `c = a`;
    fetching that result again gives `c = *a` (a one-word source selects its word).  So
    `tree_refetch_idempotent` does not extend to choice definitions without a hypothesis.
    (Python: `M.fetch().as_str()` = `s { c = a }`, `M.fetch(M.fetch()).as_str()` = `s { c = *a }`.) -/
theorem single_alternative_starred_by_refetch :
    (wordsAt (treeResultC oneAltM []) ["s"] "c",
     wordsAt (match treeResultC oneAltM [] with
              | .ok r => treeResultC oneAltM r
              | .error err => .error err) ["s"] "c") = (some ["a"], some ["*a"]) := by decide +kernel

def depM : List Obj := C06.objsOf "s {\n c = a b\n .type=choice\n .deprecated=True\n d = 1\n}\n"
def kidNames (r : R (List Obj)) : List String :=
  match r with
  | .ok [.scope _ kids] => kids.map (fun (o : Obj) => String.ofList o.name)
  | _ => []

/-- the deprecated definition: dropped without a source and when the last source re-states the
    default, kept when the last source differs (Python: children of `s` are `[d]`, `[c, d]`, `[d]`) -/
theorem deprecated_in_tree_evaluated :
    (kidNames (treeResultC depM []), kidNames (treeResultC depM (C06.objsOf "s.c = *b\n")),
     kidNames (treeResultC depM (C06.objsOf "s.c = *b\ns.c=a b\n"))) = (["d"], ["c", "d"], ["d"]) := by
  decide +kernel

end Phil.C11

#print axioms Phil.C11.fetch_tree_choice_total
#print axioms Phil.C11.fetchRoot_tree_choice
#print axioms Phil.C11.treeMaster_is_treeMasterC
#print axioms Phil.C11.fetch_ok_is_spec
#print axioms Phil.C11.choice_value_at_depth
#print axioms Phil.C11.choice_alts_preserved_at_depth
#print axioms Phil.C11.choice_selected_star_at_depth
#print axioms Phil.C11.fetchRoot_choice_value_at_depth
#print axioms Phil.C11.plain_value_at_depth
#print axioms Phil.C11.auto_source_replaces_alternatives
#print axioms Phil.C11.choice_bad_source_anywhere_fails
#print axioms Phil.C11.choice_unknown_anywhere_fails
#print axioms Phil.C11.choice_tree_errors
#print axioms Phil.C11.deprecated_unset_dropped
#print axioms Phil.C11.deprecated_last_source_decides
#print axioms Phil.C11.choices_in_tree_evaluated
#print axioms Phil.C11.earlier_unknown_choice_fails
#print axioms Phil.C11.last_choice_source_decides
#print axioms Phil.C11.single_alternative_starred_by_refetch
#print axioms Phil.C11.deprecated_in_tree_evaluated
