/-
  C06 (exact form) — "the reported list is EXACTLY the active source definitions whose full path
  names no active master parameter."

  Model: Phil/Fetch.lean (`fetchScope`/`fetchRoot`; the `.tmp` marks are the returned list `used`),
  Phil/CmdLine.lean (`allDefinitions`); the driver reports `unusedOf sources used`
  (Phil/Props/C06.lean).  Lemmas: Phil/Proofs/FetchSpec.lean, part A.

  Class covered (unbounded: every such master, every such source list, every fuel):
    * master: FLAT — enabled definitions, pairwise distinct non-empty names, not `.multiple`, not
      `.deprecated`, no choice type (`FlatMaster`), names dot-free (the parser never produces a
      definition whose name contains a dot: `a.b = 1` becomes `a { b = 1 }`), fetched at the root,
      non-diff mode;
    * sources: root-level definitions AND scopes; the scopes are named (`name ≠ []`, as the parser
      guarantees) and have arbitrary contents at any depth; variable-free (`srcRefs = []`,
      `SrcOK`).
  Facts:
    * `clash_fails`: an enabled root-level source scope bearing the name of a master definition
      makes the fetch raise RuntimeError ("incompatible") — so the theorems below are stated for
      the success case, with no further hypothesis;
    * `flat_used_exact`: the consumed ids are exactly the ids of the enabled root-level source
      definitions named like a master child;
    * `flat_unused_exact` / `fetchRoot_unused_exact`: with pairwise distinct ids, the reported
      list is exactly the sub-list of `all_definitions(sources)` whose path is no master name;
      in particular every definition nested in a source scope is reported;
    * `fetch_flat_mixed`: complete description of the result (source scopes are ignored).
-/
import Phil.Proofs.FetchSpec
import Phil.Props.C06
import Phil.Props.C05
import Phil.Parse
set_option linter.unusedVariables false
namespace Phil.C06
open Phil

/-- the driver's list is the `notConsumed` filter of `all_definitions` -/
theorem unusedOf_eq (sources : List Obj) (used : List Nat) :
    unusedOf sources used = (allDefinitions sources).filter (notConsumed used) := rfl

/-- **A source scope named like a master definition is an error.** -/
theorem clash_fails (e : Envs) (fuel : Nat) (sm : Meta) (mkids combined : List Obj)
    (hf : FlatMaster mkids) (hdot : ∀ mo ∈ mkids, '.' ∉ mo.name)
    (hsm : sm.name = []) (hsd : sm.disabled = false)
    (hsc : ∀ m kids, Obj.scope m kids ∈ combined → m.name ≠ [])
    (hsrc : ∀ o ∈ combined, o.isDefn = true → SrcOK o)
    (m : Meta) (k : List Obj) (hm : Obj.scope m k ∈ combined) (hmd : m.disabled = false)
    (hmn : m.name ∈ mkids.map Obj.name) :
    fetchScope e (fuel + 1) false sm mkids combined = .error (.runtime "incompatible" none) :=
  fetch_flat_clash e fuel sm mkids combined hf hdot hsm hsd hsc hsrc m k hm hmd hmn

/-- **Consumed ids, exactly.**  Whenever the fetch of a flat master succeeds, `i` is consumed iff it
    is the id of an enabled root-level source definition whose name is the name of a master
    child. -/
theorem flat_used_exact (e : Envs) (fuel : Nat) (sm : Meta) (mkids combined : List Obj)
    (hf : FlatMaster mkids) (hdot : ∀ mo ∈ mkids, '.' ∉ mo.name)
    (hsm : sm.name = []) (hsd : sm.disabled = false)
    (hsc : ∀ m kids, Obj.scope m kids ∈ combined → m.name ≠ [])
    (hsrc : ∀ o ∈ combined, o.isDefn = true → SrcOK o)
    (hrefs : ∀ o ∈ combined, srcRefs o = [])
    (ro : Obj) (used : List Nat)
    (h : fetchScope e fuel false sm mkids combined = .ok (ro, used)) (i : Nat) :
    i ∈ used ↔ ∃ d ∈ combined, d.isDefn = true ∧ d.meta.disabled = false ∧ d.meta.id = some i ∧
      d.name ∈ mkids.map Obj.name :=
  Phil.flat_used_exact e fuel sm mkids combined hf hdot hsm hsd hsc hsrc hrefs ro used h i

/-- **The reported list, exactly.**  Whenever the fetch of a flat master succeeds and the
    definitions of the sources carry pairwise distinct ids, the reported list is the list of the
    entries of `all_definitions(sources)` (in order) whose full path is not the name of a master
    parameter: every such definition is reported — those nested in source scopes included, their
    paths being dotted — and no consumed one is. -/
theorem flat_unused_exact (e : Envs) (fuel : Nat) (sm : Meta) (mkids combined : List Obj)
    (hf : FlatMaster mkids) (hdot : ∀ mo ∈ mkids, '.' ∉ mo.name)
    (hinc : "include".toList ∉ mkids.map Obj.name)
    (hsm : sm.name = []) (hsd : sm.disabled = false)
    (hsc : ∀ m kids, Obj.scope m kids ∈ combined → m.name ≠ [])
    (hsrc : ∀ o ∈ combined, o.isDefn = true → SrcOK o)
    (hrefs : ∀ o ∈ combined, srcRefs o = [])
    (hsome : ∀ x ∈ allDefinitions combined, x.2.1.id ≠ none)
    (hids : ((allDefinitions combined).map (fun x => x.2.1.id)).Nodup)
    (ro : Obj) (used : List Nat)
    (h : fetchScope e fuel false sm mkids combined = .ok (ro, used)) :
    unusedOf combined used =
      (allDefinitions combined).filter (fun x => !(mkids.map Obj.name).contains x.1) :=
  Phil.flat_unused_exact e fuel sm mkids combined hf hdot hinc hsm hsd hsc hsrc hrefs hsome hids ro used h

/-- membership form: an entry of `all_definitions(sources)` is reported iff its path names no master
    parameter -/
theorem reported_iff (e : Envs) (fuel : Nat) (sm : Meta) (mkids combined : List Obj)
    (hf : FlatMaster mkids) (hdot : ∀ mo ∈ mkids, '.' ∉ mo.name)
    (hinc : "include".toList ∉ mkids.map Obj.name)
    (hsm : sm.name = []) (hsd : sm.disabled = false)
    (hsc : ∀ m kids, Obj.scope m kids ∈ combined → m.name ≠ [])
    (hsrc : ∀ o ∈ combined, o.isDefn = true → SrcOK o)
    (hrefs : ∀ o ∈ combined, srcRefs o = [])
    (hsome : ∀ x ∈ allDefinitions combined, x.2.1.id ≠ none)
    (hids : ((allDefinitions combined).map (fun x => x.2.1.id)).Nodup)
    (ro : Obj) (used : List Nat)
    (h : fetchScope e fuel false sm mkids combined = .ok (ro, used))
    (x : Str × Meta × List Word) :
    x ∈ unusedOf combined used ↔ x ∈ allDefinitions combined ∧ x.1 ∉ mkids.map Obj.name := by
  rw [flat_unused_exact e fuel sm mkids combined hf hdot hinc hsm hsd hsc hsrc hrefs hsome hids ro used h,
    List.mem_filter]
  simp

/-- **`master.fetch(sources)`** — the same for the entry point on parsed roots. -/
theorem fetchRoot_unused_exact (e : Envs) (master : List Obj) (ss : List (List Obj))
    (hf : FlatMaster master) (hdot : ∀ mo ∈ master, '.' ∉ mo.name)
    (hinc : "include".toList ∉ master.map Obj.name)
    (hsc : ∀ m kids, Obj.scope m kids ∈ ss.flatten → m.name ≠ [])
    (hsrc : ∀ o ∈ ss.flatten, o.isDefn = true → SrcOK o)
    (hrefs : ∀ o ∈ ss.flatten, srcRefs o = [])
    (hsome : ∀ x ∈ allDefinitions ss.flatten, x.2.1.id ≠ none)
    (hids : ((allDefinitions ss.flatten).map (fun x => x.2.1.id)).Nodup)
    (ro : Obj) (used : List Nat)
    (h : fetchRoot e false master ss = .ok (ro, used)) :
    unusedOf ss.flatten used =
      (allDefinitions ss.flatten).filter (fun x => !(master.map Obj.name).contains x.1) :=
  flat_unused_exact e _ _ master ss.flatten hf hdot hinc rfl rfl hsc hsrc hrefs hsome hids ro used h

/-- **Complete description of the result**: source scopes (not named like a master definition) are
    ignored; the fetch cannot fail. -/
theorem fetch_flat_mixed (e : Envs) (fuel : Nat) (sm : Meta) (mkids combined : List Obj)
    (hf : FlatMaster mkids) (hdot : ∀ mo ∈ mkids, '.' ∉ mo.name)
    (hsm : sm.name = []) (hsd : sm.disabled = false)
    (hmix : MixedSrc (mkids.map Obj.name) combined)
    (hsrc : ∀ o ∈ combined, o.isDefn = true → SrcOK o) :
    fetchScope e (fuel + 1) false sm mkids combined =
      .ok (.scope { sm with tmpl := 0 } (flatResult mkids (defnsOf combined)),
           flatUsed mkids (defnsOf combined)) :=
  Phil.fetch_flat_mixed e fuel sm mkids combined hf hdot hsm hsd hmix hsrc

/-! ### non-vacuity -/

/-- sources for the master `a = 1 .type=int ; c = x` (`Phil.C05.flatM`):
    `a = 2 ; s { a = 5 ; !q = 0 ; t { c = 9 } } ; z = 1 ; !c = y ; a = 3` -/
def mixS : List Obj :=
  [.defn { name := ['a'], id := some 11 } [{ value := ['2'] }],
   .scope { name := ['s'], id := some 12 }
     [.defn { name := ['a'], id := some 13 } [{ value := ['5'] }],
      .defn { name := ['q'], id := some 14, disabled := true } [{ value := ['0'] }],
      .scope { name := ['t'], id := some 15 } [.defn { name := ['c'], id := some 16 } [{ value := ['9'] }]]],
   .defn { name := ['z'], id := some 17 } [{ value := ['1'] }],
   .defn { name := ['c'], id := some 18, disabled := true } [{ value := ['y'] }],
   .defn { name := ['a'], id := some 19 } [{ value := ['3'] }]]

/-- the consumed ids and the reported paths, evaluated -/
example :
    (match fetchRoot env12 false C05.flatM [mixS] with
     | .ok (ro, used) => some (used, (unusedOf mixS used).map (·.1),
         ro.children.map (fun k => k.words.map Word.value))
     | .error _ => none) =
      some ([11, 19], [['s', '.', 'a'], ['s', '.', 't', '.', 'c'], ['z']], [[['3']], [['x']]]) := by
  decide +kernel

theorem mixS_scopeNamed : ∀ m kids, Obj.scope m kids ∈ mixS → m.name ≠ [] := by
  intro m kids h
  simp only [mixS, List.mem_cons, List.not_mem_nil, or_false, reduceCtorEq, false_or, or_false] at h
  cases h
  decide

theorem mixS_srcOK : ∀ o ∈ mixS, o.isDefn = true → SrcOK o := by
  intro o ho _
  simp only [mixS, List.mem_cons, List.not_mem_nil, or_false] at ho
  rcases ho with rfl | rfl | rfl | rfl | rfl <;> exact .inr ⟨rfl, by decide⟩

theorem mixS_noRefs : ∀ o ∈ mixS, srcRefs o = [] := by
  intro o ho
  simp only [mixS, List.mem_cons, List.not_mem_nil, or_false] at ho
  rcases ho with rfl | rfl | rfl | rfl | rfl <;> rfl

theorem flatM_dotfree : ∀ mo ∈ C05.flatM, '.' ∉ mo.name := by
  intro mo hmo
  simp only [C05.flatM, List.mem_cons, List.not_mem_nil, or_false] at hmo
  rcases hmo with rfl | rfl <;> decide

/-- the hypotheses of `fetchRoot_unused_exact` are satisfiable: the theorem applied to the instance -/
example (ro : Obj) (used : List Nat) (h : fetchRoot env12 false C05.flatM [mixS] = .ok (ro, used)) :
    (unusedOf mixS used).map (·.1) = [['s', '.', 'a'], ['s', '.', 't', '.', 'c'], ['z']] := by
  have := fetchRoot_unused_exact env12 C05.flatM [mixS] C05.flatM_flat flatM_dotfree (by decide)
    (by simpa using mixS_scopeNamed) (by simpa using mixS_srcOK) (by simpa using mixS_noRefs)
    (by
      intro x hx
      have : ([mixS] : List (List Obj)).flatten = mixS := by simp
      rw [this] at hx
      have hall : ((allDefinitions mixS).all (fun x => x.2.1.id.isSome)) = true := by decide +kernel
      have := List.all_eq_true.mp hall x hx
      intro hn; rw [hn] at this; cases this)
    (by
      have : ([mixS] : List (List Obj)).flatten = mixS := by simp
      rw [this]
      decide +kernel)
    ro used h
  have hfl : ([mixS] : List (List Obj)).flatten = mixS := by simp
  rw [hfl] at this
  rw [this]
  decide +kernel

/-- a source scope called `c` clashes with the master definition `c` -/
example :
    errOf (fetchRoot env12 false C05.flatM
      [[.scope { name := ['c'], id := some 12 } [.defn { name := ['x'], id := some 13 } [{ value := ['5'] }]]]]) =
      some (.runtime "incompatible" none) := by
  decide +kernel

/-! ### flat masters with `.multiple` definitions -/

/-- **Consumed ids, exactly — masters with `.multiple` definitions** (`FlatMultiMaster`; the keys the
    list rule compares must be defined, `KeysDefined`; no enabled source scope bears a master
    name): every enabled root-level source definition named like a master child is consumed —
    also those that the list rule drops as duplicates or as equal to the master's value. -/
theorem flat_multi_used_exact (e : Envs) (fuel : Nat) (sm : Meta) (mkids combined : List Obj)
    (hf : FlatMultiMaster mkids) (hdot : ∀ mo ∈ mkids, '.' ∉ mo.name)
    (hsm : sm.name = []) (hsd : sm.disabled = false)
    (hmix : MixedSrc (mkids.map Obj.name) combined)
    (hsrc : ∀ o ∈ combined, o.isDefn = true → SrcOK o)
    (hrefs : ∀ o ∈ combined, srcRefs o = [])
    (hkeys : ∀ mo ∈ mkids, isMultiple mo = true →
      KeysDefined e fuel mo (activeNamed mo.name (defnsOf combined)))
    (ro : Obj) (used : List Nat)
    (h : fetchScope e (fuel + 1) false sm mkids combined = .ok (ro, used)) (i : Nat) :
    i ∈ used ↔ ∃ d ∈ combined, d.isDefn = true ∧ d.meta.disabled = false ∧ d.meta.id = some i ∧
      d.name ∈ mkids.map Obj.name :=
  Phil.flat_multi_used_exact e fuel sm mkids combined hf hdot hsm hsd hmix hsrc hrefs hkeys ro used h i

/-- **The reported list, exactly — masters with `.multiple` definitions.** -/
theorem flat_multi_unused_exact (e : Envs) (fuel : Nat) (sm : Meta) (mkids combined : List Obj)
    (hf : FlatMultiMaster mkids) (hdot : ∀ mo ∈ mkids, '.' ∉ mo.name)
    (hinc : "include".toList ∉ mkids.map Obj.name)
    (hsm : sm.name = []) (hsd : sm.disabled = false)
    (hmix : MixedSrc (mkids.map Obj.name) combined)
    (hsrc : ∀ o ∈ combined, o.isDefn = true → SrcOK o)
    (hrefs : ∀ o ∈ combined, srcRefs o = [])
    (hkeys : ∀ mo ∈ mkids, isMultiple mo = true →
      KeysDefined e fuel mo (activeNamed mo.name (defnsOf combined)))
    (hsome : ∀ x ∈ allDefinitions combined, x.2.1.id ≠ none)
    (hids : ((allDefinitions combined).map (fun x => x.2.1.id)).Nodup)
    (ro : Obj) (used : List Nat)
    (h : fetchScope e (fuel + 1) false sm mkids combined = .ok (ro, used)) :
    unusedOf combined used =
      (allDefinitions combined).filter (fun x => !(mkids.map Obj.name).contains x.1) :=
  Phil.flat_multi_unused_exact e fuel sm mkids combined hf hdot hinc hsm hsd hmix hsrc hrefs hkeys
    hsome hids ro used h

/-! ### the same instance through the parser -/

/-- master text `a = 1 .type=int ; c = x`, source text with a nested scope: the parser's output has
    dot-free definition names, named scopes and pairwise distinct definition ids; the reported
    paths are the dotted ones and the unknown `z` -/
example :
    (match parseObjs "a = 1\n.type=int\nc = x\n".toList,
           parseObjs "a = 2\ns {\n  a = 5\n  t.c = 9\n}\nz = 1\n!c = y\na = 3\n".toList with
     | .ok m, .ok src =>
       (match fetchRoot env12 false m [src] with
        | .ok (_, used) => some ((unusedOf src used).map (fun x => String.ofList x.1),
            (m.map Obj.name).all (fun n => !n.contains '.'),
            decide (((allDefinitions src).map (fun x => x.2.1.id)).Nodup),
            (allDefinitions src).all (fun x => x.2.1.id.isSome))
        | .error _ => none)
     | _, _ => none) = some (["s.a", "s.t.c", "z"], true, true, true) := by
  decide +kernel

end Phil.C06
