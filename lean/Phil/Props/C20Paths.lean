/-
  C20 (path index) — "every parameter path that is not inside a multiple scope looks up to the live
  object(s) of the current working tree".

  Model: Phil/IndexPaths.lean.  The state machine of Phil/Index.lean carries the dict
  `_full_path_index` as a further state component (`IState.pathIndex`); it is built by
  `build_index()` in `__init__` (`indexInit`) and rebuilt by `rebuild_index()` (`reindex`) exactly
  where the code rebuilds it (`rebuilds`: `merge_phil`/`update` when the merge went through,
  `update_from_python` when there is an object, `pop_state` when a state was popped, `set_state`;
  NOT `push_state`, NOT `get_python_object`).  Objects are identified by their position in the
  document-order walk of the working tree (`walkOf`).  Lemmas: Phil/Proofs/IndexPathsLemmas.lean.

  All theorems hold for EVERY kernel `k` over every edit type `E` — hence for `concreteKernel c` of every
  context and for `concreteKernelScoped c`, whose edits are (text, only_scope) as in
  `index.update(text, only_scope=…)` / `merge_phil(…, only_scope=…)` — every initial working tree and
  every history (no bound).  `only_scope` reaches `delete_phil_objects` (part of the kernel's merge) and
  `rebuild_index(only_scope=…)`, which IGNORES it: the dict is reset and the WHOLE working tree is
  walked (`reindex_phil_objects` never reads its `only_scope` parameter).  The model does exactly that
  (`rebuilds`), so the invariant below is what rules out a partial rebuild.

    1. `index_is_reindex` (+ `_from`)   — after any history the stored index is `reindex` of the
                                           current working tree; `init_needs_range` (sharpness of the
                                           one hypothesis), `pop_without_rebuild_is_stale` (why
                                           `pop_state` must rebuild), `push_need_not_rebuild`
    2. `lookup_closed`                   — the entry at `p` is the fold of the dict update over the
                                           visited objects of the working tree whose full path is `p`
       `lookup_all_multiple`, `lookup_single`, `lookup_last_plain`, `lookup_absent`, `lookup_exact`
    3. `entries_are_live`                — every object an entry carries IS the object of the working
                                           tree at the position the entry carries, and its full path
                                           is the key
    4. `inside_multiple_scope_only_last` — why the property excludes paths inside `.multiple` scopes
                                           (replayed on the library)
-/
import Phil.Props.C20Concrete
import Phil.Proofs.IndexPathsLemmas
set_option linter.unusedVariables false
namespace Phil.C20
open Phil Phil.Index

variable {E : Type}

/-- the template test of `reindex_phil_objects`: `is_template < 0` -/
abbrev skipNeg : Int → Bool := fun t => decide (t < 0)

/-- the objects of the working tree `reindex_phil_objects` visits (everything not below an object with
    `is_template < 0`; the root scope first), in document order, with full path and position -/
abbrev liveVisits (w : List Obj) : List Visit := visitsOf skipNeg w

/-- … those whose full path is `p` -/
abbrev liveAt (w : List Obj) (p : Str) : List Visit := visitsAt p (liveVisits w)

/-! ### 1. the stored index is the re-index of the current working tree -/

/-- **C20, the index invariant.**  For every kernel, every initial working tree whose template flags
    are ≥ -1 (`tmplRangeList`; the library only ever writes -1, 0, 1) and EVERY history, the stored
    `_full_path_index` equals `reindex` of the current working tree. -/
theorem index_is_reindex (k : Kernel (List Obj) PVal E) (w : List Obj) (hw : tmplRangeList w = true)
    (ops : List (Op PVal E)) :
    (irun k (iinit k w) ops).pathIndex = reindex (run k (init k w) ops).working := by
  have h := irun_live_ipl k ops (iinit k w) (iinit_live_ipl k w hw)
  unfold IndexLive at h
  rw [h, irun_base_ipl]
  rfl

/-- the same from any state whose index is live (no hypothesis on template flags) -/
theorem index_is_reindex_from (k : Kernel (List Obj) PVal E) (s : IState) (hs : IndexLive s)
    (ops : List (Op PVal E)) : IndexLive (irun k s ops) :=
  irun_live_ipl k ops s hs

/-- the machine with the index is the machine of Phil/Index.lean plus one component: every theorem
    of Phil/Props/C20.lean and C20Concrete.lean applies to `.base` -/
theorem index_machine_refines (k : Kernel (List Obj) PVal E) (s : IState) (ops : List (Op PVal E)) :
    (irun k s ops).base = run k s.base ops :=
  irun_base_ipl k ops s

/-- after ONE rebuilding operation the index is live whatever it was before -/
theorem rebuild_makes_live (k : Kernel (List Obj) PVal E) (s : IState) (op : Op PVal E)
    (h : rebuilds k s.base op = true) : IndexLive (istep k s op).1 := by
  unfold IndexLive
  show (if rebuilds k s.base op then reindex (step k s.base op).1.working else s.pathIndex) = _
  rw [h]
  rfl

/-- `push_state` does not rebuild and need not: it leaves the working tree alone -/
theorem push_need_not_rebuild (k : Kernel (List Obj) PVal E) (s : IState) :
    (istep k s .push).1.pathIndex = s.pathIndex ∧ (istep k s .push).1.base.working = s.base.working :=
  ⟨rfl, rfl⟩

/-- `build_index` (skips `is_template == -1`) and `rebuild_index` (skips `is_template < 0`) -/
theorem init_index_is_reindex (w : List Obj) (hw : tmplRangeList w = true) : indexInit w = reindex w :=
  indexInit_eq_reindex_ipl w hw

/-- what is compared: path, kind, positions -/
def showIx (ix : PathIndex) : List (String × String × List Nat) :=
  ix.map (fun kv => (String.ofList kv.1, kv.2.kind, kv.2.positions))

/-- **the hypothesis on template flags is sharp**: an object with `is_template = -2` is indexed by
    `build_index` (test `== -1`) and skipped by `rebuild_index` (test `< 0`).  (The library never
    writes -2; set by hand, `index(master_phil=m, working_phil=w)` followed by `rebuild_index()`
    shows the same difference.) -/
theorem init_needs_range :
    tmplRangeList [Obj.defn { name := ['a'], tmpl := -2 } []] = false ∧
    showIx (indexInit [Obj.defn { name := ['a'], tmpl := -2 } []]) = [("", "one", [0]), ("a", "one", [1])] ∧
    showIx (reindex [Obj.defn { name := ['a'], tmpl := -2 } []]) = [("", "one", [0])] := by
  refine ⟨by decide, by decide, by decide⟩

/-! #### a literal context with a nested scope, a `.multiple` definition and a `.multiple` scope -/

/-- ```
    n = 1
      .type = int
    g {
      s = a
        .type = str
        .multiple = True
      b = True
        .type = bool
    }
    m
      .multiple = True
    {
      x = a
        .type = str
    }
    ``` -/
def pMasterText : Str :=
  ("n = 1\n  .type = int\ng {\n  s = a\n    .type = str\n    .multiple = True\n  b = True\n    .type = bool\n}\n" ++
   "m\n  .multiple = True\n{\n  x = a\n    .type = str\n}\n").toList

def pMaster : List Obj := match parseObjs pMasterText with | .ok m => m | .error _ => []

/-- the initial working tree `master.fetch()` -/
def pW0 : List Obj := match fetchRoot env12 false pMaster [] with | .ok (r, _) => r.children | .error _ => []

/-- the context as the driver (and `index.__init__`) builds it -/
def pC : IndexCtx := { envs := env12, master := pMaster, multiple := multiplePaths 1000 [] pW0 }

local notation "K₁" => concreteKernel pC

def pe1 : Str := "g.s = x\ng.s = y\nn = 2".toList
def pe2 : Str := "m {\n  x = b\n}\nm {\n  x = c\n}\n".toList

example : pC.multiple.map String.ofList = ["g.s", "m"] := by decide +kernel

theorem pW0_range : tmplRangeList pW0 = true := by decide +kernel

/-- the index after `__init__` -/
example : showIx (iinit K₁ pW0).pathIndex =
    [("", "one", [0]), ("n", "one", [1]), ("g", "one", [2]), ("g.s", "many", [3]), ("g.b", "one", [4]),
     ("m", "many", [5]), ("m.x", "one", [6])] := by decide +kernel

/-- the working tree after two edits (the second inside a push/pop bracket), as the walk sees it:
    path, position, template flag -/
example : (walkOf (irun K₁ (iinit K₁ pW0) [.update pe1, .push, .update pe2]).base.working).map
      (fun v => (String.ofList v.path, v.pos, v.obj.meta.tmpl)) =
    [("", 0, 0), ("n", 1, 0), ("g", 2, 0), ("g.s", 3, -1), ("g.s", 4, 0), ("g.s", 5, 0), ("g.b", 6, 0),
     ("m", 7, -1), ("m.x", 8, 0), ("m", 9, 0), ("m.x", 10, 0), ("m", 11, 0), ("m.x", 12, 0)] := by
  decide +kernel

/-- … and its index: the template objects (positions 3, 7 and everything below 7) are skipped,
    `g.s` and `m` list their instances -/
example : showIx (irun K₁ (iinit K₁ pW0) [.update pe1, .push, .update pe2]).pathIndex =
    [("", "one", [0]), ("n", "one", [1]), ("g", "one", [2]), ("g.s", "many", [4, 5]), ("g.b", "one", [6]),
     ("m", "many", [9, 11]), ("m.x", "one", [12])] := by decide +kernel

/-- the invariant on the instance, by the theorem -/
example : (irun K₁ (iinit K₁ pW0) [.update pe1, .push, .update pe2, .pop, .getPython]).pathIndex =
    reindex (run K₁ (init K₁ pW0) [.update pe1, .push, .update pe2, .pop, .getPython]).working :=
  index_is_reindex K₁ pW0 pW0_range _

/-- **why `pop_state` must rebuild** (negation witness): the machine whose `pop` leaves the index
    alone still indexes the objects of the discarded working tree after the pop — positions 9, 11, 12
    where the restored tree has 9 objects (positions 0 … 8).  (The correspondence harness shows the
    same on the library with `rebuild_index()` removed from `pop_state`: 226 of 589 histories
    disagree.) -/
theorem pop_without_rebuild_is_stale :
    showIx (irunNoPop K₁ (iinit K₁ pW0) [.update pe1, .push, .update pe2, .pop]).pathIndex =
      [("", "one", [0]), ("n", "one", [1]), ("g", "one", [2]), ("g.s", "many", [4, 5]), ("g.b", "one", [6]),
       ("m", "many", [9, 11]), ("m.x", "one", [12])] ∧
    showIx (reindex (irunNoPop K₁ (iinit K₁ pW0) [.update pe1, .push, .update pe2, .pop]).base.working) =
      [("", "one", [0]), ("n", "one", [1]), ("g", "one", [2]), ("g.s", "many", [4, 5]), ("g.b", "one", [6]),
       ("m", "many", [7]), ("m.x", "one", [8])] ∧
    (walkOf (irunNoPop K₁ (iinit K₁ pW0) [.update pe1, .push, .update pe2, .pop]).base.working).length = 9 := by
  refine ⟨by decide +kernel, by decide +kernel, by decide +kernel⟩

/-! #### edits with `only_scope` -/

/-- the invariant for histories whose edits carry `only_scope` (instance of `index_is_reindex`) -/
theorem index_is_reindex_scoped (c : IndexCtx) (w : List Obj) (hw : tmplRangeList w = true)
    (ops : List (Op PVal (Str × Option Str))) :
    (irun (concreteKernelScoped c) (iinit (concreteKernelScoped c) w) ops).pathIndex =
      reindex (run (concreteKernelScoped c) (init (concreteKernelScoped c) w) ops).working :=
  index_is_reindex (concreteKernelScoped c) w hw ops

/-- an edit with `only_scope = None` is an edit of the plain concrete kernel -/
theorem scoped_none_is_plain (c : IndexCtx) (w : List Obj) (text : Str) :
    (concreteKernelScoped c).merge w (text, none) = (concreteKernel c).merge w text :=
  concreteKernelScoped_none_ipl c w text

/-- `update("m { x = c }", only_scope="g")` after `update("m { x = b }")`: the deletion of the old
    instance of `m` is restricted to objects on / above / below `g`, so the old instance stays and the
    working tree has two instances of `m` (without `only_scope`: one) — and the index, rebuilt from
    the WHOLE tree, lists both although `m` lies outside `only_scope`.  Replayed on the library:
    `[('', 0), ('n', 1), ('g', 2), ('g.s', [3]), ('g.b', 4), ('m', [7, 9]), ('m.x', 10)]` with
    `only_scope="g"`, `… ('m', [7]), ('m.x', 8)` without. -/
theorem only_scope_index_is_whole_tree :
    showIx (irun (concreteKernelScoped pC) (iinit (concreteKernelScoped pC) pW0)
      [.update ("m {\n  x = b\n}\n".toList, none), .update ("m {\n  x = c\n}\n".toList, some "g".toList)]).pathIndex =
    [("", "one", [0]), ("n", "one", [1]), ("g", "one", [2]), ("g.s", "many", [3]), ("g.b", "one", [4]),
     ("m", "many", [7, 9]), ("m.x", "one", [10])] ∧
    showIx (irun (concreteKernelScoped pC) (iinit (concreteKernelScoped pC) pW0)
      [.update ("m {\n  x = b\n}\n".toList, none), .update ("m {\n  x = c\n}\n".toList, none)]).pathIndex =
    [("", "one", [0]), ("n", "one", [1]), ("g", "one", [2]), ("g.s", "many", [3]), ("g.b", "one", [4]),
     ("m", "many", [7]), ("m.x", "one", [8])] := by
  refine ⟨by decide +kernel, by decide +kernel⟩

/-! ### 2. what a lookup returns -/

/-- **C20, lookup (closed form).**  After any history, `_full_path_index[p]` is the fold of the dict
    update (`entryStep`: a `.multiple` object is appended to the list, any other object overwrites)
    over the visited objects of the CURRENT working tree whose full path is `p`, in document order. -/
theorem lookup_closed (k : Kernel (List Obj) PVal E) (w : List Obj) (hw : tmplRangeList w = true)
    (ops : List (Op PVal E)) (p : Str) :
    (irun k (iinit k w) ops).lookup p = entryFold none (liveAt (run k (init k w) ops).working p) := by
  unfold IState.lookup
  rw [index_is_reindex k w hw ops]
  exact get_buildIndex_ipl _ _ p

/-- the live objects at `p` are all `.multiple` (a `.multiple` definition or scope outside `.multiple`
    scopes): the lookup returns the list of ALL of them, in document order -/
theorem lookup_all_multiple (k : Kernel (List Obj) PVal E) (w : List Obj) (hw : tmplRangeList w = true)
    (ops : List (Op PVal E)) (p : Str) (v : Visit) (vs : List Visit)
    (hocc : liveAt (run k (init k w) ops).working p = v :: vs)
    (hm : ∀ x ∈ v :: vs, multipleIsTrue x.obj = true) :
    (irun k (iinit k w) ops).lookup p = some (.many (pairsOf (v :: vs))) := by
  rw [lookup_closed k w hw ops p, hocc]
  exact entryFold_all_multiple_ipl v vs hm

/-- exactly one live object at `p`, not `.multiple`: the lookup returns it -/
theorem lookup_single (k : Kernel (List Obj) PVal E) (w : List Obj) (hw : tmplRangeList w = true)
    (ops : List (Op PVal E)) (p : Str) (v : Visit)
    (hocc : liveAt (run k (init k w) ops).working p = [v]) (hm : multipleIsTrue v.obj = false) :
    (irun k (iinit k w) ops).lookup p = some (.one v.pos v.obj) := by
  rw [lookup_closed k w hw ops p, hocc]
  exact entryFold_single_plain_ipl v hm

/-- in general a non-multiple object overwrites: when the LAST live object at `p` is not `.multiple`
    the lookup returns it alone, however many others there are (paths inside `.multiple` scopes) -/
theorem lookup_last_plain (k : Kernel (List Obj) PVal E) (w : List Obj) (hw : tmplRangeList w = true)
    (ops : List (Op PVal E)) (p : Str) (vs : List Visit) (v : Visit)
    (hocc : liveAt (run k (init k w) ops).working p = vs ++ [v]) (hm : multipleIsTrue v.obj = false) :
    (irun k (iinit k w) ops).lookup p = some (.one v.pos v.obj) := by
  rw [lookup_closed k w hw ops p, hocc]
  exact entryFold_last_plain_ipl none vs v hm

/-- no live object at `p`: the path is not a key -/
theorem lookup_absent (k : Kernel (List Obj) PVal E) (w : List Obj) (hw : tmplRangeList w = true)
    (ops : List (Op PVal E)) (p : Str) (hocc : liveAt (run k (init k w) ops).working p = []) :
    (irun k (iinit k w) ops).lookup p = none := by
  rw [lookup_closed k w hw ops p, hocc]
  rfl

/-- the live objects at `p` are *uniform*: all `.multiple`, or a single object that is not -/
def UniformAt (w : List Obj) (p : Str) : Prop :=
  (∀ x ∈ liveAt w p, multipleIsTrue x.obj = true) ∨
    (∃ v, liveAt w p = [v] ∧ multipleIsTrue v.obj = false)

/-- **C20, lookup returns exactly the live objects.**  Whenever the live objects at `p` are uniform
    and there is at least one, the lookup returns an entry whose (position, object) pairs are EXACTLY
    the live objects at `p`, in document order — a list for `.multiple` objects, the object itself
    otherwise. -/
theorem lookup_exact (k : Kernel (List Obj) PVal E) (w : List Obj) (hw : tmplRangeList w = true)
    (ops : List (Op PVal E)) (p : Str)
    (hne : liveAt (run k (init k w) ops).working p ≠ [])
    (hu : UniformAt (run k (init k w) ops).working p) :
    ∃ e, (irun k (iinit k w) ops).lookup p = some e ∧
      e.pairs = pairsOf (liveAt (run k (init k w) ops).working p) := by
  rcases hu with hm | ⟨v, hv, hm⟩
  · cases hocc : liveAt (run k (init k w) ops).working p with
    | nil => exact absurd hocc hne
    | cons v vs =>
      rw [hocc] at hm
      exact ⟨_, lookup_all_multiple k w hw ops p v vs hocc hm, rfl⟩
  · rw [hv]
    exact ⟨_, lookup_single k w hw ops p v hv hm, rfl⟩

/-! ### 3. index entries refer to live objects -/

/-- **C20, liveness.**  After any history, every (position, object) pair of every entry of the index
    is a node of the document-order walk of the CURRENT working tree: the object found at that
    position is that object, and its full path is the key.  (No stale object is ever handed out by a
    lookup — on the library this is the `is` comparison of the correspondence harness.) -/
theorem entries_are_live (k : Kernel (List Obj) PVal E) (w : List Obj) (hw : tmplRangeList w = true)
    (ops : List (Op PVal E)) (p : Str) (e : PEntry)
    (h : (irun k (iinit k w) ops).lookup p = some e) :
    ∀ x ∈ e.pairs, (walkOf (run k (init k w) ops).working)[x.1]? = some ⟨p, x.1, x.2⟩ := by
  unfold IState.lookup at h
  rw [index_is_reindex k w hw ops] at h
  exact entry_pairs_live_ipl _ _ p e h

/-- the positions of the walk are 0, 1, 2, …: a position names one object -/
theorem walk_positions (w : List Obj) : (walkOf w).map (·.pos) = List.range (1 + nodeCountL w) :=
  walkOf_pos_ipl w

/-- every live object's path is a key (nothing visited is missing from the index) -/
theorem live_path_is_key (k : Kernel (List Obj) PVal E) (w : List Obj) (hw : tmplRangeList w = true)
    (ops : List (Op PVal E)) (v : Visit) (hv : v ∈ liveVisits (run k (init k w) ops).working) :
    ((irun k (iinit k w) ops).lookup v.path).isSome = true := by
  rw [lookup_closed k w hw ops v.path]
  have hmem : v ∈ liveAt (run k (init k w) ops).working v.path := by
    unfold liveAt visitsAt
    exact List.mem_filter.mpr ⟨hv, by simp⟩
  generalize liveAt (run k (init k w) ops).working v.path = l at hmem
  cases l with
  | nil => cases hmem
  | cons a l =>
    obtain ⟨init, last, hl⟩ : ∃ init last, a :: l = init ++ [last] :=
      ⟨(a :: l).dropLast, (a :: l).getLast (List.cons_ne_nil _ _),
        (List.dropLast_concat_getLast (List.cons_ne_nil _ _)).symm⟩
    rw [hl]
    unfold entryFold
    rw [List.foldl_append]
    rfl

/-! ### 4. instances -/

/-- the history used below: two edits, the second inside a bracket that stays open -/
def pHist : List (Op PVal Str) := [.update pe1, .push, .update pe2]

/-- the live objects at `g.s` (a `.multiple` definition inside a plain scope): the two instances -/
example : (liveAt (run K₁ (init K₁ pW0) pHist).working "g.s".toList).map (fun v => (v.pos, multipleIsTrue v.obj)) =
    [(4, true), (5, true)] := by decide +kernel

/-- `lookup_exact` applies to `g.s`, `m` (all `.multiple`) and to `n`, `g`, `g.b` (single) … -/
example : ∃ e, (irun K₁ (iinit K₁ pW0) pHist).lookup "g.s".toList = some e ∧
    e.pairs = pairsOf (liveAt (run K₁ (init K₁ pW0) pHist).working "g.s".toList) := by
  apply lookup_exact K₁ pW0 pW0_range pHist
  · intro h
    have : (liveAt (run K₁ (init K₁ pW0) pHist).working "g.s".toList).length = 2 := by decide +kernel
    rw [h] at this; cases this
  · left
    have : (liveAt (run K₁ (init K₁ pW0) pHist).working "g.s".toList).all (fun x => multipleIsTrue x.obj) = true := by
      decide +kernel
    exact fun x hx => List.all_eq_true.mp this x hx

/-- **why the property excludes paths inside `.multiple` scopes** (kernel-checked, replayed on the
    library): `m` has two instances, so there are two live objects with path `m.x` (positions 10 and
    12); the index holds only the LAST one, because a non-multiple object overwrites
    (`lookup_last_plain`).  `UniformAt` fails for `m.x`.

    Library (unchanged tree), same master and edits:
    ```
    idx = index(master_phil=m); idx.update("g.s = x\ng.s = y\nn = 2"); idx.push_state()
    idx.update("m {\n  x = b\n}\nm {\n  x = c\n}\n")
    # positions of the indexed objects in a walk of idx.working_phil:
    # [('', 0), ('n', 1), ('g', 2), ('g.s', [4, 5]), ('g.b', 6), ('m', [9, 11]), ('m.x', 12)]
    # live m.x objects: [10, 12];  get_scope_by_name('m.x') is the one at 12
    ``` -/
theorem inside_multiple_scope_only_last :
    (liveAt (run K₁ (init K₁ pW0) pHist).working "m.x".toList).map (fun v => (v.pos, multipleIsTrue v.obj)) =
      [(10, false), (12, false)] ∧
    ((irun K₁ (iinit K₁ pW0) pHist).lookup "m.x".toList).map (fun e => (e.kind, e.positions)) =
      some ("one", [12]) := by
  refine ⟨by decide +kernel, by decide +kernel⟩

end Phil.C20

#print axioms Phil.C20.index_is_reindex
#print axioms Phil.C20.index_is_reindex_from
#print axioms Phil.C20.index_machine_refines
#print axioms Phil.C20.rebuild_makes_live
#print axioms Phil.C20.push_need_not_rebuild
#print axioms Phil.C20.init_index_is_reindex
#print axioms Phil.C20.init_needs_range
#print axioms Phil.C20.pW0_range
#print axioms Phil.C20.pop_without_rebuild_is_stale
#print axioms Phil.C20.index_is_reindex_scoped
#print axioms Phil.C20.scoped_none_is_plain
#print axioms Phil.C20.only_scope_index_is_whole_tree
#print axioms Phil.C20.lookup_closed
#print axioms Phil.C20.lookup_all_multiple
#print axioms Phil.C20.lookup_single
#print axioms Phil.C20.lookup_last_plain
#print axioms Phil.C20.lookup_absent
#print axioms Phil.C20.lookup_exact
#print axioms Phil.C20.entries_are_live
#print axioms Phil.C20.walk_positions
#print axioms Phil.C20.live_path_is_key
#print axioms Phil.C20.inside_multiple_scope_only_last
