/-
  C14 — A command-line argument `name=value` sets the intended parameter or is refused: a name equal
  to a parameter's full path always addresses that parameter; otherwise the chosen path contains the
  name as a substring and no other path matches it better (home.name beats any trailing match,
  trailing beats interior, inside-home beats outside, whole dotted components beat partial); no match
  → refused as unknown; shared best match → refused as ambiguous listing all best candidates (a
  strictly lower expert level alone may break the tie).
  Property theorems only; lemmas are in Phil/Proofs/CmdLineLemmas.lean.

  Only the paths of the best class compete in the expert-level tie-break, so `choose_sound` needs no
  hypothesis on the expert levels at all, and `process_arg` works on de-duplicated target paths
  (`targetEntries`), so the exact path always wins there (`exact_wins_master`).

  Hypotheses that are necessary (negation witnesses at the end of the file):
  * `exact_wins` about `choosePath` itself needs `targets.Nodup` (duplicate target paths given to
    `choosePath` directly refuse the exact path; `targetEntries_nodup` discharges it for the caller);
  * the "every other best path has a strictly higher expert level" form of `tie_break_sound` needs
    `experts.length = targets.length` (a best path without an expert level does not compete).
-/
import Phil.Proofs.CmdLineLemmas
namespace Phil.C14
open Phil

/-! ## 1. substring facts -/

/-- `findSub p s` says exactly that `p` occurs in `s` as a contiguous substring. -/
theorem findSub_iff (p s : Str) : findSub p s = true ↔ ∃ a b, s = a ++ p ++ b :=
  Phil.findSub_iff p s

theorem startsWith_iff (p s : Str) : startsWith p s = true ↔ ∃ b, s = p ++ b :=
  Phil.startsWith_iff p s

theorem endsWith_iff (p s : Str) : endsWith p s = true ↔ ∃ a, s = a ++ p :=
  Phil.endsWith_iff p s

example : findSub "b.c".toList "a.b.c.d".toList = true := by decide
example : ∃ a b, "a.b.c.d".toList = a ++ "b.c".toList ++ b := ⟨"a.".toList, ".d".toList, by decide⟩
example : findSub "bc".toList "a.b.c.d".toList = false := by decide

/-! ## 2. the nine match classes -/

/-- Every value of `get_path_score` characterised (name `src`, parameter path `tgt`, optional home
    scope).  "Inside the home scope" means `home = some h`, `tgt` starts with `h ++ "."` and is not
    `h ++ "." ++ src` itself; "outside" means there is no home scope or `tgt` does not start with
    `h ++ "."`.
    * 0: `src` does not occur in `tgt`;
    * 8: `src = tgt`;
    * 7: `tgt` is `home.src`;
    * 6 / 5 / 2: inside home and `tgt` ends with `"." ++ src` / ends with `src` but not with
      `"." ++ src` / contains `src` but does not end with it;
    * 4 / 3 / 1: the same three sub-cases outside home;
    and the score never exceeds 8. -/
theorem score_classes (home : Option Str) (src tgt : Str) :
    (getPathScore home src tgt = 0 ↔ ¬ ∃ a b, tgt = a ++ src ++ b) ∧
    (getPathScore home src tgt = 8 ↔ src = tgt) ∧
    (getPathScore home src tgt = 7 ↔ src ≠ tgt ∧ ∃ h, home = some h ∧ tgt = h ++ '.' :: src) ∧
    (getPathScore home src tgt = 6 ↔
      src ≠ tgt ∧ (∃ h, home = some h ∧ tgt ≠ h ++ '.' :: src ∧ ∃ r, tgt = h ++ '.' :: r) ∧
        ∃ a, tgt = a ++ '.' :: src) ∧
    (getPathScore home src tgt = 5 ↔
      src ≠ tgt ∧ (∃ h, home = some h ∧ tgt ≠ h ++ '.' :: src ∧ ∃ r, tgt = h ++ '.' :: r) ∧
        (∃ a, tgt = a ++ src) ∧ ¬ ∃ a, tgt = a ++ '.' :: src) ∧
    (getPathScore home src tgt = 2 ↔
      (∃ a b, tgt = a ++ src ++ b) ∧
        (∃ h, home = some h ∧ tgt ≠ h ++ '.' :: src ∧ ∃ r, tgt = h ++ '.' :: r) ∧
        ¬ ∃ a, tgt = a ++ src) ∧
    (getPathScore home src tgt = 4 ↔
      src ≠ tgt ∧ (∀ h, home = some h → ¬ ∃ r, tgt = h ++ '.' :: r) ∧
        ∃ a, tgt = a ++ '.' :: src) ∧
    (getPathScore home src tgt = 3 ↔
      src ≠ tgt ∧ (∀ h, home = some h → ¬ ∃ r, tgt = h ++ '.' :: r) ∧
        (∃ a, tgt = a ++ src) ∧ ¬ ∃ a, tgt = a ++ '.' :: src) ∧
    (getPathScore home src tgt = 1 ↔
      (∃ a b, tgt = a ++ src ++ b) ∧ (∀ h, home = some h → ¬ ∃ r, tgt = h ++ '.' :: r) ∧
        ¬ ∃ a, tgt = a ++ src) ∧
    getPathScore home src tgt ≤ 8 :=
  ⟨score_eq_0 home src tgt, score_eq_8 home src tgt, score_eq_7 home src tgt,
   score_eq_6 home src tgt, score_eq_5 home src tgt, score_eq_2 home src tgt,
   score_eq_4 home src tgt, score_eq_3 home src tgt, score_eq_1 home src tgt,
   getPathScore_le home src tgt⟩

/-- Trailing beats interior: the classes 3..8 are exactly the paths that end with the name (the
    classes 1 and 2 are the interior matches, 0 is no match). -/
theorem trailing_iff_class_ge_3 (home : Option Str) (src tgt : Str) :
    3 ≤ getPathScore home src tgt ↔ ∃ a, tgt = a ++ src :=
  score_ge_3_iff home src tgt

/-- `home.name` beats every path other than the one equal to the name. -/
theorem home_name_beats_rest (home : Option Str) (h src tgt tgt' : Str) (hh : home = some h)
    (ht : tgt = h ++ '.' :: src) (hne : tgt' ≠ tgt) (hne' : tgt' ≠ src) :
    getPathScore home src tgt' < getPathScore home src tgt :=
  Phil.home_name_beats_rest hh ht hne hne'

-- one path of every class, home scope `h`, name `x.y`
example : getPathScore (some "h".toList) "x.y".toList "h.z".toList = 0 := by decide
example : getPathScore (some "h".toList) "x.y".toList "a.x.yz".toList = 1 := by decide
example : getPathScore (some "h".toList) "x.y".toList "h.x.yz".toList = 2 := by decide
example : getPathScore (some "h".toList) "x.y".toList "a.bx.y".toList = 3 := by decide
example : getPathScore (some "h".toList) "x.y".toList "a.x.y".toList = 4 := by decide
example : getPathScore (some "h".toList) "x.y".toList "h.bx.y".toList = 5 := by decide
example : getPathScore (some "h".toList) "x.y".toList "h.a.x.y".toList = 6 := by decide
example : getPathScore (some "h".toList) "x.y".toList "h.x.y".toList = 7 := by decide
example : getPathScore (some "h".toList) "x.y".toList "x.y".toList = 8 := by decide

/-! ## 3. the exact path wins -/

/-- A name equal to a parameter's full path addresses that parameter (no warning), whatever other
    paths contain it, provided the target paths are pairwise distinct. -/
theorem exact_wins (home : Option Str) (targets : List Str) (experts : List Int) (src : Str)
    (hnd : targets.Nodup) (hmem : src ∈ targets) :
    ∃ i, choosePath home targets experts src = .chosen i false ∧ targets[i]? = some src :=
  Phil.exact_wins hnd hmem

example : choosePath (some "s".toList) ["s.a.b".toList, "a.b".toList, "t.a.b".toList] [0, 3, 0]
    "a.b".toList = .chosen 1 false := by decide

/-! ## 4. the chosen path contains the name and is not beaten -/

/-- Chosen without a warning (unique best class): no hypothesis on the expert levels. -/
theorem choose_sound_unwarned (home : Option Str) (targets : List Str) (experts : List Int)
    (src : Str) (i : Nat) (h : choosePath home targets experts src = .chosen i false) :
    ∃ t, targets[i]? = some t ∧ findSub src t = true ∧
      ∀ t' ∈ targets, getPathScore home src t' ≤ getPathScore home src t :=
  Phil.choose_sound_unwarned h

/-- Chosen with or without the warning: the chosen index addresses a target path that contains the
    name, and no target path has a higher class.  No hypothesis on the expert levels (whatever their
    number and values): only paths of the best class compete in the tie-break. -/
theorem choose_sound (home : Option Str) (targets : List Str) (experts : List Int) (src : Str)
    (i : Nat) (w : Bool)
    (h : choosePath home targets experts src = .chosen i w) :
    ∃ t, targets[i]? = some t ∧ findSub src t = true ∧
      ∀ t' ∈ targets, getPathScore home src t' ≤ getPathScore home src t :=
  Phil.choose_sound h

-- inside-home trailing (class 6) beats outside trailing (class 4) and interior (class 2)
example : choosePath (some "s".toList) ["t.b".toList, "s.a.b".toList, "s.bc".toList] [0, 0, 0]
    "b".toList = .chosen 1 false := by decide

/-! ## 5. unknown -/

/-- The argument is refused as unknown exactly when no target path contains the name. -/
theorem unknown_iff (home : Option Str) (targets : List Str) (experts : List Int) (src : Str) :
    choosePath home targets experts src = .unknown ↔ ∀ t ∈ targets, findSub src t = false :=
  Phil.unknown_iff home targets experts src

example : choosePath none ["a.b".toList, "c".toList] [0, 0] "z".toList = .unknown := by decide
example (home : Option Str) (experts : List Int) (src : Str) :
    choosePath home [] experts src = .unknown :=
  (unknown_iff home [] experts src).2 (by simp)

/-! ## 6. ambiguous -/

/-- When the argument is refused as ambiguous, the listed indices are exactly the indices, in
    increasing order, of the target paths whose class equals the maximal class; that class is
    positive (they all contain the name) and there are at least two of them. -/
theorem ambiguous_lists_all_best (home : Option Str) (targets : List Str) (experts : List Int)
    (src : Str) (best : List Nat)
    (h : choosePath home targets experts src = .ambiguous best) :
    best = (List.range targets.length).filter (fun i =>
        (targets.map (getPathScore home src))[i]? ==
          some (maxNat (targets.map (getPathScore home src)))) ∧
    (∀ i, i ∈ best ↔ ∃ t, targets[i]? = some t ∧
        getPathScore home src t = maxNat (targets.map (getPathScore home src))) ∧
    best.Pairwise (· < ·) ∧
    0 < maxNat (targets.map (getPathScore home src)) ∧ 2 ≤ best.length :=
  Phil.ambiguous_lists_all_best h

example : choosePath none ["a.b".toList, "zb".toList, "c.b".toList] [1, 0, 1] "b".toList =
    .ambiguous [0, 2] := by decide

/-! ## 7. the expert-level tie-break -/

/-- Chosen with the warning: the chosen index is one of the best-class indices and its expert level
    is strictly lower than that of every other best-class index (one expert level per target; no
    hypothesis on their values). -/
theorem tie_break_sound (home : Option Str) (targets : List Str) (experts : List Int) (src : Str)
    (i : Nat) (hlen : experts.length = targets.length)
    (h : choosePath home targets experts src = .chosen i true) :
    (∃ t, targets[i]? = some t ∧
        getPathScore home src t = maxNat (targets.map (getPathScore home src))) ∧
    ∃ e, experts[i]? = some e ∧
      ∀ j t', targets[j]? = some t' →
        getPathScore home src t' = maxNat (targets.map (getPathScore home src)) → j ≠ i →
        ∃ e', experts[j]? = some e' ∧ e < e' := by
  obtain ⟨hi, e, he, hall⟩ := Phil.tie_break_sound hlen h
  exact ⟨mem_bestOf.1 hi, e, he, fun j t' ht' hs hji => hall j (mem_bestOf.2 ⟨t', ht', hs⟩) hji⟩

/-- What holds in the warned case without any hypothesis: the best class is positive, at least two
    paths share it, the chosen path is one of them, and its expert level is strictly lower than the
    expert level of every other path of the best class that has one. -/
theorem warned_key_max (home : Option Str) (targets : List Str) (experts : List Int) (src : Str)
    (i : Nat) (h : choosePath home targets experts src = .chosen i true) :
    maxNat (targets.map (getPathScore home src)) ≠ 0 ∧
    2 ≤ (indicesOf (· == maxNat (targets.map (getPathScore home src)))
          (targets.map (getPathScore home src))).length ∧
    ∃ t e, targets[i]? = some t ∧ experts[i]? = some e ∧
      getPathScore home src t = maxNat (targets.map (getPathScore home src)) ∧
      ∀ j t' e', targets[j]? = some t' → experts[j]? = some e' → j ≠ i →
        getPathScore home src t' = maxNat (targets.map (getPathScore home src)) → e < e' :=
  Phil.warned_key_max h

/-- The tie-break characterised: the argument is accepted with the warning for index `i` exactly
    when the best class is positive, at least two paths have it, `i` is one of them and its expert
    level is strictly lower than the expert level of every other one. -/
theorem chosen_warned_iff (home : Option Str) (targets : List Str) (experts : List Int) (src : Str)
    (i : Nat) :
    choosePath home targets experts src = .chosen i true ↔
      maxNat (targets.map (getPathScore home src)) ≠ 0 ∧
      2 ≤ (indicesOf (· == maxNat (targets.map (getPathScore home src)))
            (targets.map (getPathScore home src))).length ∧
      (∃ t, targets[i]? = some t ∧
        getPathScore home src t = maxNat (targets.map (getPathScore home src))) ∧
      ∃ e, experts[i]? = some e ∧
        ∀ j t', targets[j]? = some t' →
          getPathScore home src t' = maxNat (targets.map (getPathScore home src)) → j ≠ i →
          ∀ e', experts[j]? = some e' → e < e' := by
  rw [Phil.chosen_warned_iff]
  constructor
  · rintro ⟨h0, h2, hi, e, he, hall⟩
    exact ⟨h0, h2, mem_bestOf.1 hi, e, he,
      fun j t' ht' hs hji => hall j (mem_bestOf.2 ⟨t', ht', hs⟩) hji⟩
  · rintro ⟨h0, h2, hi, e, he, hall⟩
    refine ⟨h0, h2, mem_bestOf.2 hi, e, he, ?_⟩
    intro j hj hji
    obtain ⟨t', ht', hs⟩ := mem_bestOf.1 hj
    exact hall j t' ht' hs hji

example : choosePath none ["a.b".toList, "zb".toList, "c.b".toList] [2, 0, 1] "b".toList =
    .chosen 2 true := by decide

/-! ## 8. the target list of `process_arg` -/

/-- `process_arg` works on `targetEntries`: the definition paths with further occurrences of the same
    path (a `.multiple` definition given several times) dropped.  Its paths are pairwise distinct. -/
theorem targetEntries_nodup (objs : List Obj) (experts : List Int) :
    ((targetEntries objs experts).map (·.1)).Nodup :=
  Phil.targetEntries_nodup objs experts

/-- every entry is a definition path together with the expert level at the same position -/
theorem targetEntries_subset (objs : List Obj) (experts : List Int) (x : Str × Int)
    (h : x ∈ targetEntries objs experts) : x ∈ ((allDefinitions objs).map (·.1)).zip experts :=
  Phil.targetEntries_subset objs experts x h

/-- no path is lost (one expert level per definition, as `expertLevels` provides) -/
theorem mem_targetEntries_paths (objs : List Obj) (experts : List Int)
    (hlen : experts.length = (allDefinitions objs).length) (p : Str) :
    p ∈ (targetEntries objs experts).map (·.1) ↔ p ∈ (allDefinitions objs).map (·.1) :=
  Phil.mem_targetEntries_paths objs experts hlen p

theorem expertLevels_length (objs : List Obj) :
    (expertLevels objs).length = (allDefinitions objs).length :=
  Phil.expertLevels_length objs

/-- so an exact path among the de-duplicated targets is chosen, without a warning … -/
theorem exact_wins_targetEntries (home : Option Str) (objs : List Obj) (experts : List Int) (src : Str)
    (hmem : src ∈ (targetEntries objs experts).map (·.1)) :
    ∃ i, choosePath home ((targetEntries objs experts).map (·.1))
        ((targetEntries objs experts).map (·.2)) src = .chosen i false ∧
      ((targetEntries objs experts).map (·.1))[i]? = some src :=
  Phil.exact_wins_targetEntries home objs experts src hmem

/-- … in particular the full path of any definition of the master, duplicates or not. -/
theorem exact_wins_master (home : Option Str) (objs : List Obj) (src : Str)
    (hmem : src ∈ (allDefinitions objs).map (·.1)) :
    ∃ i, choosePath home ((targetEntries objs (expertLevels objs)).map (·.1))
        ((targetEntries objs (expertLevels objs)).map (·.2)) src = .chosen i false ∧
      ((targetEntries objs (expertLevels objs)).map (·.1))[i]? = some src :=
  Phil.exact_wins_master home objs src hmem

-- a master with the definition `d` twice: one target entry, and `d` addresses it
example : targetEntries [.defn { name := "d".toList } [], .defn { name := "d".toList } []] [0, 0]
    = [("d".toList, 0)] := by decide
example : choosePath none ["d".toList] [0] "d".toList = .chosen 0 false := by decide

/-! ## 9. witnesses -/

/-- with duplicate target paths handed to `choosePath` directly the exact path is refused as
    ambiguous, so `Nodup` in `exact_wins` is necessary (`targetEntries_nodup` provides it). -/
theorem duplicate_paths_refuse_exact :
    choosePath none ["d".toList, "d".toList] [0, 0] "d".toList = .ambiguous [0, 1] :=
  Phil.duplicate_paths_refuse_exact

/-- expert levels 101 apart (formerly: the partial match `zb` of class 3 was chosen): the partial
    match does not compete, the two whole-component matches tie and the argument is refused. -/
theorem wide_expert_spread_stays_in_best_class :
    choosePath none ["a.b".toList, "c.b".toList, "zb".toList] [101, 101, 0] "b".toList =
      .ambiguous [0, 1] := by decide

/-- the same spread with distinct levels among the best class: the lower one wins, not `zb` -/
theorem wide_expert_spread_picks_lowest_of_best :
    choosePath none ["a.b".toList, "c.b".toList, "zb".toList] [101, 100, 0] "b".toList =
      .chosen 1 true := by decide

/-- expert levels far apart (formerly: `q`, which does not contain the name, was chosen): refused as
    ambiguous between the two matches. -/
theorem wide_expert_spread_ignores_non_match :
    choosePath none ["a.b".toList, "c.b".toList, "q".toList] [500, 500, 0] "b".toList =
      .ambiguous [0, 1] := by decide

/-- too few expert levels (formerly: `zb` of a worse class was chosen): nothing of the best class has
    a level, the argument is refused as ambiguous between the best-class paths. -/
theorem short_experts_stay_in_best_class :
    choosePath none ["zb".toList, "a.b".toList, "c.b".toList] [0] "b".toList = .ambiguous [1, 2] := by
  decide

/-- too few expert levels, second form: the best-class path without a level does not compete, so the
    other one is chosen although nothing says its level is lower — `experts.length = targets.length`
    in `tie_break_sound` is necessary (the chosen path still is of the best class: `choose_sound`). -/
theorem short_experts_skip_unlevelled :
    choosePath none ["a.b".toList, "c.b".toList] [0] "b".toList = .chosen 0 true := by decide

end Phil.C14
