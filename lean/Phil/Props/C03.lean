/-
  C03 — Quoting any string and tokenizing it back returns exactly that string.
  Property theorems only; lemmas are in Phil/Proofs/Quote.lean.
-/
import Phil.Proofs.Quote
import Phil.Parse
set_option linter.unusedSimpArgs false
namespace Phil.C03
open Phil

/-- `str(word)` of a quoted word is the quoted text the printer emits (observation 3 of the property). -/
theorem str_word (q : Quote) (s : Str) (l : Option Nat) :
    (Word.mk s (some q) l).str = quoteStr q s := rfl

theorem mk'_char_triple (q : Quote) : Quote.mk' q.char q.triple = q := by
  cases q <;> rfl

theorem quote_char_cases (q : Quote) : q.char = '"' ∨ q.char = '\'' := by
  cases q <;> simp [Quote.char]

/-- One step of the word iterator on a quoted literal followed by any text that does not begin with
    the quote character, under any settings whose comment characters do not include the quote
    characters (all three settings of freephil): the word is exactly `s`, its style is `q`, the
    following text is untouched and the line counter advanced by the newlines of `s`. -/
theorem next_word_of_quoted (st : Settings) (q : Quote) (s rest : Str) (line : Nat)
    (hcm : st.commentChars.contains q.char = false)
    (hrest : ∀ r, rest ≠ q.char :: r) :
    nextWordAux st false (quoteStr q s ++ rest) line
      = .ok (some ({ value := s, quote := some q, line := some line }, ⟨rest, line + nlCount s⟩)) := by
  have hc := quote_char_cases q
  obtain ⟨_, _, hsp, _⟩ := quoteChar_facts q.char hc
  have hmem : q.char ∉ st.commentChars := by simpa using hcm
  by_cases ht : q.triple = true
  · have : quoteStr q s ++ rest
        = q.char :: q.char :: q.char :: (escape q.char s ++ q.char :: q.char :: q.char :: rest) := by
      simp [quoteStr, Quote.token, ht]
    rw [this, nextWordAux_word st _ _ _ hsp (by simp [isCommentStart, hmem]),
      wordAt_triple st q.char hc]
    have := mk'_char_triple q
    rw [ht] at this
    simp [Except.map, this]
  · have ht' : q.triple = false := by simpa using ht
    have : quoteStr q s ++ rest = q.char :: (escape q.char s ++ q.char :: rest) := by
      simp [quoteStr, Quote.token, ht']
    rw [this, nextWordAux_word st _ _ _ hsp (by simp [isCommentStart, hmem]),
      wordAt_single st q.char hc s rest line hrest]
    have := mk'_char_triple q
    rw [ht'] at this
    simp [Except.map, this]

/-- C03, stand-alone value literal: for every string and each of the four quote styles,
    `tokenize_value_literal(quote_python_str(q, s))` is exactly one word with text `s` and style `q`. -/
theorem tokenize_quote (q : Quote) (s : Str) :
    tokenizeValueLiteral (quoteStr q s) = .ok [{ value := s, quote := some q, line := some 1 }] := by
  have h := next_word_of_quoted literalSettings q s [] 1 (by simp [literalSettings]) (by simp)
  simp only [List.append_nil] at h
  have hlen : ∃ n, (quoteStr q s).length = n + 1 := by
    refine ⟨(quoteStr q s).length - 1, ?_⟩
    have : 1 ≤ (quoteStr q s).length := by
      cases q <;> simp [quoteStr, Quote.token, Quote.triple]
    omega
  obtain ⟨n, hn⟩ := hlen
  simp only [tokenizeValueLiteral, allWords, allWordsAux, nextWord, h, hn]
  simp [nextWordAux]

/-- Non-vacuity / sanity: a string with every troublesome character class, all four styles. -/
example : tokenizeValueLiteral (quoteStr .d3 "a\"'\\\n $#{};=".toList)
    = .ok [{ value := "a\"'\\\n $#{};=".toList, quote := some .d3, line := some 1 }] :=
  tokenize_quote _ _

end Phil.C03
