/-
  C12 / C05 / C06 — `$variables` INSIDE the closed form of `scope.fetch`.

  Python: `definition.fetch_value` calls `source.resolve_variables()` on every matching source definition
  (marking it and every definition consulted `tmp = True`) before the master's type looks at the
  words; `scope.fetch` lets the last matching source win.  Model: Phil/Fetch.lean reads the outcome
  of that call from `Meta.varRes`, written by the annotation pass `preResolve` (Phil/Vars.lean) in
  each source's OWN document.  Lemmas: Phil/Proofs/FetchVars.lean.

  Class covered (unbounded):
    * master: `TreeMaster` — nested, enabled, plain definitions and non-multiple scopes, dot-free
      pairwise distinct sibling names, nested at most 1000 deep; non-diff mode;
    * sources: `docs.map (preResolve env false)` for ANY documents numbered like parser outputs
      (`DocIds`; `parse_docIds`: every output of `parseObjs`) whose enabled scopes are named
      (`ScopesNamed`) — any `$` spelling, any nesting, disabled objects, redefinitions, undefined
      variables, references to scopes; any environment.  For the statements that speak about a
      definition's own contribution also `Fresh` (no resolution recorded before the pass: parser
      outputs).
  Specification (fuel-free, structural / well-founded recursion):
    `denote env doc pos`   the value of the definition at `pos` of `doc` (Phil/Proofs/VarsSpec.lean);
    `refsAt doc pos`       the ids of the definitions consulted for it, transitively;
    `denoteDoc env diff doc`  `doc` with every `$`-definition carrying `denote` / `refsAt` at its position;
    `firstErr`, `treeFetch`   the first error in master order, else `treeResult` / `treeUsed`.
  Validation before proving: 3150 random (master, 1–3 source texts, env) triples against the real
  freephil (result words with quote tokens, unused list, error site and line): 0 mismatches.
-/
import Phil.Proofs.FetchVars
import Phil.Props.C06Tree
import Phil.Props.C12Parse
set_option linter.unusedVariables false
namespace Phil.C12Fetch
open Phil Phil.C12

/-! ## the annotation pass is the denotation -/

/-- **`preResolve` = `denoteDoc`.**  On a document numbered like a parser output the annotation pass
    stores in every definition with a live `$` the denotation of its words at its own position (or
    the error it raises) and the ids consulted — both modes, every environment. -/
theorem preResolve_is_denotation (env : Env) (diff : Bool) (doc : List Obj) (hd : DocIds doc) :
    preResolve env diff doc = denoteDoc env diff doc :=
  preResolve_eq_denoteDoc env diff doc hd

/-- … with no hypothesis on a parsed document -/
theorem preResolve_is_denotation_parsed (env : Env) (diff : Bool) (text : Str) (doc : List Obj)
    (h : parseObjs text = .ok doc) : preResolve env diff doc = denoteDoc env diff doc :=
  preResolve_eq_denoteDoc env diff doc (parse_docIds text doc h)

/-- **the ids `resolve_variables` consults are `refsAt`** (operational `resolveRefs` = fuel-free
    specification), for the definition at `pos` with its lexical chain `ch` -/
theorem consulted_ids_spec (doc : List Obj) (hd : DocIds doc) (pos : List Nat) (m : Meta)
    (ws : List Word) (ch : Chain) (n fuel : Nat) (hc : chainAt doc pos [] = some (.defn m ws, ch))
    (hid : m.id = some n) (hfuel : n < fuel) : resolveRefs fuel ch n ws = refsAt doc pos :=
  resolveRefs_eq_refsAt doc hd.1 n pos m ws ch hc hid fuel hfuel

/-- the denotation raises RuntimeErrors only (undefined variable, not a definition, the three syntax
    errors of the substitution proxy) -/
theorem denote_errors_are_runtime (env : Env) (doc : List Obj) (pos : List Nat) (m : Meta)
    (ws : List Word) (ho : objAt doc pos = some (.defn m ws)) (diff : Bool) (e : Err)
    (h : denote env doc pos diff = .error e) : ∃ site line, e = .runtime site line :=
  denote_err_runtime env doc _ pos rfl m ws ho diff e h

/-! ## the closed form -/

/-- **Total closed form of the fetch on annotated sources of any kind** (no `SrcOK`/`SrcNoDollar`):
    the error of the first offending source object in master order — the recorded
    `resolve_variables` error of a matching definition, or "incompatible" — else `treeResult` with the
    consumed ids `treeUsed`. -/
theorem fetch_tree_vars_total (e : Envs) (fuel : Nat) (sm : Meta) (mkids srcs : List Obj)
    (hf : TreeMaster mkids) (hfuel : depthL mkids + 1 ≤ fuel) (hsd : sm.disabled = false)
    (hsrc : ScopesNamed srcs) :
    fetchScope e fuel false sm mkids srcs = treeFetch sm mkids srcs :=
  Phil.fetch_tree_vars_total e fuel sm mkids srcs hf hfuel hsd hsrc

/-- it extends the variable-free closed form (`C06.fetch_tree_total`): when every source definition
    resolves, the only error is the clash of kinds -/
theorem firstErr_without_resolution_errors (mkids srcs : List Obj) (hs : SrcTree srcs) :
    firstErr mkids srcs = if noClash mkids srcs then none else some (.runtime "incompatible" none) :=
  firstErr_of_srcTree mkids srcs hs

/-- **C12/C05/C06 — `master.fetch(sources)` with `$variables` in the sources.**  The fetch of
    pre-resolved documents equals the specification applied to the DENOTED documents: every master
    definition takes the denoted words of the last enabled source definition reached; the first
    denotation error in master order is raised otherwise. -/
theorem fetch_with_variables (e : Envs) (env : Env) (master : List Obj) (docs : List (List Obj))
    (hf : TreeMaster master) (hd : depthL master ≤ 1000) (hdocs : ∀ d ∈ docs, DocIds d)
    (hnamed : ScopesNamed docs.flatten) :
    fetchRoot e false master (docs.map (preResolve env false)) =
      treeFetch { name := [], id := some 0 } master (docs.map (denoteDoc env false)).flatten :=
  fetchRoot_preResolved e env master docs hf hd hdocs hnamed

/-- … for parsed source texts (`DocIds` discharged by `parse_docIds`) -/
theorem fetch_with_variables_parsed (e : Envs) (env : Env) (master : List Obj) (texts : List Str)
    (docs : List (List Obj)) (hp : texts.mapM parseObjs = .ok docs)
    (hf : TreeMaster master) (hd : depthL master ≤ 1000) (hnamed : ScopesNamed docs.flatten) :
    fetchRoot e false master (docs.map (preResolve env false)) =
      treeFetch { name := [], id := some 0 } master (docs.map (denoteDoc env false)).flatten := by
  apply fetchRoot_preResolved e env master docs hf hd _ hnamed
  have key : ∀ (ts : List Str) (ds : List (List Obj)), ts.mapM parseObjs = .ok ds →
      ∀ d ∈ ds, DocIds d := by
    intro ts
    induction ts with
    | nil => intro ds h d hd; rw [mapM_nil_vs] at h; cases h; cases hd
    | cons t ts ih =>
      intro ds h d hd
      rw [mapM_cons_vs] at h
      cases ht : parseObjs t with
      | error e => rw [ht] at h; cases h
      | ok d0 =>
        rw [ht] at h
        simp only at h
        cases hts : ts.mapM parseObjs with
        | error e => rw [hts] at h; cases h
        | ok ds0 =>
          rw [hts] at h
          cases h
          rw [List.mem_cons] at hd
          rcases hd with rfl | hd
          · exact parse_docIds t _ ht
          · exact ih ds0 hts d hd
  exact key texts docs hp

/-- **every active definition of an annotated source is a definition of its document, and contributes
    the denotation at its own position**: the error `fetch_value` raises for it is the error of the
    denotation, the words it hands over are the denoted words, the ids marked through it are
    `refsAt`. -/
theorem source_definition_is_denoted (env : Env) (diff : Bool) (doc : List Obj) (hdoc : DocIds doc)
    (hfresh : Fresh doc) (d : Obj) (h : ActiveIn d (denoteDoc env diff doc)) (hdef : d.isDefn = true) :
    ∃ pos m ws, objAt doc pos = some (.defn m ws) ∧ ActiveIn (.defn m ws) doc ∧
      d = annObj env diff doc pos (.defn m ws) ∧
      srcErrOf d = (match denote env doc pos diff with
                    | .ok _ => none
                    | .error e => some e) ∧
      ∀ r, denote env doc pos diff = .ok r → d.srcWords = r ∧ srcRefs d = refsAt doc pos :=
  activeDefn_denoted env diff doc hdoc hfresh h hdef

/-! ## C05 — last value wins, with variables -/

/-- **C05 with variables.**  After a successful fetch, where the master has the definition `mm` at the
    path `ps.n`: either no enabled source definition is reached by that path and the result keeps the
    master definition, or the LAST one reached — the definition at some position `pos` of one of the
    documents — resolved, and the result carries its DENOTED words: `denote env doc pos`. -/
theorem last_value_wins_with_variables (e : Envs) (env : Env) (master : List Obj)
    (docs : List (List Obj)) (hf : TreeMaster master) (hd : depthL master ≤ 1000)
    (hdocs : ∀ d ∈ docs, DocIds d) (hfresh : ∀ d ∈ docs, Fresh d) (hnamed : ScopesNamed docs.flatten)
    (ro : Obj) (used : List Nat)
    (h : fetchRoot e false master (docs.map (preResolve env false)) = .ok (ro, used))
    (ps : List Str) (n : Str) (mm : Meta) (mws : List Word)
    (hm : defAt master ps n = some (.defn mm mws)) :
    (lastDef (srcAt (docs.map (denoteDoc env false)).flatten ps) n = none ∧
        defAt ro.children ps n = some (.defn mm mws)) ∨
      ∃ doc ∈ docs, ∃ pos m ws r, objAt doc pos = some (.defn m ws) ∧ m.name = n ∧ m.disabled = false ∧
        lastDef (srcAt (docs.map (denoteDoc env false)).flatten ps) n =
          some (annObj env false doc pos (.defn m ws)) ∧
        denote env doc pos false = .ok r ∧
        defAt ro.children ps n = some (.defn { mm with tmpl := 0 } r) := by
  rw [fetchRoot_preResolved e env master docs hf hd hdocs hnamed] at h
  unfold treeFetch at h
  cases hfe : firstErr master (docs.map (denoteDoc env false)).flatten with
  | some err => rw [hfe] at h; cases h
  | none =>
    rw [hfe] at h
    simp only [Except.ok.injEq, Prod.mk.injEq] at h
    obtain ⟨hro, _⟩ := h
    have hch : ro.children = treeResult master (docs.map (denoteDoc env false)).flatten := by
      rw [← hro]; rfl
    have hlv := last_value_wins_at_depth_tree master (docs.map (denoteDoc env false)).flatten ps n mm mws hm
    rw [hch, hlv]
    cases hl : lastDef (srcAt (docs.map (denoteDoc env false)).flatten ps) n with
    | none => exact .inl ⟨rfl, rfl⟩
    | some d =>
      right
      obtain ⟨doc, hdoc, pos, m, ws, ho, hn, hdis, hdx, herr, hok⟩ :=
        lastDef_denoted env docs hdocs hfresh ps n d hl
      have hmem : d ∈ defsNamed n (srcAt (docs.map (denoteDoc env false)).flatten ps) := by
        unfold lastDef at hl
        exact List.mem_of_getLast? hl
      have hnone := firstErr_none_matched ps master _ n mm mws hfe hm d hmem
      rw [hnone] at herr
      cases hden : denote env doc pos false with
      | error e0 => rw [hden] at herr; cases herr
      | ok r =>
        refine ⟨doc, hdoc, pos, m, ws, r, ho, hn, hdis, by rw [hdx], hden, ?_⟩
        simp only [(hok r hden).1]

/-! ## C12 — what the fetched value depends on -/

/-- **C12, environment.**  If the definition at `pos` resolves with the EMPTY environment (every
    variable it needs has an earlier definition), the words it contributes to a fetch are the same
    in every environment: the environment never overrides an earlier definition. -/
theorem fetched_value_env_irrelevant (env : Env) (doc : List Obj) (hdoc : DocIds doc) (pos : List Nat)
    (m : Meta) (ws : List Word) (ho : objAt doc pos = some (.defn m ws)) (hid : m.id ≠ none)
    (hfresh : m.varRes = none) (r : List Word)
    (h : denote (fun _ => none) doc pos false = .ok r) :
    (annObj env false doc pos (.defn m ws)).srcWords = r ∧
      srcErrOf (annObj env false doc pos (.defn m ws)) = none := by
  have hden := env_closed_vs env doc hdoc pos false r h
  have hspec := annObj_defn_spec env false doc pos m ws ho hid hfresh
  rw [hden] at hspec
  exact ⟨(hspec.2 r rfl).1, hspec.1⟩

/-- **C12, later definitions.**  Two documents that agree on everything numbered before the
    definition (same definition, same position, same id `n`; equal after pruning every object with
    id ≥ `n`) give it the same contribution to a fetch — value or error: definitions that come later
    in the source, and later redefinitions of the variables, never influence it. -/
theorem fetched_value_ignores_later_definitions (env : Env) (doc1 doc2 : List Obj) (hd1 : DocIds doc1)
    (hd2 : DocIds doc2) (pos : List Nat) (m1 m2 : Meta) (ws : List Word) (n : Nat)
    (h1 : objAt doc1 pos = some (.defn m1 ws)) (h2 : objAt doc2 pos = some (.defn m2 ws))
    (hid1 : m1.id = some n) (hid2 : m2.id = some n) (hf1 : m1.varRes = none) (hf2 : m2.varRes = none)
    (hp : pruneBeforeList n doc1 = pruneBeforeList n doc2) :
    srcErrOf (annObj env false doc1 pos (.defn m1 ws)) = srcErrOf (annObj env false doc2 pos (.defn m2 ws)) ∧
      (srcErrOf (annObj env false doc1 pos (.defn m1 ws)) = none →
        (annObj env false doc1 pos (.defn m1 ws)).srcWords = (annObj env false doc2 pos (.defn m2 ws)).srcWords) := by
  have hden := later_irrelevant_vs env doc1 doc2 hd1 hd2 pos false m1 m2 ws n h1 h2 hid1 hid2 hp
  have s1 := annObj_defn_spec env false doc1 pos m1 ws h1 (by rw [hid1]; simp) hf1
  have s2 := annObj_defn_spec env false doc2 pos m2 ws h2 (by rw [hid2]; simp) hf2
  rw [hden] at s1
  refine ⟨by rw [s1.1, s2.1], ?_⟩
  intro hnone
  cases hr : denote env doc2 pos false with
  | error e0 => rw [s1.1, hr] at hnone; cases hnone
  | ok r => rw [(s1.2 r hr).1, (s2.2 r hr).1]

/-! ## C06 — consumed ids and the reported list, with variables -/

/-- **C06 with variables (consumed ids, exactly).**  After a successful fetch an id is consumed iff it
    is the id of an entry of `all_definitions(sources)` whose path names a master definition, or such
    an entry consulted it while its variables were resolved (`srcRefs`, i.e. `refsAt` of its
    position by `source_definition_is_denoted`). -/
theorem used_with_variables_exact (e : Envs) (env : Env) (master : List Obj) (docs : List (List Obj))
    (hf : TreeMaster master) (hd : depthL master ≤ 1000) (hinc : NoIncludeTree master)
    (hdocs : ∀ d ∈ docs, DocIds d) (hnamed : ScopesNamed docs.flatten)
    (ro : Obj) (used : List Nat)
    (h : fetchRoot e false master (docs.map (preResolve env false)) = .ok (ro, used)) (i : Nat) :
    i ∈ used ↔
      ∃ x ∈ allDefinitions (docs.map (denoteDoc env false)).flatten,
        x.1 ∈ (allDefinitions master).map (·.1) ∧
          (x.2.1.id = some i ∨ i ∈ srcRefs (.defn x.2.1 x.2.2)) := by
  rw [fetchRoot_preResolved e env master docs hf hd hdocs hnamed] at h
  unfold treeFetch at h
  cases hfe : firstErr master (docs.map (denoteDoc env false)).flatten with
  | some err => rw [hfe] at h; cases h
  | none =>
    rw [hfe] at h
    simp only [Except.ok.injEq, Prod.mk.injEq] at h
    rw [← h.2, ← defPaths_eq_allDefinitions master hf hinc]
    exact tree_used_vars_exact master _ hf hinc (srcDotfree_denoteDocs env false docs hdocs) i

/-- **C06 with variables (the reported list, exactly).**  After a successful fetch, with pairwise
    distinct ids, an entry of `all_definitions(sources)` is reported as unused iff its path names no
    master definition AND no entry whose path names a master definition consulted it for its
    variables. -/
theorem unused_with_variables_exact (e : Envs) (env : Env) (master : List Obj) (docs : List (List Obj))
    (hf : TreeMaster master) (hd : depthL master ≤ 1000) (hinc : NoIncludeTree master)
    (hdocs : ∀ d ∈ docs, DocIds d) (hnamed : ScopesNamed docs.flatten)
    (hsome : ∀ x ∈ allDefinitions (docs.map (denoteDoc env false)).flatten, x.2.1.id ≠ none)
    (hids : ((allDefinitions (docs.map (denoteDoc env false)).flatten).map (fun x => x.2.1.id)).Nodup)
    (ro : Obj) (used : List Nat)
    (h : fetchRoot e false master (docs.map (preResolve env false)) = .ok (ro, used))
    (x : Str × Meta × List Word) :
    x ∈ C06.unusedOf (docs.map (denoteDoc env false)).flatten used ↔
      x ∈ allDefinitions (docs.map (denoteDoc env false)).flatten ∧
        x.1 ∉ (allDefinitions master).map (·.1) ∧
        ∀ y ∈ allDefinitions (docs.map (denoteDoc env false)).flatten,
          y.1 ∈ (allDefinitions master).map (·.1) →
            ∀ i, x.2.1.id = some i → i ∉ srcRefs (.defn y.2.1 y.2.2) :=
  unused_vars_exact _ _ used hsome hids
    (used_with_variables_exact e env master docs hf hd hinc hdocs hnamed ro used h) x

/-! ## non-vacuity: instances through the parser (replayed on the real freephil) -/

/-- the empty environment -/
def noEnv : Env := fun _ => none

open Phil.C06 in
/-- master `a = 1 ; s { b = 2 ; c = 3 }` -/
def mT : List Obj := objsOf "a = 1\ns {\n  b = 2\n  c = 3\n}\n"

open Phil.C06 in
/-- source: helper `q`, a mixture, a chain of references through a dotted name, an undefined variable
    in a definition that names no master parameter, a single-quoted `$` -/
def sT : List Obj :=
  objsOf "q = 5 6\na = $q x$q\nr = 0\ns.b = $a\nz = $nope\ns {\n  c = $(s.b) '$q'\n}\n"

open Phil.C06 in
/-- source with two offending definitions: the error is that of the first in MASTER order (`a`,
    line 3), not in source order (`s.b`, line 2) -/
def sE : List Obj := objsOf "a = 7\ns.b = $nope\na = $alsonope\n"

/-- every hypothesis of the theorems holds on the parsed instances -/
example : (treeMasterB mT && decide (depthL mT ≤ 1000) && docIdsB sT && scopesNamedB sT && freshB sT &&
    docIdsB sE && scopesNamedB sE &&
    decide (((allDefinitions (denoteDoc noEnv false sT)).map (fun x => x.2.1.id)).Nodup) &&
    (allDefinitions (denoteDoc noEnv false sT)).all (fun x => x.2.1.id.isSome)) = true := by
  decide +kernel

/-- the specification on the instance: denoted words, consulted ids -/
example : (denote noEnv sT [1]).toOption.map (fun ws => ws.map (fun w => String.ofList w.value)) =
    some ["5", "6", "x5 6"] := by decide +kernel
example : (refsAt sT [1], refsAt sT [3, 0], refsAt sT [5, 0]) = ([1, 1], [2, 1, 1], [4, 2, 1, 1]) := by
  decide +kernel

/-- on the instance the annotation pass is the denoted document -/
example : preResolve noEnv false sT = denoteDoc noEnv false sT :=
  preResolve_is_denotation noEnv false sT ((docIdsB_iff_vs sT).mp (by decide +kernel))

/-- the model on the instance: result, consumed ids = `treeUsed` of the denoted document, reported
    list (`q` is consumed by reference, `r` and `z` are reported; Python: same values, unused
    `r (input line 3)`, `z (input line 5)`) -/
example :
    (match fetchRoot env12 false mT [denoteDoc noEnv false sT] with
     | .ok (ro, used) => some (C06.valsOf ro.children, used == treeUsed mT (denoteDoc noEnv false sT),
         (C06.unusedOf (denoteDoc noEnv false sT) used).map (fun (x : Str × Meta × List Word) => String.ofList x.1))
     | .error _ => none) =
      some ([("a", ["5", "6", "x5 6"]), ("s.b", ["5", "6", "x5 6"]), ("s.c", ["5", "6", "x5 6", "$q"])],
        true, ["r", "z"]) := by
  decide +kernel

/-- the closed form applied to the instance -/
example : fetchRoot env12 false mT [preResolve noEnv false sT] =
    treeFetch { name := [], id := some 0 } mT (denoteDoc noEnv false sT) := by
  have h := fetch_with_variables env12 noEnv mT [sT] (treeMasterB_sound mT (by decide +kernel))
    (by decide +kernel)
    (by intro d hd; rw [List.mem_singleton] at hd; subst hd; exact (docIdsB_iff_vs sT).mp (by decide +kernel))
    (scopesNamedB_sound _ (by simp only [List.flatten_cons, List.flatten_nil, List.append_nil]; decide +kernel))
  simpa using h

/-- the first offending definition in master order (Python: "Undefined variable: $alsonope (input line 3)") -/
example : (errOf (fetchRoot env12 false mT [preResolve noEnv false sE]),
    firstErr mT (denoteDoc noEnv false sE)) =
      (some (Err.runtime "undefined_variable" (some 3)), some (Err.runtime "undefined_variable" (some 3))) := by
  decide +kernel

/-! ## the hypotheses are sharp (model-level shapes no parser output has) -/

/-- `DocIds` is needed for `preResolve_is_denotation`: with ids out of document order the operational
    lookup (which stops at the first object whose id reaches the stop id) misses `a`, the
    specification finds it -/
def badIds : List Obj :=
  [.defn { name := "x".toList, id := some 5 } [], .defn { name := "a".toList, id := some 1 } [{ value := "1".toList }],
   .defn { name := "b".toList, id := some 2 } [{ value := "$a".toList }]]

theorem docIds_needed : docIdsB badIds = false ∧
    (preResolve noEnv false badIds).map (·.meta.varRes) ≠ (denoteDoc noEnv false badIds).map (·.meta.varRes) := by
  decide +kernel

/-- `Fresh` is needed for `source_definition_is_denoted`: a resolution recorded before the pass on a
    `$`-free definition is kept by the pass and wins over the denotation -/
def stale : List Obj :=
  [.defn { name := "a".toList, id := some 1, varRes := some (.ok [{ value := "9".toList }] []) } [{ value := "1".toList }]]

theorem fresh_needed : docIdsB stale = true ∧ freshB stale = false ∧
    (denoteDoc noEnv false stale).map (·.srcWords) = [[{ value := "9".toList }]] ∧
    (denote noEnv stale [0]).toOption = some [{ value := "1".toList }] := by
  decide +kernel

/-- `ScopesNamed` is needed for the closed form: `get_without_substitution` looks through an enabled
    scope with an empty name, the specification does not -/
def unnamed : List Obj :=
  [.scope { name := [], id := some 1 } [.defn { name := "a".toList, id := some 2 } [{ value := "5".toList }]]]

open Phil.C06 in
theorem scopesNamed_needed : scopesNamedB unnamed = false ∧
    (fetchRoot env12 false (objsOf "a = 1\n") [unnamed]).toOption.map (fun r => valsOf r.1.children) = some [("a", ["5"])] ∧
    (treeFetch { name := [], id := some 0 } (objsOf "a = 1\n") unnamed).toOption.map (fun r => valsOf r.1.children)
      = some [("a", ["1"])] := by
  decide +kernel

end Phil.C12Fetch

#print axioms Phil.C12Fetch.preResolve_is_denotation
#print axioms Phil.C12Fetch.preResolve_is_denotation_parsed
#print axioms Phil.C12Fetch.consulted_ids_spec
#print axioms Phil.C12Fetch.denote_errors_are_runtime
#print axioms Phil.C12Fetch.fetch_tree_vars_total
#print axioms Phil.C12Fetch.firstErr_without_resolution_errors
#print axioms Phil.C12Fetch.fetch_with_variables
#print axioms Phil.C12Fetch.fetch_with_variables_parsed
#print axioms Phil.C12Fetch.source_definition_is_denoted
#print axioms Phil.C12Fetch.last_value_wins_with_variables
#print axioms Phil.C12Fetch.fetched_value_env_irrelevant
#print axioms Phil.C12Fetch.fetched_value_ignores_later_definitions
#print axioms Phil.C12Fetch.used_with_variables_exact
#print axioms Phil.C12Fetch.unused_with_variables_exact
#print axioms Phil.C12Fetch.docIds_needed
#print axioms Phil.C12Fetch.fresh_needed
#print axioms Phil.C12Fetch.scopesNamed_needed
