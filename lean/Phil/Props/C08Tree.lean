/-
  C08 (closed form on NESTED masters) — "fetch_diff is a faithful and minimal difference":
    for a master M and working parameters W = M.fetch(sources), D = M.fetch_diff(W) contains only
    parameters whose value differs from the master default; merging D back reproduces W; the
    difference of the master's own defaults is empty; the difference of a difference-restored W is
    D again.

  Model: Phil/Fetch.lean, `fetchScope … diff := true` (= `scope.fetch(diff=True)`, which is what
  `scope.fetch_diff` calls; `definition.fetch_diff` = the diff branch of `fetchDefn`; a scope whose
  difference has no children is dropped).
  Lemmas: Phil/Proofs/DiffTree.lean (on top of Phil/Proofs/DiffSpec.lean — flat masters — and
  Phil/Proofs/FetchTreeMulti.lean — non-diff fetch of nested masters).

  Class covered (unbounded: every such master, every such source tree, every adequate fuel, every
  `Envs`): `DiffTreeSetting e fuel sm mkids srcs` —
    * master: `TreeMultiMaster` (enabled NON-multiple scopes nested to any depth, enabled definitions
      `.multiple` or not, typed or not, not `.deprecated`, not choices; names non-empty, dot-free,
      pairwise distinct among siblings), fit for re-fetching (`RefetchTree`: definitions not
      template-marked, `$`-free defaults); `sm` is the meta data of the master scope fetched (empty
      name at the root, any name below);
    * sources: ARBITRARY trees of definitions and named scopes, enabled or disabled, any number of
      repetitions and spellings (`s.d = 1` or `s { d = 1 }`), unknown objects included — `SrcTree`
      (enabled definitions resolve, enabled scopes are named) and `SrcNoDollar`;
    * `KeysAll_dt`: `extract_format` succeeds on every master definition and on the candidate of
      every enabled source definition reached by its path (kept abstract: `eval` and `"%.10g"` are
      parameters; checkable by evaluation, `keysAllB_dt`);
    * fuel: `depthL mkids + 1 < fuel`, ONE MORE than the non-diff fetch needs (`depthL mkids < fuel`):
      the diff branch of `definition.fetch` renders with the fuel of its loop iteration, which must
      be positive at the deepest level (flat masters, depth 0: fuel `f + 2` — Props/C08Restore.lean).
      `fetchRoot` starts with the depth plus three.

  Results.
    1. `treeDiff` (`tdBlock_plain`, `tdBlock_multiple`, `tdBlock_scope`, `treeDiff_cons`) — the
       specification, by structural recursion on the master: a non-multiple definition contributes
       the candidate of the LAST enabled source definition reached by its path iff its key differs
       from the key of the master definition; a `.multiple` definition the survivors of the list rule
       WITHOUT the template; a scope itself with the difference of its children, rebuilt from the
       children of all enabled source scopes of its name — unless that difference is empty.
       `diff_tree_total`: `fetch_diff` equals this specification, or fails with RuntimeError
       ("incompatible") exactly when kinds clash somewhere (`noClash`); consumed ids as in non-diff mode.
    2. `diff_tree_minimal`, `diff_of_working_tree_minimal`, `diff_tree_at_path`: every definition of a
       difference, at any depth, has a key different from its master definition's.
       `diff_tree_no_empty_scope`: every scope of a difference has children.
    3. `self_diff_tree_empty_nosrc`, `self_diff_tree_empty`: no sources, or W₀ = M.fetch(): no children.
    4. `diff_of_working_tree`: M.fetch_diff(M.fetch(S)) has the children of M.fetch_diff(S).
    5. `restore_tree`: M.fetch(D) succeeds; its children `W'` are `treeRestored`, and correspond to
       `W` block by block, object by object, at every depth (`RestoredKids_dt`): identical, EXCEPT that
       a non-multiple working value whose key is the key of the master definition comes back as the
       master definition.  `restore_tree_exact` (`W' = W` under `NoRedundantTree_dt`),
       `restore_tree_values` (same extracted values under `FaithfulTree_dt`: "equal keys ⇒ equal
       values"), `restore_tree_twice`.  Both hypotheses are needed at depth as they are for flat
       masters: `restore_tree_not_tree_equal`, `restore_tree_values_fails_float`.
    6. `diff_restore_tree_fixed_point`: M.fetch_diff(W') = D.
  Validation of the specification against the real library: see the comment before the instance.
-/
import Phil.Proofs.DiffTree
set_option linter.unusedVariables false
namespace Phil.C08
open Phil

variable {e : Envs} {fuel : Nat} {sm : Meta} {mkids srcs : List Obj}

/-! ### 1. the difference in closed form -/

theorem treeDiff_nil (e : Envs) (srcs : List Obj) : treeDiff e [] srcs = [] := by rw [treeDiff]

/-- the children of a difference: the blocks of the master children, in master order -/
theorem treeDiff_cons (e : Envs) (mo : Obj) (rest srcs : List Obj) :
    treeDiff e (mo :: rest) srcs = tdBlock e mo srcs ++ treeDiff e rest srcs := by rw [treeDiff]

/-- the block of a non-multiple master definition in a difference: the candidate of the last enabled
    source definition of its name at this level, unless its key is the key of the master definition -/
theorem tdBlock_plain (e : Envs) (mm : Meta) (mws : List Word) (srcs : List Obj)
    (h : isMultiple (.defn mm mws) = false) :
    tdBlock e (.defn mm mws) srcs =
      match lastDef srcs mm.name with
      | none => []
      | some d =>
        if keyOf e 0 (.defn mm mws) (candOfSrc (.defn mm mws) d) == keyOf e 0 (.defn mm mws) (.defn mm mws)
        then [] else [candOfSrc (.defn mm mws) d] := by
  rw [tdBlock]
  exact diffBlockL_plain e 0 _ _ h

/-- the block of a `.multiple` master definition in a difference: the survivors of the list rule
    over the enabled source definitions of its name at this level, no template -/
theorem tdBlock_multiple (e : Envs) (mm : Meta) (mws : List Word) (srcs : List Obj)
    (h : isMultiple (.defn mm mws) = true) :
    tdBlock e (.defn mm mws) srcs =
      (dedupKeepLast ((candsOf e 0 (.defn mm mws) (defsNamed mm.name srcs)).filter
        (fun y => y.2 != keyOf e 0 (.defn mm mws) (.defn mm mws)))).map (·.1) := by
  rw [tdBlock]
  unfold diffBlockL survivorsOf
  rw [h]
  rfl

/-- … which is the non-diff block (C05's `tmBlock`) without its head, the template -/
theorem tdBlock_multiple_tail (e : Envs) (mm : Meta) (mws : List Word) (srcs : List Obj)
    (h : isMultiple (.defn mm mws) = true) :
    tdBlock e (.defn mm mws) srcs = (tmBlock e (.defn mm mws) srcs).tail := by
  rw [tdBlock, tmBlock]
  unfold diffBlockL
  simp only [h, if_true]
  rw [multiBlock_eq_cons]
  rfl

/-- the block of a master scope in a difference: the scope with the difference of its children,
    computed from the children of all enabled source scopes of its name — dropped if empty -/
theorem tdBlock_scope (e : Envs) (mm : Meta) (kids srcs : List Obj) :
    tdBlock e (.scope mm kids) srcs =
      if (treeDiff e kids (srcStep srcs mm.name)).isEmpty then []
      else [.scope { mm with tmpl := 0 } (treeDiff e kids (srcStep srcs mm.name))] := by
  rw [tdBlock]

/-- **The difference in closed form, nested masters.**  With fuel beyond the nesting depth plus one
    and defined keys, `master.fetch_diff(sources)` succeeds exactly when no kinds clash; its children
    are `treeDiff`; every enabled source definition whose path names a master definition is consumed;
    a clash makes it fail with RuntimeError ("incompatible"). -/
theorem diff_tree_total (e : Envs) (fuel : Nat) (sm : Meta) (mkids srcs : List Obj)
    (hf : TreeMultiMaster mkids) (hfuel : depthL mkids + 1 < fuel) (hsd : sm.disabled = false)
    (hsrc : SrcTree srcs) (hkeys : KeysAll_dt e mkids srcs) :
    fetchScope e fuel true sm mkids srcs =
      if noClash mkids srcs then
        .ok (.scope { sm with tmpl := 0 } (treeDiff e mkids srcs), treeMultiUsed mkids srcs)
      else .error incompatibleErr :=
  Phil.diff_tree_total e fuel sm mkids srcs hf hfuel hsd hsrc hkeys

/-- the success case -/
theorem diff_tree (e : Envs) (fuel : Nat) (sm : Meta) (mkids srcs : List Obj)
    (hf : TreeMultiMaster mkids) (hfuel : depthL mkids + 1 < fuel) (hsd : sm.disabled = false)
    (hsrc : SrcTree srcs) (hkeys : KeysAll_dt e mkids srcs) (hnc : noClash mkids srcs = true) :
    fetchScope e fuel true sm mkids srcs =
      .ok (.scope { sm with tmpl := 0 } (treeDiff e mkids srcs), treeMultiUsed mkids srcs) := by
  rw [Phil.diff_tree_total e fuel sm mkids srcs hf hfuel hsd hsrc hkeys, hnc]
  rfl

/-- the clash case: RuntimeError ("incompatible"), as in non-diff mode -/
theorem diff_tree_clash_fails (e : Envs) (fuel : Nat) (sm : Meta) (mkids srcs : List Obj)
    (hf : TreeMultiMaster mkids) (hfuel : depthL mkids + 1 < fuel) (hsd : sm.disabled = false)
    (hsrc : SrcTree srcs) (hkeys : KeysAll_dt e mkids srcs) (hnc : noClash mkids srcs = false) :
    fetchScope e fuel true sm mkids srcs = .error incompatibleErr := by
  rw [Phil.diff_tree_total e fuel sm mkids srcs hf hfuel hsd hsrc hkeys, hnc]
  rfl

/-- a successful difference is the specification -/
theorem diff_tree_ok (e : Envs) (fuel : Nat) (sm : Meta) (mkids srcs : List Obj)
    (hf : TreeMultiMaster mkids) (hfuel : depthL mkids + 1 < fuel) (hsd : sm.disabled = false)
    (hsrc : SrcTree srcs) (hkeys : KeysAll_dt e mkids srcs) (rm : Meta) (D : List Obj) (used : List Nat)
    (h : fetchScope e fuel true sm mkids srcs = .ok (.scope rm D, used)) :
    noClash mkids srcs = true ∧ rm = { sm with tmpl := 0 } ∧ D = treeDiff e mkids srcs ∧
      used = treeMultiUsed mkids srcs := by
  rw [Phil.diff_tree_total e fuel sm mkids srcs hf hfuel hsd hsrc hkeys] at h
  cases hnc : noClash mkids srcs with
  | false => rw [hnc] at h; cases h
  | true =>
    rw [hnc] at h
    simp only [if_true] at h
    cases h
    exact ⟨rfl, rfl, rfl, rfl⟩

/-- **`master.fetch_diff(sources=…)`** — the same for the entry point on parsed roots: the fuel
    `fetchRoot` computes is adequate -/
theorem fetchRoot_diff_tree (e : Envs) (master : List Obj) (ss : List (List Obj))
    (hf : TreeMultiMaster master) (hd : depthL master ≤ 1000) (hsrc : SrcTree ss.flatten)
    (hkeys : KeysAll_dt e master ss.flatten) :
    fetchRoot e true master ss =
      if noClash master ss.flatten then
        .ok (.scope { name := [], id := some 0 } (treeDiff e master ss.flatten),
             treeMultiUsed master ss.flatten)
      else .error incompatibleErr :=
  Phil.fetchRoot_diff_tree e master ss hf hd hsrc hkeys

/-- masters without `.multiple` (`TreeMaster`, the class of C05Tree) are a special case -/
theorem diff_tree_total_of_treeMaster (e : Envs) (fuel : Nat) (sm : Meta) (mkids srcs : List Obj)
    (hf : TreeMaster mkids) (hfuel : depthL mkids + 1 < fuel) (hsd : sm.disabled = false)
    (hsrc : SrcTree srcs) (hkeys : KeysAll_dt e mkids srcs) :
    fetchScope e fuel true sm mkids srcs =
      if noClash mkids srcs then
        .ok (.scope { sm with tmpl := 0 } (treeDiff e mkids srcs), treeUsed mkids srcs)
      else .error incompatibleErr :=
  Phil.diff_tree_total e fuel sm mkids srcs hf.toMulti hfuel hsd hsrc hkeys

/-- the key hypothesis of the difference covers the one of the non-diff fetch (C05) -/
theorem keysAll_covers_multi (e : Envs) (mkids srcs : List Obj) (h : KeysAll_dt e mkids srcs) :
    KeysDefinedTree e mkids srcs := h.toMulti

/-- `master.fetch(sources)` in the same setting (C05's closed form) -/
theorem fetch_tree_in_setting (S : DiffTreeSetting e fuel sm mkids srcs) :
    fetchScope e fuel false sm mkids srcs =
      if noClash mkids srcs then
        .ok (.scope { sm with tmpl := 0 } (treeMultiResult e mkids srcs), treeMultiUsed mkids srcs)
      else .error incompatibleErr :=
  S.fetch_sources_total

/-! ### 2. minimality; no empty scopes -/

/-- **Minimality.**  Every definition `x` of `master.fetch_diff(sources)`, at any depth, is the
    candidate built from a source definition for a master definition `mo`, and its key
    `mo.extract_format(source=x).as_str()` differs from `mo.extract_format().as_str()`. -/
theorem diff_tree_minimal (e : Envs) (fuel : Nat) (sm : Meta) (mkids srcs : List Obj)
    (hf : TreeMultiMaster mkids) (hfuel : depthL mkids + 1 < fuel) (hsd : sm.disabled = false)
    (hsrc : SrcTree srcs) (hkeys : KeysAll_dt e mkids srcs) (rm : Meta) (D : List Obj) (used : List Nat)
    (h : fetchScope e fuel true sm mkids srcs = .ok (.scope rm D, used)) :
    ∀ x, ActiveIn x D → x.isDefn = true →
      ∃ mo, ActiveIn mo mkids ∧ mo.isDefn = true ∧ (∃ d, ActiveIn d srcs ∧ x = candOfSrc mo d) ∧
        keyOf e 0 mo x ≠ keyOf e 0 mo mo := by
  obtain ⟨_, _, rfl, _⟩ := diff_tree_ok e fuel sm mkids srcs hf hfuel hsd hsrc hkeys rm D used h
  exact treeDiff_minimal_dt e mkids srcs hf

/-- **The difference at a path.**  Where the master has the definition `.defn mm mws` at the path
    `ps.n`, the enabled objects called `n` the difference has at that path are `diffBlockL` of the
    enabled source definitions reached by that path (over all sources and all spellings, in document
    order) — each with a key different from the key of the master definition. -/
theorem diff_tree_at_path (e : Envs) (fuel : Nat) (sm : Meta) (mkids srcs : List Obj)
    (hf : TreeMultiMaster mkids) (hfuel : depthL mkids + 1 < fuel) (hsd : sm.disabled = false)
    (hsrc : SrcTree srcs) (hkeys : KeysAll_dt e mkids srcs) (rm : Meta) (D : List Obj) (used : List Nat)
    (h : fetchScope e fuel true sm mkids srcs = .ok (.scope rm D, used))
    (ps : List Str) (n : Str) (mm : Meta) (mws : List Word) (hdef : defAt mkids ps n = some (.defn mm mws)) :
    activeNamed n (srcAt D ps) = diffBlockL e 0 (.defn mm mws) (defsNamed n (srcAt srcs ps)) ∧
      ∀ o ∈ activeNamed n (srcAt D ps), keyOf e 0 (.defn mm mws) o ≠ keyOf e 0 (.defn mm mws) (.defn mm mws) := by
  obtain ⟨_, _, rfl, _⟩ := diff_tree_ok e fuel sm mkids srcs hf hfuel hsd hsrc hkeys rm D used h
  have h1 := treeDiff_at_path_dt e mkids srcs hf ps n mm mws hdef
  refine ⟨h1, ?_⟩
  intro o ho
  rw [h1] at ho
  exact (mem_diffBlockL ho).2

/-- **No empty scopes.**  Every scope of a difference, at any depth, has children. -/
theorem diff_tree_no_empty_scope (e : Envs) (fuel : Nat) (sm : Meta) (mkids srcs : List Obj)
    (hf : TreeMultiMaster mkids) (hfuel : depthL mkids + 1 < fuel) (hsd : sm.disabled = false)
    (hsrc : SrcTree srcs) (hkeys : KeysAll_dt e mkids srcs) (rm : Meta) (D : List Obj) (used : List Nat)
    (h : fetchScope e fuel true sm mkids srcs = .ok (.scope rm D, used)) :
    ∀ m kids, ActiveIn (.scope m kids) D → kids ≠ [] := by
  obtain ⟨_, _, rfl, _⟩ := diff_tree_ok e fuel sm mkids srcs hf hfuel hsd hsrc hkeys rm D used h
  exact treeDiff_no_empty_scope_dt e mkids srcs hf

/-! ### 3. empty self-difference -/

/-- **No sources: empty difference** (nothing consumed). -/
theorem self_diff_tree_empty_nosrc (e : Envs) (fuel : Nat) (sm : Meta) (mkids : List Obj)
    (hf : TreeMultiMaster mkids) (hfuel : depthL mkids + 1 < fuel) (hsd : sm.disabled = false)
    (hk : KeysAll_dt e mkids []) :
    fetchScope e fuel true sm mkids [] = .ok (.scope { sm with tmpl := 0 } [], []) := by
  rw [Phil.diff_tree_total e fuel sm mkids [] hf hfuel hsd srcTree_nil_dt hk, noClash_nil_dt,
    treeDiff_nil_dt]
  unfold treeMultiUsed
  rw [treeUsed_nil_dt]
  rfl

/-- **The difference of the master's own defaults is empty**: `W₀ = master.fetch()`,
    `master.fetch_diff(W₀)` succeeds and has no children. -/
theorem self_diff_tree_empty (e : Envs) (fuel : Nat) (sm : Meta) (mkids : List Obj)
    (hf : TreeMultiMaster mkids) (hr : RefetchTree mkids) (hfuel : depthL mkids + 1 < fuel)
    (hsd : sm.disabled = false) (hk : KeysAll_dt e mkids [])
    (rm : Meta) (W0 : List Obj) (u : List Nat)
    (hW : fetchScope e fuel false sm mkids [] = .ok (.scope rm W0, u)) :
    ∃ u', fetchScope e fuel true sm mkids W0 = .ok (.scope rm [], u') := by
  have S := diffTreeSetting_nosrc e fuel sm mkids hf hr hfuel hsd hk
  obtain ⟨_, rfl, rfl⟩ := S.working_inv hW
  refine ⟨treeMultiUsed mkids (treeMultiResult e mkids []), ?_⟩
  rw [S.diff_working, treeDiff_nil_dt]

/-! ### 4. the difference of the working set is the difference of the sources -/

/-- **`master.fetch_diff(master.fetch(sources))` has the children of `master.fetch_diff(sources)`**
    (and never fails). -/
theorem diff_of_working_tree (S : DiffTreeSetting e fuel sm mkids srcs)
    (rm : Meta) (W : List Obj) (u : List Nat)
    (hW : fetchScope e fuel false sm mkids srcs = .ok (.scope rm W, u)) :
    ∃ ud ud', fetchScope e fuel true sm mkids W = .ok (.scope rm (treeDiff e mkids srcs), ud) ∧
      fetchScope e fuel true sm mkids srcs = .ok (.scope rm (treeDiff e mkids srcs), ud') := by
  obtain ⟨hnc, rfl, rfl⟩ := S.working_inv hW
  refine ⟨treeMultiUsed mkids (treeMultiResult e mkids srcs), treeMultiUsed mkids srcs, S.diff_working, ?_⟩
  rw [S.diff_sources_total, hnc]
  rfl

/-- minimality for the difference of a working set (the statement of C08): every definition of
    `D = master.fetch_diff(W)`, `W = master.fetch(sources)`, at any depth, has a key different from
    its master default's -/
theorem diff_of_working_tree_minimal (S : DiffTreeSetting e fuel sm mkids srcs)
    (rm : Meta) (W : List Obj) (u : List Nat)
    (hW : fetchScope e fuel false sm mkids srcs = .ok (.scope rm W, u))
    (rd : Meta) (D : List Obj) (ud : List Nat)
    (hD : fetchScope e fuel true sm mkids W = .ok (.scope rd D, ud)) :
    (∀ x, ActiveIn x D → x.isDefn = true →
      ∃ mo, ActiveIn mo mkids ∧ mo.isDefn = true ∧ x.name = mo.name ∧ keyOf e 0 mo x ≠ keyOf e 0 mo mo) ∧
    (∀ m kids, ActiveIn (.scope m kids) D → kids ≠ []) := by
  obtain ⟨ud', _, h, _⟩ := diff_of_working_tree S rm W u hW
  rw [h] at hD
  cases hD
  refine ⟨?_, treeDiff_no_empty_scope_dt e mkids srcs S.tree⟩
  intro x hx hdef
  obtain ⟨mo, ha, hmd, ⟨d, _, rfl⟩, hk⟩ := treeDiff_minimal_dt e mkids srcs S.tree x hx hdef
  exact ⟨mo, ha, hmd, by cases mo <;> rfl, hk⟩

/-! ### 5. restoring the working set from its difference -/

theorem restoredObj_defn_iff (e : Envs) (mm : Meta) (mws : List Word) (o o' : Obj) :
    RestoredObj_dt e (.defn mm mws) o o' ↔
      (o' = o ∨ (isMultiple (.defn mm mws) = false ∧ o.meta = mm ∧
        keyOf e 0 (.defn mm mws) o = keyOf e 0 (.defn mm mws) (.defn mm mws) ∧ o' = .defn mm mws)) := by
  rw [RestoredObj_dt]
  rfl

theorem restoredObj_scope_iff (e : Envs) (mm : Meta) (kids : List Obj) (o o' : Obj) :
    RestoredObj_dt e (.scope mm kids) o o' ↔
      ∃ K K', o = .scope { mm with tmpl := 0 } K ∧ o' = .scope { mm with tmpl := 0 } K' ∧
        RestoredKids_dt e kids K K' := by
  rw [RestoredObj_dt]

theorem restoredKids_nil_iff (e : Envs) (W W' : List Obj) :
    RestoredKids_dt e [] W W' ↔ W = [] ∧ W' = [] := by
  rw [RestoredKids_dt]

theorem restoredKids_cons_iff (e : Envs) (mo : Obj) (rest W W' : List Obj) :
    RestoredKids_dt e (mo :: rest) W W' ↔
      ∃ A A' C C', W = A ++ C ∧ W' = A' ++ C' ∧ Forall2 (RestoredObj_dt e mo) A A' ∧
        RestoredKids_dt e rest C C' := by
  rw [RestoredKids_dt]

/-  Full-strength statement (FALSE at every depth, see `restore_tree_not_tree_equal` below):
      … → ∃ u', fetchScope e fuel false sm mkids D = .ok (.scope rm W, u')
    What is missing is exactly the second alternative of `RestoredAs` inside `RestoredObj_dt`: a
    non-multiple working value that merely re-spells its default is not reported by the difference
    (its whole scope may disappear from `D`) and comes back in the master's spelling.
    `restore_tree_exact` is the full-strength statement under the hypothesis that excludes this. -/

/-- **Restore.**  Let `W = master.fetch(sources)` and `D = master.fetch_diff(W)`.  Then
    `master.fetch(D)` succeeds; its children `W'` are `treeRestored`; `W` and `W'` split into the
    same blocks, one per master child in master order and so on recursively inside every scope
    (scopes dropped from `D` included), and correspond object by object: `W'ᵢ = Wᵢ`, except that
    where `Wᵢ` is the working value of a non-multiple master definition `mo` with the key of `mo`,
    `W'ᵢ = mo`.  (`.multiple` blocks — template flag, instances, their order — are reproduced
    exactly.) -/
theorem restore_tree (S : DiffTreeSetting e fuel sm mkids srcs)
    (rm : Meta) (W : List Obj) (u : List Nat)
    (hW : fetchScope e fuel false sm mkids srcs = .ok (.scope rm W, u))
    (rd : Meta) (D : List Obj) (ud : List Nat)
    (hD : fetchScope e fuel true sm mkids W = .ok (.scope rd D, ud)) :
    ∃ W' u', fetchScope e fuel false sm mkids D = .ok (.scope rm W', u') ∧
      W' = treeRestored e mkids srcs ∧ RestoredKids_dt e mkids W W' := by
  obtain ⟨_, rfl, rfl⟩ := S.working_inv hW
  rw [S.diff_working] at hD
  cases hD
  exact ⟨_, _, S.fetch_diff, rfl, restoredKids_dt e mkids srcs S.tree.kids S.refetch⟩

/-- **Restore, at a path.**  Where the master has the definition `.defn mm mws` at the path `ps.n`,
    the objects `W'` has there are `restoredBlockL` of the enabled source definitions reached by that
    path, and they correspond one by one to the objects `W` has there (`RestoredAs`). -/
theorem restore_tree_at_path (S : DiffTreeSetting e fuel sm mkids srcs)
    (rm : Meta) (W : List Obj) (u : List Nat)
    (hW : fetchScope e fuel false sm mkids srcs = .ok (.scope rm W, u))
    (rd : Meta) (D : List Obj) (ud : List Nat)
    (hD : fetchScope e fuel true sm mkids W = .ok (.scope rd D, ud))
    (rw' : Meta) (W' : List Obj) (u' : List Nat)
    (hW' : fetchScope e fuel false sm mkids D = .ok (.scope rw' W', u'))
    (ps : List Str) (n : Str) (mm : Meta) (mws : List Word) (hdef : defAt mkids ps n = some (.defn mm mws)) :
    Forall2 (RestoredAs e 0 (.defn mm mws)) (activeNamed n (srcAt W ps)) (activeNamed n (srcAt W' ps)) := by
  obtain ⟨W'', u'', h1, h2, _⟩ := restore_tree S rm W u hW rd D ud hD
  rw [h1] at hW'
  cases hW'
  obtain ⟨_, _, rfl⟩ := S.working_inv hW
  have hn : mm.name = n := (defAt_name ps mkids n _ hdef).1
  rw [h2, treeRestored_at_path_dt e mkids srcs S.tree ps n mm mws hdef,
    block_at_path_tm e ps mkids srcs n mm mws S.tree hdef, tmBlock_eq_gBlock_dt, gBlock_dt, hn]
  have ht : mm.tmpl = 0 := by
    have := defAt_active_dt ps mkids n _ S.tree.kids hdef
    exact (S.refetch _ this rfl).1
  exact restoredBlockL_restoredAs e 0 mm mws ht _

/-- **Restore, exactly.**  If no working value merely re-spells its default, at any depth
    (`NoRedundantTree_dt`), merging the difference back gives `W` itself — the same tree, template
    flags included. -/
theorem restore_tree_exact (S : DiffTreeSetting e fuel sm mkids srcs)
    (hnr : NoRedundantTree_dt e mkids srcs)
    (rm : Meta) (W : List Obj) (u : List Nat)
    (hW : fetchScope e fuel false sm mkids srcs = .ok (.scope rm W, u))
    (rd : Meta) (D : List Obj) (ud : List Nat)
    (hD : fetchScope e fuel true sm mkids W = .ok (.scope rd D, ud)) :
    ∃ u', fetchScope e fuel false sm mkids D = .ok (.scope rm W, u') := by
  obtain ⟨W', u', h1, h2, _⟩ := restore_tree S rm W u hW rd D ud hD
  obtain ⟨_, _, rfl⟩ := S.working_inv hW
  rw [h2, treeRestored_eq_treeMultiResult_dt e mkids srcs hnr] at h1
  exact ⟨u', h1⟩

/-- **Restore, values.**  If, at every depth, a non-multiple working value that has the key of its
    master definition also has its VALUE (`FaithfulTree_dt`; true for bool/int/str/… values, false
    for floats that agree with the default to 10 significant digits only —
    `restore_tree_values_fails_float`), then `W'` and `W` extract to the same Python values,
    whatever the enclosing scope and the fuel. -/
theorem restore_tree_values (S : DiffTreeSetting e fuel sm mkids srcs)
    (hfa : FaithfulTree_dt e mkids srcs)
    (rm : Meta) (W : List Obj) (u : List Nat)
    (hW : fetchScope e fuel false sm mkids srcs = .ok (.scope rm W, u))
    (rd : Meta) (D : List Obj) (ud : List Nat)
    (hD : fetchScope e fuel true sm mkids W = .ok (.scope rd D, ud))
    (rw' : Meta) (W' : List Obj) (u' : List Nat)
    (hW' : fetchScope e fuel false sm mkids D = .ok (.scope rw' W', u'))
    (m : Meta) (n : Nat) :
    extractObj e n (.scope m W') = extractObj e n (.scope m W) := by
  obtain ⟨W'', u'', h1, h2, _⟩ := restore_tree S rm W u hW rd D ud hD
  rw [h1] at hW'
  cases hW'
  obtain ⟨_, _, rfl⟩ := S.working_inv hW
  rw [h2]
  exact treeRestored_values_dt e mkids srcs S.tree S.refetch hfa m n

/-- **Restoring twice**: `W'` is a fixed point of `master.fetch`. -/
theorem restore_tree_twice (S : DiffTreeSetting e fuel sm mkids srcs) :
    ∃ u, fetchScope e fuel false sm mkids (treeRestored e mkids srcs) =
      .ok (.scope { sm with tmpl := 0 } (treeRestored e mkids srcs), u) :=
  ⟨_, S.fetch_restored⟩

/-! ### 6. the difference of the restored working set -/

/-- **The difference of a difference-restored `W` is `D` again**: with `W = master.fetch(sources)`,
    `D = master.fetch_diff(W)`, `W' = master.fetch(D)`: `master.fetch_diff(W')` succeeds and is `D`
    (same scope, same children). -/
theorem diff_restore_tree_fixed_point (S : DiffTreeSetting e fuel sm mkids srcs)
    (rm : Meta) (W : List Obj) (u : List Nat)
    (hW : fetchScope e fuel false sm mkids srcs = .ok (.scope rm W, u))
    (rd : Meta) (D : List Obj) (ud : List Nat)
    (hD : fetchScope e fuel true sm mkids W = .ok (.scope rd D, ud))
    (rw' : Meta) (W' : List Obj) (u' : List Nat)
    (hW' : fetchScope e fuel false sm mkids D = .ok (.scope rw' W', u')) :
    ∃ ud', fetchScope e fuel true sm mkids W' = .ok (.scope rd D, ud') := by
  obtain ⟨_, rfl, rfl⟩ := S.working_inv hW
  rw [S.diff_working] at hD
  cases hD
  rw [S.fetch_diff] at hW'
  cases hW'
  exact ⟨_, S.diff_restored⟩

/-- the same chain for the entry point `fetchRoot` (`master.fetch(sources=…)`, `master.fetch_diff`) -/
theorem fetchRoot_restore_tree_chain (e : Envs) (master : List Obj) (ss : List (List Obj))
    (S : DiffTreeSetting e (rootFuel_dt master) { name := [], id := some 0 } master ss.flatten)
    (hnc : noClash master ss.flatten = true) :
    ∃ u ud u' ud',
      fetchRoot e false master ss =
        .ok (.scope { name := [], id := some 0 } (treeMultiResult e master ss.flatten), u) ∧
      fetchRoot e true master [treeMultiResult e master ss.flatten] =
        .ok (.scope { name := [], id := some 0 } (treeDiff e master ss.flatten), ud) ∧
      fetchRoot e false master [treeDiff e master ss.flatten] =
        .ok (.scope { name := [], id := some 0 } (treeRestored e master ss.flatten), u') ∧
      fetchRoot e true master [treeRestored e master ss.flatten] =
        .ok (.scope { name := [], id := some 0 } (treeDiff e master ss.flatten), ud') := by
  have hfl : ∀ l : List Obj, ([l] : List (List Obj)).flatten = l := by intro l; simp
  refine ⟨treeMultiUsed master ss.flatten,
    treeMultiUsed master (treeMultiResult e master ss.flatten),
    treeMultiUsed master (treeDiff e master ss.flatten),
    treeMultiUsed master (treeRestored e master ss.flatten), ?_, ?_, ?_, ?_⟩
  · rw [fetchRoot_eq_dt, S.fetch_sources_total, hnc]; rfl
  · rw [fetchRoot_eq_dt, hfl]; exact S.diff_working
  · rw [fetchRoot_eq_dt, hfl]; exact S.fetch_diff
  · rw [fetchRoot_eq_dt, hfl]; exact S.diff_restored

/-- the setting from executable checks on parsed roots -/
theorem diffTreeSetting_of_checks (e : Envs) (master srcs : List Obj)
    (hm : masterCheck_tm master = true) (hs : srcCheck srcs = true)
    (hk : keysAllB_dt e master srcs = true) :
    DiffTreeSetting e (rootFuel_dt master) { name := [], id := some 0 } master srcs := by
  have hM := masterCheck_tm_sound master hm
  have hS := srcCheck_sound srcs hs
  exact ⟨hM.tree, hM.refetch, fetchRoot_fuel_dt master hM.depth, rfl, hS.tree, hS.noDollar,
    keysAllB_dt_sound e master srcs hk⟩

/-! ### validation of the specification against the real library, non-vacuity

  `treeDiff`/`treeRestored`/`treeMultiResult` were compared with the unchanged Python library BEFORE
  the proofs, on 1100 random nested inputs (masters nested up to 3 scopes deep, 1–4 children per
  scope, definitions untyped / `bool` / `int` / `str`, `.multiple` 40 %, `.optional=False` some;
  0–3 source documents of 0–5 objects per level, repeated scopes and definitions, re-spellings
  (`yes`/`True`, `1+1`/`2`, `"x"`/`x`), disabled objects, unknown objects; one batch of 300 with
  kinds swapped at 8 % of the source objects):
    `master.fetch_diff(sources=S).as_str()`            = `treeDiff M S`          rendered
    `master.fetch_diff(source=W).as_str()`             = `treeDiff M W`          rendered, `= D₀`
    `master.fetch(source=D).as_str()`                  = `treeRestored M S`      rendered
                                                        (= `treeMultiResult M D`, compared as terms)
    `master.fetch_diff(source=W').as_str()`            = `treeDiff M W'`         rendered, `= D`
    both `fetch` and `fetch_diff` raise RuntimeError("Incompatible …") ⇔ `noClash M S = false`
  1100/1100 agree (1000 in the success case — 610 non-empty differences, 322 of them nested, 117
  with `W' ≠ W` as text — and 100 clash cases); the model's `fetchRoot` agreed as well. -/

def objs_dt (t : String) : List Obj :=
  match parseObjs t.toList with
  | .ok m => m
  | .error _ => []

/-- `eval` and `"%.10g"` know the digits -/
def envDigits_dt : Envs :=
  { eval := fun s => match s with
      | [c] => if c.isDigit then some (.num (.int (c.toNat - 48))) else none
      | _ => none,
    fmt := fun n => match n with
      | .int i => if 0 ≤ i && i ≤ 9 then some [Char.ofNat (48 + i.toNat)] else none
      | _ => none }

/-- master: `a = 1 (int) ; s { d = 2 (int, multiple) ; b = True (bool) ;
    t { w = p q (multiple) ; c = x } ; u { k = 0 (int) } }` -/
def exM_dt : List Obj := objs_dt "a = 1\n.type=int\ns {\n  d = 2\n  .type=int\n  .multiple=True\n  b = True\n  .type=bool\n  t {\n    w = p q\n    .multiple=True\n    c = x\n  }\n  u {\n    k = 0\n    .type=int\n  }\n}\n"

/-- sources: dotted and braced spellings; `a`: the default; `s.d`: 3, 2 (the default), 5, 3 again,
    and once disabled; `s.b = yes` re-spells the default `True`; `s.t.w`: r, then the default;
    `s.t.c`, `s.u.k`: the defaults; `z` unknown -/
def exS_dt : List Obj := objs_dt "a = 1\ns.d = 3\ns {\n  d = 2\n  d = 5\n}\ns.b = yes\ns.t.w = r\ns.t {\n  w = p q\n  c = x\n}\ns.u.k = 0\ns.d = 3\nz = 1\n!s.d = 9\n"

/-- the (path, template flag, words) triples of the definitions of a tree -/
def instOf_dt (kids : List Obj) : List (String × Int × List String) :=
  (allDefinitions kids).map (fun x => (String.ofList x.1, x.2.1.tmpl, x.2.2.map (fun w => String.ofList w.value)))

/-- the text `as_str()` prints for a list of children -/
def textOf_dt (kids : List Obj) : Option String :=
  match asStr {} (rootOf kids) with
  | .ok s => some (String.ofList s)
  | .error _ => none

/-- the parsed instance satisfies every hypothesis -/
example : (exM_dt.length == 2 && exS_dt.length == 10 && masterCheck_tm exM_dt && srcCheck exS_dt &&
    keysAllB_dt envDigits_dt exM_dt exS_dt && noClash exM_dt exS_dt && depthL exM_dt == 2) = true := by
  decide +kernel

/-- the instance is in the class -/
theorem exSetting_dt :
    DiffTreeSetting envDigits_dt (rootFuel_dt exM_dt) { name := [], id := some 0 } exM_dt exS_dt :=
  diffTreeSetting_of_checks envDigits_dt exM_dt exS_dt (by decide +kernel) (by decide +kernel)
    (by decide +kernel)

/-- the working set the closed form predicts (`s.b = yes`, the source's spelling) … -/
example : instOf_dt (treeMultiResult envDigits_dt exM_dt exS_dt) =
    [("a", 0, ["1"]), ("s.d", -1, ["2"]), ("s.d", 0, ["5"]), ("s.d", 0, ["3"]), ("s.b", 0, ["yes"]),
     ("s.t.w", -1, ["p", "q"]), ("s.t.w", 0, ["r"]), ("s.t.c", 0, ["x"]), ("s.u.k", 0, ["0"])] := by
  decide +kernel

/-- … the difference: no `a`, no templates, no `s.d = 2`, no `s.b` (`yes` has the key of `True`), no
    `s.t.c`, and the whole scope `s.u` dropped (Python prints exactly this text) … -/
example : (instOf_dt (treeDiff envDigits_dt exM_dt exS_dt), textOf_dt (treeDiff envDigits_dt exM_dt exS_dt)) =
    ([("s.d", 0, ["5"]), ("s.d", 0, ["3"]), ("s.t.w", 0, ["r"])],
     some "s {\n  d = 5\n  d = 3\n  t {\n    w = r\n  }\n}\n") := by
  decide +kernel

/-- … and the restored working set: `W` except for `s.b = True`; `s.u` is back -/
example : (instOf_dt (treeRestored envDigits_dt exM_dt exS_dt),
    textOf_dt (treeRestored envDigits_dt exM_dt exS_dt)) =
    ([("a", 0, ["1"]), ("s.d", -1, ["2"]), ("s.d", 0, ["5"]), ("s.d", 0, ["3"]), ("s.b", 0, ["True"]),
      ("s.t.w", -1, ["p", "q"]), ("s.t.w", 0, ["r"]), ("s.t.c", 0, ["x"]), ("s.u.k", 0, ["0"])],
     some "a = 1\ns {\n  d = 5\n  d = 3\n  b = True\n  t {\n    w = r\n    c = x\n  }\n  u {\n    k = 0\n  }\n}\n") := by
  decide +kernel

/-- the theorems apply: the four fetches of the chain succeed with these children -/
example : ∃ u ud u' ud',
    fetchRoot envDigits_dt false exM_dt [exS_dt] =
      .ok (.scope { name := [], id := some 0 } (treeMultiResult envDigits_dt exM_dt exS_dt), u) ∧
    fetchRoot envDigits_dt true exM_dt [treeMultiResult envDigits_dt exM_dt exS_dt] =
      .ok (.scope { name := [], id := some 0 } (treeDiff envDigits_dt exM_dt exS_dt), ud) ∧
    fetchRoot envDigits_dt false exM_dt [treeDiff envDigits_dt exM_dt exS_dt] =
      .ok (.scope { name := [], id := some 0 } (treeRestored envDigits_dt exM_dt exS_dt), u') ∧
    fetchRoot envDigits_dt true exM_dt [treeRestored envDigits_dt exM_dt exS_dt] =
      .ok (.scope { name := [], id := some 0 } (treeDiff envDigits_dt exM_dt exS_dt), ud') := by
  have hfl : ([exS_dt] : List (List Obj)).flatten = exS_dt := by simp
  have h := fetchRoot_restore_tree_chain envDigits_dt exM_dt [exS_dt] (by rw [hfl]; exact exSetting_dt)
    (by rw [hfl]; decide +kernel)
  rw [hfl] at h
  exact h

/-- children of a result -/
def kidsOf_dt (r : R (Obj × List Nat)) : Option (List Obj) :=
  match r with | .ok (o, _) => some o.children | .error _ => none

/-- the chain evaluated on the model's `fetchRoot` directly (not through the theorems) -/
def chain_dt (e : Envs) (master source : List Obj) : Option (List Obj × List Obj × List Obj × List Obj) :=
  match kidsOf_dt (fetchRoot e false master [source]) with
  | none => none
  | some W =>
    match kidsOf_dt (fetchRoot e true master [W]) with
    | none => none
    | some D =>
      match kidsOf_dt (fetchRoot e false master [D]) with
      | none => none
      | some W' =>
        match kidsOf_dt (fetchRoot e true master [W']) with
        | none => none
        | some D' => some (W, D, W', D')

/-- the listings `[W, D, W', D']` of a chain -/
def chainViews_dt (e : Envs) (master source : List Obj) : Option (List (List (String × Int × List String))) :=
  (chain_dt e master source).map (fun c => [instOf_dt c.1, instOf_dt c.2.1, instOf_dt c.2.2.1, instOf_dt c.2.2.2])

/-- independent check by evaluation of the model (Python gives the same four listings) -/
example : chainViews_dt envDigits_dt exM_dt exS_dt =
    some [[("a", 0, ["1"]), ("s.d", -1, ["2"]), ("s.d", 0, ["5"]), ("s.d", 0, ["3"]), ("s.b", 0, ["yes"]),
           ("s.t.w", -1, ["p", "q"]), ("s.t.w", 0, ["r"]), ("s.t.c", 0, ["x"]), ("s.u.k", 0, ["0"])],
          [("s.d", 0, ["5"]), ("s.d", 0, ["3"]), ("s.t.w", 0, ["r"])],
          [("a", 0, ["1"]), ("s.d", -1, ["2"]), ("s.d", 0, ["5"]), ("s.d", 0, ["3"]), ("s.b", 0, ["True"]),
           ("s.t.w", -1, ["p", "q"]), ("s.t.w", 0, ["r"]), ("s.t.c", 0, ["x"]), ("s.u.k", 0, ["0"])],
          [("s.d", 0, ["5"]), ("s.d", 0, ["3"]), ("s.t.w", 0, ["r"])]] := by
  decide +kernel

/-- the self-difference of the instance's master is empty -/
example : (kidsOf_dt (fetchRoot envDigits_dt true exM_dt [])).map instOf_dt = some [] := by decide +kernel
example : ((kidsOf_dt (fetchRoot envDigits_dt false exM_dt [])).bind
    (fun W0 => kidsOf_dt (fetchRoot envDigits_dt true exM_dt [W0]))).map List.length = some 0 := by
  decide +kernel

/-- a source scope where the master has a definition, two levels down: `noClash` is false and the
    difference fails like the fetch -/
example : (noClash exM_dt (objs_dt "s.t.c.x = 1\n"),
    errOf (fetchRoot envDigits_dt true exM_dt [objs_dt "s.t.c.x = 1\n"]),
    errOf (fetchRoot envDigits_dt false exM_dt [objs_dt "s.t.c.x = 1\n"])) =
      (false, some (.runtime "incompatible" none), some (.runtime "incompatible" none)) := by
  decide +kernel

/-- **the fuel bound is tight**: a master of depth 1 (`s { a = x }`), source `s.a = y`.  With fuel 2
    (= depth + 1) the non-diff fetch succeeds but the difference runs out of fuel — the diff branch of
    `definition.fetch` renders with the fuel of its loop iteration, 0 at the deepest level; with
    fuel 3 (= depth + 2) it succeeds. -/
example : (depthL (objs_dt "s {\n  a = x\n}\n"),
    errOf (fetchScope envNone 2 true { name := [] } (objs_dt "s {\n  a = x\n}\n") (objs_dt "s.a = y\n"))) =
      (1, some .outOfFuel) ∧
    [(kidsOf_dt (fetchScope envNone 2 false { name := [] } (objs_dt "s {\n  a = x\n}\n") (objs_dt "s.a = y\n"))).map instOf_dt,
     (kidsOf_dt (fetchScope envNone 3 true { name := [] } (objs_dt "s {\n  a = x\n}\n") (objs_dt "s.a = y\n"))).map instOf_dt] =
      [some [("s.a", 0, ["y"])], some [("s.a", 0, ["y"])]] := by
  decide +kernel

/-! ### counterexamples to the stronger statements, at depth (kernel-evaluated) -/

/-- **Tree equality `W' = W` fails**: master `s { b = True .type=bool }`, source `s.b = yes`.  `W` is
    `s { b = yes }`, the difference is EMPTY (the scope `s` is dropped: both spellings render as
    `b = True`), `W'` is `s { b = True }`.
    (Python: `M.fetch(S).as_str() = 's {\n  b = yes\n}\n'`, `M.fetch_diff(W).as_str() = ''`,
    `M.fetch(D).as_str() = 's {\n  b = True\n}\n'`.)  The extracted values agree (`True`). -/
theorem restore_tree_not_tree_equal :
    chainViews_dt envNone (objs_dt "s {\n  b = True\n  .type=bool\n}\n") (objs_dt "s.b = yes\n") =
      some [[("s.b", 0, ["yes"])], [], [("s.b", 0, ["True"])], []] := by
  decide +kernel

/-- an environment that knows the floats `0.5` and `0.50000000000001` (exact binary ratios as
    `float.as_integer_ratio()` gives them) and their common rendering `"%.10g" % x = '0.5'` -/
def envHalf_dt : Envs :=
  { eval := fun s =>
      if s == "0.5".toList then some (.num (.flt 1 2))
      else if s == "0.50000000000001".toList then some (.num (.flt 2251799813685293 4503599627370496))
      else none,
    fmt := fun n => match n with
      | .flt 1 2 => some "0.5".toList
      | .flt 2251799813685293 4503599627370496 => some "0.5".toList
      | _ => none }

/-- the number stored at `s.a` of an extracted root -/
def numAt_dt (r : R PVal) : Option PNum :=
  match r with
  | .ok (.record [(_, .record [(_, .num n)])]) => some n
  | _ => none

/-- **Value equality fails for floats, at depth** (the genuine violation of C08 reported for flat
    masters, one scope down): master `s { a = 0.5 .type=float }`, source `s.a = 0.50000000000001`.
    Both values render as `0.5` under `"%.10g"`, so `fetch_diff` reports nothing (not even `s`);
    merging the empty difference back gives the default 0.5, whereas `W` extracts 0.50000000000001.
    Python (unchanged tree): `W.as_str() == 's {\n  a = 0.50000000000001\n}\n'`, `D.as_str() == ''`,
    `W2.as_str() == 's {\n  a = 0.5\n}\n'`, `W.extract().s.a == 0.50000000000001`,
    `W2.extract().s.a == 0.5`. -/
theorem restore_tree_values_fails_float :
    chainViews_dt envHalf_dt (objs_dt "s {\n  a = 0.5\n  .type=float\n}\n") (objs_dt "s.a = 0.50000000000001\n") =
      some [[("s.a", 0, ["0.50000000000001"])], [], [("s.a", 0, ["0.5"])], []] ∧
    (chain_dt envHalf_dt (objs_dt "s {\n  a = 0.5\n  .type=float\n}\n") (objs_dt "s.a = 0.50000000000001\n")).bind
        (fun c => numAt_dt (extractObj envHalf_dt 4 (.scope { name := [] } c.1))) =
      some (.flt 2251799813685293 4503599627370496) ∧
    (chain_dt envHalf_dt (objs_dt "s {\n  a = 0.5\n  .type=float\n}\n") (objs_dt "s.a = 0.50000000000001\n")).bind
        (fun c => numAt_dt (extractObj envHalf_dt 4 (.scope { name := [] } c.2.2.1))) =
      some (.flt 1 2) := by
  decide +kernel

/-! ### axioms -/

#print axioms treeDiff_nil
#print axioms treeDiff_cons
#print axioms tdBlock_plain
#print axioms tdBlock_multiple
#print axioms tdBlock_multiple_tail
#print axioms tdBlock_scope
#print axioms diff_tree_total
#print axioms diff_tree
#print axioms diff_tree_clash_fails
#print axioms diff_tree_ok
#print axioms fetchRoot_diff_tree
#print axioms diff_tree_total_of_treeMaster
#print axioms keysAll_covers_multi
#print axioms fetch_tree_in_setting
#print axioms diff_tree_minimal
#print axioms diff_tree_at_path
#print axioms diff_tree_no_empty_scope
#print axioms self_diff_tree_empty_nosrc
#print axioms self_diff_tree_empty
#print axioms diff_of_working_tree
#print axioms diff_of_working_tree_minimal
#print axioms restoredObj_defn_iff
#print axioms restoredObj_scope_iff
#print axioms restoredKids_nil_iff
#print axioms restoredKids_cons_iff
#print axioms restore_tree
#print axioms restore_tree_at_path
#print axioms restore_tree_exact
#print axioms restore_tree_values
#print axioms restore_tree_twice
#print axioms diff_restore_tree_fixed_point
#print axioms fetchRoot_restore_tree_chain
#print axioms diffTreeSetting_of_checks
#print axioms exSetting_dt
#print axioms restore_tree_not_tree_equal
#print axioms restore_tree_values_fails_float

end Phil.C08
