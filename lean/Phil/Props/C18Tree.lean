/-
  C18 on whole trees — "An extracted parameter object accepts assignment to every parameter the master
  declares and rejects assignment to any other name with an AttributeError that spells out the full
  dotted path; injecting a new name works exactly once and refuses to overwrite.  Every extracted
  scope — including each element of a multiple scope — reports the master's full dotted path for
  itself and for any of its parameters."

  Phil/Props/C18.lean proves this for ONE `scope_extract` node, addressed by its chain of names.
  Here it is lifted to the whole object `scope.extract` returns:
    1. `node_paths_of_extract` — the `__phil_path__()` of all nodes of an extraction, pre-order, are
       the dotted paths of the enabled scopes of the tree (`scopePaths`);
    2. `declared_names_accepted`, `every_scope_has_node` — the node at the attribute path `p` holds
       exactly the names of the children of the scope at `p`; assignment to each is accepted, any
       other non-builtin name is refused with AttributeError `p.name`;
    3. `inject_once_tree` — at every node a fresh name can be injected once; the second injection is
       refused with `p.name`;
    4. `node_paths_value`, `node_paths_multi` — extracted values with `scope_extract_list`s: every
       element of the list under the attribute `n` of the node `p` reports `p.n`;
    5. `fetchRoot_extract_node_paths`, `fetchRoot_extract_guard` — `master.fetch(sources).extract()`
       for a nested master without `.multiple` and ARBITRARY sources: node paths and declared names
       are the master's, whatever the sources;
    6. kernel-checked instances through the parser, each replayed on the Python library.
  Detachment (no aliasing with the PHIL tree) is object identity and is validated by the harness.
  Property theorems only; lemmas are in Phil/Proofs/ScopeExtractTree.lean.
-/
import Phil.Proofs.ScopeExtractTree
import Phil.Props.C10Tree
set_option linter.unusedVariables false
namespace Phil.C18
open Phil

/-! ### 0. vocabulary

  * `chainOf rev` (Phil/Props/C18.lean): the `__phil_name__` chain of a node, self first, the root
    (whose name is `""`) last.  The node reached from the root through the attribute names `p`
    (root first) has the chain `chainOf p.reverse`.
  * `dotted p`: the names of `p` joined by `.` (`dotted [] = ""`).
  * `scopePaths kids p = dotted p :: …`: the dotted paths of the scope with path `p` and children
    `kids` and of all enabled, non-template scopes below it, pre-order:
    ```
    scopePathsObj_st (.defn _ _) p     = []
    scopePathsObj_st (.scope m kids) p = if !m.disabled && m.tmpl == 0
                                         then dotted (p ++ [m.name]) :: scopePathsKids_st kids (p ++ [m.name])
                                         else []
    scopePathsKids_st [] p             = []
    scopePathsKids_st (o :: os) p      = scopePathsObj_st o p ++ scopePathsKids_st os p
    ```
    (a disabled scope or a template extracts as `None`, a template placeholder not at all: neither
    is a `scope_extract`).
  * `nodeAt v p`: the fields of the `scope_extract` reached from `v` through the attributes `p`;
    `scopeAt_st kids p`: the children of the scope reached through the names `p`, all scopes on the
    way enabled and not templates.
  * `ScopeNamedKids_st kids`: every scope of the tree has a non-empty name (`scopeNamedKidsB_st` is
    its executable form).  The parser never produces an empty name. -/

/-- the chain of the node at the attribute path `p` is `p` reversed, followed by the root's `""` -/
theorem chain_of_path (p : List Str) : chainOf p.reverse = p.reverse.map some ++ [some []] := rfl

/-- the chain of the root is the one the driver's `node_paths` op passes to `nodePaths` -/
theorem chain_of_root : chainOf ([] : List Str).reverse = [some []] := rfl

/-! ### 1. the node paths of an extraction -/

/-- **`node_paths_of_extract` (general form).**  For a scope whose children contain no `.multiple`,
    have pairwise distinct sibling names at every depth (`DKids_xt`) and named scopes: if the
    extraction succeeds with `v`, then the `__phil_path__()` of all `scope_extract` nodes of `v`
    (pre-order, the root first) are exactly the dotted paths of the enabled scopes of the tree.
    The root's own meta data play no role; `fuel'` is any fuel beyond the depth. -/
theorem node_paths_of_extract_root (e : Envs) (fuel fuel' : Nat) (root : Meta) (kids : List Obj) (v : PVal)
    (hk : DKids_xt kids) (hpw : (kids.map Obj.name).Pairwise (· ≠ ·)) (hn : ScopeNamedKids_st kids)
    (hd : depthL kids + 1 < fuel) (hd' : depthL kids < fuel')
    (h : extractObj e fuel (.scope root kids) = .ok v) :
    nodePaths fuel' [some []] v = scopePaths kids [] :=
  nodePaths_extract_st e fuel fuel' root kids v hk hpw hn hd hd' h

/-- **`node_paths_of_extract`**: the same for a tree of class `DObj_xt`. -/
theorem node_paths_of_extract (e : Envs) (fuel fuel' : Nat) (root : Meta) (kids : List Obj) (v : PVal)
    (hx : DObj_xt (.scope root kids)) (hn : ScopeNamedKids_st kids)
    (hd : depthT (.scope root kids) < fuel) (hd' : depthL kids < fuel')
    (h : extractObj e fuel (.scope root kids) = .ok v) :
    nodePaths fuel' [some []] v = scopePaths kids [] := by
  rw [DObj_xt] at hx
  rw [depthT] at hd
  exact nodePaths_extract_st e fuel fuel' root kids v hx.2.1 hx.2.2 hn hd hd' h

/-- the first path is the root's: the empty string -/
theorem node_paths_root_first (kids : List Obj) : ∃ rest, scopePaths kids [] = [] :: rest :=
  ⟨_, rfl⟩

/-! ### 2. the assignment guard at every node -/

/-- **`declared_names_accepted`.**  Let `v` be the extraction of a tree (no `.multiple`, distinct
    sibling names, named scopes).  For EVERY node of `v` — reached through the attribute names `p`,
    holding `fields` — there is the scope of the tree at the same path, with children `mk`, and
    * the node's field names are exactly the names of the children of that scope that are not
      template placeholders (`liveKids`), in order;
    * `setattr(node, name, x)` is accepted for each of these names (the value replaces the old one);
    * for any other name that is not one of the attributes every `scope_extract` has
      (`builtinAttrs`), it raises AttributeError spelling `p.name` (just `name` at the root);
    * the node reports `dotted p` for itself and `p.name` for any of its parameters. -/
theorem declared_names_accepted (e : Envs) (fuel : Nat) (root : Meta) (kids : List Obj) (v : PVal)
    (hk : DKids_xt kids) (hpw : (kids.map Obj.name).Pairwise (· ≠ ·)) (hn : ScopeNamedKids_st kids)
    (hd : depthL kids + 1 < fuel) (h : extractObj e fuel (.scope root kids) = .ok v)
    (p : List Str) (fields : List (Str × PVal)) (hnode : nodeAt v p = some fields) :
    ∃ mk, scopeAt_st kids p = some mk ∧
      fields.map (fun q => q.1) = (liveKids mk).map Obj.name ∧
      (∀ name x, name ∈ (liveKids mk).map Obj.name →
        setAttr (chainOf p.reverse) fields name x = .ok (fieldSet fields name x)) ∧
      (∀ name x, name ∉ (liveKids mk).map Obj.name → builtinAttrs.contains (String.ofList name) = false →
        setAttr (chainOf p.reverse) fields name x = .attributeError (dotted (p ++ [name]))) ∧
      philPath (chainOf p.reverse) none = dotted p ∧
      (∀ name, philPath (chainOf p.reverse) (some name) = dotted (p ++ [name])) := by
  rw [extractObj_root_eq_spec_xt e fuel root kids hk hpw hd] at h
  obtain ⟨fs, rfl, hfs⟩ := extractSpec_scope_record_xt e root kids v h
  obtain ⟨mk, h1, h2⟩ := nodeAt_extractSpec_st e p kids fs fields hk hpw hfs hnode
  have hp := scopeAt_names_st p kids mk hn h1
  have hnames := extractSpecKids_names_st e mk fields h2
  refine ⟨mk, h1, hnames, ?_, ?_, philPath_node_st p hp, philPath_param_st p hp⟩
  · intro name x hmem
    exact (setAttr_node_st p hp fields name x).1 (by rw [hnames]; exact hmem)
  · intro name x hmem hb
    exact (setAttr_node_st p hp fields name x).2 (by rw [hnames]; exact hmem) hb

/-- the names of `declared_names_accepted` are those of `Phil.C10.extract_field_names`: each comes
    with the value of its child (`kidValue`: `None` for a disabled child or a template, the child's
    own extraction otherwise) -/
theorem declared_names_values (e : Envs) (fuel : Nat) (root : Meta) (kids : List Obj) (v : PVal)
    (hk : DKids_xt kids) (hpw : (kids.map Obj.name).Pairwise (· ≠ ·))
    (hd : depthL kids + 1 < fuel) (h : extractObj e fuel (.scope root kids) = .ok v)
    (p : List Str) (fields : List (Str × PVal)) (hnode : nodeAt v p = some fields) :
    ∃ mk, scopeAt_st kids p = some mk ∧
      ∀ o ∈ liveKids mk, ∃ x, kidValue e o = .ok x ∧ (o.name, x) ∈ fields := by
  rw [extractObj_root_eq_spec_xt e fuel root kids hk hpw hd] at h
  obtain ⟨fs, rfl, hfs⟩ := extractSpec_scope_record_xt e root kids v h
  obtain ⟨mk, h1, h2⟩ := nodeAt_extractSpec_st e p kids fs fields hk hpw hfs hnode
  exact ⟨mk, h1, (Phil.C10.extract_field_names e mk fields h2).2⟩

/-- **conversely, every enabled scope of the tree has its node**: if the names `p` lead to a scope
    (through enabled non-template scopes), the extraction has a `scope_extract` under the attributes
    `p`, with the names of that scope's children. -/
theorem every_scope_has_node (e : Envs) (fuel : Nat) (root : Meta) (kids : List Obj) (v : PVal)
    (hk : DKids_xt kids) (hpw : (kids.map Obj.name).Pairwise (· ≠ ·))
    (hd : depthL kids + 1 < fuel) (h : extractObj e fuel (.scope root kids) = .ok v)
    (p : List Str) (mk : List Obj) (hs : scopeAt_st kids p = some mk) :
    ∃ fields, nodeAt v p = some fields ∧ fields.map (fun q => q.1) = (liveKids mk).map Obj.name := by
  rw [extractObj_root_eq_spec_xt e fuel root kids hk hpw hd] at h
  obtain ⟨fs, rfl, hfs⟩ := extractSpec_scope_record_xt e root kids v h
  obtain ⟨fields, h1, h2⟩ := scopeAt_has_node_st e p kids mk fs hk hpw hfs hs
  exact ⟨fields, h1, extractSpecKids_names_st e mk fields h2⟩

/-! ### 3. inject-once at every node -/

/-- **`inject_once_tree`.**  At every node of the extraction (attribute path `p`, fields `fields`):
    `__inject__(name, x)` of a name that is neither a field nor a builtin attribute succeeds and
    appends the field; a second `__inject__` of the same name — and likewise an `__inject__` of any
    declared name — is refused with AttributeError spelling the full dotted path `p.name`. -/
theorem inject_once_tree (e : Envs) (fuel : Nat) (root : Meta) (kids : List Obj) (v : PVal)
    (hk : DKids_xt kids) (hpw : (kids.map Obj.name).Pairwise (· ≠ ·)) (hn : ScopeNamedKids_st kids)
    (hd : depthL kids + 1 < fuel) (h : extractObj e fuel (.scope root kids) = .ok v)
    (p : List Str) (fields : List (Str × PVal)) (hnode : nodeAt v p = some fields) :
    (∀ name x x', name ∉ fields.map (fun q => q.1) → builtinAttrs.contains (String.ofList name) = false →
      ∃ fields', inject (chainOf p.reverse) fields name x = .ok fields' ∧
        fields' = fields ++ [(name, x)] ∧
        inject (chainOf p.reverse) fields' name x' = .attributeError (dotted (p ++ [name]))) ∧
    (∀ name x, name ∈ fields.map (fun q => q.1) →
      inject (chainOf p.reverse) fields name x = .attributeError (dotted (p ++ [name]))) := by
  rw [extractObj_root_eq_spec_xt e fuel root kids hk hpw hd] at h
  obtain ⟨fs, rfl, hfs⟩ := extractSpec_scope_record_xt e root kids v h
  obtain ⟨mk, h1, h2⟩ := nodeAt_extractSpec_st e p kids fs fields hk hpw hfs hnode
  have hp := scopeAt_names_st p kids mk hn h1
  constructor
  · intro name x x' hmem hb
    exact inject_node_st p hp fields name x x' hmem hb
  · intro name x hmem
    have hany := (any_fst_iff_st fields name).2 hmem
    simp only [inject, hasAttr, hany, Bool.true_or, if_true]
    rw [errPath_node_st p hp]

/-! ### 4. multiple scopes: every element of a `scope_extract_list` reports the same path

  Extracted values are records whose fields hold leaves, records (`scope_extract`) or `.multi` lists
  (`scope_extract_list`) of records.  `fieldsPaths_st fs p` lists the paths below a node `p`:
  ```
  fieldsPaths_st [] p                = []
  fieldsPaths_st ((n, x) :: rest) p  = (match x with
      | .record fs => dotted (p ++ [n]) :: fieldsPaths_st fs (p ++ [n])
      | .multi _ l => elemsPaths_st l (p ++ [n])
      | _          => []) ++ fieldsPaths_st rest p
  elemsPaths_st [] q                 = []
  elemsPaths_st (x :: xs) q          = (match x with
      | .record fs => dotted q :: fieldsPaths_st fs q      -- the SAME q for every element
      | _          => []) ++ elemsPaths_st xs q
  ```
  `NamedFields_st`: all attribute names non-empty; `fieldsDepth_st`: nesting depth of records. -/

/-- **`node_paths_value`**: the `__phil_path__()` of all nodes of any extracted value — records and
    `.multi` lists of records nested to any depth — below (and including) the node with path `q`. -/
theorem node_paths_value (fs : List (Str × PVal)) (q : List Str) (fuel : Nat)
    (hn : NamedFields_st fs) (hq : ∀ s ∈ q, s ≠ []) (hd : fieldsDepth_st fs < fuel) :
    nodePaths fuel (chainOf q.reverse) (.record fs) = dotted q :: fieldsPaths_st fs q :=
  nodePaths_value_st fs q fuel hn hq hd

/-- **`node_paths_multi`.**  A node with path `p` whose attribute `n` holds a `scope_extract_list` of
    ANY length: the paths reported below `n` are those of the elements one after the other, each
    computed with the same path `p.n` (`n` at the root, `p = []`); in particular every element that
    is a `scope_extract` reports `p.n` for itself and `p.n.name` for its parameter `name`. -/
theorem node_paths_multi (p : List Str) (hp : ∀ s ∈ p, s ≠ []) (n : Str) (hn : n ≠ []) (opt : AttrVal)
    (l : List PVal) (hl : NamedElems_st l) (fuel : Nat) (hd : elemsDepth_st l + 1 < fuel) :
    nodePaths fuel (chainOf p.reverse) (.record [(n, .multi opt l)])
        = dotted p :: l.flatMap (fun x => valPaths_st x (p ++ [n])) ∧
    (∀ x ∈ l, ∀ xs, x = .record xs → ∃ rest, valPaths_st x (p ++ [n]) = dotted (p ++ [n]) :: rest) ∧
    philPath (some n :: chainOf p.reverse) none = dotted (p ++ [n]) ∧
    (∀ name, philPath (some n :: chainOf p.reverse) (some name) = dotted (p ++ [n] ++ [name])) := by
  have hq := snoc_named_st p n hp hn
  refine ⟨?_, ?_, ?_, ?_⟩
  · have hnf : NamedFields_st [(n, PVal.multi opt l)] := by
      rw [NamedFields_st, NamedVal_st, NamedFields_st]; exact ⟨hn, hl, trivial⟩
    have hdf : fieldsDepth_st [(n, PVal.multi opt l)] < fuel := by
      rw [fieldsDepth_st, valDepth_st, fieldsDepth_st]
      have : Nat.max (elemsDepth_st l) 0 = elemsDepth_st l := Nat.max_eq_left (Nat.zero_le _)
      rw [this]; omega
    rw [nodePaths_value_st _ p fuel hnf hp hdf, fieldsPaths_cons_st, fieldsPaths_st,
      List.append_nil]
    show dotted p :: elemsPaths_st l (p ++ [n]) = _
    rw [elemsPaths_eq_flatMap_st]
  · intro x _ xs hx
    subst hx
    exact ⟨_, rfl⟩
  · rw [chainOf_snoc_st]; exact philPath_node_st _ hq
  · intro name
    rw [chainOf_snoc_st]; exact philPath_param_st _ hq name

/-- … when no element has sub-scopes: the root of the list's owner, then `p.n` once per element -/
theorem node_paths_multi_flat (p : List Str) (hp : ∀ s ∈ p, s ≠ []) (n : Str) (hn : n ≠ []) (opt : AttrVal)
    (l : List PVal) (hl : NamedElems_st l) (hleaf : ∀ x ∈ l, LeafRecord_st x)
    (fuel : Nat) (hd : elemsDepth_st l + 1 < fuel) :
    nodePaths fuel (chainOf p.reverse) (.record [(n, .multi opt l)])
        = dotted p :: List.replicate l.length (dotted (p ++ [n])) := by
  rw [(node_paths_multi p hp n hn opt l hl fuel hd).1, ← elemsPaths_eq_flatMap_st,
    elemsPaths_leaves_st l _ hleaf]

/-! ### 5. fetch, then extract: the paths and the declared names are the master's

  `masterScopePaths_st master []`: the dotted paths of ALL scopes of the master, pre-order, the root
  first (every scope of a `TreeMaster` is enabled; the fetch clears template marks);
  `masterAt_st master p`: the children of the master scope reached through the names `p`. -/

/-- **`fetchRoot_extract_node_paths`.**  For a nested master without `.multiple` (`TreeMaster`, depth
    ≤ 1000) and ARBITRARY sources (`SrcTree`): if `master.fetch(sources)` and the extraction of its
    result succeed, the `__phil_path__()` of the nodes of the extracted object are the dotted paths
    of the master's scopes — the sources do not occur on the right-hand side. -/
theorem fetchRoot_extract_node_paths (e : Envs) (master : List Obj) (ss : List (List Obj))
    (hf : TreeMaster master) (hd : depthL master ≤ 1000) (hsrc : SrcTree ss.flatten)
    (xfuel fuel' : Nat) (hx : depthL master + 1 < xfuel) (hd' : depthL master < fuel')
    (ro : Obj) (used : List Nat) (v : PVal)
    (h : fetchRoot e false master ss = .ok (ro, used)) (hv : extractObj e xfuel ro = .ok v) :
    nodePaths fuel' [some []] v = masterScopePaths_st master [] := by
  rw [fetchRoot_tree e master ss hf hd hsrc] at h
  cases hnc : noClash master ss.flatten with
  | false => rw [hnc] at h; simp at h
  | true =>
    rw [hnc] at h
    simp only [if_true, Except.ok.injEq, Prod.mk.injEq] at h
    obtain ⟨rfl, _⟩ := h
    have hdk := dkids_treeResult_xt master ss.flatten hf.kids
    have hpw : ((treeResult master ss.flatten).map Obj.name).Pairwise (· ≠ ·) := by
      rw [treeResult_names]; exact hf.distinct
    have hnm := scopeNamedKids_treeResult_st master ss.flatten hf.kids
    have hdep := depthL_treeResult_ns master ss.flatten
    rw [nodePaths_extract_st e xfuel fuel' _ _ v hdk hpw hnm (by rw [hdep]; exact hx)
      (by rw [hdep]; exact hd') hv]
    unfold scopePaths masterScopePaths_st
    rw [scopePathsKids_treeResult_st master ss.flatten [] hf.kids]

/-- … and when no scope of the master is a template (what the parser delivers) these are its
    `scopePaths` -/
theorem fetchRoot_extract_node_paths' (e : Envs) (master : List Obj) (ss : List (List Obj))
    (hf : TreeMaster master) (hd : depthL master ≤ 1000) (hsrc : SrcTree ss.flatten)
    (hlive : scopesLiveKidsB_st master = true)
    (xfuel fuel' : Nat) (hx : depthL master + 1 < xfuel) (hd' : depthL master < fuel')
    (ro : Obj) (used : List Nat) (v : PVal)
    (h : fetchRoot e false master ss = .ok (ro, used)) (hv : extractObj e xfuel ro = .ok v) :
    nodePaths fuel' [some []] v = scopePaths master [] := by
  rw [fetchRoot_extract_node_paths e master ss hf hd hsrc xfuel fuel' hx hd' ro used v h hv,
    masterScopePaths_live_st master [] hlive]

/-- two parameter files, one master: the same node paths -/
theorem fetchRoot_extract_node_paths_indep (e : Envs) (master : List Obj) (ss ss' : List (List Obj))
    (hf : TreeMaster master) (hd : depthL master ≤ 1000) (hsrc : SrcTree ss.flatten)
    (hsrc' : SrcTree ss'.flatten) (xfuel fuel' : Nat) (hx : depthL master + 1 < xfuel)
    (hd' : depthL master < fuel') (ro ro' : Obj) (used used' : List Nat) (v v' : PVal)
    (h : fetchRoot e false master ss = .ok (ro, used)) (hv : extractObj e xfuel ro = .ok v)
    (h' : fetchRoot e false master ss' = .ok (ro', used')) (hv' : extractObj e xfuel ro' = .ok v') :
    nodePaths fuel' [some []] v = nodePaths fuel' [some []] v' := by
  rw [fetchRoot_extract_node_paths e master ss hf hd hsrc xfuel fuel' hx hd' ro used v h hv,
    fetchRoot_extract_node_paths e master ss' hf hd hsrc' xfuel fuel' hx hd' ro' used' v' h' hv']

/-- **`fetchRoot_extract_guard`.**  Same setting.  For every master scope — reached through the names
    `p`, with children `mk`, none of them a template placeholder — the extracted object has a node
    under the attributes `p` whose field names are exactly the names of `mk`, whatever the sources;
    assignment to each of them is accepted, any other non-builtin name is refused with `p.name`, and
    a fresh name can be injected once. -/
theorem fetchRoot_extract_guard (e : Envs) (master : List Obj) (ss : List (List Obj))
    (hf : TreeMaster master) (hd : depthL master ≤ 1000) (hsrc : SrcTree ss.flatten)
    (xfuel : Nat) (hx : depthL master + 1 < xfuel) (ro : Obj) (used : List Nat) (v : PVal)
    (h : fetchRoot e false master ss = .ok (ro, used)) (hv : extractObj e xfuel ro = .ok v)
    (p : List Str) (mk : List Obj) (hm : masterAt_st master p = some mk)
    (ht : ∀ o ∈ mk, ¬ o.meta.tmpl < 0) :
    ∃ fields, nodeAt v p = some fields ∧ fields.map (fun q => q.1) = mk.map Obj.name ∧
      (∀ name x, name ∈ mk.map Obj.name →
        setAttr (chainOf p.reverse) fields name x = .ok (fieldSet fields name x)) ∧
      (∀ name x, name ∉ mk.map Obj.name → builtinAttrs.contains (String.ofList name) = false →
        setAttr (chainOf p.reverse) fields name x = .attributeError (dotted (p ++ [name]))) ∧
      (∀ name x x', name ∉ mk.map Obj.name → builtinAttrs.contains (String.ofList name) = false →
        ∃ fields', inject (chainOf p.reverse) fields name x = .ok fields' ∧
          inject (chainOf p.reverse) fields' name x' = .attributeError (dotted (p ++ [name]))) := by
  rw [fetchRoot_tree e master ss hf hd hsrc] at h
  cases hnc : noClash master ss.flatten with
  | false => rw [hnc] at h; simp at h
  | true =>
    rw [hnc] at h
    simp only [if_true, Except.ok.injEq, Prod.mk.injEq] at h
    obtain ⟨rfl, _⟩ := h
    have hdk := dkids_treeResult_xt master ss.flatten hf.kids
    have hpw : ((treeResult master ss.flatten).map Obj.name).Pairwise (· ≠ ·) := by
      rw [treeResult_names]; exact hf.distinct
    have hnm := scopeNamedKids_treeResult_st master ss.flatten hf.kids
    have hdep := depthL_treeResult_ns master ss.flatten
    rw [extractObj_root_eq_spec_xt e xfuel _ _ hdk hpw (by rw [hdep]; exact hx)] at hv
    obtain ⟨fs, rfl, hfs⟩ := extractSpec_scope_record_xt e _ _ v hv
    have hsa : scopeAt_st (treeResult master ss.flatten) p = some (treeResult mk (srcAt ss.flatten p)) := by
      rw [scopeAt_treeResult_st p master ss.flatten hf.kids, hm]; rfl
    obtain ⟨fields, h1, h2⟩ := scopeAt_has_node_st e p _ _ fs hdk hpw hfs hsa
    have hp := scopeAt_names_st p _ _ hnm hsa
    have hnames : fields.map (fun q => q.1) = mk.map Obj.name := by
      rw [extractSpecKids_names_st e _ fields h2, liveKids_treeResult_names_st mk _ ht]
    refine ⟨fields, h1, hnames, ?_, ?_, ?_⟩
    · intro name x hmem
      exact (setAttr_node_st p hp fields name x).1 (by rw [hnames]; exact hmem)
    · intro name x hmem hb
      exact (setAttr_node_st p hp fields name x).2 (by rw [hnames]; exact hmem) hb
    · intro name x x' hmem hb
      obtain ⟨fields', h3, _, h4⟩ := inject_node_st p hp fields name x x' (by rw [hnames]; exact hmem) hb
      exact ⟨fields', h3, h4⟩

/-! ### 6. instances through the parser (each replayed on the Python library)

  `Phil.C10.objsT` parses, `Phil.C10.fetchExtractT m s` is `master.fetch(source).extract()` with
  `eval` restricted to integer literals.  The Python replay walks the `scope_extract` objects in
  `__dict__` order calling `__phil_path__()`, tries `setattr` with declared and undeclared names and
  calls `__inject__` twice (results recorded next to each example). -/

private def S (s : String) : Str := s.toList

/-- a three-level master: `a`; `s.b`, `s.t.ns`, `s.t.u.c`, `s.w.d`; `z.e` -/
def master3_st : String :=
  "a = 1\n.type = int\ns {\n  b = yes\n  .type = bool\n  t {\n    ns = 1 2 3\n    .type = ints\n    u {\n      c = x\n    }\n  }\n  w {\n    d = 2\n  }\n}\nz {\n  e = None\n}\n"

/-- a parameter file touching several leaves, with dotted names, a re-ordered scope and a stray name -/
def source3_st : String := "s.t.u.c = y\nz.e = 5\ns {\n w.d = 7\n b = no\n}\nunknown = 3\n"

/-- a master with a `.multiple` scope holding a sub-scope, and three instances of it -/
def masterM_st : String := "a = 1\ns\n  .multiple = True\n{\n  b = 1\n  t {\n    c = 2\n  }\n}\n"
def sourceM_st : String := "s {\n b = 2\n}\ns {\n b = 3\n t.c = 9\n}\ns {\n b = 4\n}\n"

/-- a tree with disabled scopes (extracted directly: a fetch drops disabled master objects) -/
def masterD_st : String := "a = 1\n!s {\n  b = 1\n}\nt {\n  c = 1\n  !u {\n   d = 1\n  }\n}\n"

/-- the node paths of `master.fetch(source).extract()` are `ps` -/
def nodePathsAre_st (m s : String) (ps : List String) : Bool :=
  match Phil.C10.fetchExtractT m s with
  | .ok v => nodePaths 50 [some []] v == ps.map String.toList
  | .error _ => false

/-- outcome of `setattr(node_at_p, name, None)`: `none` = no such node, `some none` = accepted,
    `some (some q)` = AttributeError spelling `q` -/
def setAttrAt_st (r : R PVal) (p : List String) (name : String) : Option (Option Str) :=
  match r with
  | .error _ => none
  | .ok v =>
    match nodeAt v (p.map String.toList) with
    | none => none
    | some fields =>
      match setAttr (chainOf (p.map String.toList).reverse) fields name.toList .none with
      | .ok _ => some none
      | .attributeError q => some (some q)

/-- outcome of `__inject__(name, None)` twice at the node at `p`: whether the first was accepted and
    the path spelled by the second's AttributeError -/
def injectTwiceAt_st (r : R PVal) (p : List String) (name : String) : Option (Bool × Option Str) :=
  match r with
  | .error _ => none
  | .ok v =>
    match nodeAt v (p.map String.toList) with
    | none => none
    | some fields =>
      match inject (chainOf (p.map String.toList).reverse) fields name.toList .none with
      | .attributeError q => some (false, some q)
      | .ok fields' =>
        match inject (chainOf (p.map String.toList).reverse) fields' name.toList .none with
        | .ok _ => some (true, none)
        | .attributeError q => some (true, some q)

/-- the field names of the node at `p` -/
def fieldNamesAt_st (r : R PVal) (p : List String) : Option (List Str) :=
  match r with
  | .error _ => none
  | .ok v => (nodeAt v (p.map String.toList)).map (fun fields => fields.map (fun q => q.1))

/-- no source — Python: `['', 's', 's.t', 's.t.u', 's.w', 'z']` -/
example : nodePathsAre_st master3_st "" ["", "s", "s.t", "s.t.u", "s.w", "z"] = true := by
  decide +kernel

/-- with the parameter file: the same paths -/
example : nodePathsAre_st master3_st source3_st ["", "s", "s.t", "s.t.u", "s.w", "z"] = true := by
  decide +kernel

/-- they are the `scopePaths` of the parsed master, which satisfies the hypotheses of
    `fetchRoot_extract_node_paths'` -/
example : (scopePaths (Phil.C10.objsT master3_st) [] == ["", "s", "s.t", "s.t.u", "s.w", "z"].map String.toList
    && treeMasterB (Phil.C10.objsT master3_st) && depthL (Phil.C10.objsT master3_st) == 3
    && scopesLiveKidsB_st (Phil.C10.objsT master3_st) && scopeNamedKidsB_st (Phil.C10.objsT master3_st)
    && srcCheck (Phil.C10.objsT source3_st)) = true := by
  decide +kernel

/-- **the theorem applied to the parsed master and parameter file**: whatever `fetchRoot` and
    `extractObj` return, if both succeed the node paths are the six above -/
example (ro : Obj) (used : List Nat) (v : PVal)
    (h : fetchRoot Phil.C10.envT false (Phil.C10.objsT master3_st) [Phil.C10.objsT source3_st] = .ok (ro, used))
    (hv : extractObj Phil.C10.envT 50 ro = .ok v) :
    nodePaths 50 [some []] v = ["", "s", "s.t", "s.t.u", "s.w", "z"].map String.toList := by
  have hfl : ([Phil.C10.objsT source3_st] : List (List Obj)).flatten = Phil.C10.objsT source3_st := by simp
  rw [fetchRoot_extract_node_paths' Phil.C10.envT (Phil.C10.objsT master3_st) [Phil.C10.objsT source3_st]
    (treeMasterB_sound _ (by decide +kernel)) (by decide +kernel)
    (by rw [hfl]; exact (srcCheck_sound _ (by decide +kernel)).tree) (by decide +kernel)
    50 50 (by decide +kernel) (by decide +kernel) ro used v h hv]
  decide +kernel

/-- the field names of the nodes — Python `__dict__` keys: `['a','s','z']`, `['b','t','w']`,
    `['ns','u']`, `['c']` -/
example : fieldNamesAt_st (Phil.C10.fetchExtractT master3_st source3_st) [] = some [S "a", S "s", S "z"] ∧
    fieldNamesAt_st (Phil.C10.fetchExtractT master3_st source3_st) ["s"] = some [S "b", S "t", S "w"] ∧
    fieldNamesAt_st (Phil.C10.fetchExtractT master3_st source3_st) ["s", "t"] = some [S "ns", S "u"] ∧
    fieldNamesAt_st (Phil.C10.fetchExtractT master3_st source3_st) ["s", "t", "u"] = some [S "c"] := by
  decide +kernel

/-- declared names are accepted at every depth (Python: `setattr` returns) -/
example : setAttrAt_st (Phil.C10.fetchExtractT master3_st source3_st) [] "a" = some none ∧
    setAttrAt_st (Phil.C10.fetchExtractT master3_st source3_st) [] "s" = some none ∧
    setAttrAt_st (Phil.C10.fetchExtractT master3_st source3_st) ["s"] "b" = some none ∧
    setAttrAt_st (Phil.C10.fetchExtractT master3_st source3_st) ["s", "t"] "ns" = some none ∧
    setAttrAt_st (Phil.C10.fetchExtractT master3_st source3_st) ["s", "t", "u"] "c" = some none ∧
    setAttrAt_st (Phil.C10.fetchExtractT master3_st source3_st) ["s", "w"] "d" = some none := by
  decide +kernel

/-- undeclared names are refused with the full dotted path — Python: `Assignment to non-existing
    attribute "qq"`, `"s.qq"`, `"s.t.qq"`, `"s.t.u.zz_top"`, `"z.qq"`; the stray `unknown` of the
    parameter file is not a parameter either -/
example : setAttrAt_st (Phil.C10.fetchExtractT master3_st source3_st) [] "qq" = some (some (S "qq")) ∧
    setAttrAt_st (Phil.C10.fetchExtractT master3_st source3_st) [] "unknown" = some (some (S "unknown")) ∧
    setAttrAt_st (Phil.C10.fetchExtractT master3_st source3_st) ["s"] "qq" = some (some (S "s.qq")) ∧
    setAttrAt_st (Phil.C10.fetchExtractT master3_st source3_st) ["s", "t"] "qq" = some (some (S "s.t.qq")) ∧
    setAttrAt_st (Phil.C10.fetchExtractT master3_st source3_st) ["s", "t", "u"] "zz_top"
      = some (some (S "s.t.u.zz_top")) ∧
    setAttrAt_st (Phil.C10.fetchExtractT master3_st source3_st) ["z"] "qq" = some (some (S "z.qq")) := by
  decide +kernel

/-- a name declared one level up is not declared here: `s.a` -/
example : setAttrAt_st (Phil.C10.fetchExtractT master3_st "") ["s"] "a" = some (some (S "s.a")) := by
  decide +kernel

/-- inject twice — Python: first accepted, second `Attribute "fresh" exists already.`,
    `"s.fresh"`, `"s.t.u.fresh"`; a declared name is refused at once: `"s.t.ns"` -/
example : injectTwiceAt_st (Phil.C10.fetchExtractT master3_st source3_st) [] "fresh" = some (true, some (S "fresh")) ∧
    injectTwiceAt_st (Phil.C10.fetchExtractT master3_st source3_st) ["s"] "fresh" = some (true, some (S "s.fresh")) ∧
    injectTwiceAt_st (Phil.C10.fetchExtractT master3_st source3_st) ["s", "t", "u"] "fresh"
      = some (true, some (S "s.t.u.fresh")) ∧
    injectTwiceAt_st (Phil.C10.fetchExtractT master3_st source3_st) ["s", "t"] "ns"
      = some (false, some (S "s.t.ns")) := by
  decide +kernel

/-- **a multiple scope with three instances**, each holding a sub-scope — Python:
    `['', 's', 's.t', 's', 's.t', 's', 's.t']`: every element reports `s`, every sub-scope `s.t` -/
example : nodePathsAre_st masterM_st sourceM_st ["", "s", "s.t", "s", "s.t", "s", "s.t"] = true := by
  decide +kernel

/-- one instance; no instance in the file: the list is empty and only the root reports
    (Python: `['', 's', 's.t']` and `['']`, `len(ex.s) == 0`) -/
example : nodePathsAre_st masterM_st "s {\n b = 2\n}\n" ["", "s", "s.t"] = true ∧
    nodePathsAre_st masterM_st "" [""] = true := by
  decide +kernel

/-- the extracted value of the three-instance example lies in the class of `node_paths_value`, which
    computes the same list -/
example : (match Phil.C10.fetchExtractT masterM_st sourceM_st with
    | .ok (.record fs) => namedFieldsB_st fs && decide (fieldsDepth_st fs < 50) &&
        ([] :: fieldsPaths_st fs []) == ["", "s", "s.t", "s", "s.t", "s", "s.t"].map String.toList
    | _ => false) = true := by
  decide +kernel

/-- **disabled scopes** (`master.extract()` directly): `!s { … }` and `t.!u { … }` extract as `None`,
    so the nodes are `''` and `t` — Python: `['', 't']`; `s` and `u` remain declared names
    (Python: fields `['a','s','t']` and `['c','u']`; `setattr(root, 's', 5)` accepted) -/
example : (match extractObj Phil.C10.envT 50 (.scope { name := [] } (Phil.C10.objsT masterD_st)) with
    | .ok v => nodePaths 50 [some []] v == ["", "t"].map String.toList &&
        scopePaths (Phil.C10.objsT masterD_st) [] == ["", "t"].map String.toList &&
        fieldNamesAt_st (.ok v) [] == some [S "a", S "s", S "t"] &&
        fieldNamesAt_st (.ok v) ["t"] == some [S "c", S "u"] &&
        setAttrAt_st (.ok v) [] "s" == some none &&
        setAttrAt_st (.ok v) ["t"] "qq" == some (some (S "t.qq")) &&
        (nodeAt v [S "s"]).isNone
    | .error _ => false) = true := by
  decide +kernel

/-- … and this tree satisfies the hypotheses of `node_paths_of_extract_root` -/
example : (dkidsB_xt (Phil.C10.objsT masterD_st) && scopeNamedKidsB_st (Phil.C10.objsT masterD_st) &&
    decide (((Phil.C10.objsT masterD_st).map Obj.name).Pairwise (· ≠ ·)) &&
    depthL (Phil.C10.objsT masterD_st) == 2) = true := by
  decide +kernel

/-- non-vacuity of `node_paths_multi_flat`: a list of two elements under the node `p` -/
example : nodePaths 5 (chainOf [S "p"]) (.record [(S "n", .multi .none [.record [(S "x", .none)], .record []])])
    = [S "p", S "p.n", S "p.n"] := by
  decide +kernel

/-- **whatever their number**: `k` elements under the attribute `n` of the node `p` — `k` times `p.n` -/
example (k : Nat) :
    nodePaths (k + 3) (chainOf [S "p"]) (.record [(S "n", .multi .none (List.replicate k (.record [(S "x", .none)])))])
      = S "p" :: List.replicate k (S "p.n") := by
  have hdepth : ∀ k, elemsDepth_st (List.replicate k (.record [(S "x", .none)])) ≤ 1 := by
    intro k
    induction k with
    | zero => rw [List.replicate_zero, elemsDepth_st]; omega
    | succ k ih =>
      rw [List.replicate_succ, elemsDepth_st]
      exact Nat.max_le.mpr ⟨by decide, ih⟩
  have hnamed : ∀ k, NamedElems_st (List.replicate k (.record [(S "x", .none)])) := by
    intro k
    induction k with
    | zero => rw [List.replicate_zero, NamedElems_st]; trivial
    | succ k ih =>
      rw [List.replicate_succ, NamedElems_st]
      exact ⟨namedValB_sound_st _ (by decide), ih⟩
  have hleaf : ∀ x ∈ List.replicate k (PVal.record [(S "x", .none)]), LeafRecord_st x := by
    intro x hx
    rw [List.eq_of_mem_replicate hx]
    exact ⟨_, rfl, by funext q; simp [fieldsPaths_st]⟩
  have h := node_paths_multi_flat [S "p"] (by decide) (S "n") (by decide) .none _ (hnamed k) hleaf (k + 3)
    (by have := hdepth k; omega)
  rw [List.length_replicate] at h
  exact h

/-- **`fetchRoot_extract_guard` applied to the parsed master and parameter file**, at the master scope
    `s.t` (children `ns`, `u`): whatever `fetchRoot` and `extractObj` return, if both succeed the
    object has a node `s.t` with exactly these two names, `s.t.ns = …` is accepted and `s.t.qq = …`
    raises AttributeError `s.t.qq` -/
example (ro : Obj) (used : List Nat) (v : PVal)
    (h : fetchRoot Phil.C10.envT false (Phil.C10.objsT master3_st) [Phil.C10.objsT source3_st] = .ok (ro, used))
    (hv : extractObj Phil.C10.envT 50 ro = .ok v) :
    ∃ fields, nodeAt v [S "s", S "t"] = some fields ∧ fields.map (fun q => q.1) = [S "ns", S "u"] ∧
      setAttr (chainOf [S "t", S "s"]) fields (S "ns") .none = .ok (fieldSet fields (S "ns") .none) ∧
      setAttr (chainOf [S "t", S "s"]) fields (S "qq") .none = .attributeError (S "s.t.qq") := by
  have hfl : ([Phil.C10.objsT source3_st] : List (List Obj)).flatten = Phil.C10.objsT source3_st := by simp
  have hmk : (match masterAt_st (Phil.C10.objsT master3_st) [S "s", S "t"] with
      | some mk => mk.map Obj.name == [S "ns", S "u"] && mk.all (fun o => decide (¬ o.meta.tmpl < 0))
      | none => false) = true := by decide +kernel
  cases hm : masterAt_st (Phil.C10.objsT master3_st) [S "s", S "t"] with
  | none => rw [hm] at hmk; cases hmk
  | some mk =>
    rw [hm] at hmk
    simp only [Bool.and_eq_true, beq_iff_eq, List.all_eq_true, decide_eq_true_eq] at hmk
    obtain ⟨fields, h1, h2, h3, h4, _⟩ := fetchRoot_extract_guard Phil.C10.envT (Phil.C10.objsT master3_st)
      [Phil.C10.objsT source3_st] (treeMasterB_sound _ (by decide +kernel)) (by decide +kernel)
      (by rw [hfl]; exact (srcCheck_sound _ (by decide +kernel)).tree) 50 (by decide +kernel) ro used v h hv
      [S "s", S "t"] mk hm hmk.2
    rw [hmk.1] at h2 h3 h4
    refine ⟨fields, h1, h2, h3 (S "ns") .none (by decide), ?_⟩
    have := h4 (S "qq") .none (by decide) (by decide)
    exact this

end Phil.C18
