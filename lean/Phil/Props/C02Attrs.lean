/-
  C02 (closed form, attribute assignments inside the layout grammar) — "the tree does not depend on the
  layout" and "a `!` prefix disables exactly the one construct it precedes" for documents whose
  definitions carry attribute assignments `.name = words`.

  Setting (Phil/Proofs/LayoutAttrs.lean): a flat document is a list of *items*, each either a definition
  `[!]name = w1 … wk` or an attribute assignment `[!].attr = w1 … wk` (`AItem`), each with its own
  `DefLayout` — filler lines (blank / comment lines) and indentation in front, blanks around `=` and
  between the words, and one of the four terminators (newline, `;`, trailing comment, end of text).
  Grouped by definition: `ADef` (a definition with its list of `AttrIt`), `flattenA`.

    * `renderA xs post`       — the text;
    * `wfDocA xs post`        — the decidable input class: good names / words (as in C02Layout), attribute
                                names from `definition.attribute_names`, values the converter of that
                                attribute accepts (`attrValOf`; not required under `!`), the first item
                                a definition;
    * `parsedA 1 1 none xs`   — the tree, by recursion over the items; `groupedObjs 1 1 ds` — grouped;
    * `treeC none contents`   — the tree without ids and lines, a function of the *contents* only.

  Validation of the closed form against the Python library before proving: 872 random documents
  (random layouts rendered by `renderA`, parsed by freephil, compared with `groupedObjs`; method and counts
  in REPORT.md), all agree.  Every sharp edge below was replayed on the Python
  library (`freephil.parse(input_string=…)`): model and library agree on each.

  Property theorems only; lemmas are in Phil/Proofs/LayoutAttrs.lean.
-/
import Phil.Proofs.LayoutAttrs
import Phil.Proofs.LayoutAttrsScope
import Phil.Props.C02Bang
set_option linter.unusedSimpArgs false
namespace Phil.C02
open Phil

attribute [local instance] Phil.C01.objDecEqInst Phil.C01.exceptDecEqRT

/-! ### (1) closed form and layout independence -/

/-- **Closed form, item by item.**  Every well-formed layout of a flat document with attribute
    assignments parses to `parsedA 1 1 none xs`: a definition item starts a new definition (next id,
    line of its name, words on their lines, `disabled` iff `!`), an attribute item appends
    `(name, value)` to the attributes of the definition in front of it — unless it carries `!` — and
    consumes no id. -/
theorem attrs_items_closed_form (xs : List AItem) (post : Pre) (h : wfDocA xs post = true) :
    parseObjs (renderA xs post) = .ok (parsedA 1 1 none xs) :=
  parseObjs_renderA_la xs post h

/-- **Closed form, grouped.**  One object per definition, with ids `1..n`; its attributes are the
    assignments that follow it and are not commented out, in order (`attrsOf`). -/
theorem attrs_closed_form (ds : List ADef) (post : Pre) (h : wfDocG ds post = true) :
    parseObjs (renderA (flattenA ds) post) = .ok (groupedObjs 1 1 ds) :=
  parseObjs_renderG_la ds post h

/-- **C02, layout independence with attributes.**  Two well-formed layouts of the same contents
    (same definitions, same attribute assignments with the same words and the same `!`s, in the same
    order — `AItem.content` forgets the layout and the source lines) parse to the same tree up to ids
    and source lines; that tree is `treeC none contents`.  In particular every attribute has the same
    VALUE whatever filler lines, blanks and terminators surround the assignment. -/
theorem attrs_layout_independent (xs ys : List AItem) (post post' : Pre)
    (hx : wfDocA xs post = true) (hy : wfDocA ys post' = true)
    (hc : xs.map AItem.content = ys.map AItem.content) :
    ∃ t1 t2, parseObjs (renderA xs post) = .ok t1 ∧ parseObjs (renderA ys post') = .ok t2 ∧
      eraseList t1 = eraseList t2 ∧ eraseList t1 = treeC none (xs.map AItem.content) := by
  refine ⟨_, _, parseObjs_renderA_la xs post hx, parseObjs_renderA_la ys post' hy, ?_, ?_⟩
  · rw [parsedA_erase_la, parsedA_erase_la, hc]
  · rw [parsedA_erase_la]; rfl

/-- **Every object, by index.**  The `k`-th object is the `k`-th definition: its name, id `k + 1`,
    `is_disabled` iff it carries `!`, the words (value and quote style), and exactly the attribute
    assignments `attrsOf a.attrs`. -/
theorem attrs_pointwise (ds : List ADef) (post : Pre) (h : wfDocG ds post = true) :
    ∃ objs, parseObjs (renderA (flattenA ds) post) = .ok objs ∧ objs.length = ds.length ∧
      ∀ (k : Nat) (a : ADef), ds[k]? = some a →
        ∃ m ws, objs[k]? = some (.defn m ws) ∧ m.name = a.d.1 ∧ m.id = some (1 + k) ∧
          m.disabled = a.b ∧ m.attrs = attrsOf a.attrs ∧ m.mergeNames = false ∧
          ws.map Word.erase = a.d.2.map Word.erase := by
  refine ⟨linedG [] 1 ds, parseObjs_renderG_lined_la ds post h, linedG_length_la ds [] 1, ?_⟩
  intro k a hk
  obtain ⟨_, hwd, _⟩ := wfDocG_get_la post ds k a h hk
  refine ⟨_, _, linedG_get_la ds [] 1 k a hk, rfl, rfl, rfl, rfl, rfl, ?_⟩
  have hg : gapsOK true a.L.gaps a.d.2 = true := by
    simp only [wfDef, Bool.and_eq_true] at hwd; exact hwd.1.2
  rw [← reline_eq_linedWords a.d.2 a.L.gaps true _ hg, reline_erase]

/-! ### an attribute given twice: the last assignment wins -/

/-- `getattr(obj, n)` after the assignments `ts` is the value of the LAST assignment to `n` that is not
    commented out … -/
theorem attr_last_wins (ts1 ts2 : List AttrIt) (t : AttrIt) (ht : t.b = false)
    (hlast : ∀ u ∈ ts2, u.b = false → u.n ≠ t.n) :
    Attrs.get (attrsOf (ts1 ++ t :: ts2)) t.n = (attrValOf t.n t.ws).getD .none := by
  have e : attrsOf (ts1 ++ t :: ts2)
      = (attrsOf ts1 ++ [(t.n, (attrValOf t.n t.ws).getD .none)]) ++ attrsOf ts2 := by
    rw [attrsOf_append_la]
    simp [attrsOf, ht]
  rw [e, attrs_get_append_la _ _ _ (by
    intro p hp
    obtain ⟨u, hu, hub, hun⟩ := mem_attrsOf_la ts2 p hp
    rw [hun]; exact hlast u hu hub), attrs_get_append_one_la]
  simp

/-- … and `None` if there is no such assignment. -/
theorem attr_unset (ts : List AttrIt) (n : String) (h : ∀ u ∈ ts, u.b = false → u.n ≠ n) :
    Attrs.get (attrsOf ts) n = .none := by
  have := attrs_get_append_la [] (attrsOf ts) n (by
    intro p hp
    obtain ⟨u, hu, hub, hun⟩ := mem_attrsOf_la ts p hp
    rw [hun]; exact h u hu hub)
  simpa [Attrs.get] using this

/-! ### (2) `!` on an attribute disables exactly that assignment -/

/-- what `!` on one assignment does to the attribute list: that assignment is missing, the others
    are where they were -/
theorem attrsOf_bang_item (ts1 ts2 : List AttrIt) (t : AttrIt) :
    attrsOf (ts1 ++ { t with b := true } :: ts2) = attrsOf ts1 ++ attrsOf ts2 ∧
    attrsOf (ts1 ++ { t with b := false } :: ts2)
      = attrsOf ts1 ++ (t.n, (attrValOf t.n t.ws).getD .none) :: attrsOf ts2 := by
  constructor <;> rw [attrsOf_append_la] <;> simp [attrsOf]

/-- **C02, `!` on an attribute: the tree is the tree of the document with that one item removed.**
    Take a well-formed document containing a commented-out assignment `!.n = ws` (anywhere, with any
    layout) and a well-formed layout of the items in front of it and behind it without it.  Both
    parse, and the two trees are equal up to ids and source lines.  (The lines differ only because
    the second text is shorter; ids are equal anyway: attribute items consume none.) -/
theorem bang_attribute_is_removal (xs1 xs2 : List AItem) (n : String) (ws : List Word) (L : DefLayout)
    (post post' : Pre)
    (h1 : wfDocA (xs1 ++ .attr n ws L true :: xs2) post = true)
    (h2 : wfDocA (xs1 ++ xs2) post' = true) :
    ∃ t1 t2, parseObjs (renderA (xs1 ++ .attr n ws L true :: xs2) post) = .ok t1 ∧
      parseObjs (renderA (xs1 ++ xs2) post') = .ok t2 ∧ eraseList t1 = eraseList t2 ∧
      t1.map (fun o => o.meta.id) = t2.map (fun o => o.meta.id) := by
  refine ⟨_, _, parseObjs_renderA_la _ post h1, parseObjs_renderA_la _ post' h2, ?_, ?_⟩
  · rw [parsedA_erase_la, parsedA_erase_la]
    simp only [List.map_append, List.map_cons, AItem.content]
    exact treeC_drop_bang_attr_la n _ _ _ _
  · -- ids: a general fact about `parsedA`
    have key : ∀ (ys : List AItem) (l l' i : Nat) (p p' : Option Obj),
        p.map (fun o => o.meta.id) = p'.map (fun o => o.meta.id) →
        (parsedA l i p (ys)).map (fun o => o.meta.id)
          = (parsedA l' i p' ys).map (fun o => o.meta.id) := by
      intro ys
      induction ys with
      | nil => intro l l' i p p' hp; cases p <;> cases p' <;> simp_all [parsedA]
      | cons y ys ih =>
        intro l l' i p p' hp
        cases y with
        | defn d L0 b =>
          simp only [parsedA, List.map_append]
          have e1 : p.toList.map (fun o => o.meta.id) = p'.toList.map (fun o => o.meta.id) := by
            cases p <;> cases p' <;> simp_all
          rw [e1]
          congr 1
          exact ih _ _ (i + 1) _ _ rfl
        | attr n0 ws0 L0 b0 =>
          simp only [parsedA]
          apply ih
          cases b0 with
          | true => exact hp
          | false =>
            cases p <;> cases p' <;> simp_all [applyAttr]
            rename_i o o'
            cases o <;> cases o' <;> simp_all [Obj.addAttr, Obj.withMeta, Obj.meta]
    have key2 : ∀ (ys : List AItem) (l l' i : Nat) (p p' : Option Obj),
        p.map (fun o => o.meta.id) = p'.map (fun o => o.meta.id) →
        (parsedA l i p (ys ++ .attr n ws L true :: xs2)).map (fun o => o.meta.id)
          = (parsedA l' i p' (ys ++ xs2)).map (fun o => o.meta.id) := by
      intro ys
      induction ys with
      | nil =>
        intro l l' i p p' hp
        simp only [List.nil_append, parsedA, applyAttr, ↓reduceIte]
        exact key xs2 _ _ i p p' hp
      | cons y ys ih =>
        intro l l' i p p' hp
        cases y with
        | defn d L0 b =>
          simp only [List.cons_append, parsedA, List.map_append]
          have e1 : p.toList.map (fun o => o.meta.id) = p'.toList.map (fun o => o.meta.id) := by
            cases p <;> cases p' <;> simp_all
          rw [e1]
          congr 1
          exact ih _ _ (i + 1) _ _ rfl
        | attr n0 ws0 L0 b0 =>
          simp only [List.cons_append, parsedA]
          apply ih
          cases b0 with
          | true => exact hp
          | false =>
            cases p <;> cases p' <;> simp_all [applyAttr]
            rename_i o o'
            cases o <;> cases o' <;> simp_all [Obj.addAttr, Obj.withMeta, Obj.meta]
    exact key2 xs1 1 1 1 none none rfl

/-- **C02, `!` on attributes: nothing else changes.**  Two well-formed documents that differ only in
    which attribute assignments carry `!` (same definitions, same assignments, same layouts:
    `ADef.unbangAttrs` clears the `!` of every assignment) parse to object lists that agree in
    everything except the attribute lists — names, ids, `is_disabled`, source lines of the
    definitions and of every word, words, order (`Obj.noAttrs` clears the attribute list) — and the
    attribute lists are `attrsOf` of the respective assignments (`attrs_pointwise`,
    `attrsOf_bang_item`). -/
theorem bang_attribute_nothing_else (ds ds' : List ADef) (post : Pre)
    (hsame : ds.map ADef.unbangAttrs = ds'.map ADef.unbangAttrs)
    (h : wfDocG ds post = true) (h' : wfDocG ds' post = true) :
    ∃ o1 o2, parseObjs (renderA (flattenA ds) post) = .ok o1 ∧
      parseObjs (renderA (flattenA ds') post) = .ok o2 ∧
      o1.map Obj.noAttrs = o2.map Obj.noAttrs := by
  refine ⟨_, _, parseObjs_renderG_la ds post h, parseObjs_renderG_la ds' post h', ?_⟩
  rw [groupedObjs_noAttrs_la ds, groupedObjs_noAttrs_la ds', hsame]

/-! ### (3) `!` on a definition keeps its attributes attached -/

/-- **C02, `!` on a definition with attributes.**  Glue `!` in front of the names of an arbitrary
    subset of the definitions.  Both texts parse, and the tree of the text with the `!`s is *exactly*
    the tree `objs` of the text without them with `is_disabled` set on those definitions
    (`setFlags_l2` touches nothing else): the attribute assignments that follow a disabled
    definition still attach to it, ids and source lines are unchanged, and no object of `objs` is
    disabled. -/
theorem bang_definition_keeps_attributes (ds : List ADef) (post : Pre) (h : wfDocG ds post = true) :
    ∃ objs, parseObjs (renderA (flattenA (ds.map ADef.unbang)) post) = .ok objs ∧
      parseObjs (renderA (flattenA ds) post) = .ok (setFlags_l2 (ds.map (·.b)) objs) ∧
      objs.length = ds.length ∧ (∀ o ∈ objs, o.meta.disabled = false) ∧
      ∀ (k : Nat) (a : ADef), ds[k]? = some a →
        ∃ o, objs[k]? = some o ∧ o.meta.attrs = attrsOf a.attrs := by
  have hu : wfDocG (ds.map ADef.unbang) post = true := by rw [wfDocG_unbang_la]; exact h
  refine ⟨groupedObjs 1 1 (ds.map ADef.unbang), parseObjs_renderG_la _ post hu, ?_, ?_, ?_, ?_⟩
  · rw [parseObjs_renderG_la ds post h, groupedObjs_flags_la]
  · rw [groupedObjs_length_la]; simp
  · have : ∀ (xs : List ADef) l i, ∀ o ∈ groupedObjs l i (xs.map ADef.unbang), o.meta.disabled = false := by
      intro xs
      induction xs with
      | nil => intro l i o ho; simp [groupedObjs] at ho
      | cons x rest ih =>
        intro l i o ho
        simp only [List.map_cons, groupedObjs, List.mem_cons] at ho
        rcases ho with rfl | ho
        · rfl
        · exact ih _ _ o ho
    exact this ds 1 1
  · intro k a hk
    have hk' : (ds.map ADef.unbang)[k]? = some a.unbang := by simp [hk]
    have := linedG_get_la (ds.map ADef.unbang) [] 1 k a.unbang hk'
    rw [← groupedObjs_eq_lined_la post _ [] 1 hu] at this
    exact ⟨_, this, rfl⟩

/-! ### non-vacuity: a document with every kind of attribute value and every terminator -/

/-- ```
    # header
    a = 1 # trailing comment
      .help = "two words" more
    !.caption = dropped ; .type = ints(size=2)

    # stand-alone comment
    \t.optional\t=\tYes
    !b = x 'l1
    l2'
    .expert_level = 2 ; .help = first
      .help = last
    ``` -/
def exAttrs : List ADef :=
  [ { d := ("a".toList, [{ value := "1".toList }]),
      L := { pre := { lines := [⟨[], some " header".toList⟩] }, gaps := [[' ']],
             term := .comment [' '] " trailing comment".toList },
      attrs :=
        [ { n := "help", ws := [{ value := "two words".toList, quote := some .d1 }, { value := "more".toList }],
            L := { pre := { ind := "  ".toList }, gaps := [[' '], [' ']] } },
          { n := "caption", ws := [{ value := "dropped".toList }], b := true,
            L := { gaps := [[' ']], term := .semi [' '] } },
          { n := "type", ws := [{ value := "ints(size=2)".toList }],
            L := { pre := { ind := [' '] }, gaps := [[' ']] } },
          { n := "optional", ws := [{ value := "Yes".toList }],
            L := { pre := { lines := [⟨[], none⟩, ⟨[], some " stand-alone comment".toList⟩], ind := ['\t'] },
                   sp1 := ['\t'], gaps := [['\t']] } } ] },
    { d := ("b".toList, [{ value := "x".toList }, { value := "l1\nl2".toList, quote := some .s1 }]),
      L := { gaps := [[' '], [' ']] }, b := true,
      attrs :=
        [ { n := "expert_level", ws := [{ value := "2".toList }], L := { gaps := [[' ']], term := .semi [' '] } },
          { n := "help", ws := [{ value := "first".toList }], L := { pre := { ind := [' '] }, gaps := [[' ']] } },
          { n := "help", ws := [{ value := "last".toList }],
            L := { pre := { ind := "  ".toList }, gaps := [[' ']], term := .eof } } ] } ]

example : renderA (flattenA exAttrs) {} =
    ("# header\na = 1 # trailing comment\n  .help = \"two words\" more\n" ++
     "!.caption = dropped ; .type = ints(size=2)\n\n# stand-alone comment\n\t.optional\t=\tYes\n" ++
     "!b = x 'l1\nl2'\n.expert_level = 2 ; .help = first\n  .help = last").toList := by decide +kernel

theorem exAttrs_wf : wfDocG exAttrs {} = true := by decide +kernel

/-- through the theorem: the parsed tree of that text (`.caption` dropped, `.type` converted, the
    second `.help` of `b` wins, `b` disabled with its attributes attached) -/
example : ∃ objs, parseObjs (renderA (flattenA exAttrs) {}) = .ok objs ∧
    objs.map (fun o => (o.name, o.meta.id, o.meta.disabled, o.meta.line)) =
      [("a".toList, some 1, false, some 2), ("b".toList, some 2, true, some 8)] ∧
    objs.map (fun o => o.meta.attrs) =
      [ [("help", .str "two words more".toList), ("type", .conv (.ints { sizeMin := some 2, sizeMax := some 2 })),
         ("optional", .bool true)],
        [("expert_level", .int 2), ("help", .str "first".toList), ("help", .str "last".toList)] ] ∧
    (objs.map (fun o => o.attr "help")) = [.str "two words more".toList, .str "last".toList] := by
  refine ⟨_, attrs_closed_form exAttrs {} exAttrs_wf, ?_, ?_, ?_⟩ <;> decide +kernel

/-! ### sharp edges (model = Python on every line; the hypotheses of the theorems are needed) -/

/-- an unknown attribute name is refused at the line of the attribute
    (Python: `Unexpected definition attribute: .foo (input line 2)`) — `defAttrNames.contains n` -/
theorem unknown_attribute_name :
    parseObjs "a = 1\n.foo = x\nb = 2".toList
      = .error (.runtime "unexpected_definition_attribute" (some 2)) := by decide +kernel

/-- attribute names are case sensitive and not dotted (`.Help`, `.help.x`: same error, line 2) -/
example : parseObjs "a = 1\n.Help = x\n".toList = .error (.runtime "unexpected_definition_attribute" (some 2)) ∧
    parseObjs "a = 1\n.help.x = x\n".toList = .error (.runtime "unexpected_definition_attribute" (some 2)) := by
  decide +kernel

/-- an attribute before any definition is refused (`startsDefn`)
    (Python: `Unexpected definition attribute: .help (input line 1)`) -/
theorem attribute_before_any_definition :
    parseObjs ".help = x\na = 1".toList
      = .error (.runtime "unexpected_definition_attribute" (some 1)) ∧
    wfItems [.attr "help" [{ value := ['x'] }] { gaps := [[' ']] } false,
             .defn (['a'], [{ value := ['1'] }]) { gaps := [[' ']], term := .eof } false] {} = true ∧
    renderA [.attr "help" [{ value := ['x'] }] { gaps := [[' ']] } false,
             .defn (['a'], [{ value := ['1'] }]) { gaps := [[' ']], term := .eof } false] {}
      = ".help = x\na = 1".toList := by decide +kernel

/-- after a scope no definition is active: the attribute is refused (line 3) -/
example : parseObjs "s {\n}\n.help = x".toList
    = .error (.runtime "unexpected_definition_attribute" (some 3)) := by decide +kernel

/-- a value the converter refuses is an error at the line of the value — `(attrValOf n ws).isSome`
    (Python: `One True or False value expected, .multiple="maybe" found (input line 2)`) … -/
theorem multiple_maybe :
    parseObjs "a = 1\n.multiple = maybe\n".toList = .error (.runtime "bool_expected" (some 2)) := by
  decide +kernel

/-- … but under `!` the value is never converted: `!.multiple = maybe` is read and dropped -/
theorem bang_multiple_maybe :
    parseObjs "a = 1\n!.multiple = maybe\nb = 2".toList = .ok
      [.defn { name := ['a'], id := some 1, line := some 1 } [{ value := ['1'], line := some 1 }],
       .defn { name := ['b'], id := some 2, line := some 3 } [{ value := ['2'], line := some 3 }]] := by
  decide +kernel

/-- `.type` errors cite the line of the attribute value
    (Python: `Unexpected definition type: "foo" (input line 2)`,
     `Error constructing definition type "int(value_min=3, value_max=1)": AssertionError:  (input line 2)`) -/
example : parseObjs "a = 1\n.type = foo\n".toList = .error (.runtime "type_unexpected" (some 2)) ∧
    parseObjs "a = 1\n.type = int(value_min=3, value_max=1)\n".toList
      = .error (.runtime "type_construct" (some 2)) := by decide +kernel

/-- two bool words / `true` as an int: refused with the line (`bool_expected`, `numeric_expected`) -/
example : parseObjs "a = 1\n.optional = yes no\n".toList = .error (.runtime "bool_expected" (some 2)) ∧
    parseObjs "a = 1\n.expert_level = true\n".toList = .error (.runtime "numeric_expected" (some 2)) := by
  decide +kernel

/-- an empty value (`!ws.isEmpty`): `Missing value for .help (input line 2)` -/
example : parseObjs "a = 1\n.help =\nb = 2".toList = .error (.runtime "missing_value" (some 2)) := by
  decide +kernel

/-- no `=`: `Syntax error: expected "=", found "x" (input line 2)` -/
example : parseObjs "a = 1\n.help x\n".toList = .error (.runtime "expected" (some 2)) := by decide +kernel

/-- `chainOK`: an unquoted word directly after a quoted word with a newline ends the value, so `q` is
    read as a name (`expected "=", found "b" (input line 4)`); quoted, it belongs to the value -/
example : parseObjs "a = 1\n.help = 'l1\nl2' q\nb = 2".toList = .error (.runtime "expected" (some 4)) := by
  decide +kernel

/-- an attribute must start its line (or follow `;`): in the middle of a line `.help = x` are words
    of the value -/
example : parseObjs "a = 1 .help = x\n".toList = .ok
    [.defn { name := ['a'], id := some 1, line := some 1 }
      [{ value := ['1'], line := some 1 }, { value := ".help".toList, line := some 1 },
       { value := ['='], line := some 1 }, { value := ['x'], line := some 1 }]] := by decide +kernel

/-- `!` must be glued to the attribute: `! .help = x` is a scope with an empty name
    (Python: `Syntax error: improper scope name "" (input line 2)`); `!!.help` is not a name -/
example : parseObjs "a = 1\n! .help = x\n".toList = .error (.runtime "improper_scope_name" (some 2)) ∧
    parseObjs "a = 1\n!!.help = x\n".toList = .error (.runtime "improper_definition_name" (some 2)) := by
  decide +kernel

/-- an attribute given twice: the last assignment not commented out wins (Python: `help == "y z"`) -/
theorem attribute_twice_last_wins :
    (parseObjs "a = 1\n.help = x\n.help = y z\n!.help = w\n".toList).map (fun os => os.map (·.attr "help"))
      = .ok [.str "y z".toList] := by decide +kernel

/-- `!` on the definition: disabled, attributes attached; the next definition untouched -/
example : parseObjs "!a = 1\n.help = x\n.optional = yes\nb = 2\n".toList = .ok
    [.defn { name := ['a'], id := some 1, disabled := true, line := some 1,
             attrs := [("help", .str ['x']), ("optional", .bool true)] } [{ value := ['1'], line := some 1 }],
     .defn { name := ['b'], id := some 2, line := some 4 } [{ value := ['2'], line := some 4 }]] := by
  decide +kernel

/-! ### scope headers with attribute assignments (Phil/Proofs/LayoutAttrsScope.lean)

  A document of top-level scopes `HScope`: `[!]name`, header assignments `[!].attr = words` (each an
  `AttrIt` with its own filler lines, blanks and terminator newline / `;` / trailing comment), the gap
  in front of `{`, a body of nested attribute-free items in any layout (`LayItem` of
  Phil/Props/C02Nested.lean), the filler in front of `}`.  `renderH` is the text, `wfDocH` the
  decidable input class, `hObjs 1 1` the parsed tree.  Validated against the Python library on 400
  random documents (method and counts in REPORT.md): all agree. -/

/-- **Closed form for scope headers with attributes.**  Every scope gets the next id, the line of its
    name, `disabled` iff `!`, and exactly the header assignments not commented out, in order
    (`sattrsOf`, values by `scope.assign_attribute`); the body is parsed as without header attributes,
    its first line being the line after the header items plus the filler lines in front of `{`. -/
theorem scope_attrs_closed_form (xs : List HScope) (post : Pre) (h : wfDocH xs post = true) :
    parseObjs (renderH xs post) = .ok (hObjs xs 1 1) :=
  parseObjs_renderH_ls xs post h

/-- **Layout independence for scope headers.**  The tree up to ids and lines is
    `xs.map HScope.tree`: names, `!` flags, header attributes, abstract trees of the bodies; and the
    header attributes depend only on the contents of the assignments (`sattrsOf_contents`).  So two
    well-formed documents with the same `HScope.tree`s parse to the same tree up to ids and lines. -/
theorem scope_attrs_layout_independent (xs ys : List HScope) (post post' : Pre)
    (hx : wfDocH xs post = true) (hy : wfDocH ys post' = true)
    (hc : eraseList (xs.map HScope.tree) = eraseList (ys.map HScope.tree)) :
    ∃ t1 t2, parseObjs (renderH xs post) = .ok t1 ∧ parseObjs (renderH ys post') = .ok t2 ∧
      eraseList t1 = eraseList t2 ∧ eraseList t1 = eraseList (xs.map HScope.tree) := by
  refine ⟨_, _, parseObjs_renderH_ls xs post hx, parseObjs_renderH_ls ys post' hy, ?_, ?_⟩
  · rw [hObjs_erase_ls, hObjs_erase_ls, hc]
  · rw [hObjs_erase_ls]

/-- the header attributes are a function of the contents of the assignments (name, words without
    lines, `!`) — not of filler lines, blanks, terminators -/
theorem sattrsOf_contents (ts ts' : List AttrIt) (h : ts.map AttrIt.content = ts'.map AttrIt.content) :
    sattrsOf ts = sattrsOf ts' := sattrsOf_content_ls ts ts' h

/-- **`!` on a header attribute** removes exactly that assignment from the attribute list … -/
theorem sattrsOf_bang_item (ts1 ts2 : List AttrIt) (t : AttrIt) :
    sattrsOf (ts1 ++ { t with b := true } :: ts2) = sattrsOf ts1 ++ sattrsOf ts2 ∧
    sattrsOf (ts1 ++ { t with b := false } :: ts2)
      = sattrsOf ts1 ++ (t.n, (sattrValOf t.n t.ws).getD .none) :: sattrsOf ts2 := by
  constructor <;> rw [sattrsOf_append_ls] <;> simp [sattrsOf]

/-- … **and nothing else changes**: two well-formed documents that differ only in which header
    assignments carry `!` parse to object lists that agree in everything except the attribute lists
    of the top-level scopes (ids, lines, flags, bodies with all their lines). -/
theorem scope_bang_attribute_nothing_else (xs xs' : List HScope) (post : Pre)
    (hsame : xs.map HScope.unbangAttrs = xs'.map HScope.unbangAttrs)
    (h : wfDocH xs post = true) (h' : wfDocH xs' post = true) :
    ∃ o1 o2, parseObjs (renderH xs post) = .ok o1 ∧ parseObjs (renderH xs' post) = .ok o2 ∧
      o1.map Obj.noAttrs = o2.map Obj.noAttrs := by
  refine ⟨_, _, parseObjs_renderH_ls xs post h, parseObjs_renderH_ls xs' post h', ?_⟩
  rw [hObjs_noAttrs_ls xs, hObjs_noAttrs_ls xs', hsame]

/-- **`!` on a scope header keeps attributes and body attached**: the tree of the text with `!` on
    some scopes is exactly the tree of the text without them with `is_disabled` set on those scopes
    (header attributes, children, ids, lines unchanged; the children are not flagged). -/
theorem bang_scope_keeps_attributes (xs : List HScope) (post : Pre) (h : wfDocH xs post = true) :
    ∃ objs, parseObjs (renderH (xs.map HScope.unbang) post) = .ok objs ∧
      parseObjs (renderH xs post) = .ok (setFlags_l2 (xs.map (·.b)) objs) ∧ objs.length = xs.length := by
  have hu : wfDocH (xs.map HScope.unbang) post = true := by rw [wfDocH_unbang_ls]; exact h
  refine ⟨_, parseObjs_renderH_ls _ post hu, ?_, ?_⟩
  · rw [parseObjs_renderH_ls xs post h, hObjs_flags_ls]
  · rw [hObjs_length_ls]; simp

/-- non-vacuity:
    ```
    !s
      .help = "a b" c # t

    !.caption = no; .optional = Yes
    # c
    { b = 1 }
    t .expert_level = 3
    {
    }
    ``` -/
def exScopes : List HScope :=
  [ { nm := ['s'], b := true,
      ts := [ { n := "help", ws := [{ value := "a b".toList, quote := some .d1 }, { value := ['c'] }],
                L := { pre := { lines := [⟨[], none⟩], ind := "  ".toList }, gaps := [[' '], [' ']],
                       term := .comment [' '] " t".toList } },
              { n := "caption", ws := [{ value := "no".toList }], b := true,
                L := { pre := { lines := [⟨[], none⟩] }, gaps := [[' ']], term := .semi [] } },
              { n := "optional", ws := [{ value := "Yes".toList }], L := { pre := { ind := [' '] }, gaps := [[' ']] } } ],
      gap := { lines := [⟨[], some " c".toList⟩] },
      kids := [.defn [] (['b'], [{ value := ['1'] }]) { pre := { ind := [' '] }, gaps := [[' ']], term := .eof } false],
      close := { ind := [' '] } },
    { nm := ['t'], pre := { lines := [⟨[], none⟩] },
      ts := [ { n := "expert_level", ws := [{ value := ['3'] }], L := { pre := { ind := [' '] }, gaps := [[' ']] } } ],
      gap := {}, kids := [], close := { lines := [⟨[], none⟩] } } ]

example : renderH exScopes {} =
    "!s\n  .help = \"a b\" c # t\n\n!.caption = no; .optional = Yes\n# c\n{ b = 1 }\nt .expert_level = 3\n{\n}".toList := by
  decide +kernel

theorem exScopes_wf : wfDocH exScopes {} = true := by decide +kernel

example : parseObjs (renderH exScopes {}) = .ok
    [.scope { name := ['s'], id := some 1, disabled := true, line := some 1,
              attrs := [("help", .str "a b c".toList), ("optional", .bool true)] }
       [.defn { name := ['b'], id := some 2, line := some 6 } [{ value := ['1'], line := some 6 }]],
     .scope { name := ['t'], id := some 3, line := some 7, attrs := [("expert_level", .int 3)] } []] := by
  rw [scope_attrs_closed_form exScopes {} exScopes_wf]
  decide +kernel

/-- sharp edges of the header (model = Python): unknown / definition-only attribute names
    (`Unexpected scope attribute: .foo (input line 2)`, `.type` is not a scope attribute); a refused
    value (`bool_expected`, line 1) — but not under `!`; nothing between name and `.help`: a dotted
    definition name, then `{` is unexpected (`hdrGapOK_ls`) -/
theorem scope_header_sharp_edges :
    parseObjs "s\n.foo = x\n{\n}".toList = .error (.runtime "unexpected_scope_attribute" (some 2)) ∧
    parseObjs "s .type = int\n{\n}".toList = .error (.runtime "unexpected_scope_attribute" (some 1)) ∧
    parseObjs "s .multiple = maybe\n{\n}".toList = .error (.runtime "bool_expected" (some 1)) ∧
    parseObjs "s\n!.multiple = maybe\n{\n}".toList
      = .ok [.scope { name := ['s'], id := some 1, line := some 1 } []] ∧
    parseObjs "s.help = x\n{\n}".toList = .error (.runtime "unexpected_open_brace" (some 2)) := by
  decide +kernel

#print axioms attrs_items_closed_form
#print axioms attrs_closed_form
#print axioms attrs_layout_independent
#print axioms attrs_pointwise
#print axioms attr_last_wins
#print axioms attr_unset
#print axioms attrsOf_bang_item
#print axioms bang_attribute_is_removal
#print axioms bang_attribute_nothing_else
#print axioms bang_definition_keeps_attributes
#print axioms exAttrs_wf
#print axioms unknown_attribute_name
#print axioms attribute_before_any_definition
#print axioms multiple_maybe
#print axioms bang_multiple_maybe
#print axioms attribute_twice_last_wins
#print axioms scope_attrs_closed_form
#print axioms scope_attrs_layout_independent
#print axioms sattrsOf_contents
#print axioms sattrsOf_bang_item
#print axioms scope_bang_attribute_nothing_else
#print axioms bang_scope_keeps_attributes
#print axioms exScopes_wf
#print axioms scope_header_sharp_edges

end Phil.C02
