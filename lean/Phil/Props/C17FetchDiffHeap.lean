/-
  C17, the `fetch_diff` clause, on the object-identity model: purity of `scope.fetch(diff=True)` / `scope.fetch_diff`
  as theorems about the heap-level model `fetchDiffH` (Phil/HeapFetchDiff.lean), which follows common.py line by line
  for what the call ALLOCATES, WRITES and SHARES (`-1` marker, empty scopes dropped, no templates, the master key of a
  `.multiple` scope through a NON-diff fetch) and is tied to /repo by the identity-graph correspondence
  `heap_fetch_diff_graph` of ./check C17.

  * `fetchDiffH_frame`    — no existing cell is written: the heap only grows; the only other effect are the
                             `tmp = True` marks, and they go to definition cells;
  * `fetchDiffH_sharing`  — the shape of the result (`FreshShape`): NEW cells all the way down — a diff result holds no
                             template copy (contrast `fetchH_sharing`, finding D21);
  * `fetchDiffH_disjoint` — hence NO object of the master or of a source is reachable from a diff result;
  * `fetchDiffH_assign_frame` — any history of field assignments to new objects leaves every old object unchanged:
                             with `fetchDiffH_disjoint`, every object reachable from the result qualifies;
  * `fetchDiffRootH_pure` — the same for `master.fetch_diff(sources=…)` of parsed documents (no hypothesis left).

  Input class: every heap without dangling child / parent reference (`closedB`; every parsed document), every master
  scope `self`, every list of source object ids, every fuel, every state of `tmp` marks, every outcome `ok`.
  Variable-free sources (others are answered `unsupported` by `fetchValueH`).
  NOT proved here: `fetchDiffH_abs` (the result denotes `fetchScope … true`) — see REPORT.md.
-/
import Phil.Proofs.HeapFetchDiffLemmas
import Phil.Props.C17FetchHeap
namespace Phil.C17FetchDiffHeap
open Phil Phil.Heap Phil.C17FetchHeap

/-- **`fetch_diff` writes no existing cell.** -/
theorem fetchDiffH_frame (e : Envs) (fuel self : Nat) (combined : List Nat) (s s' : HS) (r : Nat)
    (hc : closedB s.heap = true) (hself : self < s.heap.length)
    (hf : fetchDiffH e fuel self combined s = .ok (s', r)) :
    (∃ ext, s'.heap = s.heap ++ ext) ∧
    (∀ i, i < s.heap.length → s'.heap[i]? = s.heap[i]?) ∧
    (∃ t, s'.tmp = s.tmp ++ t ∧ ∀ i ∈ t, ∃ m ws p, s'.heap[i]? = some (.defn m ws p)) := by
  have h := (fetchDiffH_spec e s.heap.length fuel self combined s s' r (Nat.le_refl _)
    (closedB_sound hc).below hself hf).1
  exact ⟨h.heap, fun i hi => h.get_lt hi, h.tmp⟩

/-- **The shape of a diff result**: a new object; below it every object is new — a definition, or a scope whose
    children are again such objects.  No template copy. -/
theorem fetchDiffH_sharing (e : Envs) (fuel self : Nat) (combined : List Nat) (s s' : HS) (r : Nat)
    (hc : closedB s.heap = true) (hself : self < s.heap.length)
    (hf : fetchDiffH e fuel self combined s = .ok (s', r)) :
    FreshShape s.heap.length s'.heap r :=
  (fetchDiffH_spec e s.heap.length fuel self combined s s' r (Nat.le_refl _) (closedB_sound hc).below hself hf).2

theorem freshShape_reach_new {n0 : Nat} {h : Heap} {x z : Nat} (hr : KReach h x z) :
    FreshShape n0 h x → n0 ≤ z := by
  induction hr with
  | refl x => intro hs; exact hs.ge
  | @step x k z n hx hk _ ih =>
    intro hs
    cases hs with
    | defn _ hcell => rw [hcell] at hx; cases hx; cases hk
    | scope _ hcell hkids =>
      rw [hcell] at hx; cases hx
      exact ih (hkids k hk)

/-- **A diff result shares NO object with the master or the sources**: whatever is reachable from it through
    `objects` lists is a new object. -/
theorem fetchDiffH_disjoint (e : Envs) (fuel self : Nat) (combined : List Nat) (s s' : HS) (r z : Nat)
    (hc : closedB s.heap = true) (hself : self < s.heap.length)
    (hf : fetchDiffH e fuel self combined s = .ok (s', r))
    (hreach : KReach s'.heap r z) : s.heap.length ≤ z :=
  freshShape_reach_new hreach (fetchDiffH_sharing e fuel self combined s s' r hc hself hf)

/-- the diff result has the weaker shape of a non-diff result as well (so every corollary of `ResShape` applies) -/
theorem fetchDiffH_resShape (e : Envs) (fuel self : Nat) (combined : List Nat) (s s' : HS) (r : Nat)
    (hc : closedB s.heap = true) (hself : self < s.heap.length)
    (hf : fetchDiffH e fuel self combined s = .ok (s', r)) :
    ResShape s.heap.length s'.heap r ∧ ∀ c y, ¬ (TemplateCopyOf s.heap.length s'.heap c y ∧ KReach s'.heap r c ∧
      ∃ k n, s'.heap[c]? = some n ∧ k ∈ n.kids) := by
  refine ⟨(fetchDiffH_sharing e fuel self combined s s' r hc hself hf).toRes, ?_⟩
  rintro c y ⟨⟨_, hy, m, ks, p, t, hcy, hcc, _⟩, hreach, k, n, hn, hk⟩
  -- a template copy with a child would make an old object (the child of an old scope) reachable
  have hcl := (closedB_sound hc).below
  have hfr := (fetchDiffH_frame e fuel self combined s s' r hc hself hf).2.1
  have hold : s.heap[y]? = some (.scope m ks p) := by rw [← hfr y hy]; exact hcy
  rw [hcc] at hn
  cases hn
  have hk0 : k < s.heap.length := hcl y _ hy hold k hk
  have hrk : KReach s'.heap c k := .step hcc hk (.refl k)
  have htrans : ∀ {a b d : Nat}, KReach s'.heap a b → KReach s'.heap b d → KReach s'.heap a d := by
    intro a b d h1 h2
    induction h1 with
    | refl _ => exact h2
    | step hx hk' _ ih => exact .step hx hk' (ih h2)
  have := fetchDiffH_disjoint e fuel self combined s s' r k hc hself hf (htrans hreach hrk)
  omega

/-- **Assigning fields of a diff result never changes the objects it was made from.** -/
theorem fetchDiffH_assign_frame (e : Envs) (fuel self : Nat) (combined : List Nat) (s s' : HS) (r : Nat)
    (hc : closedB s.heap = true) (hself : self < s.heap.length)
    (hf : fetchDiffH e fuel self combined s = .ok (s', r))
    (ops : List (Nat × Assign)) (hops : ∀ op ∈ ops, s.heap.length ≤ op.1) :
    (∀ i, i < s.heap.length → (assignMany s'.heap ops)[i]? = s.heap[i]?) ∧
    (∀ x o, x < s.heap.length → Abs s.heap x o → Abs (assignMany s'.heap ops) x o) := by
  have hfr := (fetchDiffH_frame e fuel self combined s s' r hc hself hf).2.1
  have hag : ∀ i, i < s.heap.length → (assignMany s'.heap ops)[i]? = s.heap[i]? := fun i hi => by
    rw [assignMany_get_below s.heap.length ops s'.heap hops i hi]; exact hfr i hi
  refine ⟨hag, ?_⟩
  intro x o hx ⟨f, hf'⟩
  exact ⟨f, by rw [absF_agree _ s.heap s.heap.length hag (closedB_sound hc).below f x hx]; exact hf'⟩

/-- **`master.fetch_diff(sources=…)` of parsed documents**: frame, marks, shape, disjointness — no hypothesis beyond
    "the call returned". -/
theorem fetchDiffRootH_pure (e : Envs) (master : List Obj) (sources : List (List Obj)) (s' : HS) (r : Nat)
    (hf : (fetchDiffRootH e master sources).2 = .ok (s', r)) :
    let h0 := (fetchDiffRootH e master sources).1
    (∃ ext, s'.heap = h0 ++ ext) ∧
    (∀ i ∈ s'.tmp, ∃ m ws p, s'.heap[i]? = some (.defn m ws p)) ∧
    FreshShape h0.length s'.heap r ∧
    (∀ z, KReach s'.heap r z → h0.length ≤ z) := by
  intro h0
  obtain ⟨hc, hpos⟩ := fetchRootH_start e master sources
  have hc' : closedB h0 = true := hc
  have hpos' : 0 < h0.length := hpos
  have hf' : fetchDiffH e _ 0 _ { heap := h0, tmp := [] } = .ok (s', r) := hf
  obtain ⟨h1, _, ⟨t, ht, hd⟩⟩ := fetchDiffH_frame e _ 0 _ { heap := h0, tmp := [] } s' r hc' hpos' hf'
  refine ⟨h1, ?_, fetchDiffH_sharing e _ 0 _ { heap := h0, tmp := [] } s' r hc' hpos' hf', ?_⟩
  · intro i hi
    simp only [List.nil_append] at ht
    exact hd i (ht ▸ hi)
  · intro z hz
    exact fetchDiffH_disjoint e _ 0 _ { heap := h0, tmp := [] } s' r z hc' hpos' hf' hz

/-! ### witnesses (kernel-checked) -/

/-- master `s .multiple=True { a = 1 } ; b = 2 ; t { c = 3 }`, source `s { a = 5 } ; b = 7 ; t { c = 3 }` -/
def dMaster : String := "s\n  .multiple = True\n{\n  a = 1\n}\nb = 2\nt {\n  c = 3\n}\n"
def dSource : String := "s {\n  a = 5\n}\nb = 7\nt {\n  c = 3\n}\n"

def dRun : Option (Heap × HS × Nat) :=
  match parseObjs dMaster.toList, parseObjs dSource.toList with
  | .ok m, .ok s =>
    (match fetchDiffRootH envNone m [s] with
     | (h0, .ok (s', r)) => some (h0, s', r)
     | _ => none)
  | _, _ => none

/-- the run returns: `fetchDiffRootH_pure` applies; its hypotheses-free form is satisfiable on a non-trivial input -/
example : dRun.isSome = true := by
  decide +kernel

/-- 12 old cells; the three source definitions are marked; the result holds the `s` instance and `b` only: the
    scope `t` (no difference: its diff has no objects) is dropped, no template copy of `s` is made -/
theorem diff_witness_run :
    dRun.map (fun x => (x.1.length, x.2.1.tmp, x.2.2)) = some (12, [8, 9, 11], 26) := by
  decide +kernel

theorem diff_witness_result :
    dRun.map (fun x => (abs x.2.1.heap x.2.2).map (fun o => o.children.map (fun k => (k.name, k.meta.tmpl)))) =
    some (some [("s".toList, 0), ("b".toList, 0)]) := by
  decide +kernel

/-- every child of the witness result is a new cell -/
theorem diff_witness_children_new :
    dRun.map (fun x => (kidsOf x.2.1.heap x.2.2).all (fun k => decide (x.1.length ≤ k))) = some true := by
  decide +kernel

/-- `closedB` costs nothing: on a heap with a dangling child the heap-level diff fetch does not return -/
theorem fetchDiffH_dangling_fails :
    (match fetchDiffH envNone 3 0 [] { heap := [.scope { name := [] } [5] none], tmp := [] } with
     | .ok _ => false
     | .error _ => true) = true := by
  decide +kernel

end Phil.C17FetchDiffHeap

#print axioms Phil.C17FetchDiffHeap.fetchDiffH_frame
#print axioms Phil.C17FetchDiffHeap.fetchDiffH_sharing
#print axioms Phil.C17FetchDiffHeap.freshShape_reach_new
#print axioms Phil.C17FetchDiffHeap.fetchDiffH_disjoint
#print axioms Phil.C17FetchDiffHeap.fetchDiffH_resShape
#print axioms Phil.C17FetchDiffHeap.fetchDiffH_assign_frame
#print axioms Phil.C17FetchDiffHeap.fetchDiffRootH_pure
#print axioms Phil.C17FetchDiffHeap.diff_witness_run
#print axioms Phil.C17FetchDiffHeap.diff_witness_result
#print axioms Phil.C17FetchDiffHeap.diff_witness_children_new
#print axioms Phil.C17FetchDiffHeap.fetchDiffH_dangling_fails
