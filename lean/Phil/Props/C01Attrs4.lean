/-
  C01 / C19 (part) — the attribute round trip with DISABLED DEFINITIONS AND DISABLED PROPER SCOPES.
  Property theorems only; the lemmas are in Phil/Proofs/AttrRoundTrip4.lean.  Continues Phil/Props/C01Attrs3Dis.lean.

  The class: `RTTreeAttrS L w x` — the tree `x` with EVERY disabled flag cleared (`x.enableS`: definitions
  and scopes) is in the attribute round-trip class `RTTreeAttr`, and every scope that is only a dotted
  prefix (it merges its name into its only child: `a` of `a.b = 1` / `a.b { … }`) is enabled
  (`x.prefixEnabled`).  So `!name = …`, `!scope { … }`, `!a.b { … }` (the flag on the LAST component) may
  stand anywhere, with attribute lines after the header.  `kidsTextC`: `kidsTextB` with `!` glued in front of
  the printed (dotted) name of every disabled proper scope.
-/
import Phil.Proofs.AttrRoundTrip4
import Phil.Props.C01Attrs3Dis
set_option linter.unusedSimpArgs false
set_option linter.unusedVariables false
namespace Phil.C01
open Phil

attribute [local instance] objDecEqInst exceptDecEqRT

/-- the attribute round-trip class with disabled definitions and disabled proper scopes -/
def RTTreeAttrS (L w : Int) (x : Obj) : Prop :=
  RTNode [] x.enableS.stripAttrs ∧ x.attrsOKAt L w [] = true ∧ x.prefixEnabled = true

instance (L w : Int) (x : Obj) : Decidable (RTTreeAttrS L w x) := by unfold RTTreeAttrS; exact inferInstance

theorem rtAllAttrS_of_forall {L w : Int} {objs : List Obj} (h : ∀ x ∈ objs, RTTreeAttrS L w x) :
    RTAll (stripAttrsList (enableSList objs)) ∧ attrsOKsAt L w objs [] = true ∧
      prefixEnabledList objs = true := by
  refine ⟨?_, ?_, ?_⟩
  · induction objs with
    | nil => rw [enableSList, stripAttrsList_nil]; unfold RTAll; trivial
    | cons x xs ih =>
      rw [enableSList, stripAttrsList_cons]
      unfold RTAll
      exact ⟨(h x (by simp)).1, ih (fun y hy => h y (by simp [hy]))⟩
  · exact (attrsOKsAt_iff_art L w objs []).mpr (fun x hx => (h x hx).2.1)
  · exact (prefixEnabledList_iff_ar4 objs).mpr (fun x hx => (h x hx).2.2)

/-- the class of C01Attrs3Dis (disabled definitions, enabled scopes) is a sub-class -/
theorem RTTreeAttrD.toS {L w : Int} {x : Obj} (h : RTTreeAttrD L w x) : RTTreeAttrS L w x := by
  obtain ⟨e1, e2⟩ := enableS_of_enableD_ar4 x [] h.1
  exact ⟨by rw [e1]; exact h.1, h.2, e2⟩

/-- **what is printed**: `!` in front of the name of every disabled definition and of every disabled
    proper scope, everything else as for enabled objects -/
theorem print_tree_attrs_disabled_scopes (o : ShowOpts) (he : o.expert = none) (objs : List Obj)
    (h : ∀ x ∈ objs, RTTreeAttrS o.level o.width x) :
    asStr o (rootOf objs) = .ok (kidsTextC o.level o.width objs [] []) := by
  obtain ⟨h1, h2, h3⟩ := rtAllAttrS_of_forall h
  exact asStr_treesC_ar4 o he objs [] (by intro d hd; cases hd) h1 h3 h2

/-- **Print → parse with disabled definitions and disabled scopes** (any attributes level, any width,
    deprecated definitions anywhere): the text parses and the parser returns the forest — names, nesting,
    order, words, quote styles, the DISABLED FLAGS of definitions and scopes (`erase` keeps them), every
    object with exactly the attributes shown at the level — ids as expected. -/
theorem print_parse_tree_attrs_disabled_scopes (o : ShowOpts) (he : o.expert = none) (objs : List Obj)
    (h : ∀ x ∈ objs, RTTreeAttrS o.level o.width x) (hnl : ∀ x ∈ objs, x.allDefns NlOnlyLast) :
    ∃ text objs', asStr o (rootOf objs) = .ok text ∧ text = kidsTextC o.level o.width objs [] [] ∧
      parseObjs text = .ok objs' ∧ eraseList objs' = eraseList (normAList o.level objs) ∧
      idsList objs' = (expIdsSeq 1 objs).map some := by
  obtain ⟨h1, h2, h3⟩ := rtAllAttrS_of_forall h
  obtain ⟨objs', e1, e2, e3⟩ := parseObjs_treesC_ar4 o.level o.width objs [] (by intro d hd; simp at hd)
    h1 h3 ((allDefnsList_iff NlOnlyLast objs).mpr hnl) h2
  exact ⟨_, objs', print_tree_attrs_disabled_scopes o he objs h, rfl, e1, e2, e3⟩

/-- **Print, parse, print again with disabled definitions and scopes: byte-identical text.** -/
theorem second_print_identical_attrs_disabled_scopes (o : ShowOpts) (he : o.expert = none) (objs : List Obj)
    (h : ∀ x ∈ objs, RTTreeAttrS o.level o.width x) (hnl : ∀ x ∈ objs, x.allDefns NlOnlyLast) :
    ∃ text root', asStr o (rootOf objs) = .ok text ∧ parse text = .ok root' ∧
      asStr o root' = .ok text := by
  obtain ⟨text, objs', h1, ht, h2, h3, _⟩ := print_parse_tree_attrs_disabled_scopes o he objs h hnl
  obtain ⟨r1, r2, r3⟩ := rtAllAttrS_of_forall h
  obtain ⟨n1, _, _⟩ := normAList_props_art o.level o.width objs [] r2
  have herase : (rootOf objs').erase = (rootOf (normAList o.level objs)).erase := by
    simp only [rootOf, Obj.erase_scope, h3]
  refine ⟨text, rootOf objs', h1, by rw [parse_eq, h2]; rfl, ?_⟩
  rw [show_congr_positions o _ _ herase,
    asStr_treesC_ar4 o he (normAList o.level objs) [] (by intro d hd; cases hd)
      (by rw [normAList_enableS_ar4]; exact r1) (by rw [normAList_prefixEnabled_ar4]; exact r3) n1,
    normAList_textC_ar4 o.level o.width objs [] r2, ht]

/-- **C19 with disabled definitions and scopes: the tree re-parsed from any attributes level is the same
    once attributes are ignored** (names, nesting, order, disabled flags, words, quote styles) -/
theorem any_level_reparses_to_same_tree_disabled_scopes (o : ShowOpts) (he : o.expert = none) (objs : List Obj)
    (h : ∀ x ∈ objs, RTTreeAttrS o.level o.width x) (hnl : ∀ x ∈ objs, x.allDefns NlOnlyLast) :
    ∃ text objs', asStr o (rootOf objs) = .ok text ∧ parseObjs text = .ok objs' ∧
      eraseAttrsList objs' = eraseAttrsList objs := by
  obtain ⟨text, objs', h1, _, h2, h3, _⟩ := print_parse_tree_attrs_disabled_scopes o he objs h hnl
  exact ⟨text, objs', h1, h2, by
    rw [eraseAttrsList_of_eraseList_ert h3, eraseAttrsList_normAList_art]⟩

/-- **one turn of `collect_objects` on a printed scope header, enabled or disabled** (`name` / `!name`,
    attribute lines, `{`): the scope is opened with `is_disabled` = the bang -/
theorem scope_header_one_turn_any (fuel : Nat) (stop : Option Word) (prevLine : Nat)
    (acc : List Obj) (pending : Option Obj) (pre nm V ind : Str) (l i : Nat) (L w : Int) (attrs : Attrs) (b : Bool)
    (hpre : ∀ d ∈ pre, isSpace d = true) (hn : ItemName nm) (hb : ∀ c ∈ ind, c = ' ')
    (hok : attrsOK false ind L w attrs = true) :
    ∃ l' bl, collectObjects (fuel + 1)
        { ci := ⟨pre ++ ((if b then ['!'] else []) ++ nm) ++ headTail ind L w attrs V, l⟩, nextId := i } stop
        prevLine acc pending
      = scopeCont fuel stop (l + nlCount pre) acc pending
          { name := nm, id := some i, disabled := b, line := some (l + nlCount pre), attrs := shownAttrs false L attrs }
          (collectObjects fuel { ci := ⟨V, l'⟩, nextId := i + 1 }
            (some { value := ['{'], quote := none, line := some bl }) 0 [] none) :=
  collectObjects_open_scope_any_ar4 fuel stop prevLine acc pending pre nm V ind l i L w attrs b hpre hn hb hok

/-! ### non-vacuity (replayed on the Python library, levels 0–3, width 60: second print identical; flags of
    the re-parsed tree: `s`, `q` (of `p.q`), `c`, `r` disabled, `p`, `t`, `d` enabled)

  ```
  !s
    .help = "x y"
  {
    !c = 3
    !p.q {
      d = 6
    }
    t {
      !r
        .help = z
      {
      }
    }
  }
  ``` -/

def exScSrc : Str :=
  ("!s\n  .help = \"x y\"\n{\n  !c = 3\n  !p.q {\n    d = 6\n  }\n  t {\n    !r\n      .help = z\n    {\n    }\n  }\n}\n").toList

def exScForest : List Obj :=
  [ .scope { name := ['s'], disabled := true, attrs := [("help", .str "x y".toList)] }
      [ .defn { name := ['c'], disabled := true } [{ value := ['3'] }],
        .scope { name := ['p'] }
          [.scope { name := ['q'], disabled := true, mergeNames := true }
            [.defn { name := ['d'] } [{ value := ['6'] }]]],
        .scope { name := ['t'] }
          [.scope { name := ['r'], disabled := true, attrs := [("help", .str "z".toList)] } []] ] ]

theorem exSc_facts :
    (parseObjs exScSrc).map eraseList = .ok exScForest ∧
    (∀ x ∈ exScForest, RTTreeAttrS 2 60 x) ∧
    (∀ x ∈ exScForest, x.allDefns NlOnlyLast) ∧
    ¬ (∀ x ∈ exScForest, RTTreeAttrD 2 60 x) ∧
    asStr { level := 2, width := 60 } (rootOf exScForest) = .ok exScSrc ∧
    asStr { level := 0, width := 60 } (rootOf exScForest)
      = .ok "!s {\n  !c = 3\n  !p.q {\n    d = 6\n  }\n  t {\n    !r {\n    }\n  }\n}\n".toList := by
  decide +kernel

/-- the round trip of the example at level 2, through the theorems; the flags come back -/
example : ∃ text objs' root', asStr { level := 2, width := 60 } (rootOf exScForest) = .ok text ∧
    parseObjs text = .ok objs' ∧ eraseList objs' = eraseList (normAList 2 exScForest) ∧
    eraseAttrsList objs' = eraseAttrsList exScForest ∧
    parse text = .ok root' ∧ asStr { level := 2, width := 60 } root' = .ok text := by
  obtain ⟨_, h2, h4, _⟩ := exSc_facts
  obtain ⟨text, objs', h1, _, e2, e3, _⟩ :=
    print_parse_tree_attrs_disabled_scopes { level := 2, width := 60 } rfl exScForest h2 h4
  obtain ⟨text', root', g1, g2, g3⟩ :=
    second_print_identical_attrs_disabled_scopes { level := 2, width := 60 } rfl exScForest h2 h4
  have : text' = text := by rw [h1] at g1; cases g1; rfl
  subst this
  exact ⟨text', objs', root', h1, e2, e3,
    by rw [eraseAttrsList_of_eraseList_ert e3, eraseAttrsList_normAList_art], g2, g3⟩

/-! ### sharp edges -/

/-- **the hypothesis `prefixEnabled` is sharp**: a disabled scope that is only a dotted prefix of a
    (disabled or enabled) proper scope prints without its own `!`; the text re-parses with the prefix scope
    ENABLED (Python, replayed: `scope(a, is_disabled=True)[scope(b, merge_names=True)[x = 1]]` prints
    `a.b {⏎  x = 1⏎}`; re-parsed `a.is_disabled == False`).  Everything else of the class holds for the tree. -/
theorem disabled_prefix_of_scope_is_lost :
    let t : List Obj := [.scope { name := ['a'], disabled := true }
      [.scope { name := ['b'], mergeNames := true } [.defn { name := ['x'] } [{ value := ['1'] }]]]]
    asStr {} (rootOf t) = .ok "a.b {\n  x = 1\n}\n".toList ∧
    (parseObjs "a.b {\n  x = 1\n}\n".toList).map eraseList ≠ .ok (eraseList t) ∧
    (∀ x ∈ t, RTNode [] x.enableS.stripAttrs ∧ x.attrsOKAt 0 79 [] = true) ∧
    ¬ (∀ x ∈ t, RTTreeAttrS 0 79 x) := by
  decide +kernel

#print axioms rtAllAttrS_of_forall
#print axioms RTTreeAttrD.toS
#print axioms print_tree_attrs_disabled_scopes
#print axioms print_parse_tree_attrs_disabled_scopes
#print axioms second_print_identical_attrs_disabled_scopes
#print axioms any_level_reparses_to_same_tree_disabled_scopes
#print axioms scope_header_one_turn_any
#print axioms exSc_facts
#print axioms disabled_prefix_of_scope_is_lost

end Phil.C01
