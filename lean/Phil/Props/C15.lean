/-
  C15 — Reported source lines are right: the line counter of the tokenizer always equals the starting
  line plus the number of newline characters consumed so far, and the line stored in a word is the
  line on which the word's first character stands.
  Property theorems only; lemmas are in Phil/Proofs/Lines.lean.
-/
import Phil.Proofs.Lines
namespace Phil.C15
open Phil

/-- One step of the word iterator (`word_iterator.__next__`), any settings, any input, started
    inside or outside a comment: the input is `pre ++ body ++ rest` where `pre` is what was skipped
    (blanks and comments), `body` (non-empty) the characters of the word and `rest` the text left;
    the word's recorded line is the start line plus the newlines of `pre` — the line on which the
    first character of `body` stands — and the counter afterwards is the start line plus the newlines
    of everything consumed. -/
theorem word_line_correct (s : Settings) (inComment : Bool) (cs : Str) (line : Nat) (w : Word)
    (rest : Str) (line' : Nat)
    (h : nextWordAux s inComment cs line = .ok (some (w, ⟨rest, line'⟩))) :
    ∃ pre body, cs = pre ++ body ++ rest ∧ body ≠ [] ∧ w.line = some (line + nlCount pre) ∧
      line' = line + nlCount (pre ++ body) :=
  nextWordAux_line s inComment cs line w rest line' h

/-- Sharper form of `word_line_correct`: `body = c :: tail` where `c` is not a space character (so it
    is not a newline and stands on line `line + nlCount pre`), and the word is exactly what `wordAt`
    reads at `c` with the counter at that line. -/
theorem word_line_correct_strong (s : Settings) (inComment : Bool) (cs : Str) (line : Nat) (w : Word)
    (rest : Str) (line' : Nat)
    (h : nextWordAux s inComment cs line = .ok (some (w, ⟨rest, line'⟩))) :
    ∃ (pre : Str) (c : Char) (tail : Str),
      cs = pre ++ c :: tail ++ rest ∧ isSpace c = false ∧
      wordAt s c (tail ++ rest) (line + nlCount pre) = .ok (w, ⟨rest, line'⟩) ∧
      w.line = some (line + nlCount pre) ∧
      line' = line + nlCount (pre ++ c :: tail) :=
  nextWordAux_line_strong s cs inComment line w rest line' h

/-- "missing closing quote" raised by the word iterator cites the line reached at the end of the
    input: start line plus every newline of the remaining text. -/
theorem missing_quote_line_correct (s : Settings) (inComment : Bool) (cs : Str) (line l : Nat)
    (h : nextWordAux s inComment cs line = .error (.missingClosingQuote l)) :
    l = line + nlCount cs :=
  nextWordAux_error_line s cs inComment line l h

/-- The quoted-string scanner (quote character `q` other than newline; the tokenizer only uses `"`
    and `'`), single or triple style, with or without a pending backslash: on success it has consumed
    a prefix of its input and advanced the counter by exactly the newlines of that prefix (including
    escaped newlines, which do not enter the value); on failure it cites the line at end of input. -/
theorem quoted_scan_counts_lines (q : Char) (hq : q ≠ '\n') (triple esc : Bool) (cs : Str)
    (line : Nat) (acc : Str) :
    (∀ v rest line', scanQ q triple esc cs line acc = .ok (v, rest, line') →
      ∃ consumed, cs = consumed ++ rest ∧ line' = line + nlCount consumed) ∧
    (∀ l, scanQ q triple esc cs line acc = .error l → l = line + nlCount cs) :=
  ⟨fun v rest line' h => scanQ_line q hq triple cs esc line acc v rest line' h,
   fun l h => scanQ_error_line q hq triple cs esc line acc l h⟩

/-- `character_iterator.scan_for_start` (the primitive that skips a `#phil __OFF__` region): for any
    intro marker and follow-up markers that contain no newline, any fuel and any text, the counter
    after the scan is the start line plus the newlines of the consumed prefix. -/
theorem off_region_counts_lines (intro : Str) (fs : List Str) (hi : nlCount intro = 0)
    (hf : ∀ f, f ∈ fs → nlCount f = 0) (fuel : Nat) (cs : Str) (line i : Nat) (rest : Str)
    (line' : Nat) (h : scanForStart intro fs fuel cs line = (i, ⟨rest, line'⟩)) :
    ∃ consumed, cs = consumed ++ rest ∧ line' = line + nlCount consumed :=
  scanForStart_line intro fs hi hf fuel cs line i rest line' h

/-- `off_region_counts_lines` with the markers the parser passes: no side condition left. -/
theorem off_region_counts_lines_phil (fuel : Nat) (cs : Str) (line i : Nat) (rest : Str)
    (line' : Nat)
    (h : scanForStart "#phil".toList ["__END__".toList, "__ON__".toList] fuel cs line
          = (i, ⟨rest, line'⟩)) :
    ∃ consumed, cs = consumed ++ rest ∧ line' = line + nlCount consumed :=
  scanForStart_phil_line fuel cs line i rest line' h

/-- A concrete instance: two blank lines, a comment line, then a quoted word that spans a line
    break.  The word starts on line 4 and the counter ends on line 5. -/
example : nextWordAux structSettings false "\n\n  # c\n  'a\nb' x".toList 1
    = .ok (some ({ value := "a\nb".toList, quote := some .s1, line := some 4 },
                 ⟨" x".toList, 5⟩)) := by rfl

/-- A concrete instance of the OFF-region scan: the `__ON__` marker (index 1) is found, the four
    newlines before `rest` are consumed, so the counter goes from line 1 to line 5. -/
example : scanForStart "#phil".toList ["__END__".toList, "__ON__".toList] 100
      "zz\n\n#phil  \n __ON__  \nrest".toList 1 = (1, ⟨"rest".toList, 5⟩) := by decide +kernel

end Phil.C15
