/-
  C09 — Python objects written back to PHIL (`type.as_words`) and read again (`type.from_words`) are
  unchanged; formatting refuses values that break the declared bounds, sizes, alternatives or None
  rules.  All statements are for values of any size.  CPython's `int()`/`eval` (`env`) and
  `"%.10g" % x` (`fmt`) are parameters; the only assumption made about them is `EnvDecimal`
  (`int(str(i)) == i`), and only where stated.
  Property theorems only; lemmas are in Phil/Proofs/RoundTrip.lean.  The quoting/tokenizing leg
  (word ↦ text ↦ word) is property C03 (`Phil.C03.tokenize_quote`).
-/
import Phil.Proofs.RoundTrip
namespace Phil.C09
open Phil

/-- used by the concrete examples only (`decide +kernel` on results that hold printed numbers) -/
local instance {ε α : Type} [DecidableEq ε] [DecidableEq α] : DecidableEq (Except ε α) := fun a b =>
  match a, b with
  | .ok x, .ok y => if h : x = y then isTrue (by rw [h]) else isFalse (fun e => h (by cases e; rfl))
  | .error x, .error y => if h : x = y then isTrue (by rw [h]) else isFalse (fun e => h (by cases e; rfl))
  | .ok _, .error _ => isFalse (fun e => by cases e)
  | .error _, .ok _ => isFalse (fun e => by cases e)

/-! ### 1. integers survive exactly, any magnitude -/

/-- `str(i)` is read back as `i`: the digit string of every natural number evaluates to it, and the
    printed form of every integer (sign included) parses to that integer. -/
theorem digits_round_trip :
    (∀ n : Nat, digitsVal (natDigits n) = some n) ∧ (∀ i : Int, parseIntLit (intStr i) = some i) :=
  ⟨digitsVal_natDigits, parseIntLit_intStr⟩

example : parseIntLit (intStr (-123456789012345678901234567890)) = some (-123456789012345678901234567890) :=
  digits_round_trip.2 _

/-! ### 2. bool, None, Auto -/

/-- `True`/`False` are written as the words `True`/`False` and read back as the same bool, whatever
    the evaluator and the `.optional` attribute. -/
theorem bool_round_trip (fmt : FmtEnv) (env : EvalEnv) (opt opt' : AttrVal) (mws ws : List Word) (b : Bool)
    (h : asWords .bool fmt opt mws (.bool b) = .ok ws) :
    fromWords .bool env opt' ws = .ok (.bool b) := by
  rw [asWords_bool] at h
  cases h
  exact fromWords_bool_word env opt' b

example : asWords .bool (fun _ => none) .none [] (.bool true) = .ok [wordOf "True"] := rfl

/-- `None`, every type except `choice`: whenever `as_words` accepts `None` (it refuses for
    `int`/`float` with `allow_none=False`), the word is `None` and it is read back as `None`. -/
theorem none_round_trip (c : Conv) (hc : ∀ m, c ≠ .choice m) (fmt : FmtEnv) (env : EvalEnv)
    (opt opt' : AttrVal) (mws ws : List Word) (h : asWords c fmt opt mws .none = .ok ws) :
    ws = [wordOf "None"] ∧ fromWords c env opt' ws = .ok .none := by
  obtain ⟨rfl, hn⟩ := asWords_none_cases c hc fmt opt mws ws h
  exact ⟨rfl, fromWords_none_word c hc hn env opt'⟩

example : asWords (.ints {}) (fun _ => none) .none [] .none = .ok [wordOf "None"] := rfl

/-- `None` for a single `choice` means "no alternative starred": `as_words` writes the master's
    alternatives with their stars removed (and refuses when the choice is mandatory); reading that
    back gives `None` provided no alternative of the master carries two stars and the result is not
    the single bare word `auto` (see the two witnesses below). -/
theorem choice_none_round_trip (fmt : FmtEnv) (env : EvalEnv) (opt : AttrVal) (mws ws : List Word)
    (hds : NoDoubleStar mws) (h : asWords (.choice false) fmt opt mws .none = .ok ws)
    (hpa : isPlainAuto ws = false) :
    ws = mws.map unstar ∧ fromWords (.choice false) env opt ws = .ok .none :=
  Phil.choice_none_round_trip fmt env opt mws ws hds h hpa

example : asWords (.choice false) (fun _ => none) .none [wordOf "*a", wordOf "b"] .none
    = .ok [wordOf "a", wordOf "b"] := rfl

/-- a multi `choice` has no `None` (AssertionError); its "nothing selected" is the empty list, which
    round-trips under the same two conditions. -/
theorem multi_choice_none_refused (fmt : FmtEnv) (opt : AttrVal) (mws : List Word) :
    asWords (.choice true) fmt opt mws .none = .error (.stray "AssertionError" "choice_as_words") := rfl

theorem multi_choice_empty_round_trip (fmt : FmtEnv) (env : EvalEnv) (opt : AttrVal) (mws ws : List Word)
    (hds : NoDoubleStar mws) (h : asWords (.choice true) fmt opt mws (.list []) = .ok ws)
    (hpa : isPlainAuto ws = false) :
    ws = mws.map unstar ∧ fromWords (.choice true) env opt ws = .ok (.list []) :=
  Phil.multi_choice_empty_round_trip fmt env opt mws ws hds h hpa

example : asWords (.choice true) (fun _ => none) .none [wordOf "*a", wordOf "b"] (.list [])
    = .ok [wordOf "a", wordOf "b"] := rfl

/-- witness: the side conditions are needed.  A master whose only alternative is the bare word
    `auto` turns `None` into `Auto`; a master alternative `**a` turns `None` into `"a"`. -/
theorem choice_none_collapses_on_auto_master (env : EvalEnv) (fmt : FmtEnv) :
    asWords (.choice false) fmt .none [wordOf "auto"] .none = .ok [wordOf "auto"] ∧
    fromWords (.choice false) env .none [wordOf "auto"] = .ok .auto := ⟨rfl, rfl⟩

theorem choice_none_collapses_on_double_star (env : EvalEnv) (fmt : FmtEnv) :
    asWords (.choice false) fmt .none [wordOf "**a", wordOf "b"] .none = .ok [wordOf "*a", wordOf "b"] ∧
    fromWords (.choice false) env .none [wordOf "*a", wordOf "b"] = .ok (.str "a".toList) := ⟨rfl, rfl⟩

/-- `Auto`, every type (choice included): written as the word `Auto`, read back as `Auto`. -/
theorem auto_round_trip (c : Conv) (fmt : FmtEnv) (env : EvalEnv) (opt opt' : AttrVal)
    (mws ws : List Word) (h : asWords c fmt opt mws .auto = .ok ws) :
    ws = [wordOf "Auto"] ∧ fromWords c env opt' ws = .ok .auto := by
  rw [asWords_auto] at h
  cases h
  exact ⟨rfl, fromWords_auto_word c env opt'⟩

example : asWords (.choice true) (fun _ => none) .none [wordOf "a"] .auto = .ok [wordOf "Auto"] := rfl

/-! ### 3. strings survive character for character -/

/-- `str` and `key`: every string (any characters, the empty string, `None`, `Auto` …) is written
    as one double-quoted word holding exactly the string, and a quoted word holding `s` is read as
    `s`, whatever its quote style and line. -/
theorem str_round_trip (c : Conv) (hc : c = .str ∨ c = .key) (fmt : FmtEnv) (env : EvalEnv)
    (opt opt' : AttrVal) (mws : List Word) (s : Str) :
    asWords c fmt opt mws (.str s) = .ok [⟨s, some .d1, none⟩] ∧
    ∀ l, fromWords c env opt' [⟨s, some .d1, l⟩] = .ok (.str s) :=
  ⟨asWords_str c (by rcases hc with h | h <;> simp [h]) fmt opt mws s,
   fun l => fromWords_str_quoted c hc env opt' .d1 l s⟩

example : fromWords .str (fun _ => none) .none [⟨"None".toList, some .d1, some 3⟩] = .ok (.str "None".toList) :=
  (str_round_trip .str (.inl rfl) (fun _ => none) _ .none .none [] _).2 _

/-- `path`: the same for every string that does not start with `~` (for those the model declares
    `os.path.expanduser` outside its domain). -/
theorem path_round_trip (fmt : FmtEnv) (env : EvalEnv) (opt opt' : AttrVal) (mws : List Word) (s : Str)
    (hs : s.take 1 ≠ ['~']) :
    asWords .path fmt opt mws (.str s) = .ok [⟨s, some .d1, none⟩] ∧
    ∀ l, fromWords .path env opt' [⟨s, some .d1, l⟩] = .ok (.str s) :=
  ⟨asWords_str .path (.inr (.inr rfl)) fmt opt mws s, fun l => fromWords_path_quoted env opt' .d1 l s hs⟩

theorem path_tilde_unsupported (env : EvalEnv) (opt : AttrVal) (l : Option Nat) (s : Str) :
    fromWords .path env opt [⟨'~' :: s, some .d1, l⟩] = .error (.unsupported "expanduser") := rfl

example : fromWords .path (fun _ => none) .none [⟨"/a b/c".toList, some .d1, none⟩] = .ok (.str "/a b/c".toList) :=
  (path_round_trip (fun _ => none) _ .none .none [] _ (by decide)).2 _

/-! ### 4. lists of strings -/

/-- `strings`: every list of strings (the empty list included) is written as one word per element,
    holding exactly the element, in order, and is read back as the same list.  The bare/quoted
    decision never produces a plain `None`/`Auto` word. -/
theorem strings_round_trip (fmt : FmtEnv) (env : EvalEnv) (opt opt' : AttrVal) (mws ws : List Word)
    (l : List Str) (h : asWords .strings fmt opt mws (.list (l.map PVal.str)) = .ok ws) :
    ws.map (·.value) = l ∧ fromWords .strings env opt' ws = .ok (.list (l.map PVal.str)) :=
  Phil.strings_round_trip fmt env opt opt' mws ws l h

/-- … and `as_words` never fails on a list of strings. -/
theorem strings_as_words_total (fmt : FmtEnv) (opt : AttrVal) (mws : List Word) (l : List Str) :
    ∃ ws, asWords .strings fmt opt mws (.list (l.map PVal.str)) = .ok ws :=
  asWords_strings_ok fmt opt mws l

example : asWords .strings (fun _ => none) .none [] (.list (["a".toList, "None".toList, "b c".toList].map PVal.str))
    = .ok [⟨"a".toList, none, none⟩, ⟨"None".toList, some .d1, none⟩, ⟨"b c".toList, some .d1, none⟩] := rfl

/-! ### 5. ints -/

/-- `int`: if `as_words` accepts the integer `i` (it now checks the bounds), the word is `str(i)`
    and reading it back gives `i` — the bounds `from_words` checks are the ones `as_words` checked. -/
theorem int_round_trip (a : NumArgs) (fmt : FmtEnv) (env : EvalEnv) (opt opt' : AttrVal)
    (mws ws : List Word) (i : Int) (henv : EnvDecimal env)
    (h : asWords (.int a) fmt opt mws (.num (.int i)) = .ok ws) :
    ws = [{ value := intStr i }] ∧ fromWords (.int a) env opt' ws = .ok (.num (.int i)) :=
  Phil.int_round_trip a fmt env opt opt' mws ws i henv h

/-- the evaluator used in the examples: decimal integer literals only -/
def envDec : EvalEnv := fun s => (parseIntLit s).map (fun i => .num (.int i))
theorem envDec_decimal : EnvDecimal envDec := fun i => by simp [envDec, parseIntLit_intStr]

example : asWords (.int { valueMin := some (.int (-5)) }) (fun _ => none) .none [] (.num (.int (-3)))
    = .ok [wordOf "-3"] := by decide +kernel
example : fromWords (.int { valueMin := some (.int (-5)) }) envDec .none [wordOf "-3"] = .ok (.num (.int (-3))) :=
  (int_round_trip _ (fun _ => none) envDec .none .none [] _ (-3) envDec_decimal (by decide +kernel)).2

/-- `ints`: a list whose elements are ints (and `None`/`Auto` where the type allows them), of
    length ≥ 2 or consisting of one number, is written as one word per element and read back
    unchanged (sizes and bounds included).  That all elements are of these kinds follows from the
    success of `as_words`.  The remaining lists — `[]`, `[None]`, `[Auto]` — are the witnesses of
    section 7. -/
theorem ints_round_trip (a : ListArgs) (fmt : FmtEnv) (env : EvalEnv) (opt opt' : AttrVal)
    (mws ws : List Word) (l : List PVal) (henv : EnvDecimal env)
    (hne : 2 ≤ l.length ∨ ∃ i, l = [.num (.int i)])
    (h : asWords (.ints a) fmt opt mws (.list l) = .ok ws) :
    ws = l.map elemWordOf ∧ fromWords (.ints a) env opt' ws = .ok (.list l) :=
  Phil.ints_round_trip a fmt env opt opt' mws ws l henv hne h

example : asWords (.ints { allowNoneEl := true, sizeMax := some 3 }) (fun _ => none) .none []
      (.list [.none, .num (.int (-5)), .none]) = .ok [wordOf "None", wordOf "-5", wordOf "None"] := by
  decide +kernel
example : fromWords (.ints { allowNoneEl := true, sizeMax := some 3 }) envDec .none
      [wordOf "None", wordOf "-5", wordOf "None"] = .ok (.list [.none, .num (.int (-5)), .none]) :=
  (ints_round_trip _ (fun _ => none) envDec .none .none [] _ _ envDec_decimal (.inl (by decide))
    (by decide +kernel)).2

/-! ### 6. formatting refuses values outside the declaration -/

/-- (a) a number `v` is refused with "value_min" by `int` and `float` exactly when Python's
    `value_min <= v` is false (`v` below the bound, or `v` = nan) … -/
theorem asWords_refuses_below_min (c : Conv) (a : NumArgs) (hc : c = .int a ∨ c = .float a)
    (fmt : FmtEnv) (opt : AttrVal) (mws : List Word) (v lo : PNum)
    (h1 : a.valueMin = some lo) :
    asWords c fmt opt mws (.num v) = .error (.runtime "value_min" none) ↔ pyLe lo v = false := by
  rcases hc with rfl | rfl
  · rw [asWords_int_num]; exact scalarAsWords_value_min_iff _ a fmt v lo h1
  · rw [asWords_float_num]; exact scalarAsWords_value_min_iff _ a fmt v lo h1

/-- … and with "value_max" exactly when `v <= value_max` is false while `value_min <= v` (reported
    first) holds. -/
theorem asWords_refuses_above_max (c : Conv) (a : NumArgs) (hc : c = .int a ∨ c = .float a)
    (fmt : FmtEnv) (opt : AttrVal) (mws : List Word) (v hi : PNum)
    (h1 : a.valueMax = some hi) :
    asWords c fmt opt mws (.num v) = .error (.runtime "value_max" none) ↔
      (pyLe v hi = false ∧ ∀ lo, a.valueMin = some lo → pyLe lo v = true) := by
  rcases hc with rfl | rfl
  · rw [asWords_int_num]; exact scalarAsWords_value_max_iff _ a fmt v hi h1
  · rw [asWords_float_num]; exact scalarAsWords_value_max_iff _ a fmt v hi h1

/-- in particular `nan` is never written for a type with a declared bound -/
theorem asWords_refuses_nan (a : NumArgs) (fmt : FmtEnv) (opt : AttrVal) (mws : List Word)
    (hb : a.valueMin.isSome = true ∨ a.valueMax.isSome = true) :
    asWords (.float a) fmt opt mws (.num .nan) =
      .error (.runtime (if a.valueMin.isSome then "value_min" else "value_max") none) := by
  cases h1 : a.valueMin with
  | some lo =>
    exact (asWords_refuses_below_min _ a (.inr rfl) fmt opt mws .nan lo h1).mpr (pyLe_nan_right lo)
  | none =>
    cases h2 : a.valueMax with
    | none => simp [h1, h2] at hb
    | some hi =>
      exact (asWords_refuses_above_max _ a (.inr rfl) fmt opt mws .nan hi h2).mpr
        ⟨pyLe_nan_left hi, by simp [h1]⟩

example : asWords (.int { valueMin := some (.int 3) }) (fun _ => none) .none [] (.num (.int 2))
    = .error (.runtime "value_min" none) :=
  (asWords_refuses_below_min _ _ (.inl rfl) _ _ _ _ _ rfl).mpr (by decide +kernel)
example : asWords (.float { valueMax := some (.flt 1 2) }) (fun _ => none) .none [] (.num (.flt 3 4))
    = .error (.runtime "value_max" none) :=
  (asWords_refuses_above_max _ _ (.inr rfl) _ _ _ _ _ rfl).mpr ⟨by decide +kernel, by simp⟩
example : asWords (.float { valueMax := some (.flt 1 2) }) (fun _ => none) .none [] (.num .nan)
    = .error (.runtime "value_max" none) :=
  asWords_refuses_nan _ _ _ _ (.inr rfl)

/-- (b) `None` is refused by `int`/`float` declared with `allow_none=False`. -/
theorem asWords_refuses_none (c : Conv) (a : NumArgs) (hc : c = .int a ∨ c = .float a)
    (fmt : FmtEnv) (opt : AttrVal) (mws : List Word) (h : a.allowNone = false) :
    asWords c fmt opt mws .none = .error (.runtime "cannot_be_none" none) := by
  rcases hc with rfl | rfl
  · have : asWords (.int a) fmt opt mws .none =
      if a.allowNone then .ok [wordOf "None"] else .error (.runtime "cannot_be_none" Option.none) := rfl
    rw [this, h]; rfl
  · have : asWords (.float a) fmt opt mws .none =
      if a.allowNone then .ok [wordOf "None"] else .error (.runtime "cannot_be_none" Option.none) := rfl
    rw [this, h]; rfl

example : asWords (.int { allowNone := false }) (fun _ => none) .none [] .none
    = .error (.runtime "cannot_be_none" none) := asWords_refuses_none _ _ (.inl rfl) _ _ _ rfl

/-- (c) a list longer than `size_max` is refused by `ints`/`floats` … -/
theorem asWords_refuses_too_many (c : Conv) (a : ListArgs) (hc : c = .ints a ∨ c = .floats a)
    (fmt : FmtEnv) (opt : AttrVal) (mws : List Word) (l : List PVal) (M : Int)
    (h1 : a.sizeMax = some M) (h2 : M < (l.length : Int)) :
    asWords c fmt opt mws (.list l) = .error (.runtime "too_many" none) := by
  rcases hc with rfl | rfl
  · rw [asWords_ints_eq]; exact listAsWords_too_many _ a fmt l M h1 h2
  · rw [asWords_floats_eq]; exact listAsWords_too_many _ a fmt l M h1 h2

/-- … one shorter than `size_min` (and not too long) too … -/
theorem asWords_refuses_not_enough (c : Conv) (a : ListArgs) (hc : c = .ints a ∨ c = .floats a)
    (fmt : FmtEnv) (opt : AttrVal) (mws : List Word) (l : List PVal) (m : Int)
    (h1 : a.sizeMin = some m) (h2 : (l.length : Int) < m)
    (h3 : ∀ M, a.sizeMax = some M → (l.length : Int) ≤ M) :
    asWords c fmt opt mws (.list l) = .error (.runtime "not_enough" none) := by
  rcases hc with rfl | rfl
  · rw [asWords_ints_eq]; exact listAsWords_not_enough _ a fmt l m h1 h2 h3
  · rw [asWords_floats_eq]; exact listAsWords_not_enough _ a fmt l m h1 h2 h3

/-- … and a list holding `None` (resp. `Auto`) anywhere is never accepted when the type does not
    allow such elements; when it is the first element and the size is right the error is
    "element_none" (resp. "element_auto"). -/
theorem asWords_refuses_none_element (c : Conv) (a : ListArgs) (hc : c = .ints a ∨ c = .floats a)
    (fmt : FmtEnv) (opt : AttrVal) (mws : List Word) (l : List PVal)
    (h : a.allowNoneEl = false) (hm : PVal.none ∈ l) :
    ∃ e, asWords c fmt opt mws (.list l) = .error e := by
  rcases hc with rfl | rfl
  · rw [asWords_ints_eq]
    exact listAsWords_error_of_elem _ a fmt l .none (.runtime "element_none" none) hm (by simp [elemWord, h])
  · rw [asWords_floats_eq]
    exact listAsWords_error_of_elem _ a fmt l .none (.runtime "element_none" none) hm (by simp [elemWord, h])

theorem asWords_refuses_auto_element (c : Conv) (a : ListArgs) (hc : c = .ints a ∨ c = .floats a)
    (fmt : FmtEnv) (opt : AttrVal) (mws : List Word) (l : List PVal)
    (h : a.allowAutoEl = false) (hm : PVal.auto ∈ l) :
    ∃ e, asWords c fmt opt mws (.list l) = .error e := by
  rcases hc with rfl | rfl
  · rw [asWords_ints_eq]
    exact listAsWords_error_of_elem _ a fmt l .auto (.runtime "element_auto" none) hm (by simp [elemWord, h])
  · rw [asWords_floats_eq]
    exact listAsWords_error_of_elem _ a fmt l .auto (.runtime "element_auto" none) hm (by simp [elemWord, h])

theorem asWords_refuses_none_first (c : Conv) (a : ListArgs) (hc : c = .ints a ∨ c = .floats a)
    (fmt : FmtEnv) (opt : AttrVal) (mws : List Word) (l : List PVal)
    (h : a.allowNoneEl = false) (hs : sizeOk a.sizeMin a.sizeMax (PVal.none :: l).length = true) :
    asWords c fmt opt mws (.list (.none :: l)) = .error (.runtime "element_none" none) := by
  rcases hc with rfl | rfl
  · rw [asWords_ints_eq]
    exact listAsWords_head_error _ a fmt .none l _ hs (by simp [elemWord, h])
  · rw [asWords_floats_eq]
    exact listAsWords_head_error _ a fmt .none l _ hs (by simp [elemWord, h])

example : asWords (.ints { sizeMax := some 1 }) (fun _ => none) .none [] (.list [.num (.int 2), .num (.int 2)])
    = .error (.runtime "too_many" none) := asWords_refuses_too_many _ _ (.inl rfl) _ _ _ _ 1 rfl (by decide)
example : asWords (.ints { sizeMin := some 3 }) (fun _ => none) .none [] (.list [.num (.int 2), .num (.int 2)])
    = .error (.runtime "not_enough" none) :=
  asWords_refuses_not_enough _ _ (.inl rfl) _ _ _ _ 3 rfl (by decide) (by simp)
example : asWords (.ints {}) (fun _ => none) .none [] (.list [.none, .num (.int 2)])
    = .error (.runtime "element_none" none) := asWords_refuses_none_first _ _ (.inl rfl) _ _ _ _ rfl rfl

/-- (d) a single choice refuses a name that is not one of the master's alternatives. -/
theorem asWords_refuses_unknown_choice (fmt : FmtEnv) (opt : AttrVal) (mws : List Word) (s : Str)
    (h : ∀ w ∈ mws, (stripStar w.value).1 ≠ s) :
    asWords (.choice false) fmt opt mws (.str s) = .error (.runtime "invalid_choice" none) :=
  asWords_choice_no_alt fmt opt mws s h

example : asWords (.choice false) (fun _ => none) .none [wordOf "*a", wordOf "b"] (.str "c".toList)
    = .error (.runtime "invalid_choice" none) :=
  asWords_refuses_unknown_choice _ _ _ _ (by decide)

/-! ### 7. recorded findings: lists that have no spelling of their own -/

/-- the empty list is accepted by `ints.as_words` (no size given) and becomes no words at all — so
    there is nothing to print after `name =`, and the printed definition cannot be parsed back. -/
theorem empty_list_has_no_spelling (fmt : FmtEnv) :
    asWords (.ints {}) fmt .none [] (.list []) = .ok [] := rfl

/-- the one-element list `[None]` is written as the single word `None`, which reads back as the
    scalar `None`, not as a list. -/
theorem singleton_none_list_collapses (fmt : FmtEnv) (env : EvalEnv) :
    asWords (.ints { allowNoneEl := true }) fmt .none [] (.list [.none]) = .ok [wordOf "None"] ∧
    fromWords (.ints { allowNoneEl := true }) env .none [wordOf "None"] = .ok .none := ⟨rfl, rfl⟩

/-- the same for `[Auto]`. -/
theorem singleton_auto_list_collapses (fmt : FmtEnv) (env : EvalEnv) :
    asWords (.ints { allowAutoEl := true }) fmt .none [] (.list [.auto]) = .ok [wordOf "Auto"] ∧
    fromWords (.ints { allowAutoEl := true }) env .none [wordOf "Auto"] = .ok .auto := ⟨rfl, rfl⟩

end Phil.C09
