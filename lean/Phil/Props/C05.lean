/-
  C05 — Last value wins, multiples accumulate; splitting sources never changes the result.
    "For a parameter that is not `.multiple` the last value given by the sources wins; how the
     definitions are distributed over source files does not matter."

  Model: Phil/Fetch.lean (`fetchRoot` = master.fetch(sources=…), `fetchScope` = scope.fetch).
  Lemmas and auxiliary definitions (`activeNamed`, `lastWins`, `PlainMeta`, `FlatMaster`,
  `flatResult`, `flatUsed`, `stepG`) are in Phil/Proofs/FetchLemmas.lean.

  Scope of what is proved here:
    * the split laws hold without any restriction (the outcome of `resolve_variables` for a source
      definition is computed ahead, in the definition's own document, and recorded in
      `Meta.varRes`; `fetch` only reads it, so visibility of variables is not an issue inside
      `fetchRoot`);
    * "last value wins" is proved for *plain* master definitions (not `.multiple`, not
      `.deprecated`, type not a choice) at root level with definition-only sources — for every
      master at the level of one iteration of the master loop (`last_wins_step`) and of the whole
      result (`last_wins`), and as a complete description of the result for flat masters
      (`fetch_flat`, which also shows that such a fetch cannot fail).  The sources must be `SrcOK`:
      either a successful variable resolution is recorded (`varRes = some (.ok rws refs)`; then
      the resolved words `rws` are the value that competes, `Obj.srcWords`) or nothing is recorded
      and the words are `$`-free (`srcWords_none`/`srcOK_of_plain` give the variable-free reading);
    * the accumulation rule for `.multiple` objects is exhibited on a concrete instance only.
-/
import Phil.Proofs.FetchLemmas
set_option linter.unusedVariables false
namespace Phil.C05
open Phil

/-! ### 1. splitting sources -/

/-- **The result depends on the concatenation of the sources only.** -/
theorem fetch_depends_on_flatten (e : Envs) (diff : Bool) (master : List Obj) (ss ss' : List (List Obj))
    (h : ss.flatten = ss'.flatten) : fetchRoot e diff master ss = fetchRoot e diff master ss' :=
  fetchRoot_flatten e diff master ss ss' h

/-- **Split law.**  One source `s1 ++ s2` and the two sources `s1`, `s2` give the same result (and the
    same consumed definitions, and the same error if any). -/
theorem split_law (e : Envs) (diff : Bool) (master s1 s2 : List Obj) :
    fetchRoot e diff master [s1 ++ s2] = fetchRoot e diff master [s1, s2] :=
  Phil.split_law e diff master s1 s2

/-- empty sources can be dropped -/
theorem empty_source_neutral (e : Envs) (diff : Bool) (master : List Obj) (ss : List (List Obj)) :
    fetchRoot e diff master ([] :: ss) = fetchRoot e diff master ss :=
  fetchRoot_flatten e diff master _ _ (by simp)

/-! ### 2. last value wins -/

/-- **Last value wins (one master child).**  At root level (`sm.name = []`), in non-diff mode, with
    sources consisting of definitions whose variable resolution succeeds (`SrcOK`), the iteration
    of the master loop for a plain master definition `mm` appends exactly one object — the master
    definition carrying the (resolved) words of the *last* enabled source definition called
    `mm.name` (the master definition itself when there is none) — and marks all enabled source
    definitions of that name as consumed, together with the definitions consulted while resolving
    their variables (`marksOf d = idOf d ++ srcRefs d`). -/
theorem last_wins_step (F : FetchFn) (e : Envs) (fuel : Nat) (sm : Meta) (mkids combined : List Obj)
    (st : List Obj × List Nat) (idx : Nat) (mm : Meta) (mws : List Word)
    (hsm : sm.name = []) (hsd : sm.disabled = false) (hname : mm.name ≠ []) (hp : PlainMeta mm)
    (hdef : ∀ o ∈ combined, o.isDefn = true) (hsrc : ∀ o ∈ combined, SrcOK o) :
    stepG F e fuel false sm mkids combined st (idx, .defn mm mws) =
      .ok (st.1 ++ [lastWins (.defn mm mws) (activeNamed mm.name combined)],
           st.2 ++ (activeNamed mm.name combined).flatMap marksOf) :=
  Phil.last_wins_step F e fuel sm mkids combined st idx mm mws hsm hsd hname hp hdef hsrc

/-- `lastWins` spelled out: with enabled source definitions `d₁ … dₖ` (k ≥ 1) of that name the result
    child is `.defn {mm with tmpl := 0} (words of dₖ)` … -/
theorem lastWins_some (mm : Meta) (mws : List Word) (l : List Obj) (d : Obj) (h : l.getLast? = some d) :
    lastWins (.defn mm mws) l = .defn { mm with tmpl := 0 } d.srcWords := by
  unfold lastWins; rw [h]; rfl

/-- … and with none it is the master definition itself. -/
theorem lastWins_none (mo : Obj) : lastWins mo [] = mo := rfl

/-- the words that compete: the resolved words when a successful resolution is recorded … -/
theorem srcWords_resolved (m : Meta) (ws rws : List Word) (refs : List Nat)
    (h : m.varRes = some (.ok rws refs)) : (Obj.defn m ws).srcWords = rws := by
  unfold Obj.srcWords; simp only [Obj.meta]; rw [h]

/-- … and the definition's own words when nothing is recorded (variable-free sources). -/
theorem srcWords_none (o : Obj) (h : o.meta.varRes = none) : o.srcWords = o.words :=
  srcWords_of_varRes_none o h

/-- variable-free sources (the hypothesis of the previous version of these theorems) are `SrcOK` … -/
theorem srcOK_of_plain (o : Obj) (h : o.meta.varRes = none) (hd : hasDollar o.words = false) : SrcOK o :=
  SrcOK.of_none h hd

/-- … and mark their own ids only. -/
theorem marksOf_none (o : Obj) (h : o.meta.varRes = none) : marksOf o = idOf o :=
  marksOf_of_varRes_none o h

/-- **Last value wins (whole result, any master).**  Under the same hypotheses on the sources, the
    children of the result contain, for every active plain master definition, that master
    definition with the words of the last enabled source definition of its name. -/
theorem last_wins (e : Envs) (fuel : Nat) (sm : Meta) (mkids combined : List Obj)
    (rm : Meta) (out : List Obj) (used : List Nat)
    (hsm : sm.name = []) (hsd : sm.disabled = false)
    (hdef : ∀ o ∈ combined, o.isDefn = true) (hsrc : ∀ o ∈ combined, SrcOK o)
    (h : fetchScope e fuel false sm mkids combined = .ok (.scope rm out, used))
    (actives : List (Nat × Obj)) (hact : masterActiveObjects mkids = .ok actives)
    (idx : Nat) (mm : Meta) (mws : List Word) (hmem : (idx, Obj.defn mm mws) ∈ actives)
    (hname : mm.name ≠ []) (hp : PlainMeta mm) :
    ∃ pre post, out = pre ++ lastWins (.defn mm mws) (activeNamed mm.name combined) :: post :=
  Phil.last_wins e fuel sm mkids combined rm out used hsm hsd hdef hsrc h actives hact idx mm mws
    hmem hname hp

/-- **Flat masters: the complete result.**  For a master consisting of enabled plain definitions
    with pairwise distinct names, the fetch of definition-only `SrcOK` sources succeeds and
    its result is the master with each definition carrying the last (resolved) value given for it;
    the consumed definitions are all enabled source definitions whose name the master declares
    (and the definitions consulted while resolving their variables). -/
theorem fetch_flat (e : Envs) (fuel : Nat) (sm : Meta) (mkids combined : List Obj)
    (hf : FlatMaster mkids) (hsm : sm.name = []) (hsd : sm.disabled = false)
    (hdef : ∀ o ∈ combined, o.isDefn = true) (hsrc : ∀ o ∈ combined, SrcOK o) :
    fetchScope e (fuel + 1) false sm mkids combined =
      .ok (.scope { sm with tmpl := 0 } (flatResult mkids combined), flatUsed mkids combined) :=
  Phil.fetch_flat e fuel sm mkids combined hf hsm hsd hdef hsrc

/-! ### non-vacuity and a concrete instance of accumulation -/

/-- `a = 1 .type=int ; c = x` -/
def flatM : List Obj :=
  [.defn { name := ['a'], id := some 1, attrs := [("type", .conv (.int {}))] } [{ value := ['1'] }],
   .defn { name := ['c'], id := some 2 } [{ value := ['x'] }]]

theorem flatM_flat : FlatMaster flatM := by
  constructor
  · intro mo hmo
    simp only [flatM, List.mem_cons, List.not_mem_nil, or_false] at hmo
    rcases hmo with rfl | rfl
    · exact ⟨_, _, rfl, ⟨by decide, by decide, by intro b; cases b <;> decide⟩, by decide, rfl⟩
    · exact ⟨_, _, rfl, ⟨by decide, by decide, by intro b; cases b <;> decide⟩, by decide, rfl⟩
  · decide

/-- `a = 2 ; !a = 7 ; a = 1 2` : the last enabled value `1 2` wins, `c` keeps the master's value -/
def flatS : List Obj :=
  [.defn { name := ['a'], id := some 11 } [{ value := ['2'] }],
   .defn { name := ['a'], id := some 12, disabled := true } [{ value := ['7'] }],
   .defn { name := ['a'], id := some 13 } [{ value := ['1'] }, { value := ['2'] }]]

example : (flatResult flatM flatS).map (fun o => o.words.map Word.value) = [[['1'], ['2']], [['x']]] := by
  decide +kernel

example : flatUsed flatM flatS = [11, 13] := by decide +kernel

/-- number of non-template children called `name` and their words -/
def valuesOf (name : Str) (r : R (Obj × List Nat)) : Option (List (List Str)) :=
  match r with
  | .ok (o, _) => some ((o.children.filter (fun k => k.name == name && k.meta.tmpl == 0)).map
      (fun k => k.words.map Word.value))
  | .error _ => none

/-- `d = x .multiple=True` -/
def multiM : List Obj :=
  [.defn { name := ['d'], id := some 1, attrs := [("multiple", .bool true)] } [{ value := ['x'] }]]

/-- **Multiples accumulate (instance).**  Sources `d = p ; d = q ; d = p`: all distinct values are
    kept, a repeated value moves to its last position. -/
example : valuesOf ['d'] (fetchRoot envNone false multiM
    [[.defn { name := ['d'], id := some 11 } [{ value := ['p'] }],
      .defn { name := ['d'], id := some 12 } [{ value := ['q'] }]],
     [.defn { name := ['d'], id := some 13 } [{ value := ['p'] }]]]) = some [[['q']], [['p']]] := by
  decide +kernel

end Phil.C05
