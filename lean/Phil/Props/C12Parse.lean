/-
  C12, the link to the parser: every document `parseObjs` returns satisfies `DocIds`, hence the
  denotational closed form of variable substitution (Phil/Props/C12Spec.lean) holds UNCONDITIONALLY
  for parsed texts.

  How the parser numbers objects (Phil/Parse.lean, `collectObjects`): one counter `nextId`, starting
  at 1 for the text.  A definition takes the current value when its name is read (also a definition
  named `include`; a disabled `!name` is numbered like any other); a scope takes the current value
  when its name is read, BEFORE its attributes and its objects, which continue from the next value.
  Attributes (`.help = …`, disabled or not) and `#phil __OFF__`/`__ON__`/`__END__` directives do not
  touch the counter.  `scope.adopt` (`adopt`/`wrapDotted`) turns an object named `a.b.c` into nested
  scopes `a { b { c } }` that SHARE the id of the object — therefore ids are only non-decreasing
  among siblings, and a scope's id is `≤` (not `<`) the ids of its objects.

  The invariant (`CollectInv lo n acc pending`, Phil/Proofs/ParseIds.lean) of `collectObjects` with counter
  `n = st.nextId`, objects `acc` adopted so far, active definition `pending`, in a scope whose first
  free id was `lo`:
    * `acc` is in order at every level (`levelOk`, `okList`) and every id in the tree `acc` is
      `some i` with `lo ≤ i < n` (with `lo ≤ i < j`, `n = j + 1`, when a definition with id `j` is pending);
    * `lo ≤ n ≤ lo + sizeList acc (+ 1 for a pending definition)`: every id was spent on an object;
    * the counter never decreases.
  Lemmas: Phil/Proofs/ParseIds.lean (suffix `_pid`).
-/
import Phil.Props.C12Spec
import Phil.Proofs.ParseIds
set_option linter.unusedVariables false
namespace Phil.C12
open Phil

/-! ### 1. the invariant of `collect_objects` -/

/-- **The invariant is preserved by `collectObjects`** (any fuel, any stop token, any starting
    state): what it returns is in order, numbered inside `[lo, st'.nextId)`, has at least
    `st'.nextId - lo` objects, and the counter has not decreased. -/
theorem collectObjects_inv (fuel : Nat) (st st' : PState) (stop : Option Word) (prev : Nat)
    (acc objs : List Obj) (pending : Option Obj) (lo : Nat)
    (h : collectObjects fuel st stop prev acc pending = .ok (objs, st'))
    (hinv : CollectInv lo st.nextId acc pending) :
    CollectInv lo st'.nextId objs none ∧ st.nextId ≤ st'.nextId :=
  collectObjects_inv_pid fuel st stop prev acc pending objs st' lo h hinv

/-- `scope.adopt` of an object numbered `j`: the chain of scopes built for a dotted name carries the
    id `j` at every link, has dot-free names, is in order, and is not smaller than the object -/
theorem wrapDotted_good (lo hi j : Nat) (o : Obj) (hid : o.meta.id = some j) (hok : okObj o = true)
    (hr : inRngObj lo hi o = true) :
    ((wrapDotted o).meta.id = some j ∧ '.' ∉ (wrapDotted o).name ∧ okObj (wrapDotted o) = true ∧
      inRngObj lo hi (wrapDotted o) = true) ∧ sizeObj o ≤ sizeObj (wrapDotted o) :=
  wrapDotted_good_pid o hid hok hr

/-! ### 2. parsed documents are well formed -/

/-- the ids of a parsed document: all present, between 1 and the final value `n` of the counter
    (exclusive), which is at most one more than the number of objects -/
theorem parse_ids_in_range (text : Str) (root : List Obj) (h : parseObjs text = .ok root) :
    ∃ n, inRngList 1 n root = true ∧ 1 ≤ n ∧ n ≤ 1 + sizeList root := by
  obtain ⟨n, ⟨_, _, h3⟩, hlo, hsz⟩ := parseObjs_inv_pid text root h
  exact ⟨n, h3, hlo, hsz⟩

/-- **Every parsed document satisfies `DocIds`.** -/
theorem parse_docIds (text : Str) (root : List Obj) (h : parseObjs text = .ok root) : DocIds root :=
  parse_docIds_pid text root h

/-- the same for the root scope `freephil.parse` returns (id 0, empty name) -/
theorem parse_root_docIds (text : Str) (r : Obj) (h : parse text = .ok r) : DocIds [r] := by
  unfold parse at h
  cases hp : parseObjs text with
  | error e => simp [hp, Except.map] at h
  | ok root =>
    simp only [hp, Except.map, Except.ok.injEq] at h
    subst h
    obtain ⟨n, hk⟩ := parseObjs_inv_pid text root hp
    have hs := CollectInv.scope_pid (acc := []) { name := [], id := some 0 } (CollectInv.nil_pid 0) hk rfl
    have hw : adopt [] (.scope { name := [], id := some 0 } root) = [.scope { name := [], id := some 0 } root] := by
      simp [adopt, wrapDotted, splitOn, Obj.name, Obj.meta]
    rw [hw] at hs
    obtain ⟨⟨h1, h2, h3⟩, _, hsz⟩ := hs
    refine ⟨⟨h1, h2⟩, inRngList_idsLe_pid _ (inRngList_mono_pid (Nat.le_refl 0) ?_ _ h3)⟩
    omega

/-! ### 3. the closed form of `$variable` substitution, unconditionally for parsed texts -/

/-- **C12 for parsed texts.**  For every text the parser accepts, every tree position and both
    modes, `resolveAt` (the model of `definition.resolve_variables`) equals the specification `denote`. -/
theorem resolveAt_eq_denote_parsed (env : Env) (text : Str) (root : List Obj)
    (h : parseObjs text = .ok root) (pos : List Nat) (diff : Bool) :
    resolveAt env root pos diff = denote env root pos diff :=
  resolveAt_eq_denote env root (parse_docIds text root h) pos diff

/-- the form of the task statement (`diff_mode = False`) -/
theorem resolveAt_eq_denote_parsed_fetch (env : Env) (text : Str) (root : List Obj)
    (h : parseObjs text = .ok root) (pos : List Nat) :
    resolveAt env root pos false = denote env root pos :=
  resolveAt_eq_denote_parsed env text root h pos false

/-! ### 4. kernel-checked instances (`decide +kernel`) -/

/-- nested scopes: a scope is numbered before its objects -/
def textNest : String := "a = 1\nb {\n c = 2\n d { e = 3 }\n f = $c\n}\ng = 4\n"
example : parseObjs textNest.toList = .ok (parsed textNest) := parsed_ok _ (by decide +kernel)
example : DocIds (parsed textNest) := by decide +kernel
example : (parsed textNest).map (·.meta.id) = [some 1, some 2, some 7] := by decide +kernel
example : sizeList (parsed textNest) = 7 := by decide +kernel
/-- the theorem instead of the evaluation -/
example : DocIds (parsed textNest) := parse_docIds _ _ (parsed_ok _ (by decide +kernel))

/-- dotted names of definitions and scopes: the wrapping scopes share the id -/
def textDots : String := "a.b.c = 1\nx.y {\n z = 1\n w.v = 2\n}\nq = 3\n"
example : parseObjs textDots.toList = .ok (parsed textDots) := parsed_ok _ (by decide +kernel)
example : DocIds (parsed textDots) := by decide +kernel
example : (parsed textDots).map (·.meta.id) = [some 1, some 2, some 5] := by decide +kernel
example : idAt (parsed textDots) [0] = some 1 ∧ idAt (parsed textDots) [0, 0] = some 1 ∧
    idAt (parsed textDots) [0, 0, 0] = some 1 ∧ idAt (parsed textDots) [1, 0] = some 2 ∧
    idAt (parsed textDots) [1, 0, 0] = some 3 ∧ idAt (parsed textDots) [1, 0, 1] = some 4 ∧
    idAt (parsed textDots) [1, 0, 1, 0] = some 4 := by decide +kernel
/-- 5 ids, 9 objects -/
example : sizeList (parsed textDots) = 9 := by decide +kernel

/-- disabled objects are numbered like the others -/
def textBang : String := "!a = 1\n!b {\n c = 1\n}\nd = 2\n"
example : parseObjs textBang.toList = .ok (parsed textBang) := parsed_ok _ (by decide +kernel)
example : DocIds (parsed textBang) := by decide +kernel
example : idAt (parsed textBang) [0] = some 1 ∧ idAt (parsed textBang) [1] = some 2 ∧
    idAt (parsed textBang) [1, 0] = some 3 ∧ idAt (parsed textBang) [2] = some 4 := by decide +kernel

/-- attributes (of definitions and scopes, enabled and disabled), `include`, `#phil` directives:
    no id is spent on them -/
def textAttrs : String :=
  "a = 1\n .help = foo\n !.type = int\ns .help = x\n !.expert_level = 1 {\n y = 1\n}\ninclude = f\n#phil __OFF__\nz = 0\n#phil __ON__\nt = 2\n"
example : parseObjs textAttrs.toList = .ok (parsed textAttrs) := parsed_ok _ (by decide +kernel)
example : DocIds (parsed textAttrs) := by decide +kernel
example : idAt (parsed textAttrs) [0] = some 1 ∧ idAt (parsed textAttrs) [1] = some 2 ∧
    idAt (parsed textAttrs) [1, 0] = some 3 ∧ idAt (parsed textAttrs) [2] = some 4 ∧
    idAt (parsed textAttrs) [3] = some 5 ∧ (parsed textAttrs).length = 4 := by decide +kernel
/-- the corollary applied: no `DocIds` side condition is left -/
example (env : Env) (pos : List Nat) (diff : Bool) :
    resolveAt env (parsed textAttrs) pos diff = denote env (parsed textAttrs) pos diff :=
  resolveAt_eq_denote_parsed env _ _ (parsed_ok _ (by decide +kernel)) pos diff

/-- hand-made trees the parser cannot produce: a scope numbered after one of its objects; a name with
    a '.'; an id larger than the number of objects -/
example : ¬ DocIds [.scope { name := "s".toList, id := some 2 } [.defn { name := "a".toList, id := some 1 } []]] := by
  decide +kernel
example : ¬ DocIds [.defn { name := "a.b".toList, id := some 1 } []] := by decide +kernel
example : ¬ DocIds [.defn { name := "a".toList, id := some 1 } [], .defn { name := "b".toList, id := some 3 } []] := by
  decide +kernel
/-- … while equal ids of a scope and its only object (a dotted name) are accepted -/
example : DocIds [.scope { name := "a".toList, id := some 1 } [.defn { name := "b".toList, id := some 1 } []]] := by
  decide +kernel

end Phil.C12

#print axioms Phil.C12.collectObjects_inv
#print axioms Phil.C12.wrapDotted_good
#print axioms Phil.C12.parse_ids_in_range
#print axioms Phil.C12.parse_docIds
#print axioms Phil.C12.parse_root_docIds
#print axioms Phil.C12.resolveAt_eq_denote_parsed
#print axioms Phil.C12.resolveAt_eq_denote_parsed_fetch
