/-
  C01 (part) — every built-in `.type` with every constructor argument prints (`str(converter)`,
  `Conv.render`) and re-parses (`definition_converters_from_words`, `convFromExpr`) to the same type.
  The statement is for every converter inside the modelled expression grammar (`Printable`): any
  combination of `value_min`/`value_max`/`allow_none`, of `size`/`size_min`/`size_max`, of
  `allow_none_elements`/`allow_auto_elements`, integer bounds of magnitude below 10^6 and float bounds
  `n/d` in lowest terms with `d ∈ {2,4,8}` and magnitude below 10^6.
  Property theorems only; lemmas are in Phil/Proofs/RoundTrip.lean.
-/
import Phil.Proofs.RoundTrip
import Phil.Props.C03
namespace Phil.C01
open Phil

/-- used by the concrete examples only (`decide +kernel`) -/
local instance {ε α : Type} [DecidableEq ε] [DecidableEq α] : DecidableEq (Except ε α) := fun a b =>
  match a, b with
  | .ok x, .ok y => if h : x = y then isTrue (by rw [h]) else isFalse (fun e => h (by cases e; rfl))
  | .error x, .error y => if h : x = y then isTrue (by rw [h]) else isFalse (fun e => h (by cases e; rfl))
  | .ok _, .error _ => isFalse (fun e => by cases e)
  | .error _, .ok _ => isFalse (fun e => by cases e)

/-! ### the word-level print / re-read law (by reference to C03) -/

/-- Every word the printer emits in quotes is read back by the tokenizer as exactly that word:
    `tokenize_value_literal(quote_python_str(q, s))` is the single word `s` with style `q`.
    (Restated from `Phil.C03.tokenize_quote`.) -/
theorem word_print_reread (q : Quote) (s : Str) :
    tokenizeValueLiteral (quoteStr q s) = .ok [{ value := s, quote := some q, line := some 1 }] :=
  Phil.C03.tokenize_quote q s

example : tokenizeValueLiteral (quoteStr .d1 "a \"b\" \\ c".toList)
    = .ok [{ value := "a \"b\" \\ c".toList, quote := some .d1, line := some 1 }] := word_print_reread _ _

/-! ### the printable types -/

/-- `Printable` spelled out for `int`: each bound is absent or an integer of magnitude below 10^6,
    and the bounds are in order whenever both are given (the constructor's own check). -/
theorem printable_int (a : NumArgs) :
    Printable (.int a) = true ↔
      intBoundOk a.valueMin = true ∧ intBoundOk a.valueMax = true ∧ boundsOrdered a.valueMin a.valueMax = true := by
  simp [Printable, and_assoc]

/-- for two integer bounds "in order" is `i ≤ j` -/
theorem boundsOrdered_int (i j : Int) : boundsOrdered (some (.int i)) (some (.int j)) = true ↔ i ≤ j := by
  simp [boundsOrdered, numLE, Rat.intCast_le_intCast]

/-- `Printable` spelled out for `ints` -/
theorem printable_ints (a : ListArgs) :
    Printable (.ints a) = true ↔
      sizesOk a.sizeMin a.sizeMax = true ∧ intBoundOk a.valueMin = true ∧ intBoundOk a.valueMax = true ∧
      boundsOrdered a.valueMin a.valueMax = true := by
  simp [Printable, and_assoc]

/-- sizes: each absent or positive, and `size_min ≤ size_max` when both are given -/
theorem sizesOk_iff (smin smax : Option Int) :
    sizesOk smin smax = true ↔
      (∀ a, smin = some a → 0 < a) ∧ (∀ b, smax = some b → 0 < b) ∧
      (∀ a b, smin = some a → smax = some b → a ≤ b) := by
  cases smin <;> cases smax <;> simp [sizesOk, and_assoc]

/-! ### the round trip, type by type -/

/-- the seven argument-free types -/
theorem type_round_trip_simple (c : Conv)
    (hc : c = .words ∨ c = .strings ∨ c = .str ∨ c = .qstr ∨ c = .path ∨ c = .key ∨ c = .bool)
    (line : Option Nat) : convFromExpr (Conv.render c) line = .ok c :=
  Phil.type_round_trip_simple c hc line

example : Conv.render .qstr = "qstr".toList := rfl

/-- `choice` and `choice(multi=True)` -/
theorem type_round_trip_choice (multi : Bool) (line : Option Nat) :
    convFromExpr (Conv.render (.choice multi)) line = .ok (.choice multi) :=
  Phil.type_round_trip_choice multi line

example : Conv.render (.choice true) = "choice(multi=True)".toList := rfl

/-- `int(value_min=…, value_max=…, allow_none=…)`, every combination -/
theorem type_round_trip_int (a : NumArgs) (line : Option Nat) (h : Printable (.int a) = true) :
    convFromExpr (Conv.render (.int a)) line = .ok (.int a) :=
  Phil.type_round_trip_int a line h

example : convFromExpr (Conv.render (.int { valueMin := some (.int (-3)), valueMax := some (.int 12), allowNone := false })) none
    = .ok (.int { valueMin := some (.int (-3)), valueMax := some (.int 12), allowNone := false }) :=
  type_round_trip_int _ _ (by decide +kernel)

/-- `ints(size=… | size_min=…, size_max=…, value_min=…, value_max=…, allow_none_elements=…,
    allow_auto_elements=…)`, every combination -/
theorem type_round_trip_ints (a : ListArgs) (line : Option Nat) (h : Printable (.ints a) = true) :
    convFromExpr (Conv.render (.ints a)) line = .ok (.ints a) :=
  Phil.type_round_trip_ints a line h

def exInts : ListArgs := { sizeMin := some 2, sizeMax := some 2, valueMax := some (.int (-7)), allowNoneEl := true }
example : convFromExpr (Conv.render (.ints exInts)) none = .ok (.ints exInts) :=
  type_round_trip_ints _ _ (by decide +kernel)

/-- the float bound leg: on the stated domain the `"%.10g"` text of `n/d` is a decimal literal whose
    exact value, reduced to lowest terms, is `n/d` again -/
theorem float_bound_round_trip (n : Int) (d : Nat) (hd : d = 2 ∨ d = 4 ∨ d = 8)
    (hg : Nat.gcd n.natAbs d = 1) (hm : n.natAbs < 1000000 * d) (s : Str)
    (h : fmtG10 (.flt n d) = some s) : parseFloatLit s = some (n, d) :=
  Phil.float_bound_round_trip n d hd hg hm s h

example : fmtG10 (.flt (-11) 8) = some "-1.375".toList ∧ parseFloatLit "-1.375".toList = some (-11, 8) := by
  decide +kernel

/-- … and `fmtG10` is defined on all of that domain -/
theorem float_bound_prints (n : Int) (d : Nat) (hd : d = 2 ∨ d = 4 ∨ d = 8)
    (hg : Nat.gcd n.natAbs d = 1) (hm : n.natAbs < 1000000 * d) :
    ∃ s, fmtG10 (.flt n d) = some s ∧ parseLit s = some (.num (.flt n d)) := by
  obtain ⟨s, h1, _, _, h4⟩ := float_bound_text n d hd hg hm
  exact ⟨s, h1, h4⟩

/-- an integer bound in a float type prints as an integer literal and re-parses as the same `int` -/
theorem int_bound_in_float_type (i : Int) (h : i.natAbs < 1000000) :
    boundStr false (.int i) = intStr i ∧ parseLit (intStr i) = some (.num (.int i)) ∧
    boundArg false (some (.num (.int i))) = some (some (.int i)) := by
  refine ⟨?_, parseLit_intStr i, by simp [boundArg, h]⟩
  have : i.natAbs < 10000000000 := by omega
  simp [boundStr, fmtG10, this]

/-- `float(…)`, every combination, integer and float bounds mixed -/
theorem type_round_trip_float (a : NumArgs) (line : Option Nat) (h : Printable (.float a) = true) :
    convFromExpr (Conv.render (.float a)) line = .ok (.float a) :=
  Phil.type_round_trip_float a line h

example : convFromExpr (Conv.render (.float { valueMin := some (.flt (-3) 2), valueMax := some (.int 7) })) none
    = .ok (.float { valueMin := some (.flt (-3) 2), valueMax := some (.int 7) }) :=
  type_round_trip_float _ _ (by decide +kernel)

/-- `floats(…)`, every combination -/
theorem type_round_trip_floats (a : ListArgs) (line : Option Nat) (h : Printable (.floats a) = true) :
    convFromExpr (Conv.render (.floats a)) line = .ok (.floats a) :=
  Phil.type_round_trip_floats a line h

example : convFromExpr (Conv.render (.floats { sizeMin := some 2, valueMin := some (.flt 5 4), allowAutoEl := true })) none
    = .ok (.floats { sizeMin := some 2, valueMin := some (.flt 5 4), allowAutoEl := true }) :=
  type_round_trip_floats _ _ (by decide +kernel)

/-- **C01, types**: every printable built-in type prints and re-parses to the same type, whatever the
    line the `.type` attribute stands on. -/
theorem type_round_trip (c : Conv) (line : Option Nat) (h : Printable c = true) :
    convFromExpr (Conv.render c) line = .ok c :=
  Phil.type_round_trip c line h

/-! ### why the side conditions: what lies outside `Printable` -/

/-- an integral float bound prints without a point and comes back as an `int` bound (equal as a
    number, different as an object) -/
theorem integral_float_bound_reparses_as_int :
    Conv.render (.float { valueMin := some (.flt 3 1) }) = "float(value_min=3, allow_none=True)".toList ∧
    convFromExpr "float(value_min=3, allow_none=True)".toList none = .ok (.float { valueMin := some (.int 3) }) := by
  decide +kernel

/-- a converter the constructor would have refused (`size_min=0`) prints to a text that is refused -/
theorem refused_sizes_do_not_reparse :
    convFromExpr (Conv.render (.ints { sizeMin := some 0 })) none = .error (.runtime "type_construct" none) := by
  decide +kernel

end Phil.C01
