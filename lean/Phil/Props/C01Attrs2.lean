/-
  C01 (part) — the attribute round trip, remaining classes.  Property theorems only; the lemmas are in
  Phil/Proofs/AttrRoundTrip2.lean.  Continues Phil/Props/C01Attrs.lean.

  1. Free-text attributes that are WRAPPED and contain RUNS of blanks ("compared up to runs of white
     space" in the property text): the parser reads back `reflowStr` (the `textwrap` blocks joined by
     single blanks), which equals the original value up to runs of white space (`wsNorm`); the second
     print of the attribute is byte-identical exactly when `reflowStable` holds (finding D28 is the
     failing case); single-spaced text is always stable.
  2. (partly) a deprecated definition directly after a definition: the value collector of the line
     before consumes the `# WARNING` line (`warning_line_consumed`, `attribute_then_warning_one_turn`).
  4. Templates: what printing a FETCH RESULT and re-parsing gives (`fetch_result_prints_as_visible`,
     `fetch_result_reparsed`): `is_template = -1` objects are hidden below attributes level 2 and come
     back as ordinary objects from level 2 on.
-/
import Phil.Proofs.AttrRoundTrip2
import Phil.Props.C01Attrs
set_option linter.unusedSimpArgs false
set_option linter.unusedVariables false
namespace Phil.C01
open Phil

attribute [local instance] objDecEqInst exceptDecEqRT

/-! ### `textwrap.wrap` on arbitrary text

  `wordsOf s`: the maximal blank-free runs of `s` in order; `wsNorm s`: the words joined by single
  blanks (runs of blanks collapsed, both ends stripped).  `noOddWs s`: the only `textwrap` white space
  in `s` is the blank (no tab, newline, `\r`, `\x0b`, `\x0c`). -/

/-- **`textwrap.wrap(text, width, break_long_words=False, break_on_hyphens=False)` keeps the words**:
    for every text whose only white space is the blank (runs of any length, leading and trailing
    blanks included) and every width, the words of the lines, in order, are the words of the text, and
    the lines contain only characters of the text. -/
theorem wrap_keeps_words (s : Str) (hs : noOddWs s = true) (W : Nat) :
    (twWrap s W).flatMap wordsOf = wordsOf s ∧ ∀ b ∈ twWrap s W, ∀ d ∈ b, d ∈ s :=
  twWrap_words_ar2 s hs W

/-- the structural form, for ANY chunk list without empty chunks in which of two consecutive chunks
    one is white space (`sepOK`; true of the chunks of every text, `chunks_sepOK`): the lines of
    `_wrap_chunks` are concatenations of consecutive chunks, white-space chunks being dropped only
    between lines and at both ends (`SegW`) -/
theorem wrap_chunks_segments (W : Nat) (chunks : List Str) (h : sepOK chunks = true) (lines : List Str) :
    ∃ ps, SegW chunks ps ∧ twWrapChunks W (chunks.length + 1) chunks lines = lines.reverse ++ ps :=
  wrapChunks_seg_ar2 W chunks.length chunks (Nat.le_refl _) h _ lines (Nat.le_refl _)

theorem chunks_sepOK (s : Str) : sepOK (twChunks s) = true := (twChunks_inv_ar2 s).2

/-- joining lines by single blanks keeps the words -/
theorem words_of_joined (ps : List Str) : wordsOf (joinWith [' '] ps) = ps.flatMap wordsOf :=
  wordsOf_joinWith_ar2 ps

/-! ### a wrapped string attribute with runs of blanks

  `strWrapRunsOK pre w name s`: the value does not stay on the line of its name, the wrap width
  `w - 2 - indentation` is positive, `noOddWs s`, the text has at least one word, and it contains no
  backslash and no double quote (`noEsc`: the blocks are then printed without escapes; with escapes
  the statement holds too — validated — but is proved only for single-spaced text, C01Attrs). -/

/-- **C01, free text "up to runs of white space".**  A string attribute of the class that is wrapped:
    the printer yields the lines of `attrLineText`; `collect_assigned_words` + `assign_attribute` read
    them back as the string `reflowStr pre w name s` (the `textwrap` blocks joined by single blanks);
    and that value equals the original up to runs of white space. -/
theorem wrapped_runs_round_trip (isDef : Bool) (pre : Str) (hb : ∀ c ∈ pre, c = ' ') (width : Int)
    (n : String) (s : Str) (hk : kindOf isDef n = .str) (h : strWrapRunsOK pre width n s = true) :
    (∃ ls, attrLines pre width n (.str s) = .ok ls ∧ unlines ls = attrLineText pre width n (.str s)) ∧
    ReadsAs (attrTail pre width n (.str s)) (attrValueOf isDef n) (.str (reflowStr pre width n s)) ∧
    wsNorm (reflowStr pre width n s) = wsNorm s :=
  attr_line_wrap_runs_ar2 isDef pre hb width n s hk h

/-- the clause of the property by itself: the value read back equals the original up to runs of
    white space (no hypothesis on the width: it holds for every `textwrap` width) -/
theorem reparsed_value_up_to_whitespace (pre : Str) (width : Int) (n : String) (s : Str)
    (hs : noOddWs s = true) : wsNorm (reflowStr pre width n s) = wsNorm s := by
  unfold wsNorm reflowStr
  rw [wordsOf_joinWith_ar2, (twWrap_words_ar2 s hs _).1]

/-- **when the second print of the attribute is byte-identical** (decidable): printing the value read
    back gives the lines printed for the original value -/
def reflowStable (pre : Str) (width : Int) (name : String) (s : Str) : Bool :=
  attrLineText pre width name (.str (reflowStr pre width name s)) == attrLineText pre width name (.str s)

/-- **Print, parse, print again for one wrapped attribute — the exact condition.**  The text read back
    is `reflowStr`; its print equals the first print iff `reflowStable` (finding D28: not always). -/
theorem second_print_identical_iff (isDef : Bool) (pre : Str) (hb : ∀ c ∈ pre, c = ' ') (width : Int)
    (n : String) (s : Str) (hk : kindOf isDef n = .str) (h : strWrapRunsOK pre width n s = true) :
    ∃ v', ReadsAs (attrTail pre width n (.str s)) (attrValueOf isDef n) (.str v') ∧
      wsNorm v' = wsNorm s ∧
      (attrLineText pre width n (.str v') = attrLineText pre width n (.str s) ↔
        reflowStable pre width n s = true) := by
  obtain ⟨_, h2, h3⟩ := attr_line_wrap_runs_ar2 isDef pre hb width n s hk h
  exact ⟨_, h2, h3, by simp [reflowStable]⟩

/-- **single-spaced text is a fixed point**: the value read back is the value itself (hence
    `reflowStable`); this is the sufficient condition `v = wsNorm v` of the existing class -/
theorem single_spaced_is_fixed (pre : Str) (width : Int) (n : String) (s : Str)
    (hss : singleSpaced s = true) : reflowStr pre width n s = s ∧ reflowStable pre width n s = true := by
  have hs : joinWith [' '] (splitOn ' ' s) = s := joinWith_splitOn_art ' ' s
  have hw : ∀ w ∈ splitOn ' ' s, twWord w = true := fun w hw => (List.all_eq_true.mp hss) w hw
  obtain ⟨groups, hfl, hgne, hwrap⟩ := twWrap_singleSpaced_art _ hw (wrapWidth pre width n).toNat
  have e : reflowStr pre width n s = s := by
    unfold reflowStr
    conv => lhs; rw [← hs]
    rw [hwrap, joinWith_flatten_art groups hgne, hfl, hs]
  exact ⟨e, by simp [reflowStable, e]⟩

/-- non-vacuity: a text with a run of blanks INSIDE a line and a run AT a line break; the value read
    back keeps the first and collapses the second -/
example : strWrapRunsOK [' ', ' '] 30 "help" "aa  bb cccccccc     dddddddd".toList = true ∧
    reflowStr [' ', ' '] 30 "help" "aa  bb cccccccc     dddddddd".toList = "aa  bb cccccccc dddddddd".toList ∧
    reflowStable [' ', ' '] 30 "help" "aa  bb cccccccc     dddddddd".toList = true := by
  decide +kernel

/-! ### sharp edges (kernel-checked; each replayed on the Python library) -/

/-- **D28 characterised**: `aaaaaaa     bb ccccccc dddddd` at width 24 is in the class, is read back as
    `aaaaaaa bb ccccccc dddddd` (equal up to runs of white space), and is NOT stable: the second print
    differs (`reflow_not_fixpoint` in C01Attrs has the texts). -/
theorem d28_is_unstable :
    strWrapRunsOK [] 24 "help" "aaaaaaa     bb ccccccc dddddd".toList = true ∧
    reflowStr [] 24 "help" "aaaaaaa     bb ccccccc dddddd".toList = "aaaaaaa bb ccccccc dddddd".toList ∧
    reflowStable [] 24 "help" "aaaaaaa     bb ccccccc dddddd".toList = false := by
  decide +kernel

/-- **`v = wsNorm v` is sufficient, not necessary**: `aaaa   bbbb` at width 18 is broken AT the run;
    the value read back is `aaaa bbbb` (≠ the original) and prints identically.  Replayed on Python:
    second print identical. -/
theorem run_at_line_break_is_stable :
    strWrapRunsOK [] 18 "help" "aaaa   bbbb".toList = true ∧
    reflowStr [] 18 "help" "aaaa   bbbb".toList = "aaaa bbbb".toList ∧
    reflowStable [] 18 "help" "aaaa   bbbb".toList = true := by
  decide +kernel

/-- **why the text must have a word**: a help text of 30 blanks at width 20 does not fit on its line,
    `textwrap.wrap` returns no block, NOTHING is printed for the attribute and it is read back as
    unset.  Replayed on Python: `as_str(attributes_level=1, print_width=20)` = `a = 1⏎`, re-parsed
    `help is None`. -/
theorem blank_text_is_lost :
    let t : List Obj := [.defn { name := ['a'], attrs := [("help", .str (List.replicate 30 ' '))] } [{ value := ['1'] }]]
    strWrapRunsOK [] 20 "help" (List.replicate 30 ' ') = false ∧
    asStr { level := 1, width := 20 } (rootOf t) = .ok "a = 1\n".toList := by
  decide +kernel

/-- **why the only white space must be the blank** (for THIS statement of "up to white space"):
    `textwrap` turns a newline inside a wrapped value into a blank; `wsNorm` counts only blanks as
    separators, so the words differ (with Python's `str.split()` as normal form they agree). -/
theorem newline_becomes_blank :
    noOddWs "aaaaaaa\nbb ccccccc dddddd".toList = false ∧
    wsNorm (reflowStr [] 24 "help" "aaaaaaa\nbb ccccccc dddddd".toList) = "aaaaaaa bb ccccccc dddddd".toList ∧
    wsNorm "aaaaaaa\nbb ccccccc dddddd".toList = "aaaaaaa\nbb ccccccc dddddd".toList := by
  decide +kernel

/-! ### templates: printing a FETCH RESULT and re-parsing it (C01 / C07 "re-parsed from its printed text")

  A fetch result contains template copies (`is_template = -1` for the template of a `.multiple` object,
  `1` for a template that is also the value); parser outputs never do.  `visTList L objs`: the forest
  the printer shows at attributes level `L` — objects with `is_template = -1` removed when `L < 2`,
  every template flag cleared.  `tmplWFs L objs`: in every named scope the first child and the first
  VISIBLE child agree on `merge_names` (so the scope prints as a dotted prefix in both or in neither;
  true of fetch results, where all copies of an object share the flag). -/

/-- an object with `is_template = -1` prints nothing below attributes level 2 -/
theorem template_hidden_below_level2 (o : ShowOpts) (x : Obj) (ht : x.meta.tmpl < 0) (hl : o.level < 2)
    (ms : List Str) (pre : Str) : showObj o x ms pre = .ok [] := by
  have hh : (decide (x.meta.tmpl < 0) && decide (o.level < 2)) = true := by simp [ht, hl]
  cases x with
  | defn m ws =>
    rw [showObj_defn_eq, showDefn_tmpl_ar2]
    exact if_pos hh
  | scope m os =>
    rw [showObj_scope_eq]
    exact if_pos hh

/-- **Printing a fetch result.**  At every attributes level, width and expert level the text printed
    for a forest with template flags is the text printed for its visible part with all flags cleared:
    templates with `is_template = -1` are hidden below level 2 and printed like ordinary objects from
    level 2 on; `is_template = 1` never matters. -/
theorem fetch_result_prints_as_visible (o : ShowOpts) (objs : List Obj) (h : tmplWFs o.level objs = true) :
    asStr o (rootOf objs) = asStr o (rootOf (visTList o.level objs)) := by
  have hwf : (rootOf objs).tmplWF o.level = true := by simp [rootOf, Obj.tmplWF, h]
  have := show_visT_ar2 o (rootOf objs) hwf [] []
  have hh : (rootOf objs).hiddenT o.level = false := by simp [rootOf, Obj.hiddenT, Obj.meta]
  rw [hh] at this
  simp only [Bool.false_eq_true, ↓reduceIte] at this
  unfold asStr
  rw [this]
  rfl

/-- **Re-parsing the printed fetch result** (the tree C07's "re-parsed from its printed text" clause
    talks about): if the visible part is in the attribute round-trip class, the text parses to the
    visible part — templates as ORDINARY objects, every object carrying the attributes shown at the
    level — and printing the re-parsed tree gives the same text. -/
theorem fetch_result_reparsed (o : ShowOpts) (he : o.expert = none) (objs : List Obj)
    (hwf : tmplWFs o.level objs = true)
    (h : ∀ x ∈ visTList o.level objs, RTTreeAttr o.level o.width x)
    (hnl : ∀ x ∈ visTList o.level objs, x.allDefns NlOnlyLast)
    (hnd : depPlacedList (visTList o.level objs) = true) :
    ∃ text objs' root', asStr o (rootOf objs) = .ok text ∧ parseObjs text = .ok objs' ∧
      eraseList objs' = eraseList (normAList o.level (visTList o.level objs)) ∧
      parse text = .ok root' ∧ asStr o root' = .ok text := by
  obtain ⟨text, objs', h1, _, h2, h3, _⟩ := print_parse_tree_attrs o he _ h hnl hnd
  obtain ⟨text', root', g1, g2, g3⟩ := second_print_identical_attrs o he _ h hnl hnd
  have : text' = text := by rw [h1] at g1; cases g1; rfl
  subst this
  exact ⟨text', objs', root', by rw [fetch_result_prints_as_visible o objs hwf]; exact h1, h2, h3, g2, g3⟩

/-- the fetch of `a = 2⏎s { x = 3 }` against the master `a = 1 .multiple=True⏎s .multiple=True { x = 1 }`
    (flags as Python reports them: -1, 0, -1, 0) -/
def exTmplForest : List Obj :=
  [ .defn { name := ['a'], tmpl := -1, attrs := [("multiple", .bool true)] } [{ value := ['1'] }],
    .defn { name := ['a'], attrs := [("multiple", .bool true)] } [{ value := ['2'] }],
    .scope { name := ['s'], tmpl := -1, attrs := [("multiple", .bool true)] } [.defn { name := ['x'] } [{ value := ['1'] }]],
    .scope { name := ['s'], attrs := [("multiple", .bool true)] } [.defn { name := ['x'] } [{ value := ['3'] }]] ]

/-- non-vacuity (texts replayed on Python, identical): level 0 shows the values only, level 2 shows the
    templates as well; both re-parse, second print identical -/
theorem exTmpl_facts :
    tmplWFs 0 exTmplForest = true ∧ tmplWFs 2 exTmplForest = true ∧
    (∀ x ∈ visTList 0 exTmplForest, RTTreeAttr 0 79 x) ∧ (∀ x ∈ visTList 2 exTmplForest, RTTreeAttr 2 79 x) ∧
    (∀ x ∈ visTList 0 exTmplForest, x.allDefns NlOnlyLast) ∧ (∀ x ∈ visTList 2 exTmplForest, x.allDefns NlOnlyLast) ∧
    depPlacedList (visTList 0 exTmplForest) = true ∧ depPlacedList (visTList 2 exTmplForest) = true ∧
    asStr { level := 0 } (rootOf exTmplForest) = .ok "a = 2\ns {\n  x = 3\n}\n".toList ∧
    asStr { level := 2 } (rootOf exTmplForest)
      = .ok ("a = 1\n  .multiple = True\na = 2\n  .multiple = True\ns\n  .multiple = True\n{\n  x = 1\n}\n" ++
             "s\n  .multiple = True\n{\n  x = 3\n}\n").toList := by
  decide +kernel

example : ∃ text objs' root', asStr { level := 2 } (rootOf exTmplForest) = .ok text ∧
    parseObjs text = .ok objs' ∧
    eraseList objs' = eraseList (normAList 2 (visTList 2 exTmplForest)) ∧
    parse text = .ok root' ∧ asStr { level := 2 } root' = .ok text := by
  obtain ⟨_, h2, _, h4, _, h6, _, h8, _, _⟩ := exTmpl_facts
  exact fetch_result_reparsed { level := 2 } rfl exTmplForest h2 h4 h6 h8

/-- **why `tmplWFs` is needed**: a scope whose first child is a hidden template with `merge_names` and
    whose second child is not dotted prints `s.c = 2`; without the hidden child it prints `s { c = 2 }`.
    (Not producible by `fetch`: all copies of an object share `merge_names`.) -/
theorem tmplWF_needed :
    let t : List Obj := [ .scope { name := ['s'] }
      [.defn { name := ['b'], tmpl := -1, mergeNames := true } [{ value := ['1'] }],
       .defn { name := ['c'] } [{ value := ['2'] }]] ]
    tmplWFs 0 t = false ∧
    asStr { level := 0 } (rootOf t) = .ok "s.c = 2\n".toList ∧
    asStr { level := 0 } (rootOf (visTList 0 t)) = .ok "s {\n  c = 2\n}\n".toList := by
  decide +kernel

/-! ### a deprecated definition directly after a definition (`depPlacedList`)

  The parse theorems of C01Attrs exclude a deprecated definition that directly follows a definition.
  Proved here: the reason the text is read back all the same — the value collector of the line before
  consumes the `# WARNING: deprecated parameter` line as a trailing comment line, and `collect_objects`
  then continues exactly as if it stood in front of that line.  (At level 3 the line before is the last
  attribute line of the preceding definition; `.expert_level = …` / `.deprecated = True` are one plain
  word.  Lifting this through the tree induction — and the case of a string-valued `.alias` as last
  line — is not done: `depPlacedList` stays in `print_parse_tree_attrs`.) -/

/-- **The value collector consumes the warning line as a trailing comment line**: after a line ending
    in one plain word `w`, the line `ind ++ "# WARNING: deprecated parameter"` contributes nothing; the
    collector stops in front of the newline ending the warning line, one line further down. -/
theorem warning_line_consumed (w ind Y : Str) (l : Nat) (lead : Word)
    (hlead : lead.line = some l) (hw : plainWord w = true) (hind : ∀ c ∈ ind, c = ' ')
    (hnext : ∀ c, firstNonSpace Y = some c → isQuoteChar c = false) :
    ∃ tb, InlineSpace tb ∧
      collectAssigned ⟨[' '] ++ w ++ (('\n' :: ind) ++ '#' :: (warnBody ++ '\n' :: Y)), l⟩ lead
        = .ok ([{ value := w, quote := none, line := some l }], ⟨tb ++ '\n' :: Y, l + 1⟩) :=
  collectAssigned_plain_warn_ar2 w ind Y l lead hlead hw hind hnext

/-- **One turn of `collect_objects`** on `.name = p` (one plain word) followed by the warning line: the
    attribute is assigned to the pending definition and the parser continues IN FRONT OF the warning
    line — the same resulting state as when no warning line follows (`collectObjects_defn_attr_art`). -/
theorem attribute_then_warning_one_turn (fuel : Nat) (stop : Option Word) (prevLine : Nat) (acc : List Obj)
    (d : Obj) (sp : Str) (n : String) (p ind Y : Str) (l i : Nat) (v : AttrVal)
    (hsp : ∀ c ∈ sp, isSpace c = true) (hn : n ∈ defAttrNames) (hp : plainWord p = true)
    (hv : ∀ l', defAttrValue n [{ value := p, quote := none, line := some l' }] = .ok v)
    (hind : ∀ c ∈ ind, c = ' ') (hnext : ∀ c, firstNonSpace Y = some c → isQuoteChar c = false)
    (hs : ∃ r, nextWordAux structSettings false Y (l + nlCount sp + 2) = .ok (some r)) :
    collectObjects (fuel + 1)
        { ci := ⟨sp ++ '.' :: n.toList ++ ' ' :: '=' ::
            (([' '] ++ p) ++ '\n' :: (ind ++ ("# WARNING: deprecated parameter\n".toList ++ Y))), l⟩, nextId := i }
        stop prevLine acc (some d)
      = collectObjects fuel
          { ci := ⟨'\n' :: (ind ++ ("# WARNING: deprecated parameter\n".toList ++ Y)), l + nlCount sp⟩, nextId := i }
          stop (l + nlCount sp) acc
          (some (d.withMeta (fun m => { m with attrs := m.attrs ++ [(n, v)] }))) :=
  collectObjects_defn_attr_warn_ar2 fuel stop prevLine acc d sp n p ind Y l i v hsp hn hp hv hind hnext hs

/-- non-vacuity: `… None⏎# WARNING: deprecated parameter⏎b = 2⏎` -/
example : ∃ tb, InlineSpace tb ∧
    collectAssigned ⟨[' '] ++ "None".toList ++ (('\n' :: []) ++ '#' :: (warnBody ++ '\n' :: "b = 2\n".toList)), 7⟩
        { value := ".expert_level".toList, line := some 7 }
      = .ok ([{ value := "None".toList, quote := none, line := some 7 }], ⟨tb ++ '\n' :: "b = 2\n".toList, 8⟩) := by
  refine warning_line_consumed "None".toList [] "b = 2\n".toList 7 _ rfl (by decide) (by intro c hc; cases hc) ?_
  intro c hc
  have e : firstNonSpace "b = 2\n".toList = some 'b' := by decide
  rw [e] at hc
  cases hc
  decide

#print axioms wrap_keeps_words
#print axioms wrap_chunks_segments
#print axioms chunks_sepOK
#print axioms words_of_joined
#print axioms wrapped_runs_round_trip
#print axioms reparsed_value_up_to_whitespace
#print axioms second_print_identical_iff
#print axioms single_spaced_is_fixed
#print axioms d28_is_unstable
#print axioms run_at_line_break_is_stable
#print axioms blank_text_is_lost
#print axioms newline_becomes_blank
#print axioms template_hidden_below_level2
#print axioms fetch_result_prints_as_visible
#print axioms fetch_result_reparsed
#print axioms exTmpl_facts
#print axioms tmplWF_needed
#print axioms warning_line_consumed
#print axioms attribute_then_warning_one_turn

end Phil.C01
