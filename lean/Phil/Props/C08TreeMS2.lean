/-
  C08 on masters with FURTHER MASTER OCCURRENCES of `.multiple` objects (`MSMaster2`, the class of
  Props/C05TreeMS3.lean) — "fetch_diff is a faithful and minimal difference": the closed form of
  `scope.fetch(diff=True)` with the `-1` marker of the candidate loop.

  Model: Phil/Fetch.lean (`fetchScope … true …`).  Lemmas: Phil/Proofs/FetchTreeMS4.lean (§3 the candidate loop
  with master-provided candidates: `master_fold_diff_ms4`, `source_fold_diff_ms4`, `multiBranch_diff_ms4`; §4 the
  specification; §7 the steps; §8 `diff_ms2_total`; §9 laws on the specification).
  Specification (structural recursion on the master tree, fuel-free): `ms2Diff e seen mkids srcs` — the blocks
  `md2Block e mo FM srcs` of the FIRST enabled occurrences `mo` (with `FM` = their further occurrences), in
  master order.  A `.multiple` object: NO template; the candidates built from the SOURCES go through the list
  rule (dropped when equal to the master's key, of equal keys the last stays) after those whose key is the key
  of a candidate built from a FURTHER MASTER OCCURRENCE are removed: a master-provided instance is never part
  of the difference, and it blocks every source instance that renders like it.  For a `.multiple` scope the
  candidates are the NON-EMPTY differences of the body against ONE block (source or further occurrence).
  Class: `MSMaster2` + `SrcTree mkids` (variable-free master definitions), arbitrary `SrcTree` sources, keys
  `KeysDiffMS2` (executable: `keysDiffMS2B`, sharp: `keysDiff_ms2_needed`), fuel `depthL mkids + 1 < fuel` (sharp: `diff_ms2_fuel_needed`).
  Facts: `fetch_diff_ms2_total` (TOTAL: difference + consumed ids, or "incompatible"), `fetch_diff_ms2_ok`,
  `fetchRoot_diff_ms2(_checked)`; the rule spelled out: `diff_ms2_multiple_scope_rule`,
  `diff_ms2_multiple_defn_rule`; minimality and the blocking rule: `diff_ms2_scope_minimal`,
  `diff_ms2_defn_minimal`, `diff_ms2_no_empty_scope`, `diff_ms2_block_members`; `diff_ms2_conservative`
  (= `msDiff` on `MSMaster`); `self_diff_ms2_empty_nosrc` (+ operational `fetch_diff_ms2_nosrc`);
  `master_as_source_diff_ms2` (`M.fetch_diff(M) = ∅`, + operational `fetch_diff_ms2_master_itself`);
  restoring: `restore_ms2_order` (list level: if no source instance renders like a master-provided one, the
  list rule over the further occurrences followed by the instances of the difference gives the survivors of the
  working set IN THE SAME ORDER), `restore_ms2_defn_exact` (the same at the level of the specification for
  `.multiple` definitions: the block of the working set is restored exactly), with the witnesses `restore_ms2_reorders` (finding D10 on a `.multiple`
  DEFINITION: the hypothesis is sharp) and `restore_ms2_blocked_same_order` (it is not necessary).
  Validation of `ms2Diff` against the real library BEFORE proving (generator of harness/validation/ms2_val_gen.py
  with `fetch_diff`, seed 20261002): 600 random instances, 501 in the class (359 outside `MSMaster`), keys defined
  on all: 422 differences equal to `ms2Diff` (284 non-empty), 79 clash errors agree with `ms2NoClash`,
  0 mismatches; the model's `fetchRoot … true` equals the specification (tree and consumed ids) on all 501.
  On the same run, Python's `M.fetch(M.fetch_diff(S))` equals `M.fetch(S)` on 383 of the 422 and differs (order
  of instances only) on 39 — finding D10; `M.fetch_diff(M.fetch(M.fetch_diff(S))) = M.fetch_diff(S)` on 422 of 422.
  Not covered: the working-set laws (`diff_of_working`, restoring as a tree) on this class — they need the
  rendering coherence of rebuilt candidates.
-/
import Phil.Proofs.FetchTreeMS4
import Phil.Props.C05TreeMS3
import Phil.Props.C08TreeMS
set_option linter.unusedVariables false

namespace Phil.C08
open Phil

/-! ### 1. the closed form -/

/-- **The difference in closed form, masters with further master occurrences (total).**  With fuel beyond the
    nesting depth plus one, variable-free master definitions and defined keys, `master.fetch_diff(sources)`
    succeeds exactly when no kinds clash (`ms2NoClash`, the test of the non-diff fetch — a clash may sit among
    the master's own further occurrences); its children are `ms2Diff`; the consumed ids are those of the
    non-diff fetch (`ms2Used`: the master-provided candidates mark nothing); a clash makes it fail with
    RuntimeError ("incompatible"). -/
theorem fetch_diff_ms2_total (e : Envs) (fuel : Nat) (sm : Meta) (mkids srcs : List Obj)
    (hf : MSMaster2 mkids) (hfuel : depthL mkids + 1 < fuel) (hsd : sm.disabled = false)
    (hsrc : SrcTree srcs) (hmsrc : SrcTree mkids) (hkeys : KeysDiffMS2 e [] mkids srcs) :
    fetchScope e fuel true sm mkids srcs =
      if ms2NoClash [] mkids srcs then
        .ok (.scope { sm with tmpl := 0 } (ms2Diff e [] mkids srcs), ms2Used [] mkids srcs)
      else .error (.runtime "incompatible" none) :=
  Phil.diff_ms2_total e fuel sm mkids srcs hf hfuel hsd hsrc hmsrc hkeys

/-- a successful difference is the specification -/
theorem fetch_diff_ms2_ok (e : Envs) (fuel : Nat) (sm : Meta) (mkids srcs : List Obj)
    (hf : MSMaster2 mkids) (hfuel : depthL mkids + 1 < fuel) (hsd : sm.disabled = false)
    (hsrc : SrcTree srcs) (hmsrc : SrcTree mkids) (hkeys : KeysDiffMS2 e [] mkids srcs)
    (rm : Meta) (D : List Obj) (used : List Nat)
    (h : fetchScope e fuel true sm mkids srcs = .ok (.scope rm D, used)) :
    ms2NoClash [] mkids srcs = true ∧ rm = { sm with tmpl := 0 } ∧ D = ms2Diff e [] mkids srcs ∧
      used = ms2Used [] mkids srcs :=
  Phil.diff_ms2_ok e fuel sm mkids srcs hf hfuel hsd hsrc hmsrc hkeys rm D used h

/-- **`master.fetch_diff(sources=…)`** on parsed roots: the fuel `fetchRoot` computes is adequate -/
theorem fetchRoot_diff_ms2 (e : Envs) (master : List Obj) (ss : List (List Obj))
    (hf : MSMaster2 master) (hd : depthL master ≤ 1000) (hsrc : SrcTree ss.flatten)
    (hmsrc : SrcTree master) (hkeys : KeysDiffMS2 e [] master ss.flatten) :
    fetchRoot e true master ss =
      if ms2NoClash [] master ss.flatten then
        .ok (.scope { name := [], id := some 0 } (ms2Diff e [] master ss.flatten), ms2Used [] master ss.flatten)
      else .error (.runtime "incompatible" none) :=
  Phil.fetchRoot_diff_ms2 e master ss hf hd hsrc hmsrc hkeys

/-- … with the side conditions in executable form (`masterCheck_ms2`, `srcCheck`, `keysDiffMS2B`) -/
theorem fetchRoot_diff_ms2_checked (e : Envs) (master : List Obj) (ss : List (List Obj))
    (hm : masterCheck_ms2 master = true) (hs : srcCheck ss.flatten = true)
    (hk : keysDiffMS2B e [] master ss.flatten = true) :
    fetchRoot e true master ss =
      if ms2NoClash [] master ss.flatten then
        .ok (.scope { name := [], id := some 0 } (ms2Diff e [] master ss.flatten), ms2Used [] master ss.flatten)
      else .error (.runtime "incompatible" none) :=
  have hM := masterCheck_ms2_sound master hm
  Phil.fetchRoot_diff_ms2 e master ss hM.tree hM.depth (srcCheck_sound ss.flatten hs).tree hM.srcTree
    (keysDiffMS2B_sound e master [] _ hk)

/-! ### 2. the rule spelled out; minimality; the blocking rule -/

/-- **the block of a `.multiple` scope with further master occurrences `FM` in a difference**: no template;
    `survivorsOf` (dropped when equal to the key of the master's own fetched block, of equal keys the last
    stays) over the NON-EMPTY difference candidates of the SOURCE blocks whose key is not the key of a non-empty
    difference candidate of a further master occurrence -/
theorem diff_ms2_multiple_scope_rule (e : Envs) (mm : Meta) (kids FM srcs : List Obj)
    (hmult : (mm.attrs.get "multiple").truthy = true) :
    md2Block e (.scope mm kids) FM srcs =
      survivorsOf (keyMS e (.scope mm kids) (ms2Cand e mm kids []))
        ((((scopesNamed mm.name srcs).filter (fun s => !(ms2Diff e [] kids s.children).isEmpty)).map (fun s =>
          (md2Cand e mm kids s.children, keyMS e (.scope mm kids) (md2Cand e mm kids s.children)))).filter
          (fun y => !((((scopesNamed mm.name FM).filter (fun s => !(ms2Diff e [] kids s.children).isEmpty)).map
            (fun s => keyMS e (.scope mm kids) (md2Cand e mm kids s.children))).contains y.2))) :=
  md2Block_multi_scope_eq e mm kids FM srcs hmult

/-- **the block of a `.multiple` definition with further master occurrences `FM` in a difference** -/
theorem diff_ms2_multiple_defn_rule (e : Envs) (mm : Meta) (mws : List Word) (FM srcs : List Obj)
    (hmult : isMultiple (.defn mm mws) = true) :
    md2Block e (.defn mm mws) FM srcs =
      survivorsOf (keyOf e 0 (.defn mm mws) (.defn mm mws))
        ((candsOf e 0 (.defn mm mws) (defsNamed mm.name srcs)).filter (fun y =>
          !((candsOf e 0 (.defn mm mws) (defsNamed mm.name FM)).map (·.2)).contains y.2)) :=
  md2Block_multi_defn_eq e mm mws FM srcs hmult

/-- the difference unfolds along the master: a first enabled occurrence contributes its block (its later
    enabled same-name siblings being its master-provided candidates), every other object nothing -/
theorem ms2Diff_cons (e : Envs) (seen : List Str) (mo : Obj) (rest srcs : List Obj)
    (hen : mo.meta.disabled = false) (hs : seen.contains mo.name = false) :
    ms2Diff e seen (mo :: rest) srcs =
      md2Block e mo (activeNamed mo.name rest) srcs ++ ms2Diff e (mo.name :: seen) rest srcs := by
  rw [ms2Diff]
  simp only [hen, hs, Bool.or_self, Bool.false_eq_true, if_false]

theorem ms2Diff_further (e : Envs) (seen : List Str) (mo : Obj) (rest srcs : List Obj)
    (hs : seen.contains mo.name = true) :
    ms2Diff e seen (mo :: rest) srcs = ms2Diff e seen rest srcs := by
  rw [ms2Diff]
  simp only [hs, Bool.or_true, if_true]

/-- **minimality and the blocking rule, `.multiple` scopes**: every instance of the difference is the
    non-empty difference candidate of an enabled SOURCE block; its key differs from the key of the master's own
    block AND from the key of every (non-empty) candidate built from a further master occurrence — a
    master-provided instance is never part of the difference and blocks the source instances equal to it -/
theorem diff_ms2_scope_minimal (e : Envs) (mm : Meta) (kids FM srcs : List Obj)
    (hmult : (mm.attrs.get "multiple").truthy = true) (o : Obj)
    (ho : o ∈ md2Block e (.scope mm kids) FM srcs) :
    ∃ s ∈ scopesNamed mm.name srcs, o = md2Cand e mm kids s.children ∧
      (ms2Diff e [] kids s.children).isEmpty = false ∧
      keyMS e (.scope mm kids) o ≠ keyMS e (.scope mm kids) (ms2Cand e mm kids []) ∧
      ∀ t ∈ scopesNamed mm.name FM, (ms2Diff e [] kids t.children).isEmpty = false →
        keyMS e (.scope mm kids) (md2Cand e mm kids t.children) ≠ keyMS e (.scope mm kids) o :=
  mem_md2Block_multi_scope e mm kids FM srcs hmult o ho

/-- **minimality and the blocking rule, `.multiple` definitions** -/
theorem diff_ms2_defn_minimal (e : Envs) (mm : Meta) (mws : List Word) (FM srcs : List Obj)
    (hmult : isMultiple (.defn mm mws) = true) (o : Obj)
    (ho : o ∈ md2Block e (.defn mm mws) FM srcs) :
    ∃ d ∈ defsNamed mm.name srcs, o = candOfSrc (.defn mm mws) d ∧
      keyOf e 0 (.defn mm mws) o ≠ keyOf e 0 (.defn mm mws) (.defn mm mws) ∧
      ∀ t ∈ defsNamed mm.name FM,
        keyOf e 0 (.defn mm mws) (candOfSrc (.defn mm mws) t) ≠ keyOf e 0 (.defn mm mws) o :=
  mem_md2Block_multi_defn e mm mws FM srcs hmult o ho

/-- the difference is nested no deeper than the master -/
theorem diff_ms2_depth (e : Envs) (mkids srcs : List Obj) :
    depthL (ms2Diff e [] mkids srcs) ≤ depthL mkids :=
  depthL_ms2Diff e mkids [] srcs

/-- **without sources the difference is empty** — whatever the master repeats: the further occurrences are
    never part of the difference -/
theorem self_diff_ms2_empty_nosrc (e : Envs) (mkids : List Obj) : ms2Diff e [] mkids [] = [] :=
  ms2Diff_nil_ms4 e mkids []

/-- … operationally: `master.fetch_diff()` of a master that does not clash with itself is the empty scope and
    consumes nothing -/
theorem fetch_diff_ms2_nosrc (e : Envs) (fuel : Nat) (sm : Meta) (mkids : List Obj)
    (hf : MSMaster2 mkids) (hfuel : depthL mkids + 1 < fuel) (hsd : sm.disabled = false)
    (hmsrc : SrcTree mkids) (hkeys : KeysDiffMS2 e [] mkids []) (hnc : ms2NoClash [] mkids [] = true) :
    ∃ used, fetchScope e fuel true sm mkids [] = .ok (.scope { sm with tmpl := 0 } [], used) := by
  rw [fetch_diff_ms2_total e fuel sm mkids [] hf hfuel hsd SrcTree.nil_ms hmsrc hkeys, hnc,
    self_diff_ms2_empty_nosrc]
  exact ⟨_, rfl⟩

/-- **empty scopes are dropped**: every scope of the difference, at any depth, has children -/
theorem diff_ms2_no_empty_scope (e : Envs) (fuel : Nat) (sm : Meta) (mkids srcs : List Obj)
    (hf : MSMaster2 mkids) (hfuel : depthL mkids + 1 < fuel) (hsd : sm.disabled = false)
    (hsrc : SrcTree srcs) (hmsrc : SrcTree mkids) (hkeys : KeysDiffMS2 e [] mkids srcs)
    (rm : Meta) (D : List Obj) (used : List Nat)
    (h : fetchScope e fuel true sm mkids srcs = .ok (.scope rm D, used))
    (m : Meta) (k : List Obj) (hx : ActiveIn (.scope m k) D) : k ≠ [] := by
  obtain ⟨_, _, hD, _⟩ := fetch_diff_ms2_ok e fuel sm mkids srcs hf hfuel hsd hsrc hmsrc hkeys rm D used h
  subst hD
  exact ms2Diff_no_empty_ms4 e mkids [] srcs m k hx

/-- **every member of the difference comes from a source**: a definition of a block is the candidate built
    from a source definition, a scope of a block is built from the body's difference against source objects —
    never a copy of a further master occurrence -/
theorem diff_ms2_block_members (e : Envs) (mm : Meta) (kids FM srcs : List Obj) (o : Obj)
    (ho : o ∈ md2Block e (.scope mm kids) FM srcs) :
    ∃ S, o = .scope { mm with tmpl := 0 } (ms2Diff e [] kids S) ∧ ms2Diff e [] kids S ≠ [] :=
  mem_md2Block_scope_ms4 e mm kids FM srcs o ho

/-- **conservative extension**: on `MSMaster` masters (one occurrence per name) `ms2Diff` is the `msDiff` of
    Props/C08TreeMS.lean — `fetch_diff_ms2_total` extends `fetch_diff_ms_total` -/
theorem diff_ms2_conservative (e : Envs) (mkids srcs : List Obj) (hf : MSMaster mkids) :
    ms2Diff e [] mkids srcs = msDiff e mkids srcs :=
  ms2Diff_eq_msDiff e mkids srcs hf

/-- **the master's own body as the source gives the empty difference** (`M.fetch_diff(M) = ∅`), further
    occurrences included: the copy of a first occurrence renders like the master (or has an empty difference),
    the copies of the further occurrences are blocked by the master-provided candidates they equal.  No
    hypothesis on the renderings.  (Python probe: `M.fetch_diff(source=M)` has no objects on 503 of 503 random
    masters of the class that do not clash with themselves.) -/
theorem master_as_source_diff_ms2 (e : Envs) (mkids : List Obj) (hf : MSMaster2 mkids)
    (hr : RefetchTree mkids) : ms2Diff e [] mkids mkids = [] :=
  ms2Diff_self e mkids hf hr

/-- … operationally -/
theorem fetch_diff_ms2_master_itself (e : Envs) (fuel : Nat) (sm : Meta) (mkids : List Obj)
    (hf : MSMaster2 mkids) (hfuel : depthL mkids + 1 < fuel) (hsd : sm.disabled = false)
    (hr : RefetchTree mkids) (hkeys : KeysDiffMS2 e [] mkids mkids)
    (hnc : ms2NoClash [] mkids mkids = true) :
    ∃ used, fetchScope e fuel true sm mkids mkids = .ok (.scope { sm with tmpl := 0 } [], used) := by
  have hst := srcTree_of_refetch_ms2 mkids hf hr
  rw [fetch_diff_ms2_total e fuel sm mkids mkids hf hfuel hsd hst hst hkeys, hnc,
    master_as_source_diff_ms2 e mkids hf hr]
  exact ⟨_, rfl⟩

/-- the hypotheses of `fetch_diff_ms2_master_itself` hold on the parsed instance of Props/C05TreeMS2.lean -/
example : (masterCheck_ms2 C05.ms2M && keysDiffMS2B C05.envTm [] C05.ms2M C05.ms2M &&
    ms2NoClash [] C05.ms2M C05.ms2M) = true := by
  decide +kernel

/-! ### 3. restoring: when the order of the instances is kept (finding D10, positive side) -/

/-- **restoring keeps the order of the instances when no source instance renders like a master-provided one.**
    List level — `A`: the candidates of the further master occurrences, `S`: those of the sources, each with its
    key; `k0`: the master's key.  Left: the list rule of a non-diff fetch over `A` followed by the instances of the
    difference (`survivors` of `S` minus the blocked ones) — what `M.fetch(M.fetch_diff(S))` keeps; right: what
    `M.fetch(S)` keeps.  (The hypothesis is sharp: `restore_ms2_reorders`; it is not necessary:
    `restore_ms2_blocked_same_order`.) -/
theorem restore_ms2_order {α : Type} (k0 : Str) (A S : List (α × Str))
    (h : ∀ s ∈ S, s.2 ∉ A.map (·.2)) :
    dedupKeepLast ((A ++ dedupKeepLast ((S.filter (fun y => !(A.map (·.2)).contains y.2)).filter
      (fun y => y.2 != k0))).filter (fun y => y.2 != k0)) =
    dedupKeepLast ((A ++ S).filter (fun y => y.2 != k0)) :=
  restore_order_list_ms4 k0 A S h

/-- **finding D10, positive side, at the level of the specification (`.multiple` definitions):** if no enabled
    source definition renders like a further master occurrence, merging the difference back restores the block
    of the working set EXACTLY — same template flag, same instances, same order.  `R` is any source list whose
    enabled definitions of that name are the block of the difference (`M.fetch_diff(S)` itself, for instance);
    `ms2Block e mo (FM ++ ·)` is the block of the non-diff fetch (`fetch_ms2_total`).  The hypothesis is sharp:
    `restore_ms2_reorders`. -/
theorem restore_ms2_defn_exact (e : Envs) (mm : Meta) (mws : List Word) (FM S R : List Obj)
    (hmult : isMultiple (.defn mm mws) = true) (hvr : mm.varRes = none)
    (hv : defsNamed mm.name R = md2Block e (.defn mm mws) FM S)
    (hno : ∀ s ∈ defsNamed mm.name S, ∀ t ∈ defsNamed mm.name FM,
      keyOf e 0 (.defn mm mws) (candOfSrc (.defn mm mws) s) ≠ keyOf e 0 (.defn mm mws) (candOfSrc (.defn mm mws) t)) :
    ms2Block e (.defn mm mws) (FM ++ R) = ms2Block e (.defn mm mws) (FM ++ S) :=
  restore_ms2_defn_block_ms4 e mm mws FM S R hmult hvr hv hno

/-- the listings `[W, D, W', D']` of the chain `W = M.fetch(S)`, `D = M.fetch_diff(S)`, `W' = M.fetch(D)`,
    `D' = M.fetch_diff(W')` evaluated on the model's `fetchRoot` -/
def chainViewsMS2 (e : Envs) (M S : List Obj) : List (List String) :=
  let W := C05.kidsOfMS2 (fetchRoot e false M [S])
  let D := C05.kidsOfMS2 (fetchRoot e true M [S])
  let W' := C05.kidsOfMS2 (fetchRoot e false M [D])
  let D' := C05.kidsOfMS2 (fetchRoot e true M [W'])
  [C05.dumpListMS "" W, C05.dumpListMS "" D, C05.dumpListMS "" W', C05.dumpListMS "" D']

/-- **finding D10 on a `.multiple` DEFINITION — the hypothesis of `restore_ms2_order` is sharp.**  Master
    `d = 1 (.multiple, int)  d = 2`, sources `d = 3  d = 2`: the source `d = 2` renders like the master-provided
    further occurrence and comes after the user instance `3`.  Working set `1(template) 3 2`; the difference is
    only `3` (`2` is blocked: marker `-1`); restoring gives `1 2 3` — same instances, ANOTHER ORDER; `D' = D`.
    Replayed on the real library: `W = ['D d -1 1', 'D d 0 3', 'D d 0 2']`, `D = ['D d 0 3']`,
    `M.fetch(D) = ['D d -1 1', 'D d 0 2', 'D d 0 3']`, `D' = ['D d 0 3']`. -/
theorem restore_ms2_reorders :
    let M := C05.tmObjs "d = 1\n.type=int\n.multiple=True\nd = 2\n"
    masterCheck_ms2 M = true ∧ keysDiffMS2B C05.envTm [] M (C05.tmObjs "d = 3\nd = 2\n") = true ∧
    chainViewsMS2 C05.envTm M (C05.tmObjs "d = 3\nd = 2\n") =
      [["D d -1 1", "D d 0 3", "D d 0 2"], ["D d 0 3"], ["D d -1 1", "D d 0 2", "D d 0 3"], ["D d 0 3"]] := by
  decide +kernel

/-- **the hypothesis of `restore_ms2_order` is not necessary**: sources `d = 2  d = 3` (the blocked instance
    first): the working set is `1(template) 2 3`, the difference `3`, the restored set `1 2 3` — the same order.
    Replayed on the real library (`W = M.fetch(D) = ['D d -1 1', 'D d 0 2', 'D d 0 3']`). -/
theorem restore_ms2_blocked_same_order :
    chainViewsMS2 C05.envTm (C05.tmObjs "d = 1\n.type=int\n.multiple=True\nd = 2\n") (C05.tmObjs "d = 2\nd = 3\n") =
      [["D d -1 1", "D d 0 2", "D d 0 3"], ["D d 0 3"], ["D d -1 1", "D d 0 2", "D d 0 3"], ["D d 0 3"]] := by
  decide +kernel

/-! ### 4. non-vacuity and sharpness (instances through the parser) -/

/-- the parsed instance of Props/C05TreeMS2.lean (a `.multiple` scope repeated, a `.multiple` definition
    repeated inside it and at top level) satisfies every hypothesis of `fetchRoot_diff_ms2_checked` -/
example : (masterCheck_ms2 C05.ms2M && srcCheck C05.ms2S && keysDiffMS2B C05.envTm [] C05.ms2M C05.ms2S &&
    ms2NoClash [] C05.ms2M C05.ms2S && !msMasterB C05.ms2M) = true := by
  decide +kernel

/-- the theorem applied to the instance (hypotheses discharged by kernel evaluation): the model's difference IS
    the specification -/
example : fetchRoot C05.envTm true C05.ms2M [C05.ms2S] =
    .ok (.scope { name := [], id := some 0 } (ms2Diff C05.envTm [] C05.ms2M C05.ms2S),
      ms2Used [] C05.ms2M C05.ms2S) := by
  have hfl : ([C05.ms2S] : List (List Obj)).flatten = C05.ms2S := by simp
  have h := fetchRoot_diff_ms2_checked C05.envTm C05.ms2M [C05.ms2S] (by decide +kernel)
    (by rw [hfl]; decide +kernel) (by rw [hfl]; decide +kernel)
  rw [hfl] at h
  rw [h, show ms2NoClash [] C05.ms2M C05.ms2S = true by decide +kernel]
  rfl

/-- … and what it is: the source blocks `s.h = 2` (equal to the further occurrence `s { h = 2 }`) and `d = 2`
    (equal to the further occurrence `d = 2`) are BLOCKED, `d = 1` equals the master.  Replayed on the real
    library: `M.fetch_diff(S)` lists `['S s 0', 'D s.h 0 3', 'S s 0', 'D s.c 0 z', 'D d 0 4']`. -/
theorem diff_ms2_instance :
    C05.dumpListMS "" (ms2Diff C05.envTm [] C05.ms2M C05.ms2S) =
      ["S s 0", "D s.h 0 3", "S s 0", "D s.c 0 z", "D d 0 4"] := by
  decide +kernel

/-- **the hypothesis `KeysDiffMS2` is sharp — already for a master-provided candidate and no source**: the
    further occurrence `d = maybe` of the `.multiple` bool `d = yes` does not convert; the master is in the
    class, nothing clashes, `keysDiffMS2B` is false and the difference raises the converter's error (replayed
    on the real library: `RuntimeError: One True or False value expected, d="maybe" found (input line 4)`) -/
theorem keysDiff_ms2_needed :
    masterCheck_ms2 (C05.tmObjs "d = yes\n.type=bool\n.multiple=True\nd = maybe\n") = true ∧
    keysDiffMS2B C05.envTm [] (C05.tmObjs "d = yes\n.type=bool\n.multiple=True\nd = maybe\n") [] = false ∧
    ms2NoClash [] (C05.tmObjs "d = yes\n.type=bool\n.multiple=True\nd = maybe\n") [] = true ∧
    errOf (fetchRoot C05.envTm true (C05.tmObjs "d = yes\n.type=bool\n.multiple=True\nd = maybe\n") []) =
      some (.runtime "bool_expected" (some 4)) := by
  decide +kernel

/-- **the fuel bound is sharp** on an instance with further occurrences: with `fuel = depthL mkids + 1` (enough
    for the non-diff fetch) the difference runs out of fuel at the deepest definition; one more suffices -/
theorem diff_ms2_fuel_needed :
    depthL C05.ms2M = 1 ∧
      errOf (fetchScope C05.envTm 2 true { name := [], id := some 0 } C05.ms2M C05.ms2S) = some .outOfFuel ∧
      errOf (fetchScope C05.envTm 2 false { name := [], id := some 0 } C05.ms2M C05.ms2S) = none ∧
      errOf (fetchScope C05.envTm 3 true { name := [], id := some 0 } C05.ms2M C05.ms2S) = none := by
  decide +kernel

end Phil.C08

#print axioms Phil.C08.fetch_diff_ms2_total
#print axioms Phil.C08.fetch_diff_ms2_ok
#print axioms Phil.C08.fetchRoot_diff_ms2
#print axioms Phil.C08.fetchRoot_diff_ms2_checked
#print axioms Phil.C08.diff_ms2_multiple_scope_rule
#print axioms Phil.C08.diff_ms2_multiple_defn_rule
#print axioms Phil.C08.ms2Diff_cons
#print axioms Phil.C08.ms2Diff_further
#print axioms Phil.C08.diff_ms2_scope_minimal
#print axioms Phil.C08.diff_ms2_defn_minimal
#print axioms Phil.C08.diff_ms2_depth
#print axioms Phil.C08.self_diff_ms2_empty_nosrc
#print axioms Phil.C08.fetch_diff_ms2_nosrc
#print axioms Phil.C08.diff_ms2_no_empty_scope
#print axioms Phil.C08.diff_ms2_block_members
#print axioms Phil.C08.diff_ms2_conservative
#print axioms Phil.C08.master_as_source_diff_ms2
#print axioms Phil.C08.fetch_diff_ms2_master_itself
#print axioms Phil.C08.restore_ms2_order
#print axioms Phil.C08.restore_ms2_defn_exact
#print axioms Phil.C08.restore_ms2_reorders
#print axioms Phil.C08.restore_ms2_blocked_same_order
#print axioms Phil.C08.diff_ms2_instance
#print axioms Phil.C08.keysDiff_ms2_needed
#print axioms Phil.C08.diff_ms2_fuel_needed
