/-
  C10 on whole trees — "For every typed parameter and every value text a user can supply, extraction
  either raises an error naming the parameter, or returns a value in the declared domain."

  Phil/Props/C10.lean proves this for one `type.from_words` call.  Here it is lifted to
  `scope.extract` of a whole tree:
    1. `extract_closed`, `extract_tree_closed` — the fuelled model `extractObj` equals the structural
       specification `extractSpec` (no fuel) on every tree without `.multiple` whose sibling names
       are pairwise distinct; the fields are, in document order, one per child that is not a
       template placeholder: `None` for disabled children and templates, the child's own extraction
       otherwise (`extract_fields_spec`, `extract_ok_iff`, `extract_field_names`);
    2. `value_at_path` — the value found in the result under a path is the conversion of the words of
       the definition at that path; `extract_tree_in_domain` — hence it lies in the declared domain;
       `extract_error_from_leaf` — and a failure of the extraction is the converter's failure on one
       enabled definition of the tree (the first in document order);
    3. `fetchRoot_extract_in_domain` — `master.fetch(sources).extract()` for a nested master without
       `.multiple` and ARBITRARY sources: the "incompatible" RuntimeError of the fetch, a converter
       error on the final words of one master definition, or a record holding at the path of every
       master definition a value of its declared domain;
    4. a recorded finding (`disabled_definition_leaves_domain`) and kernel-checked instances through
       the parser, each replayed on the Python library.
  Property theorems only; lemmas are in Phil/Proofs/ExtractTree.lean.
-/
import Phil.Proofs.ExtractTree
import Phil.Props.C10
import Phil.Props.C16Fetch
namespace Phil.C10
open Phil

/-! ### 1. the closed form of `scope.extract`

  Specification functions (Phil/Proofs/ExtractTree.lean):
  ```
  extractSpec e (.defn m ws)     = extractDefn e m ws            -- type.from_words(words, master)
  extractSpec e (.scope _ kids)  = (extractSpecKids e kids).map PVal.record
  extractSpecKids e []           = .ok []
  extractSpecKids e (o :: os)    =
    if o.meta.tmpl < 0 then extractSpecKids e os                                   -- placeholder
    else if o.meta.disabled || o.meta.tmpl > 0 then ((o.name, None) :: ·) <$> extractSpecKids e os
    else match extractSpec e o with
         | .error err => .error err
         | .ok v      => ((o.name, v) :: ·) <$> extractSpecKids e os
  ```
  `DObj_xt o`: nothing is `.multiple`, sibling names are pairwise distinct at every depth (objects may
  be disabled, templates, wordless).  `XObj_ns` of C16 implies it. -/

/-- **closed form of `scope.extract` / `definition.extract`**: with fuel beyond the depth the
    fuelled model is the structural specification — results and errors alike. -/
theorem extract_closed (e : Envs) (fuel : Nat) (o : Obj) (hx : DObj_xt o) (hd : depthT o < fuel) :
    extractObj e fuel o = extractSpec e o :=
  extractObj_eq_spec_xt e fuel o hx hd

/-- … in particular on the trees of `Phil.C16.extract_distinct_no_stray` -/
theorem extract_closed_xobj (e : Envs) (fuel : Nat) (o : Obj) (hx : XObj_ns o) (hd : depthT o < fuel) :
    extractObj e fuel o = extractSpec e o :=
  extractObj_eq_spec_xt e fuel o (dobj_of_xobj_xt o hx) hd

/-- **`extract_tree_closed`**: the extraction of a scope succeeds with the record `fields` exactly
    when the specification of its children yields `fields`.  (The root's own meta data play no
    role.) -/
theorem extract_tree_closed (e : Envs) (fuel : Nat) (m : Meta) (kids : List Obj) (fields : List (Str × PVal))
    (hk : DKids_xt kids) (hpw : (kids.map Obj.name).Pairwise (· ≠ ·)) (hd : depthL kids + 1 < fuel) :
    extractObj e fuel (.scope m kids) = .ok (.record fields) ↔ extractSpecKids e kids = .ok fields := by
  rw [extractObj_root_eq_spec_xt e fuel m kids hk hpw hd, extractSpec]
  cases extractSpecKids e kids with
  | error err => simp [Except.map]
  | ok fs => simp [Except.map]

/-- the specification of the children as one map: for every child that is not a template
    placeholder (`liveKids`), in order, the pair of its name and `kidValue` — `None` when the child is
    disabled or a template, its own extraction otherwise; the first error wins (`mapR`) -/
theorem extract_fields_spec (e : Envs) (kids : List Obj) :
    extractSpecKids e kids = mapR (fun o => (kidValue e o).map (fun v => (o.name, v))) (liveKids kids) :=
  extractSpecKids_eq_mapR_xt e kids

/-- the extraction of the children succeeds iff every leaf extraction (every `kidValue`) succeeds -/
theorem extract_ok_iff (e : Envs) (kids : List Obj) :
    (∃ fields, extractSpecKids e kids = .ok fields) ↔ ∀ o ∈ liveKids kids, ∃ v, kidValue e o = .ok v := by
  rw [extract_fields_spec, mapR_ok_iff_xt]
  constructor
  · intro h o ho
    obtain ⟨y, hy⟩ := h o ho
    cases hv : kidValue e o with
    | error err => rw [hv] at hy; cases hy
    | ok v => exact ⟨v, rfl⟩
  · intro h o ho
    obtain ⟨v, hv⟩ := h o ho
    exact ⟨(o.name, v), by rw [hv]; rfl⟩

/-- … and then the fields carry the names of these children, in order, each with its value -/
theorem extract_field_names (e : Envs) (kids : List Obj) (fields : List (Str × PVal))
    (h : extractSpecKids e kids = .ok fields) :
    fields.map (fun p => p.1) = (liveKids kids).map Obj.name ∧
    ∀ o ∈ liveKids kids, ∃ v, kidValue e o = .ok v ∧ (o.name, v) ∈ fields := by
  rw [extract_fields_spec] at h
  constructor
  · refine mapR_names_xt _ Obj.name (fun p => p.1) ?_ _ _ h
    intro o y hy
    cases hv : kidValue e o with
    | error err => rw [hv] at hy; cases hy
    | ok v => rw [hv] at hy; cases hy; rfl
  · intro o ho
    obtain ⟨y, hy, hg⟩ := mapR_mem_xt _ _ _ h o ho
    cases hv : kidValue e o with
    | error err => rw [hv] at hg; cases hg
    | ok v => rw [hv] at hg; cases hg; exact ⟨v, rfl, hy⟩

/-! ### 2. C10 on a whole tree

  `defAt kids ps n` (Phil/Proofs/FetchTree.lean) is the definition reached by the scope names `ps`
  and the final name `n`; `valueAt v ps n` the value stored under that path in the record `v`;
  `livePath_xt kids ps n` says that every object on the path is enabled and not a template;
  `declConv m` is the declared converter (`strings` when there is no `.type`). -/

/-- **the value at a path is the conversion of the definition at that path** -/
theorem value_at_path (e : Envs) (fuel : Nat) (m : Meta) (kids : List Obj) (v : PVal)
    (hk : DKids_xt kids) (hpw : (kids.map Obj.name).Pairwise (· ≠ ·)) (hd : depthL kids + 1 < fuel)
    (h : extractObj e fuel (.scope m kids) = .ok v)
    (ps : List Str) (n : Str) (dm : Meta) (dws : List Word)
    (hdef : defAt kids ps n = some (.defn dm dws)) (hlive : livePath_xt kids ps n = true) :
    ∃ leaf, valueAt v ps n = some leaf ∧ extractDefn e dm dws = .ok leaf := by
  rw [extractObj_root_eq_spec_xt e fuel m kids hk hpw hd] at h
  obtain ⟨fs, rfl, hfs⟩ := extractSpec_scope_record_xt e m kids v h
  exact valueAt_extract_xt e ps kids fs n dm dws hk hpw hfs hdef hlive

/-- **C10, whole tree (`extract_tree_in_domain`).**  If the extraction of a tree (no `.multiple`,
    distinct sibling names) succeeds with `v`, then for every path to a definition all of whose
    ancestors, and itself, are enabled and not templates, `v` holds at that path the value
    `from_words` gives for the definition's words, and that value lies in the domain of the declared
    type (`InDomain`, spelled out per type in Phil/Props/C10.lean); an untyped definition is a
    `strings`. -/
theorem extract_tree_in_domain (e : Envs) (fuel : Nat) (m : Meta) (kids : List Obj) (v : PVal)
    (hk : DKids_xt kids) (hpw : (kids.map Obj.name).Pairwise (· ≠ ·)) (hd : depthL kids + 1 < fuel)
    (h : extractObj e fuel (.scope m kids) = .ok v)
    (ps : List Str) (n : Str) (dm : Meta) (dws : List Word)
    (hdef : defAt kids ps n = some (.defn dm dws)) (hlive : livePath_xt kids ps n = true) :
    ∃ c leaf, declConv dm = some c ∧ valueAt v ps n = some leaf ∧
      fromWords c e.eval (dm.attrs.get "optional") dws = .ok leaf ∧ InDomain c leaf = true := by
  obtain ⟨leaf, h1, h2⟩ := value_at_path e fuel m kids v hk hpw hd h ps n dm dws hdef hlive
  obtain ⟨c, hc, hfw⟩ := extractDefn_ok_conv_xt e dm dws leaf h2
  exact ⟨c, leaf, hc, h1, hfw, fromWords_in_domain c e.eval _ dws leaf hfw⟩

/-- the same for the trees of C16 (`XObj_ns`) -/
theorem extract_xobj_in_domain (e : Envs) (fuel : Nat) (m : Meta) (kids : List Obj) (v : PVal)
    (hx : XObj_ns (.scope m kids)) (hd : depthL kids + 1 < fuel)
    (h : extractObj e fuel (.scope m kids) = .ok v)
    (ps : List Str) (n : Str) (dm : Meta) (dws : List Word)
    (hdef : defAt kids ps n = some (.defn dm dws)) (hlive : livePath_xt kids ps n = true) :
    ∃ c leaf, declConv dm = some c ∧ valueAt v ps n = some leaf ∧
      fromWords c e.eval (dm.attrs.get "optional") dws = .ok leaf ∧ InDomain c leaf = true := by
  have hdo := dobj_of_xobj_xt _ hx
  rw [DObj_xt] at hdo
  exact extract_tree_in_domain e fuel m kids v hdo.2.1 hdo.2.2 hd h ps n dm dws hdef hlive

/-- **the other branch: an error is the error of one parameter.**  If the extraction of the tree
    fails with `err`, then `err` is what `definition.extract` raises for one definition of the tree,
    reached by a path of enabled non-template objects (the message of the Python error cites that
    definition's words: `Err.runtime site line`). -/
theorem extract_error_from_leaf (e : Envs) (fuel : Nat) (m : Meta) (kids : List Obj) (err : Err)
    (hk : DKids_xt kids) (hpw : (kids.map Obj.name).Pairwise (· ≠ ·)) (hd : depthL kids + 1 < fuel)
    (h : extractObj e fuel (.scope m kids) = .error err) :
    ∃ ps n dm dws, defAt kids ps n = some (.defn dm dws) ∧ livePath_xt kids ps n = true ∧
      extractDefn e dm dws = .error err := by
  rw [extractObj_root_eq_spec_xt e fuel m kids hk hpw hd] at h
  exact extractSpec_error_leaf_xt e m kids err hpw hk h

/-! ### 3. fetch, then extract

  `treeWords_xt mm mws srcs` are the final words of a master definition: those of the last enabled
  source definition of its name among `srcs`, the master's own if there is none; `srcAt srcs ps` are
  the source objects reached by the scope names `ps` (Phil/Props/C05Tree.lean). -/

/-- **C10, `master.fetch(sources).extract()` (`fetchRoot_extract_in_domain`).**  For a nested master
    without `.multiple` (`TreeMaster`, depth ≤ 1000) and arbitrary sources (`SrcTree`: enabled
    definitions resolve, enabled scopes are named), with extraction fuel beyond the depth:
    * the fetch fails with RuntimeError "incompatible" (a scope where the master has a definition or
      vice versa), or
    * the fetch succeeds and the extraction fails with the error `definition.extract` raises for the
      final words of one master definition, or
    * both succeed, and at the path of every master definition (not a template) the result holds the
      conversion of that definition's final words — a value of the declared domain. -/
theorem fetchRoot_extract_in_domain (e : Envs) (master : List Obj) (ss : List (List Obj))
    (hf : TreeMaster master) (hd : depthL master ≤ 1000) (hsrc : SrcTree ss.flatten)
    (xfuel : Nat) (hx : depthL master + 1 < xfuel) :
    fetchRoot e false master ss = .error (.runtime "incompatible" none) ∨
    ∃ ro used, fetchRoot e false master ss = .ok (ro, used) ∧
      ((∃ err ps n mm mws, extractObj e xfuel ro = .error err ∧
          defAt master ps n = some (.defn mm mws) ∧
          extractDefn e mm (treeWords_xt mm mws (srcAt ss.flatten ps)) = .error err) ∨
       (∃ v, extractObj e xfuel ro = .ok v ∧
          ∀ ps n mm mws, defAt master ps n = some (.defn mm mws) → mm.tmpl = 0 →
            ∃ c leaf, declConv mm = some c ∧ valueAt v ps n = some leaf ∧
              fromWords c e.eval (mm.attrs.get "optional")
                (treeWords_xt mm mws (srcAt ss.flatten ps)) = .ok leaf ∧
              InDomain c leaf = true)) := by
  rw [fetchRoot_tree e master ss hf hd hsrc]
  cases hnc : noClash master ss.flatten with
  | false => exact .inl rfl
  | true =>
    right
    simp only [if_true]
    refine ⟨_, _, rfl, ?_⟩
    have hdk := dkids_treeResult_xt master ss.flatten hf.kids
    have hpw : ((treeResult master ss.flatten).map Obj.name).Pairwise (· ≠ ·) := by
      rw [treeResult_names]; exact hf.distinct
    have hdepth : depthL (treeResult master ss.flatten) + 1 < xfuel := by
      rw [depthL_treeResult_ns]; exact hx
    rw [extractObj_root_eq_spec_xt e xfuel _ _ hdk hpw hdepth]
    obtain ⟨herr, hok⟩ := extract_treeResult_xt e { name := [], id := some 0 } master ss.flatten hf
    cases hx : extractSpec e (.scope { name := [], id := some 0 } (treeResult master ss.flatten)) with
    | error err =>
      obtain ⟨ps, n, mm, mws, h1, h2⟩ := herr err hx
      exact .inl ⟨err, ps, n, mm, mws, rfl, h1, h2⟩
    | ok v =>
      refine .inr ⟨v, rfl, ?_⟩
      intro ps n mm mws hdef h0
      obtain ⟨leaf, h1, h2⟩ := hok v hx ps n mm mws hdef h0
      obtain ⟨c, hc, hfw⟩ := extractDefn_ok_conv_xt e mm _ leaf h2
      exact ⟨c, leaf, hc, h1, hfw, fromWords_in_domain c e.eval _ _ leaf hfw⟩

/-- the class of the extraction error, when master and sources carry at least one word per
    definition (what the parser delivers): a RuntimeError of the converter, or a text outside the
    modelled domain (`Phil.C16.extract_tree_no_stray`) -/
theorem fetchRoot_extract_error_class (e : Envs) (master : List Obj) (ss : List (List Obj))
    (hf : TreeMaster master) (hd : depthL master ≤ 1000) (hsrc : SrcTree ss.flatten)
    (hw : wordsKidsB_ns master = true) (hs : SrcWords_ns ss.flatten)
    (xfuel : Nat) (hx : depthL master + 1 < xfuel) (ro : Obj) (used : List Nat)
    (h : fetchRoot e false master ss = .ok (ro, used)) (err : Err)
    (he : extractObj e xfuel ro = .error err) :
    (∃ s l, err = .runtime s l) ∨ (∃ w, err = .unsupported w) :=
  Phil.C16.extract_tree_no_stray e _ xfuel _ master ss.flatten hf (fetchRoot_fuel_tree master hd) rfl hsrc hw
    hs hx ro used h err he

/-! ### 4. a recorded finding: a disabled definition leaves its declared domain

  `scope.extract` hands `None` to `__phil_set__` for a disabled object, whatever its type: a
  parameter declared `int(allow_none=False)` that is switched off with `!` extracts as `None`, which
  the type excludes.  (Model and Python agree; the theorems above therefore speak about enabled
  paths.) -/

/-- the smallest instance: `!a = 1  .type = int(allow_none=False)` extracts as `a = None`, and `None`
    is outside the declared domain -/
theorem disabled_definition_leaves_domain (e : Envs) (ws : List Word) :
    extractObj e 2 (.scope { name := [] }
      [.defn { name := "a".toList, disabled := true,
               attrs := [("type", .conv (.int { allowNone := false }))] } ws])
      = .ok (.record [("a".toList, .none)]) ∧
    InDomain (.int { allowNone := false }) .none = false := ⟨rfl, rfl⟩

/-! ### 5. instances through the parser (each replayed on the Python library) -/

def objsT (t : String) : List Obj :=
  match parseObjs t.toList with
  | .ok m => m
  | .error _ => []

/-- `eval`: decimal integer literals only; `"%.10g"` is not needed -/
def envT : Envs := { eval := fun s => (parseIntLit s).map (fun i => .num (.int i)), fmt := fun _ => none }

/-- a three-level master: `a` (int ≥ 0); `s.b` (bool), `s.name` (str); `s.t.ns` (at most 4 ints),
    `s.t.c` (choice) -/
def masterT : String :=
  "a = 1\n.type = int(value_min=0)\ns {\n  b = yes\n  .type = bool\n  name = \"x y\"\n  .type = str\n  t {\n    ns = 1 2 3\n    .type = ints(size_max=4)\n    c = *red green blue\n    .type = choice\n  }\n}\n"

/-- the same without the choice (`TreeMaster` excludes choices: their fetch rewrites the words) -/
def masterP : String :=
  "a = 1\n.type = int(value_min=0)\ns {\n  b = yes\n  .type = bool\n  name = \"x y\"\n  .type = str\n  t {\n    ns = 1 2 3\n    .type = ints(size_max=4)\n  }\n}\n"

/-- `master.fetch(source).extract()` -/
def fetchExtractT (m s : String) : R PVal :=
  match fetchRoot envT false (objsT m) [objsT s] with
  | .error err => .error err
  | .ok (ro, _) => extractObj envT 50 ro

/-- the result is the value `v` -/
def yields (r : R PVal) (v : PVal) : Bool :=
  match r with
  | .ok x => pvalBeq_xt x v
  | .error _ => false

theorem yields_sound {r : R PVal} {v : PVal} (h : yields r v = true) : r = .ok v := by
  unfold yields at h
  cases r with
  | error err => cases h
  | ok x => rw [pvalBeq_sound_xt x v h]

private def S (s : String) : Str := s.toList
private def I (i : Int) : PVal := .num (.int i)

/-- no source: the master's own values -/
example : yields (fetchExtractT masterT "")
    (.record [(S "a", I 1), (S "s", .record [(S "b", .bool true), (S "name", .str (S "x y")),
      (S "t", .record [(S "ns", .list [I 1, I 2, I 3]), (S "c", .str (S "red"))])])]) = true := by
  decide +kernel

/-- a parameter file touching every leaf, in another order and with dotted names -/
example : yields (fetchExtractT masterT "s.t.c = blue\na = 7\ns {\n b = no\n t.ns = 4 5\n}\n")
    (.record [(S "a", I 7), (S "s", .record [(S "b", .bool false), (S "name", .str (S "x y")),
      (S "t", .record [(S "ns", .list [I 4, I 5]), (S "c", .str (S "blue"))])])]) = true := by
  decide +kernel

/-- a disabled source definition is ignored -/
example : yields (fetchExtractT masterT "!a = 5\n")
    (.record [(S "a", I 1), (S "s", .record [(S "b", .bool true), (S "name", .str (S "x y")),
      (S "t", .record [(S "ns", .list [I 1, I 2, I 3]), (S "c", .str (S "red"))])])]) = true := by
  decide +kernel

/-- user mistakes: each is the converter's RuntimeError citing the line of the offending value -/
example : Phil.errOf (fetchExtractT masterT "a = -1\n") = some (.runtime "value_min" (some 1)) := by
  decide +kernel
example : Phil.errOf (fetchExtractT masterT "s.t.ns = 1 2 3 4 5\n") = some (.runtime "too_many" (some 1)) := by
  decide +kernel
example : Phil.errOf (fetchExtractT masterT "x = 0\ns.b = maybe\n") = some (.runtime "bool_expected" (some 2)) := by
  decide +kernel
/-- a scope where the master has a definition: refused by the fetch -/
example : Phil.errOf (fetchExtractT masterT "a {\n x = 3\n}\n") = some (.runtime "incompatible" none) := by
  decide +kernel
/-- a name that is not an alternative of the choice: refused by the fetch with Sorry -/
example : Phil.errOf (fetchExtractT masterT "s.t.c = purple\n")
    = some (.sorry_ "not_a_possible_choice" [S "*red", S "green", S "blue"]) := by
  decide +kernel

/-- `masterP` satisfies the executable hypotheses of `fetchRoot_extract_in_domain` -/
example : (treeMasterB (objsT masterP) && depthL (objsT masterP) == 2 && wordsKidsB_ns (objsT masterP)) = true := by
  decide +kernel

/-- **the theorem applied to the parsed master and a parsed parameter file**: whatever the outcome,
    it is one of the three; in the last the record holds at `s.t.ns` a value of the domain of the
    type declared there (`mm`, `mws`: the master definition at that path). -/
example (mm : Meta) (mws : List Word)
    (hdef : defAt (objsT masterP) [S "s", S "t"] (S "ns") = some (.defn mm mws)) (h0 : mm.tmpl = 0) :
    fetchRoot envT false (objsT masterP) [objsT "a = 7\ns {\n b = no\n t.ns = 4 5\n}\n"]
        = .error (.runtime "incompatible" none) ∨
    ∃ ro used, fetchRoot envT false (objsT masterP) [objsT "a = 7\ns {\n b = no\n t.ns = 4 5\n}\n"] = .ok (ro, used) ∧
      ((∃ err, extractObj envT 50 ro = .error err) ∨
       (∃ v c leaf, extractObj envT 50 ro = .ok v ∧ declConv mm = some c ∧
          valueAt v [S "s", S "t"] (S "ns") = some leaf ∧ InDomain c leaf = true)) := by
  have hfl : ([objsT "a = 7\ns {\n b = no\n t.ns = 4 5\n}\n"] : List (List Obj)).flatten
      = objsT "a = 7\ns {\n b = no\n t.ns = 4 5\n}\n" := by simp
  rcases fetchRoot_extract_in_domain envT (objsT masterP) [objsT "a = 7\ns {\n b = no\n t.ns = 4 5\n}\n"]
    (treeMasterB_sound _ (by decide +kernel)) (by decide +kernel)
    (by rw [hfl]; exact (srcCheck_sound _ (by decide +kernel)).tree) 50 (by decide +kernel) with h | ⟨ro, used, h, h2⟩
  · exact .inl h
  · refine .inr ⟨ro, used, h, ?_⟩
    rcases h2 with ⟨err, _, _, _, _, he, _⟩ | ⟨v, hv, hall⟩
    · exact .inl ⟨err, he⟩
    · obtain ⟨c, leaf, hc, h1, _, h3⟩ := hall [S "s", S "t"] (S "ns") mm mws hdef h0
      exact .inr ⟨v, c, leaf, hv, hc, h1, h3⟩

/-- … the master definition at `s.t.ns` is not a template and declares `ints(size_max=4)` -/
example : (match defAt (objsT masterP) [S "s", S "t"] (S "ns") with
    | some (.defn mm _) => mm.tmpl == 0 && declConv mm == some (.ints { sizeMax := some 4 })
    | _ => false) = true := by
  decide +kernel

/-- **a tree with a choice**: `extract_tree_in_domain` applies to any tree with distinct sibling
    names — here to the result of the fetch of `masterT`, at the path `s.t.c` -/
example (ro : Obj) (used : List Nat) (kids : List Obj)
    (hro : ro = .scope { name := [], id := some 0 } kids)
    (h : fetchRoot envT false (objsT masterT) [objsT "s.t.c = blue\n"] = .ok (ro, used))
    (hshape : (dkidsB_xt kids && decide ((kids.map Obj.name).Pairwise (· ≠ ·)) && decide (depthL kids = 2)
      && livePath_xt kids [S "s", S "t"] (S "c")) = true)
    (dm : Meta) (dws : List Word) (hdef : defAt kids [S "s", S "t"] (S "c") = some (.defn dm dws))
    (v : PVal) (hv : extractObj envT 50 ro = .ok v) :
    ∃ c leaf, declConv dm = some c ∧ valueAt v [S "s", S "t"] (S "c") = some leaf ∧ InDomain c leaf = true := by
  simp only [Bool.and_eq_true, decide_eq_true_eq] at hshape
  subst hro
  obtain ⟨c, leaf, h1, h2, _, h4⟩ := extract_tree_in_domain envT 50 _ kids v (dkidsB_sound_xt _ hshape.1.1.1)
    hshape.1.1.2 (by rw [hshape.1.2]; decide) hv _ _ dm dws hdef hshape.2
  exact ⟨c, leaf, h1, h2, h4⟩

/-- … whose shape hypothesis holds for the actual result (kernel evaluation) -/
example : (match fetchRoot envT false (objsT masterT) [objsT "s.t.c = blue\n"] with
    | .ok (.scope _ kids, _) =>
      dkidsB_xt kids && decide ((kids.map Obj.name).Pairwise (· ≠ ·)) && decide (depthL kids = 2)
        && livePath_xt kids [S "s", S "t"] (S "c")
    | _ => false) = true := by
  decide +kernel

/-- the finding of §4 through the parser: `!a = 1` of type `int(allow_none=False)` extracts as `None` -/
example : yields (extractObj envT 50 (.scope { name := [] } (objsT "!a = 1\n.type = int(allow_none=False)\nb = 2\n")))
    (.record [(S "a", .none), (S "b", .list [.str (S "2")])]) = true := by
  decide +kernel

end Phil.C10
