/-
  C05 (the list rule) — "multiples accumulate": what `fetch` builds for a `.multiple` master
  definition, exactly; and C07 for those masters: re-fetching the result reproduces it.

  Model: Phil/Fetch.lean (`fetchScope`, multiple branch = `multiBranch`/`cstepG`/`cAccept` of
  Phil/Proofs/FetchLemmas.lean).  Lemmas: Phil/Proofs/FetchSpec.lean, parts B and C.

  The rule (non-diff mode).  Let `mo` be a `.multiple` master definition without further master
  occurrences of its name, `k₀ = mo.extract_format(mo).as_str()` its key, `d₁ … dₙ` the matching
  enabled source definitions in source order, `cᵢ = fetch_value(mo, dᵢ)` the candidates and
  `kᵢ = mo.extract_format(cᵢ).as_str()` their keys.  The block of `mo` in the result is

        template :: survivors

  where `survivors = (dedupKeepLast [(cᵢ,kᵢ) | kᵢ ≠ k₀]).map fst`: candidates whose key is the
  master's are dropped; among candidates with equal keys only the LAST occurrence stays; the
  survivors keep their relative source order, i.e. they are ordered by the position of their last
  occurrence (the code blanks the earlier copy and appends the later one).  The template is `mo`
  with `is_template` = `0` if `mo` is mandatory (`optional` set and false), else `1` if there is no
  survivor, else `-1`.  Every matching source definition is marked as consumed.

  Class covered by the whole-result theorems (unbounded: every such master, every source list,
  every fuel): masters whose children are enabled definitions with pairwise distinct non-empty
  names, not `.deprecated`, not choices, `.multiple` or not, typed or not (`FlatMultiMaster`);
  root level; definition-only `SrcOK` sources (or mixed with scopes, `fetch_flat_multi_mixed`);
  the compared keys must be defined (`KeysDefined`: `extract_format` succeeds on the master
  definition and on every candidate — it is kept abstract, the theorems hold for every `Envs`).
  The one-step theorem `multiple_list_rule_step` holds inside ANY master.
-/
import Phil.Proofs.FetchSpec
set_option linter.unusedVariables false
namespace Phil.C05
open Phil

/-! ### the specification function -/

/-- `dedupKeepLast` keeps a sub-list: the survivors stay in source order … -/
theorem survivors_in_order {α : Type} (l : List (α × Str)) : (dedupKeepLast l).Sublist l :=
  dedupKeepLast_sublist l

/-- … an entry survives iff no LATER entry carries its key … -/
theorem survives_iff {α : Type} (x : α × Str) (l : List (α × Str)) :
    x ∈ dedupKeepLast l ↔ ∃ pre post, l = pre ++ x :: post ∧ ∀ y ∈ post, y.2 ≠ x.2 :=
  mem_dedupKeepLast x l

/-- … so the surviving keys are pairwise distinct … -/
theorem survivors_distinct {α : Type} (l : List (α × Str)) :
    ((dedupKeepLast l).map (·.2)).Pairwise (· ≠ ·) :=
  dedupKeepLast_keys_distinct l

/-- … and the left-to-right reading of the code computes the same list: a candidate with the master's
    key is skipped, any other one removes the earlier survivor with its key and goes to the end. -/
theorem left_to_right (k0 : Str) (cks : List (Obj × Str)) :
    cks.foldl (accStep k0) [] = dedupKeepLast (cks.filter (fun y => y.2 != k0)) :=
  foldl_accStep_nil k0 cks

example : (dedupKeepLast [(1, ['p']), (2, ['q']), (3, ['p']), (4, ['r']), (5, ['q'])]).map (·.1) = [3, 4, 5] := by
  decide

/-! ### one master child, any master -/

/-- **The list rule (one iteration of the master loop, any master).**  For a `.multiple` master
    definition `mo = .defn mm mws` at index `idx` with no further enabled master object of its name
    (`fromMasterOf … = []`), whose key is `k0`, and whose matching sources `M` yield the candidates
    and keys `cks` (`CandLink`: `fetch_value` returns the candidate, `extract_format` its key), the
    iteration appends `multiBlock mo k0 cks` and marks all of `M`. -/
theorem multiple_list_rule_step (F : FetchFn) (e : Envs) (fuel : Nat) (sm : Meta) (mkids combined : List Obj)
    (st : List Obj × List Nat) (idx : Nat) (mm : Meta) (mws : List Word) (k0 : Str)
    (cks : List (Obj × Str))
    (hmult : isMultiple (.defn mm mws) = true)
    (hfm : fromMasterOf mkids idx (.defn mm mws) = [])
    (hk0 : extractFormatStr e (fuel + 64) (.defn mm mws) (.defn mm mws) = .ok k0)
    (hl : Forall2 (CandLink e fuel (.defn mm mws)) (fetchMatching fuel sm combined (.defn mm mws)) cks) :
    stepG F e fuel false sm mkids combined st (idx, .defn mm mws) =
      .ok (st.1 ++ multiBlock (.defn mm mws) k0 cks,
           st.2 ++ (fetchMatching fuel sm combined (.defn mm mws)).flatMap marksOf) :=
  multi_step F e fuel sm mkids combined st idx mm mws k0 cks hmult hfm hk0 hl

/-- `multiBlock` spelled out -/
theorem multiBlock_eq (mo : Obj) (k0 : Str) (cks : List (Obj × Str)) :
    multiBlock mo k0 cks =
      withTmpl mo (if (mo.attr "optional").mandatory then 0
                   else if (dedupKeepLast (cks.filter (fun y => y.2 != k0))).isEmpty then 1 else -1) ::
        (dedupKeepLast (cks.filter (fun y => y.2 != k0))).map (·.1) := rfl

/-- no matching source: the block is the template alone, flagged `0` (mandatory) or `1` -/
theorem multiBlock_no_source (mo : Obj) (k0 : Str) :
    multiBlock mo k0 [] = [withTmpl mo (if (mo.attr "optional").mandatory then 0 else 1)] := rfl

/-- one source with a new value: template (`0`/`-1`) and the candidate -/
theorem multiBlock_one (mo : Obj) (k0 : Str) (c : Obj) (k : Str) (h : k ≠ k0) :
    multiBlock mo k0 [(c, k)] = [withTmpl mo (if (mo.attr "optional").mandatory then 0 else -1), c] := by
  have : (k != k0) = true := by simpa using h
  simp [multiBlock, multiTmpl, dedupKeepLast, this]

/-- one source repeating the master's value: as if there were none -/
theorem multiBlock_one_default (mo : Obj) (k0 : Str) (c : Obj) :
    multiBlock mo k0 [(c, k0)] = [withTmpl mo (if (mo.attr "optional").mandatory then 0 else 1)] := by
  simp [multiBlock, multiTmpl, dedupKeepLast]

/-- two sources with the same new value: only the second is kept -/
theorem multiBlock_two_equal (mo : Obj) (k0 : Str) (c1 c2 : Obj) (k : Str) (h : k ≠ k0) :
    multiBlock mo k0 [(c1, k), (c2, k)] =
      [withTmpl mo (if (mo.attr "optional").mandatory then 0 else -1), c2] := by
  have : (k != k0) = true := by simpa using h
  simp [multiBlock, multiTmpl, dedupKeepLast, this]

/-- two sources with different new values: both are kept, in source order -/
theorem multiBlock_two_distinct (mo : Obj) (k0 : Str) (c1 c2 : Obj) (k1 k2 : Str)
    (h1 : k1 ≠ k0) (h2 : k2 ≠ k0) (h12 : k1 ≠ k2) :
    multiBlock mo k0 [(c1, k1), (c2, k2)] =
      [withTmpl mo (if (mo.attr "optional").mandatory then 0 else -1), c1, c2] := by
  have e1 : (k1 != k0) = true := by simpa using h1
  have e2 : (k2 != k0) = true := by simpa using h2
  have e3 : (k2 == k1) = false := by simpa using fun h => h12 h.symm
  simp [multiBlock, multiTmpl, dedupKeepLast, e1, e2, e3]

/-! ### the whole result -/

/-- **The list rule (whole result).**  For a `FlatMultiMaster` at the root and definition-only
    `SrcOK` sources with defined keys, the fetch succeeds and its result is the concatenation, in
    master order, of one block per master definition: `[lastWins …]` for a non-multiple one,
    `multiBlock …` (template, then survivors) for a `.multiple` one; the consumed ids are the marks
    of all enabled source definitions named like a master child. -/
theorem multiple_list_rule (e : Envs) (fuel : Nat) (sm : Meta) (mkids combined : List Obj)
    (hf : FlatMultiMaster mkids) (hsm : sm.name = []) (hsd : sm.disabled = false)
    (hdef : ∀ o ∈ combined, o.isDefn = true) (hsrc : ∀ o ∈ combined, SrcOK o)
    (hkeys : ∀ mo ∈ mkids, isMultiple mo = true → KeysDefined e fuel mo (activeNamed mo.name combined)) :
    fetchScope e (fuel + 1) false sm mkids combined =
      .ok (.scope { sm with tmpl := 0 } (mkids.flatMap (blockOf e fuel combined)), flatUsed mkids combined) :=
  fetch_flat_multi e fuel sm mkids combined hf hsm hsd hdef hsrc hkeys

/-- the block of a `.multiple` child: the candidates are the master definition carrying the
    (resolved) words of each enabled source definition of its name, in source order -/
theorem blockOf_multiple (e : Envs) (fuel : Nat) (D : List Obj) (mo : Obj) (h : isMultiple mo = true) :
    blockOf e fuel D mo =
      multiBlock mo (keyOf e fuel mo mo)
        ((activeNamed mo.name D).map (fun d =>
          (Obj.defn { mo.meta with tmpl := 0 } d.srcWords,
           keyOf e fuel mo (Obj.defn { mo.meta with tmpl := 0 } d.srcWords)))) := by
  unfold blockOf; rw [h]; rfl

/-- the block of a non-multiple child: last value wins -/
theorem blockOf_plain (e : Envs) (fuel : Nat) (D : List Obj) (mo : Obj) (h : isMultiple mo = false) :
    blockOf e fuel D mo = [lastWins mo (activeNamed mo.name D)] := by
  unfold blockOf; rw [h]; rfl

/-- **`master.fetch(sources)`** — the same for the entry point on parsed roots. -/
theorem fetchRoot_multiple_list_rule (e : Envs) (master : List Obj) (ss : List (List Obj))
    (hf : FlatMultiMaster master)
    (hdef : ∀ o ∈ ss.flatten, o.isDefn = true) (hsrc : ∀ o ∈ ss.flatten, SrcOK o)
    (hkeys : ∀ mo ∈ master, isMultiple mo = true →
      KeysDefined e (rootFuel master) mo (activeNamed mo.name ss.flatten)) :
    fetchRoot e false master ss =
      .ok (.scope { name := [], id := some 0 } (master.flatMap (blockOf e (rootFuel master) ss.flatten)),
           flatUsed master ss.flatten) := by
  rw [fetchRoot_eq]
  exact fetch_flat_multi e _ _ master ss.flatten hf rfl rfl hdef hsrc hkeys

/-- sources mixing root-level definitions and named scopes (master names dot-free, no enabled source
    scope bearing a master name): the scopes are ignored -/
theorem multiple_list_rule_mixed (e : Envs) (fuel : Nat) (sm : Meta) (mkids combined : List Obj)
    (hf : FlatMultiMaster mkids) (hdot : ∀ mo ∈ mkids, '.' ∉ mo.name)
    (hsm : sm.name = []) (hsd : sm.disabled = false)
    (hmix : MixedSrc (mkids.map Obj.name) combined)
    (hsrc : ∀ o ∈ combined, o.isDefn = true → SrcOK o)
    (hkeys : ∀ mo ∈ mkids, isMultiple mo = true →
      KeysDefined e fuel mo (activeNamed mo.name (defnsOf combined))) :
    fetchScope e (fuel + 1) false sm mkids combined =
      .ok (.scope { sm with tmpl := 0 } (mkids.flatMap (blockOf e fuel (defnsOf combined))),
           flatUsed mkids (defnsOf combined)) :=
  fetch_flat_multi_mixed e fuel sm mkids combined hf hdot hsm hsd hmix hsrc hkeys

/-! ### C07: re-fetching the result -/

/-- **Idempotence for flat masters with `.multiple` definitions.**  If the master definitions are
    fit for re-fetching (`RefetchOK`: not template-marked, variable-free) and the sources are
    `$`-free, then fetching again with the children of the result as the only source yields the
    same result.  No stability hypothesis on the keys is needed: the candidate built from a
    surviving candidate is that candidate itself, and the one built from the template is the
    master definition (whose key is the master's, so it is dropped again). -/
theorem refetch_idempotent (e : Envs) (fuel : Nat) (sm : Meta) (mkids combined : List Obj)
    (hf : FlatMultiMaster mkids) (hr : RefetchOK mkids) (hsm : sm.name = []) (hsd : sm.disabled = false)
    (hdef : ∀ o ∈ combined, o.isDefn = true) (hsrc : ∀ o ∈ combined, SrcOK o)
    (hdol : ∀ o ∈ combined, hasDollar o.srcWords = false)
    (hkeys : ∀ mo ∈ mkids, isMultiple mo = true → KeysDefined e fuel mo (activeNamed mo.name combined))
    (rm : Meta) (out : List Obj) (used : List Nat)
    (h : fetchScope e (fuel + 1) false sm mkids combined = .ok (.scope rm out, used)) :
    ∃ used', fetchScope e (fuel + 1) false sm mkids out = .ok (.scope rm out, used') :=
  fetch_flat_multi_idempotent e fuel sm mkids combined hf hr hsm hsd hdef hsrc hdol hkeys rm out used h

/-- the block of a `.multiple` definition is a fixed point of the rule -/
theorem multiBlock_fixed_point (e : Envs) (fuel : Nat) (mm : Meta) (mws : List Word) (l : List Obj)
    (ht : mm.tmpl = 0) (hv : mm.varRes = none) :
    multiBlock (.defn mm mws) (keyOf e fuel (.defn mm mws) (.defn mm mws))
      (candsOf e fuel (.defn mm mws)
        (multiBlock (.defn mm mws) (keyOf e fuel (.defn mm mws) (.defn mm mws)) (candsOf e fuel (.defn mm mws) l))) =
    multiBlock (.defn mm mws) (keyOf e fuel (.defn mm mws) (.defn mm mws)) (candsOf e fuel (.defn mm mws) l) :=
  multiBlock_refetch e fuel mm mws l ht hv

/-! ### non-vacuity -/

/-- `d = x .multiple=True ; n = 1 .type=int .multiple=True .optional=False ; c = y` -/
def multM : List Obj :=
  [.defn { name := ['d'], id := some 1, attrs := [("multiple", .bool true)] } [{ value := ['x'] }],
   .defn { name := ['n'], id := some 2,
           attrs := [("type", .conv (.int {})), ("multiple", .bool true), ("optional", .bool false)] }
     [{ value := ['1'] }],
   .defn { name := ['c'], id := some 3 } [{ value := ['y'] }]]

def sd (n : Char) (i : Nat) (v : Char) : Obj := .defn { name := [n], id := some i } [{ value := [v] }]

/-- `d = p ; d = q ; n = 2 ; d = p ; d = x ; c = z ; d = r ; n = 1 ; d = q ; n = 2` -/
def multS : List Obj :=
  [sd 'd' 11 'p', sd 'd' 12 'q', sd 'n' 13 '2', sd 'd' 14 'p', sd 'd' 15 'x', sd 'c' 16 'z',
   sd 'd' 17 'r', sd 'n' 18 '1', sd 'd' 19 'q', sd 'n' 20 '2']

theorem multM_flat : FlatMultiMaster multM := by
  constructor
  · intro mo hmo
    simp only [multM, List.mem_cons, List.not_mem_nil, or_false] at hmo
    rcases hmo with rfl | rfl | rfl
    · exact ⟨_, _, rfl, ⟨by decide, by intro b; cases b <;> decide⟩, by decide, rfl⟩
    · exact ⟨_, _, rfl, ⟨by decide, by intro b; cases b <;> decide⟩, by decide, rfl⟩
    · exact ⟨_, _, rfl, ⟨by decide, by intro b; cases b <;> decide⟩, by decide, rfl⟩
  · decide

theorem multS_defn : ∀ o ∈ multS, o.isDefn = true := by
  intro o ho
  simp only [multS, List.mem_cons, List.not_mem_nil, or_false] at ho
  rcases ho with rfl | rfl | rfl | rfl | rfl | rfl | rfl | rfl | rfl | rfl <;> rfl

theorem multS_srcOK : ∀ o ∈ multS, SrcOK o := by
  intro o ho
  simp only [multS, List.mem_cons, List.not_mem_nil, or_false] at ho
  rcases ho with rfl | rfl | rfl | rfl | rfl | rfl | rfl | rfl | rfl | rfl <;> exact .inr ⟨rfl, by decide⟩

theorem multS_noDollar : ∀ o ∈ multS, hasDollar o.srcWords = false := by
  intro o ho
  simp only [multS, List.mem_cons, List.not_mem_nil, or_false] at ho
  rcases ho with rfl | rfl | rfl | rfl | rfl | rfl | rfl | rfl | rfl | rfl <;> decide

theorem multM_refetchOK : RefetchOK multM := by
  intro mo hmo
  simp only [multM, List.mem_cons, List.not_mem_nil, or_false] at hmo
  rcases hmo with rfl | rfl | rfl <;> exact ⟨rfl, rfl, by decide⟩

theorem multM_keys (fuel : Nat) (hB : (multM.all (fun mo => !isMultiple mo ||
      keysDefinedB env12 fuel mo (activeNamed mo.name multS))) = true) :
    ∀ mo ∈ multM, isMultiple mo = true → KeysDefined env12 fuel mo (activeNamed mo.name multS) := by
  intro mo hmo hmult
  have := List.all_eq_true.mp hB mo hmo
  rw [hmult] at this
  exact keysDefined_of_B (by simpa using this)

/-- what the rule predicts for the instance (names, template flags, words): `d`: template `-1`, then
    `p` (its last occurrence), `r`, `q`; `n` (mandatory): template `0`, then `2`; `c`: last value -/
example : (multM.flatMap (blockOf env12 (rootFuel multM) multS)).map
      (fun k => (k.name, k.meta.tmpl, k.words.map Word.value)) =
    [(['d'], -1, [['x']]), (['d'], 0, [['p']]), (['d'], 0, [['r']]), (['d'], 0, [['q']]),
     (['n'], 0, [['1']]), (['n'], 0, [['2']]), (['c'], 0, [['z']])] := by
  decide +kernel

/-- the theorem applies to the instance: the model's `fetchRoot` returns exactly that … -/
theorem multM_fetch :
    fetchRoot env12 false multM [multS] =
      .ok (.scope { name := [], id := some 0 } (multM.flatMap (blockOf env12 (rootFuel multM) multS)),
           flatUsed multM multS) := by
  have hfl : ([multS] : List (List Obj)).flatten = multS := by simp
  have := fetchRoot_multiple_list_rule env12 multM [multS] multM_flat
    (by rw [hfl]; exact multS_defn) (by rw [hfl]; exact multS_srcOK)
    (by rw [hfl]; exact multM_keys _ (by decide +kernel))
  rw [hfl] at this
  exact this

/-- … every matching source definition is consumed … -/
example : flatUsed multM multS = [11, 12, 14, 15, 17, 19, 13, 18, 20, 16] := by decide +kernel

/-- … and re-fetching the result reproduces it. -/
example : ∃ used', fetchRoot env12 false multM
      [multM.flatMap (blockOf env12 (rootFuel multM) multS)] =
      .ok (.scope { name := [], id := some 0 } (multM.flatMap (blockOf env12 (rootFuel multM) multS)), used') := by
  have h := multM_fetch
  rw [fetchRoot_eq] at h
  have hfl : ([multS] : List (List Obj)).flatten = multS := by simp
  rw [hfl] at h
  obtain ⟨u, hu⟩ := refetch_idempotent env12 (rootFuel multM) _ multM multS multM_flat multM_refetchOK rfl rfl
    multS_defn multS_srcOK multS_noDollar (multM_keys _ (by decide +kernel)) _ _ _ h
  refine ⟨u, ?_⟩
  rw [fetchRoot_eq]
  simpa using hu

/-- independent check by evaluation of the model's `fetchRoot` (not through the theorem) -/
example :
    (match fetchRoot env12 false multM [multS] with
     | .ok (ro, used) => some (ro.children.map (fun k => (k.name, k.meta.tmpl, k.words.map Word.value)), used)
     | .error _ => none) =
    some ([(['d'], -1, [['x']]), (['d'], 0, [['p']]), (['d'], 0, [['r']]), (['d'], 0, [['q']]),
           (['n'], 0, [['1']]), (['n'], 0, [['2']]), (['c'], 0, [['z']])],
          [11, 12, 14, 15, 17, 19, 13, 18, 20, 16]) := by
  decide +kernel

end Phil.C05
