/-
  C20 — The parameter index stays coherent with its working parameters.

    "After any sequence of edits through the parameter index (update from a string, merge, update from
     a Python object, push / pop / set of saved states), the Python object it hands out equals a fresh
     extraction of its current working parameters, …, and popping a state restores exactly the working
     parameters that were current at the matching push.  Applying the same edit twice in a row leaves
     the working parameters as after the first application."

  Model: Phil/Index.lean (state machine over an abstract `Kernel`).  All theorems hold for every
  kernel, every state and every history (no length bound).  Lemmas and the definitions `Coherent`,
  `RoundTrip*`, `Balanced`, `IdemKernel`, `stepBuggy`, `outputs` are in Phil/Proofs/IndexLemmas.lean.

    1. cache coherence      — `handed_out_is_fresh` (+ `_all`, `_mid`, `_noFromPython`, `_complete`)
       negation witnesses   — `prefix_pop_is_stale` (why pop must invalidate),
                              `law_is_needed_fromCache`, `law_is_needed_fromPython` (why the round-trip
                              law is a hypothesis)
    2. pop restores         — `pop_restores` (+ `_reachable`, `fromPython_pop_restores`), `balanced_stack`
    3. refused edits        — `refused_edit_changes_nothing`
    4. edit idempotence     — `same_edit_twice` (+ `_state`), `idem_law_is_needed`
    5. getPython            — `get_python_twice`, `get_python_keeps_working`, `get_python_keeps_states`
-/
import Phil.Proofs.IndexLemmas
set_option linter.unusedVariables false
namespace Phil.C20
open Phil.Index

variable {W P E : Type}

/-! ### 1. the object handed out is a fresh extraction -/

/-- **C20, cache coherence.**  After any history `ops` from the initial state, if `get_python_object`
    hands out `v` then `v` is the extraction of the current working parameters.  Hypotheses: the C09
    round-trip law for the objects the program passed to `update_from_python` (`RoundTripOps`) and for
    the objects that are the extraction of some working set (`RoundTripExtracted`; needed because
    `update_from_python(None)` re-formats the cached object). -/
theorem handed_out_is_fresh (k : Kernel W P E) (w : W) (ops : List (Op P E)) (v : P)
    (hp : RoundTripOps k ops) (hx : RoundTripExtracted k)
    (h : (step k (run k (init k w) ops) .getPython).2 = some v) :
    k.extract (run k (init k w) ops).working = some v ∧
    (step k (run k (init k w) ops) .getPython).1.working = (run k (init k w) ops).working :=
  ⟨reachable_get_python_is_fresh hp hx h, getPython_working k _⟩

/-- the same under the single law "every object round-trips" -/
theorem handed_out_is_fresh_all (k : Kernel W P E) (w : W) (ops : List (Op P E)) (v : P)
    (hl : RoundTripAll k)
    (h : (step k (run k (init k w) ops) .getPython).2 = some v) :
    k.extract (run k (init k w) ops).working = some v :=
  reachable_get_python_is_fresh_all hl h

/-- histories that never call `update_from_python` need no law at all -/
theorem handed_out_is_fresh_noFromPython (k : Kernel W P E) (w : W) (ops : List (Op P E)) (v : P)
    (hn : NoFromPython ops)
    (h : (step k (run k (init k w) ops) .getPython).2 = some v) :
    k.extract (run k (init k w) ops).working = some v :=
  get_python_is_fresh' (run_coherent_noFromPython (init_coherent k w) hn) h

/-- and conversely nothing is withheld: whenever a fresh extraction succeeds, that value is handed out -/
theorem handed_out_is_complete (k : Kernel W P E) (w : W) (ops : List (Op P E)) (v : P)
    (hp : RoundTripOps k ops) (hx : RoundTripExtracted k)
    (h : k.extract (run k (init k w) ops).working = some v) :
    (step k (run k (init k w) ops) .getPython).2 = some v :=
  get_python_complete (run_coherent (init_coherent k w) hp hx) h

/-- the invariant itself, for every reachable state -/
theorem reachable_coherent (k : Kernel W P E) (w : W) (ops : List (Op P E))
    (hp : RoundTripOps k ops) (hx : RoundTripExtracted k) :
    Coherent k (run k (init k w) ops) :=
  run_coherent (init_coherent k w) hp hx

/-! #### concrete instances and negation witnesses -/

/-- the toy kernel: an edit replaces the working set, everything else is the identity -/
def toy : Kernel Nat Nat Nat :=
  { merge := fun _ e => some e, refetch := id, extract := some, format := id }

theorem toy_roundTrip : RoundTripAll toy := fun _ => rfl

def hist : List (Op Nat Nat) := [.push, .update 2, .getPython, .pop, .getPython]

/-- the fixed machine: after the pop the object handed out is `1`, the extraction of the restored
    working set -/
example : outputs toy (init toy 1) hist = [none, none, some 2, none, some 1] := by decide
example : toy.extract (run toy (init toy 1) hist).working = some 1 := by decide

/-- **negation witness (why `pop_state` must invalidate the cache).**  The machine whose `pop` keeps
    `params`/`dirty` hands out the stale `2` after the pop although the working set is back to `1`;
    its state after the pop violates the invariant. -/
theorem prefix_pop_is_stale :
    outputsBuggy toy (init toy 1) hist = [none, none, some 2, none, some 2] ∧
    toy.extract (runBuggy toy (init toy 1) hist).working = some 1 ∧
    ¬ Coherent toy (runBuggy toy (init toy 1) [.push, .update 2, .getPython, .pop]) := by
  refine ⟨by decide, by decide, ?_⟩
  intro h
  rcases h with h | h | ⟨v, hv, hev⟩
  · exact absurd h (by decide)
  · exact absurd h (by decide)
  · have h1 : (runBuggy toy (init toy 1) [.push, .update 2, .getPython, .pop]).params = some 2 := by decide
    have h2 : toy.extract (runBuggy toy (init toy 1) [.push, .update 2, .getPython, .pop]).working = some 1 := by
      decide
    rw [h1] at hv; rw [h2] at hev; cases hv; cases hev

/-- a kernel whose format/extract pair does not round-trip -/
def lossy : Kernel Nat Nat Nat :=
  { merge := fun _ e => some e, refetch := id, extract := fun w => some (w + 1), format := id }

/-- **the law on extracted values is needed**: with `lossy`, `update_from_python(None)` re-formats the
    cached `2` into the working set `2`, whose extraction is `3`, yet the cached `2` is handed out.
    (The history passes no object, so `RoundTripOps` holds vacuously: only `RoundTripExtracted` fails.) -/
theorem law_is_needed_fromCache :
    RoundTripOps lossy [Op.getPython, .updateFromPython none] ∧
    (step lossy (run lossy (init lossy 1) [.getPython, .updateFromPython none]) .getPython).2 = some 2 ∧
    lossy.extract (run lossy (init lossy 1) [.getPython, .updateFromPython none]).working = some 3 := by
  refine ⟨?_, by decide, by decide⟩
  intro p hp
  simp at hp

/-- **the law on program-given objects is needed** likewise -/
theorem law_is_needed_fromPython :
    (step lossy (run lossy (init lossy 1) [.updateFromPython (some 4)]) .getPython).2 = some 4 ∧
    lossy.extract (run lossy (init lossy 1) [.updateFromPython (some 4)]).working = some 5 := by
  exact ⟨by decide, by decide⟩

/-- non-vacuity of `handed_out_is_fresh_all` on a history using every kind of operation -/
example :
    (step toy (run toy (init toy 1)
        [.update 5, .getPython, .updateFromPython none, .updateFromPython (some 9), .push, .update 7,
         .setState 0, .pop, .pop]) .getPython).2 = some 5 := by decide
example :
    toy.extract (run toy (init toy 1)
        [.update 5, .getPython, .updateFromPython none, .updateFromPython (some 9), .push, .update 7,
         .setState 0, .pop, .pop]).working = some 5 :=
  handed_out_is_fresh_all toy 1 _ 5 toy_roundTrip (by decide)

/-! ### 2. pop restores the working parameters of the matching push -/

/-- a balanced history leaves the stack of saved states as it found it -/
theorem balanced_stack (k : Kernel W P E) (s : State W P) (ops : List (Op P E)) (hb : Balanced ops) :
    (run k s ops).states = s.states :=
  run_balanced_states hb s

/-- **C20, pop restores.**  For every state `s` and every balanced `inner` history, the `pop` matching
    a `push` makes the re-fetched copy of the working set current at the push (`push_state` stores
    `master.fetch(working)`) current again and restores the stack; the cache is invalidated. -/
theorem pop_restores (k : Kernel W P E) (s : State W P) (inner : List (Op P E)) (hb : Balanced inner) :
    (run k s (.push :: (inner ++ [.pop]))).working = k.refetch s.working ∧
    (run k s (.push :: (inner ++ [.pop]))).states = s.states ∧
    (run k s (.push :: (inner ++ [.pop]))).dirty = true ∧
    (run k s (.push :: (inner ++ [.pop]))).params = none := by
  rw [push_pop_restores_state hb]; exact ⟨rfl, rfl, rfl, rfl⟩

/-- when re-fetching a working set against its own master is the identity (C10 for fetched sets) the
    restored working set is literally the one current at the push -/
theorem pop_restores_exact (k : Kernel W P E) (s : State W P) (inner : List (Op P E))
    (hb : Balanced inner) (hr : k.refetch s.working = s.working) :
    (run k s (.push :: (inner ++ [.pop]))).working = s.working := by
  rw [(pop_restores k s inner hb).1, hr]

/-- anywhere in a history starting from the initial state -/
theorem pop_restores_reachable (k : Kernel W P E) (w : W) (pre inner : List (Op P E))
    (hb : Balanced inner) :
    (run k (init k w) (pre ++ .push :: (inner ++ [.pop]))).working
      = k.refetch (run k (init k w) pre).working ∧
    (run k (init k w) (pre ++ .push :: (inner ++ [.pop]))).states
      = (run k (init k w) pre).states :=
  reachable_push_pop_restores hb

/-- `update_from_python(obj)` pushes the pre-edit working set, so the matching `pop` undoes it -/
theorem fromPython_pop_restores (k : Kernel W P E) (s : State W P) (p : P) (inner : List (Op P E))
    (hb : Balanced inner) :
    (run k s (.updateFromPython (some p) :: (inner ++ [.pop]))).working = k.refetch s.working ∧
    (run k s (.updateFromPython (some p) :: (inner ++ [.pop]))).states = s.states := by
  rw [fromPython_pop_restores_state hb]; exact ⟨rfl, rfl⟩

/-- a balanced history with nested brackets, an implicit push and a `set_state` inside -/
def innerEx : List (Op Nat Nat) :=
  [.update 5, .push, .update 7, .setState 0, .pop, .getPython, .updateFromPython (some 9), .update 3, .pop]

theorem innerEx_balanced : Balanced innerEx :=
  .update 5 (.push (inner := [.update 7, .setState 0]) (.update 7 (.setState 0 .nil))
    (.getPython (.fromPython 9 (inner := [.update 3]) (.update 3 .nil) .nil)))

example : (run toy (init toy 1) (.push :: (innerEx ++ [.pop]))).working = 1 := by decide
example : (run toy (init toy 1) (.push :: (innerEx ++ [.pop]))).working = 1 :=
  (pop_restores toy (init toy 1) innerEx innerEx_balanced).1
/-- the working set really moved in between -/
example : (run toy (init toy 1) (.push :: innerEx)).working = 5 := by decide
example : (run toy (init toy 1) (.push :: innerEx)).states = [1] := by decide

/-- `pop` on an empty stack is a no-op (the Python method returns without touching anything) -/
theorem pop_empty (k : Kernel W P E) (s : State W P) (h : s.states = []) : (step k s .pop).1 = s := by
  rw [step_pop_empty k s h]

/-! ### 3. refused edits change nothing -/

theorem refused_edit_changes_nothing (k : Kernel W P E) (s : State W P) (e : E)
    (h : k.merge s.working e = none) : (step k s (.update e)).1 = s :=
  update_refused h

/-- a kernel that refuses the edit `0` and adds every other edit to the working set -/
def adder : Kernel Nat Nat Nat :=
  { merge := fun w e => if e = 0 then none else some (w + e), refetch := id, extract := some, format := id }

example : (step adder (run adder (init adder 1) [.getPython]) (.update 0)).1
    = run adder (init adder 1) [.getPython] :=
  refused_edit_changes_nothing adder _ 0 (by decide)

/-! ### 4. the same edit twice -/

/-- **C20, edit idempotence.**  Under the kernel law `IdemKernel k e` (merging `e` into its own result
    changes nothing — C10/C16 on the Fetch model) the second application leaves the working set (in
    fact the whole state) as after the first. -/
theorem same_edit_twice (k : Kernel W P E) (s : State W P) (e : E) (hk : IdemKernel k e) :
    (run k s [.update e, .update e]).working = (run k s [.update e]).working :=
  update_twice hk s

theorem same_edit_twice_state (k : Kernel W P E) (s : State W P) (e : E) (hk : IdemKernel k e) :
    run k s [.update e, .update e] = run k s [.update e] :=
  update_twice_state hk s

theorem toy_idem (e : Nat) : IdemKernel toy e := fun _ _ h => h

example : (run toy (init toy 1) [.update 4, .update 4]).working = 4 := by decide
example : (run toy (init toy 1) [.update 4, .update 4]).working = (run toy (init toy 1) [.update 4]).working :=
  same_edit_twice toy _ 4 (toy_idem 4)

/-- the kernel law is a real hypothesis: the machine adds nothing of its own, so a non-idempotent
    merge shows through -/
theorem idem_law_is_needed :
    (run adder (init adder 1) [.update 3, .update 3]).working = 7 ∧
    (run adder (init adder 1) [.update 3]).working = 4 ∧ ¬ IdemKernel adder 3 := by
  refine ⟨by decide, by decide, ?_⟩
  intro h
  have := h 1 4 (by decide)
  exact absurd this (by decide)

/-! ### 5. `get_python_object` twice -/

/-- two `get_python_object` calls in a row hand out the same object and leave the same state -/
theorem get_python_twice (k : Kernel W P E) (s : State W P) :
    (step k (step k s .getPython).1 .getPython).2 = (step k s .getPython).2 ∧
    (step k (step k s .getPython).1 .getPython).1 = (step k s .getPython).1 := by
  rw [getPython_idempotent]; exact ⟨rfl, rfl⟩

theorem get_python_keeps_working (k : Kernel W P E) (s : State W P) :
    (step k s .getPython).1.working = s.working := getPython_working k s

theorem get_python_keeps_states (k : Kernel W P E) (s : State W P) :
    (step k s .getPython).1.states = s.states := getPython_states k s

example : outputs toy (init toy 1) [.update 6, .getPython, .getPython] = [none, some 6, some 6] := by decide

end Phil.C20
