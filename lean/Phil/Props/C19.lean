/-
  C19 — Printing filters show exactly what the requested levels allow.
    1. prefix law: printing under an extra leading prefix `p` = printing with the width reduced by
       `|p|` and `p` prepended to every produced line;
    2. expert-level gate: printing with `expert_level = k ≥ 0` = printing the tree pruned at `k`
       with the gate off; a negative `k` switches the gate off;
    3. attribute levels only add lines.
  Property theorems only; lemmas (and the definitions of `prune`, `ExpertWF`, `DottedWF`, `showOpt`,
  `AllVisible`) are in Phil/Proofs/ShowLaws.lean.  Statements hold for all trees (no size bound).
-/
import Phil.Proofs.ShowLaws
import Phil.Props.C03
set_option linter.unusedVariables false
namespace Phil.C19
open Phil

/-- equality of results is decidable (used by the concrete instances below, checked by the kernel) -/
local instance : DecidableEq (R (List Str)) := fun a b =>
  match a, b with
  | .ok x, .ok y => if h : x = y then isTrue (by rw [h]) else isFalse (by intro h'; cases h'; exact h rfl)
  | .error e, .error f => if h : e = f then isTrue (by rw [h]) else isFalse (by intro h'; cases h'; exact h rfl)
  | .ok _, .error _ => isFalse (by intro h; cases h)
  | .error _, .ok _ => isFalse (by intro h; cases h)

/-! ### a tree used by the concrete instances

```
a.b = 1            (expert_level 2; `a` is a dotted-name scope)
s                  (.help = "scope help")
{
  x = 1            (expert_level 1)
  !y = "a⏎b"       (one quoted word containing a newline)
  v { w = 3 }      (v: expert_level 4)
}
```
-/
def exTree : Obj :=
  .scope { name := [] } [
    .scope { name := "a".toList } [
      .defn { name := "b".toList, mergeNames := true, attrs := [("expert_level", .int 2)] }
        [⟨"1".toList, none, none⟩] ],
    .scope { name := "s".toList, attrs := [("help", .str "scope help".toList)] } [
      .defn { name := "x".toList, attrs := [("expert_level", .int 1)] } [⟨"1".toList, none, none⟩],
      .defn { name := "y".toList, disabled := true } [⟨"a\nb".toList, some .d1, none⟩],
      .scope { name := "v".toList, attrs := [("expert_level", .int 4)] } [
        .defn { name := "w".toList } [⟨"3".toList, none, none⟩] ] ] ]

/-! ### 1. prefix law -/

/-- **Prefix law.**  For every option record, tree, list of merged (dotted) names, extra prefix `p`
    and base prefix `pre`: printing under the prefix `p ++ pre` gives exactly the lines printed under
    `pre` with the width reduced by `|p|`, each with `p` prepended — including the error outcomes
    (`ValueError` of textwrap for a non-positive wrap width, unsupported tab).  A "line" is one
    element of the produced list (a quoted word containing a newline character stays inside one
    element).  No hypothesis is needed: the statement of the task holds as given. -/
theorem show_prefix (o : ShowOpts) (t : Obj) (ms : List Str) (p pre : Str) :
    showObj o t ms (p ++ pre)
      = (showObj { o with width := o.width - p.length } t ms pre).map (List.map (p ++ ·)) :=
  showObj_prefix_aux o p t ms pre

/-- Prefix law for a list of sibling objects (`showObjs`). -/
theorem show_prefix_list (o : ShowOpts) (ts : List Obj) (ms : List Str) (p pre : Str) :
    showObjs o ts ms (p ++ pre)
      = (showObjs { o with width := o.width - p.length } ts ms pre).map (List.map (p ++ ·)) :=
  showObjs_prefix_aux o p ts ms pre

/-- Prefix law for `show_attributes`. -/
theorem show_attributes_prefix (names : List String) (attrs : Attrs) (p pre : Str)
    (level width : Int) :
    showAttributes names attrs (p ++ pre) level width
      = (showAttributes names attrs pre level (width - p.length)).map (List.map (p ++ ·)) :=
  showAttributes_prefix names attrs p pre level width

/-- Prefix law for the value lines of a definition, with the lines printed so far. -/
theorem show_words_prefix (p : Str) (width : Int) (ws : List Word) (indent line : Str)
    (out : List Str) :
    showWords width (p ++ indent) ws (p ++ line) (out.map (p ++ ·))
      = (showWords (width - p.length) indent ws line out).map (p ++ ·) :=
  showWords_prefix p width ws indent line out

/-- Prefix law for `definition.show`. -/
theorem show_defn_prefix (o : ShowOpts) (m : Meta) (ws : List Word) (ms : List Str) (p pre : Str) :
    showDefn o m ws ms (p ++ pre)
      = (showDefn { o with width := o.width - p.length } m ws ms pre).map (List.map (p ++ ·)) :=
  showDefn_prefix o m ws ms p pre

/-- Prefix law for `scope.as_str`: the text is the lines of the narrower print, each with `p`
    prepended, joined by newlines. -/
theorem as_str_prefix (o : ShowOpts) (t : Obj) (p pre : Str) :
    asStr o t (p ++ pre)
      = (showObj { o with width := o.width - p.length } t [] pre).map
          (fun ls => unlines (ls.map (p ++ ·))) := by
  unfold asStr
  rw [show_prefix]
  cases showObj { o with width := o.width - p.length } t [] pre <;> rfl

/-- Concrete instance (level 2, width 24, so that the help text of `s` is wrapped): the left side
    of the law … -/
example : showObj { level := 2, width := 24 } exTree [] ("    ".toList ++ "  ".toList) =
    .ok ["      a.b = 1".toList, "        .expert_level = 2".toList, "      s".toList,
         "        .help = \"scope\"".toList, "                \"help\"".toList, "      {".toList,
         "        x = 1".toList, "          .expert_level = 1".toList, "        !y = \"a\nb\"".toList,
         "        v".toList, "          .expert_level = 4".toList, "        {".toList,
         "          w = 3".toList, "        }".toList, "      }".toList] := by decide +kernel

/-- … and the right side: width `24 - 4`, prefix `"  "`, then four blanks prepended. -/
example : (showObj { level := 2, width := 24 - ("    ".toList).length } exTree [] "  ".toList).map
      (List.map ("    ".toList ++ ·)) =
    .ok ["      a.b = 1".toList, "        .expert_level = 2".toList, "      s".toList,
         "        .help = \"scope\"".toList, "                \"help\"".toList, "      {".toList,
         "        x = 1".toList, "          .expert_level = 1".toList, "        !y = \"a\nb\"".toList,
         "        v".toList, "          .expert_level = 4".toList, "        {".toList,
         "          w = 3".toList, "        }".toList, "      }".toList] := by decide +kernel

/-- The law covers the error outcome: a width too small for wrapping fails on both sides. -/
example : showObj { level := 2, width := 14 } exTree [] ("    ".toList ++ []) =
    .error (.stray "ValueError" "textwrap_width") := by rfl

/-! ### 2. expert-level gate -/

/-- **Expert-level gate = pruning** (`k ≥ 0`).  If no object of the tree has an `expert_level`
    that is neither unset nor an integer (`ExpertWF`), and in every named scope the children agree
    on `mergeNames` (`DottedWF`; parser-built trees: a scope whose child continues a dotted name has
    exactly that one child), then printing with `expert_level = k` equals printing, with the gate off,
    the tree `prune k t` from which every object with an own integer level above `k` has been
    removed (and every dotted-name scope that lost all its children); `showOpt` prints nothing for
    `none`. -/
theorem show_expert_prune (o : ShowOpts) (k : Int) (hk : 0 ≤ k) (t : Obj) (ms : List Str)
    (pre : Str) (hw : ExpertWF t = true) (hd : DottedWF t = true) :
    showObj { o with expert := some k } t ms pre
      = showOpt { o with expert := none } (prune k t) ms pre :=
  showObj_prune_aux o k hk t ms pre hw hd

/-- the two readings of `show_expert_prune` -/
theorem show_expert_prune_none (o : ShowOpts) (k : Int) (hk : 0 ≤ k) (t : Obj) (ms : List Str)
    (pre : Str) (hw : ExpertWF t = true) (hd : DottedWF t = true) (hp : prune k t = none) :
    showObj { o with expert := some k } t ms pre = .ok [] := by
  rw [show_expert_prune o k hk t ms pre hw hd, hp]; rfl

theorem show_expert_prune_some (o : ShowOpts) (k : Int) (hk : 0 ≤ k) (t t' : Obj) (ms : List Str)
    (pre : Str) (hw : ExpertWF t = true) (hd : DottedWF t = true) (hp : prune k t = some t') :
    showObj { o with expert := some k } t ms pre = showObj { o with expert := none } t' ms pre := by
  rw [show_expert_prune o k hk t ms pre hw hd, hp]; rfl

/-- Expert-level gate = pruning, list of siblings. -/
theorem show_expert_prune_list (o : ShowOpts) (k : Int) (hk : 0 ≤ k) (ts : List Obj)
    (ms : List Str) (pre : Str) (hw : ExpertWFs ts = true) (hd : DottedWFs ts = true) :
    showObjs { o with expert := some k } ts ms pre
      = showObjs { o with expert := none } (pruneList k ts) ms pre :=
  showObjs_prune_aux o k hk ts ms pre hw hd

/-- What pruning leaves: no object of `prune k t` has an own integer level above `k` (so the gate-off
    print on the right of `show_expert_prune` shows only allowed objects, and all of them). -/
theorem prune_all_visible (k : Int) (t t' : Obj) (h : prune k t = some t') :
    AllVisible k t' = true :=
  prune_allVisible_aux k t t' h

/-- **Negative level = gate off.**  Holds for every tree; `ExpertWF` is not needed because with a
    negative `k` the comparison with a non-integer level is never made. -/
theorem show_expert_negative (o : ShowOpts) (k : Int) (hk : k < 0) (t : Obj) (ms : List Str)
    (pre : Str) :
    showObj { o with expert := some k } t ms pre = showObj { o with expert := none } t ms pre :=
  showObj_expert_neg_aux o k hk t ms pre

theorem show_expert_negative_list (o : ShowOpts) (k : Int) (hk : k < 0) (ts : List Obj)
    (ms : List Str) (pre : Str) :
    showObjs { o with expert := some k } ts ms pre = showObjs { o with expert := none } ts ms pre :=
  showObjs_expert_neg_aux o k hk ts ms pre

/-- `DottedWF`'s local condition holds for a scope with exactly one child (the shape `scope.adopt`
    builds for a dotted name) … -/
theorem uniformMerge_single (c : Obj) : uniformMerge [c] = true := by
  simp [uniformMerge, firstMerges]

/-- … and for a scope none of whose children continues a dotted name. -/
theorem uniformMerge_plain (objs : List Obj) (h : ∀ c, c ∈ objs → c.meta.mergeNames = false) :
    uniformMerge objs = true := by
  cases objs with
  | nil => rfl
  | cons x xs =>
    simp only [uniformMerge, firstMerges, List.all_eq_true]
    intro c hc
    rw [h c hc, h x List.mem_cons_self]; rfl

/-- The hypotheses hold on the example tree … -/
example : ExpertWF exTree = true ∧ DottedWF exTree = true := ⟨rfl, rfl⟩

/-- … at level 1 everything above level 1 is gone: `a.b` (level 2, and with it the dotted scope
    `a`) and the scope `v` (level 4) with its content. -/
example : showObj { expert := some 1, level := 1 } exTree [] [] =
    .ok ["s".toList, "  .help = \"scope help\"".toList, "{".toList, "  x = 1".toList,
         "  !y = \"a\nb\"".toList, "}".toList] := by rfl

example : showOpt { expert := none, level := 1 } (prune 1 exTree) [] [] =
    .ok ["s".toList, "  .help = \"scope help\"".toList, "{".toList, "  x = 1".toList,
         "  !y = \"a\nb\"".toList, "}".toList] := by rfl

/-! #### why the side conditions and the removal rule are there -/

/-- Without the removal rule for emptied dotted-name scopes the statement is false: `a.b = 1` with
    `b` hidden prints nothing, but the scope `a` with its child removed prints `a {` `}`. -/
example :
    let t : Obj := .scope { name := "a".toList }
      [.defn { name := "b".toList, mergeNames := true, attrs := [("expert_level", .int 5)] }
        [⟨"1".toList, none, none⟩]]
    showObj { expert := some 0 } t [] [] = .ok [] ∧
    showObj {} (.scope { name := "a".toList } []) [] [] = .ok ["a {".toList, "}".toList] :=
  ⟨rfl, rfl⟩

/-- `DottedWF` is needed: the dotted-scope test looks at the first child only.  Here the first
    child (hidden at level 0) does not merge names but the second does; the original prints an
    ordinary scope, the pruned tree prints a dotted name. -/
example :
    let t : Obj := .scope { name := "s".toList }
      [.defn { name := "a".toList, attrs := [("expert_level", .int 5)] } [⟨"1".toList, none, none⟩],
       .defn { name := "b".toList, mergeNames := true } [⟨"2".toList, none, none⟩]]
    ExpertWF t = true ∧ DottedWF t = false ∧
    showObj { expert := some 0 } t [] [] = .ok ["s {".toList, "  b = 2".toList, "}".toList] ∧
    showOpt {} (prune 0 t) [] [] = .ok ["s.b = 2".toList] :=
  ⟨rfl, rfl, rfl, rfl⟩

/-- `ExpertWF` is needed: a non-integer level makes the gated print fail (`TypeError` of the
    comparison), the gate-off print succeeds. -/
example :
    let t : Obj := .defn { name := "a".toList, attrs := [("expert_level", .str "x".toList)] }
      [⟨"1".toList, none, none⟩]
    ExpertWF t = false ∧
    showObj { expert := some 0 } t [] [] = .error (.stray "TypeError" "expert_level_compare") ∧
    showOpt {} (prune 0 t) [] [] = .ok ["a = 1".toList] :=
  ⟨rfl, rfl, rfl⟩

/-- `k ≥ 0` is needed in `show_expert_prune`: at `k = -1` the gate is off, pruning is not. -/
example :
    let t : Obj := .defn { name := "a".toList, attrs := [("expert_level", .int 0)] }
      [⟨"1".toList, none, none⟩]
    showObj { expert := some (-1) } t [] [] = .ok ["a = 1".toList] ∧
    showOpt {} (prune (-1) t) [] [] = .ok [] :=
  ⟨rfl, rfl⟩

/-! ### 3. attribute levels only add lines -/

/-- **Attribute levels only add lines.**  When `show_attributes` succeeds at `level` and at
    `level + 1`, the lines of the lower level are a sublist (same order, some lines missing) of those
    of the higher level.  The hypothesis `level ≥ 0` of the task is not needed. -/
theorem attrs_level_mono (names : List String) (attrs : Attrs) (pre : Str) (level width : Int)
    (l1 l2 : List Str) (h1 : showAttributes names attrs pre level width = .ok l1)
    (h2 : showAttributes names attrs pre (level + 1) width = .ok l2) : l1.Sublist l2 :=
  showAttributes_mono names attrs pre level width l1 l2 h1 h2

/-- Sharper: success at `level + 1` implies success at `level` (a lower level cannot fail where the
    higher one succeeds), with the sublist relation. -/
theorem attrs_level_mono_ok (names : List String) (attrs : Attrs) (pre : Str) (level width : Int)
    (l2 : List Str) (h2 : showAttributes names attrs pre (level + 1) width = .ok l2) :
    ∃ l1, showAttributes names attrs pre level width = .ok l1 ∧ l1.Sublist l2 :=
  showAttributes_mono_ok names attrs pre level width l2 h2

/-- At a level `≤ 0` no attribute line is printed. -/
theorem attrs_level_nonpos (names : List String) (attrs : Attrs) (pre : Str) (level width : Int)
    (h : level ≤ 0) : showAttributes names attrs pre level width = .ok [] :=
  showAttributes_level_nonpos names attrs pre level width h

/-- Concrete instance: a definition with a help text and a type; level 1 prints the help, level 2
    adds the set attributes, level 3 adds the unset ones. -/
def exAttrs : Attrs := [("help", .str "h".toList), ("optional", .bool true)]

example : showAttributes defAttrNames exAttrs [] 1 79 = .ok ["  .help = h".toList] := by rfl
example : showAttributes defAttrNames exAttrs [] 2 79 =
    .ok ["  .help = h".toList, "  .optional = True".toList] := by rfl
example : showAttributes defAttrNames exAttrs [] 3 79 =
    .ok ["  .help = h".toList, "  .caption = None".toList, "  .short_caption = None".toList,
         "  .optional = True".toList, "  .type = None".toList, "  .multiple = None".toList,
         "  .input_size = None".toList, "  .style = None".toList,
         "  .expert_level = None".toList] := by rfl

end Phil.C19
