/-
  C06 / C07 on NESTED masters WITH CHOICES (`TreeMasterC`, Phil/Proofs/FetchChoice.lean: definitions
  of any type, choices and `.deprecated` included; only `.multiple` stays outside).

  C06: `tree_choice_used_exact`, `tree_choice_unused_exact`, `reported_iff_tree_choice`,
       `fetchRoot_tree_choice_unused_exact`: whenever the fetch succeeds and the entries of
       `all_definitions(sources)` carry pairwise distinct ids, the reported list is exactly the
       sub-list of `all_definitions(sources)` whose dotted path names no master definition.
       (A choice never changes WHICH sources are consumed: every enabled source definition whose
       path names a master definition is marked, whatever `choiceFetch` makes of its words.)
  C07: `tree_choice_refetch_idempotent` / `fetchRoot_tree_choice_refetch` (M.fetch(W) = W for
       W = M.fetch(S)), `tree_choice_fetch_master_itself` / `fetchRoot_tree_choice_master_itself`
       (M.fetch(M) = M.fetch()), `choice_refetch_identity` (choiceFetch of its own result), under
       `RefetchTreeC` (executable: `refetchCheckC`); sharp-edge witnesses for every clause.
  Lemmas: Phil/Proofs/FetchChoice2.lean.
-/
import Phil.Proofs.FetchChoice2
import Phil.Props.C06Tree
import Phil.Props.C11Tree
set_option linter.unusedVariables false
namespace Phil.C07C
open Phil

/-! ## C06 -/

/-- **Consumed ids, exactly (masters with choices).** -/
theorem tree_choice_used_exact (e : Envs) (fuel : Nat) (sm : Meta) (mkids srcs : List Obj)
    (hf : TreeMasterC mkids) (hfuel : depthL mkids < fuel) (hsd : sm.disabled = false)
    (hinc : NoIncludeTree mkids) (hsrc : SrcTree srcs) (hs : SrcPlain srcs)
    (ro : Obj) (used : List Nat)
    (h : fetchScope e fuel false sm mkids srcs = .ok (ro, used)) (i : Nat) :
    i ∈ used ↔ ∃ x ∈ allDefinitions srcs, x.2.1.id = some i ∧ x.1 ∈ (allDefinitions mkids).map (·.1) := by
  obtain ⟨_, hu⟩ := fetch_tree_choice_ok e fuel sm mkids srcs hf hfuel hsd hsrc ro used h
  subst hu
  rw [← defPaths_eq_allDefinitions_treeC mkids hf hinc]
  exact Phil.tree_choice_used_exact mkids srcs hf hinc hs i

/-- **The reported list, exactly (masters with choices).**  Whenever the fetch succeeds and the
    entries of `all_definitions(sources)` carry pairwise distinct ids, the reported list is the list
    of the entries of `all_definitions(sources)` (in order) whose full path is not the path of an
    active master parameter. -/
theorem tree_choice_unused_exact (e : Envs) (fuel : Nat) (sm : Meta) (mkids srcs : List Obj)
    (hf : TreeMasterC mkids) (hfuel : depthL mkids < fuel) (hsd : sm.disabled = false)
    (hinc : NoIncludeTree mkids) (hsrc : SrcTree srcs) (hs : SrcPlain srcs)
    (hsome : ∀ x ∈ allDefinitions srcs, x.2.1.id ≠ none)
    (hids : ((allDefinitions srcs).map (fun x => x.2.1.id)).Nodup)
    (ro : Obj) (used : List Nat)
    (h : fetchScope e fuel false sm mkids srcs = .ok (ro, used)) :
    C06.unusedOf srcs used =
      (allDefinitions srcs).filter (fun x => !((allDefinitions mkids).map (·.1)).contains x.1) := by
  obtain ⟨_, hu⟩ := fetch_tree_choice_ok e fuel sm mkids srcs hf hfuel hsd hsrc ro used h
  subst hu
  rw [← defPaths_eq_allDefinitions_treeC mkids hf hinc]
  exact unused_filter_exact_tree _ srcs _ hsome hids (Phil.tree_choice_used_exact mkids srcs hf hinc hs)

/-- membership form -/
theorem reported_iff_tree_choice (e : Envs) (fuel : Nat) (sm : Meta) (mkids srcs : List Obj)
    (hf : TreeMasterC mkids) (hfuel : depthL mkids < fuel) (hsd : sm.disabled = false)
    (hinc : NoIncludeTree mkids) (hsrc : SrcTree srcs) (hs : SrcPlain srcs)
    (hsome : ∀ x ∈ allDefinitions srcs, x.2.1.id ≠ none)
    (hids : ((allDefinitions srcs).map (fun x => x.2.1.id)).Nodup)
    (ro : Obj) (used : List Nat)
    (h : fetchScope e fuel false sm mkids srcs = .ok (ro, used))
    (x : Str × Meta × List Word) :
    x ∈ C06.unusedOf srcs used ↔
      x ∈ allDefinitions srcs ∧ x.1 ∉ (allDefinitions mkids).map (·.1) := by
  rw [tree_choice_unused_exact e fuel sm mkids srcs hf hfuel hsd hinc hsrc hs hsome hids ro used h,
    List.mem_filter]
  simp

/-- executable master-side conditions: `TreeMasterC` nested at most 1000 deep, no definition called
    `include` -/
def masterCheckC (mkids : List Obj) : Bool :=
  treeMasterCB mkids && allActive (fun d => !d.isDefn || d.name != "include".toList) mkids

theorem masterCheckC_sound (mkids : List Obj) (h : masterCheckC mkids = true) :
    TreeMasterC mkids ∧ depthL mkids ≤ 1000 ∧ NoIncludeTree mkids := by
  unfold masterCheckC at h
  rw [Bool.and_eq_true] at h
  have h1 := treeMasterCB_sound mkids h.1
  refine ⟨h1.1, h1.2, ?_⟩
  intro d hd hdef
  have := allActive_sound _ hd h.2
  simp only [hdef, Bool.not_true, Bool.false_or, bne_iff_ne, ne_eq] at this
  exact this

/-- **`master.fetch(sources, track_unused_definitions=True)`** on parsed roots, executable side
    conditions -/
theorem fetchRoot_tree_choice_unused_exact (e : Envs) (master : List Obj) (ss : List (List Obj))
    (hm : masterCheckC master = true) (hs : srcCheck ss.flatten = true)
    (hsome : ∀ x ∈ allDefinitions ss.flatten, x.2.1.id ≠ none)
    (hids : ((allDefinitions ss.flatten).map (fun x => x.2.1.id)).Nodup)
    (ro : Obj) (used : List Nat)
    (h : fetchRoot e false master ss = .ok (ro, used)) :
    C06.unusedOf ss.flatten used =
      (allDefinitions ss.flatten).filter
        (fun x => !((allDefinitions master).map (·.1)).contains x.1) := by
  have hM := masterCheckC_sound master hm
  have hS := srcCheck_sound ss.flatten hs
  exact tree_choice_unused_exact e _ _ master ss.flatten hM.1 (fetchRoot_fuel_tree master hM.2.1) rfl
    hM.2.2 hS.tree hS.plain hsome hids ro used h

/-! ### non-vacuity -/

/-- master with a single choice, a multi choice, a deprecated choice and a plain definition -/
def chM : List Obj := C06.objsOf
  "s {\n c = a *b\n .type=choice\n k = x y z\n .type=choice(multi=True)\n o = p q\n .type=choice\n .deprecated=True\n t { d = 1 }\n}\n"

def chS : List Obj := C06.objsOf "s.c = a\ns {\n k = x+z\n q = 0\n t.e = 3\n}\nz = 1\ns.o = *q\n!s.c = nope\ns.t.d = 5\n"

example : (masterCheckC chM && srcCheck chS && depthL chM == 2 &&
    decide (((allDefinitions chS).map (fun x => x.2.1.id)).Nodup) &&
    (allDefinitions chS).all (fun x => x.2.1.id.isSome)) = true := by
  decide +kernel

/-- the model on the instance: the values and the reported list -/
example :
    (match fetchRoot env12 false chM [chS] with
     | .ok (ro, used) => some (C06.valsOf ro.children, (C06.unusedOf chS used).map (fun (x : Str × Meta × List Word) => String.ofList x.1))
     | .error _ => none) =
      some ([("s.c", ["*a", "b"]), ("s.k", ["*x", "y", "*z"]), ("s.o", ["p", "*q"]), ("s.t.d", ["5"])],
        ["s.q", "s.t.e", "z"]) := by
  decide +kernel

/-- the theorem applied to the instance -/
example (ro : Obj) (used : List Nat) (h : fetchRoot env12 false chM [chS] = .ok (ro, used)) :
    (C06.unusedOf chS used).map (fun (x : Str × Meta × List Word) => String.ofList x.1) = ["s.q", "s.t.e", "z"] := by
  have hfl : ([chS] : List (List Obj)).flatten = chS := by simp
  have := fetchRoot_tree_choice_unused_exact env12 chM [chS] (by decide +kernel)
    (by rw [hfl]; decide +kernel)
    (by
      rw [hfl]
      intro x hx
      have hall : ((allDefinitions chS).all (fun x => x.2.1.id.isSome)) = true := by decide +kernel
      have := List.all_eq_true.mp hall x hx
      intro hn; rw [hn] at this; cases this)
    (by rw [hfl]; decide +kernel)
    ro used h
  rw [hfl] at this
  rw [this]
  decide +kernel

/-! ## C07: re-fetching the result of a master with choices

  Hypothesis (`RefetchTreeC`, executable form `refetchCheckC`): every active master definition is
  not template-marked, has no recorded resolution, is not `.deprecated`, and — when its type is a
  choice — has `ChoiceRefetchOK` alternatives: a number of alternatives OTHER THAN ONE, no `+` in
  an alternative, no double star, pairwise distinct lower-cased names.  Each clause is sharp (see
  the witnesses below, all replayed on the Python library). -/

/-- **`choice_converters.fetch` is idempotent** on `ChoiceRefetchOK` alternatives: what a successful
    fetch returned (for ANY source words) is returned again when fetched against the same master. -/
theorem choice_refetch_identity (mws : List Word) (opt : AttrVal) (src out : List Word)
    (h : ChoiceRefetchOK mws) (hf : choiceFetch mws opt src false = .ok out) :
    choiceFetch mws opt out false = .ok out :=
  choiceFetch_refetch mws opt src out h hf

/-- **the master's own choice value is a fixed point** (`M.fetch(M)` at one definition) -/
theorem choice_self_identity (mws : List Word) (opt : AttrVal) (h : ChoiceRefetchOK mws) :
    choiceFetch mws opt mws false = .ok mws :=
  choiceFetch_self mws opt h

/-- **the specification is idempotent** -/
theorem tree_choice_spec_idempotent (mkids srcs r : List Obj) (hf : TreeMasterC mkids)
    (hr : RefetchTreeC mkids) (h : treeResultC mkids srcs = .ok r) : treeResultC mkids r = .ok r :=
  treeResultC_idem mkids srcs r hf hr h

/-- **C07 on masters with choices.**  Whenever the fetch of a `TreeMasterC` master fit for
    re-fetching succeeds with result `W`, fetching `W` again as the only source succeeds and
    returns `W`. -/
theorem tree_choice_refetch_idempotent (e : Envs) (fuel : Nat) (sm : Meta) (mkids srcs : List Obj)
    (hf : TreeMasterC mkids) (hfuel : depthL mkids < fuel) (hsd : sm.disabled = false)
    (hr : RefetchTreeC mkids) (hn : NoDollarTree mkids) (hsrc : SrcTree srcs) (hdol : SrcNoDollar srcs)
    (ro : Obj) (used : List Nat)
    (h : fetchScope e fuel false sm mkids srcs = .ok (ro, used)) :
    fetchScope e fuel false sm mkids ro.children = .ok (ro, treeUsed mkids ro.children) := by
  obtain ⟨⟨r, hres, rfl⟩, _⟩ := fetch_tree_choice_ok e fuel sm mkids srcs hf hfuel hsd hsrc ro used h
  exact Phil.tree_choice_refetch_idempotent e fuel sm mkids srcs r hf hfuel hsd hr hn hdol hres

/-- **`M.fetch(M.fetch()) = M.fetch()`**: the fetch without sources never fails on this class, and
    its result is reproduced -/
theorem tree_choice_nosource_refetch (e : Envs) (fuel : Nat) (sm : Meta) (mkids : List Obj)
    (hf : TreeMasterC mkids) (hfuel : depthL mkids < fuel) (hsd : sm.disabled = false)
    (hr : RefetchTreeC mkids) (hn : NoDollarTree mkids) (ro : Obj) (used : List Nat)
    (h : fetchScope e fuel false sm mkids [] = .ok (ro, used)) :
    fetchScope e fuel false sm mkids ro.children = .ok (ro, treeUsed mkids ro.children) :=
  tree_choice_refetch_idempotent e fuel sm mkids [] hf hfuel hsd hr hn srcTree_nil_c
    (fun x hx _ => by cases hx with
      | here hm _ => cases hm
      | deeper hm _ _ => cases hm) ro used h


/-- **the master as its own source (specification)** -/
theorem tree_choice_spec_master_itself (mkids : List Obj) (hf : TreeMasterC mkids) (hr : RefetchTreeC mkids) :
    treeResultC mkids mkids = treeResultC mkids [] :=
  treeResultC_master_itself mkids hf hr

/-- **`M.fetch(M) = M.fetch()`** on masters with choices (results compared; the consumed ids
    differ, of course) -/
theorem tree_choice_fetch_master_itself (e : Envs) (fuel : Nat) (sm : Meta) (mkids : List Obj)
    (hf : TreeMasterC mkids) (hfuel : depthL mkids < fuel) (hsd : sm.disabled = false)
    (hr : RefetchTreeC mkids) (hn : NoDollarTree mkids) :
    (fetchScope e fuel false sm mkids mkids).map (·.1) = (fetchScope e fuel false sm mkids []).map (·.1) :=
  Phil.tree_choice_fetch_master_itself e fuel sm mkids hf hfuel hsd hr hn

/-- executable form of `RefetchTreeC` and `NoDollarTree` -/
def refetchCheckC (mkids : List Obj) : Bool :=
  allActive (fun d => !d.isDefn ||
    (d.meta.tmpl == 0 && d.meta.varRes.isNone && !hasDollar d.words &&
      !(d.meta.attrs.get "deprecated").truthy &&
      (match d.meta.attrs.get "type" with
       | .conv (.choice _) => choiceRefetchOKB d.words
       | _ => true))) mkids

theorem refetchCheckC_sound (mkids : List Obj) (h : refetchCheckC mkids = true) :
    RefetchTreeC mkids ∧ NoDollarTree mkids := by
  unfold refetchCheckC at h
  have key : ∀ d, ActiveIn d mkids → d.isDefn = true →
      DefRefetchOK d.meta d.words ∧ hasDollar d.words = false := by
    intro d hd hdef
    have := allActive_sound _ hd h
    simp only [hdef, Bool.not_true, Bool.false_or, Bool.and_eq_true, beq_iff_eq,
      Option.isNone_iff_eq_none, Bool.not_eq_true'] at this
    refine ⟨⟨this.1.1.1.1, this.1.1.1.2, this.1.2, ?_⟩, this.1.1.2⟩
    intro b hb
    have h2 := this.2
    rw [hb] at h2
    exact choiceRefetchOKB_sound _ h2
  exact ⟨fun d hd hdef => (key d hd hdef).1, fun d hd hdef => (key d hd hdef).2⟩


/-- **`M.fetch(M.fetch(S)) = M.fetch(S)`** on parsed roots, executable side conditions -/
theorem fetchRoot_tree_choice_refetch (e : Envs) (master : List Obj) (ss : List (List Obj))
    (hm : masterCheckC master = true) (hr : refetchCheckC master = true)
    (hs : srcCheck ss.flatten = true) (ro : Obj) (used : List Nat)
    (h : fetchRoot e false master ss = .ok (ro, used)) :
    fetchRoot e false master [ro.children] = .ok (ro, treeUsed master ro.children) := by
  have hM := masterCheckC_sound master hm
  have hR := refetchCheckC_sound master hr
  have hS := srcCheck_sound ss.flatten hs
  have := tree_choice_refetch_idempotent e _ _ master ss.flatten hM.1
    (fetchRoot_fuel_tree master hM.2.1) rfl hR.1 hR.2 hS.tree hS.noDollar ro used h
  have hfl : ([ro.children] : List (List Obj)).flatten = ro.children := by simp
  unfold fetchRoot
  rw [hfl]
  exact this

/-- **`M.fetch(M) = M.fetch()`** on parsed roots -/
theorem fetchRoot_tree_choice_master_itself (e : Envs) (master : List Obj)
    (hm : masterCheckC master = true) (hr : refetchCheckC master = true) :
    (fetchRoot e false master [master]).map (·.1) = (fetchRoot e false master []).map (·.1) := by
  have hM := masterCheckC_sound master hm
  have hR := refetchCheckC_sound master hr
  have := tree_choice_fetch_master_itself e _ { name := [], id := some 0 } master hM.1
    (fetchRoot_fuel_tree master hM.2.1) rfl hR.1 hR.2
  have hfl : ([master] : List (List Obj)).flatten = master := by simp
  unfold fetchRoot
  rw [hfl]
  exact this

/-! ### non-vacuity and sharpness -/

/-- the `chM` master without its deprecated choice: fit for re-fetching -/
def chM2 : List Obj := C06.objsOf
  "s {\n c = a *b\n .type=choice\n k = x y z\n .type=choice(multi=True)\n t { d = 1 }\n}\n"

example : (masterCheckC chM2 && refetchCheckC chM2 && srcCheck chS) = true := by decide +kernel

/-- the instance: first fetch and re-fetch agree in the model, on a non-trivial source -/
example :
    (match fetchRoot env12 false chM2 [chS] with
     | .ok (ro, _) => (match fetchRoot env12 false chM2 [ro.children] with
        | .ok (ro2, _) => some (C06.valsOf ro.children, C06.valsOf ro2.children == C06.valsOf ro.children)
        | .error _ => none)
     | .error _ => none) =
      some ([("s.c", ["*a", "b"]), ("s.k", ["*x", "y", "*z"]), ("s.t.d", ["5"])], true) := by
  decide +kernel


/-- the theorem applied to the instance: the re-fetch of whatever `chM2.fetch(chS)` returned -/
example (ro : Obj) (used : List Nat) (h : fetchRoot env12 false chM2 [chS] = .ok (ro, used)) :
    (fetchRoot env12 false chM2 [ro.children]).map (·.1) = .ok ro := by
  have hfl : ([chS] : List (List Obj)).flatten = chS := by simp
  rw [fetchRoot_tree_choice_refetch env12 chM2 [chS] (by decide +kernel) (by decide +kernel)
    (by rw [hfl]; decide +kernel) ro used h]
  rfl

/-- `M.fetch(M) = M.fetch()` on the instance, in the model -/
example : (match fetchRoot env12 false chM2 [chM2], fetchRoot env12 false chM2 [] with
    | .ok (a, _), .ok (b, _) => C06.valsOf a.children == C06.valsOf b.children && C06.valsOf a.children ==
        [("s.c", ["a", "*b"]), ("s.k", ["x", "y", "z"]), ("s.t.d", ["1"])]
    | _, _ => false) = true := by decide +kernel

def twice (m s : List Obj) : Option (List String) × Option (List String) × Bool :=
  (C11.wordsAt (treeResultC m s) [] "c",
   C11.wordsAt (match treeResultC m s with | .ok r => treeResultC m r | .error err => .error err) [] "c",
   match treeResultC m s with
   | .ok r => (match treeResultC m r with | .ok _ => true | .error _ => false)
   | .error _ => false)

def plusM : List Obj := C06.objsOf "c = a+b d\n.type=choice\n"
def dupM : List Obj := C06.objsOf "c = *a A\n.type=choice(multi=True)\n"
def dblM : List Obj := C06.objsOf "c = **a b\n.type=choice(multi=True)\n"
def depChM : List Obj := C06.objsOf "c = p *q\n.type=choice\n.deprecated=True\n"

/-- sharp: an alternative with `+` — `M.fetch()` keeps `a+b d`, the re-fetch raises Sorry ("Not a
    possible choice for c: a"); Python agrees -/
theorem plus_alternative_refetch_fails : twice plusM [] = (some ["a+b", "d"], none, false) := by
  decide +kernel

/-- sharp: two alternatives with the same lower-cased name — `M.fetch()` keeps `*a A`, the re-fetch
    gives `a A`; Python agrees -/
theorem duplicate_key_refetch_unstars : twice dupM [] = (some ["*a", "A"], some ["a", "A"], true) := by
  decide +kernel

/-- sharp: a double star — with the source `c = b` the fetch gives `*a *b`, the re-fetch raises
    Sorry ("Not a possible choice for c: a"); Python agrees -/
theorem double_star_refetch_fails :
    twice dblM (C06.objsOf "c = b\n") = (some ["*a", "*b"], none, false) := by
  decide +kernel

/-- sharp (and a C07 counterexample on the library): a DEPRECATED choice `c = p *q` with the source
    `c = q` is kept as `c = p *q` (the source text differs from the default), but the re-fetch sees
    the default's own text and DROPS the definition; Python: `[o.name for o in W.objects] = ['c']`,
    `M.fetch(W).objects = []` -/
theorem deprecated_choice_dropped_by_refetch :
    twice depChM (C06.objsOf "c = q\n") = (some ["p", "*q"], none, true) := by
  decide +kernel

/-- sharp: the single-alternative witness of Phil/Props/C11Tree.lean is exactly what
    `ChoiceRefetchOK.notOne` excludes -/
theorem single_alternative_not_ok : refetchCheckC C11.oneAltM = false := by decide +kernel

end Phil.C07C

#print axioms Phil.C07C.tree_choice_used_exact
#print axioms Phil.C07C.tree_choice_unused_exact
#print axioms Phil.C07C.reported_iff_tree_choice
#print axioms Phil.C07C.masterCheckC_sound
#print axioms Phil.C07C.fetchRoot_tree_choice_unused_exact
#print axioms Phil.C07C.choice_refetch_identity
#print axioms Phil.C07C.choice_self_identity
#print axioms Phil.C07C.tree_choice_spec_idempotent
#print axioms Phil.C07C.tree_choice_refetch_idempotent
#print axioms Phil.C07C.tree_choice_nosource_refetch
#print axioms Phil.C07C.refetchCheckC_sound
#print axioms Phil.C07C.tree_choice_spec_master_itself
#print axioms Phil.C07C.tree_choice_fetch_master_itself
#print axioms Phil.C07C.fetchRoot_tree_choice_refetch
#print axioms Phil.C07C.fetchRoot_tree_choice_master_itself
#print axioms Phil.C07C.plus_alternative_refetch_fails
#print axioms Phil.C07C.duplicate_key_refetch_unstars
#print axioms Phil.C07C.double_star_refetch_fails
#print axioms Phil.C07C.deprecated_choice_dropped_by_refetch
#print axioms Phil.C07C.single_alternative_not_ok
