/-
  C17 — Operations are pure: inputs unchanged, results repeatable, copies faithful.
  Theorems about the effect model (Phil/Effects.lean): per-call frame ⇒ history frame, and the
  aliasing witness behind finding D21.  The per-call summaries themselves are validated by the harness.
-/
import Phil.Effects
namespace Phil.C17
open Phil.Effects

theorem applyCall_frame_aux (assigns : List ((ObjId × Field) × Val)) (h : Heap) (o : ObjId) (f : Field)
    (hno : ∀ a ∈ assigns, a.1 ≠ (o, f)) :
    (assigns.foldl (fun h a => fun o f => if (o, f) = a.1 then a.2 else h o f) h) o f = h o f := by
  induction assigns generalizing h with
  | nil => rfl
  | cons a rest ih =>
    simp only [List.foldl_cons]
    rw [ih _ (fun b hb => hno b (by simp [hb]))]
    have : a.1 ≠ (o, f) := hno a (by simp)
    simp [Ne.symm this]

/-- One call whose assignments stay within a pure summary leaves every observable slot of every
    long-lived object unchanged. -/
theorem call_frame (longLived : List ObjId) (h : Heap) (c : Call) (s : Summary)
    (hw : within c s) (hp : PureSummary longLived s) : sameObs longLived h (applyCall h c) := by
  intro o f hobs
  unfold applyCall
  symm
  apply applyCall_frame_aux
  intro a ha heq
  have hin := hw a ha
  have := hp a.1 hin (by rw [heq]; exact hobs.1)
  rw [heq] at this
  exact hobs.2 this

/-- C17, lifting: for EVERY finite history of calls, if each call stays within a pure summary then the
    observable state of the long-lived objects (master, sources) after the history equals the state
    before it — hence every later call sees the same inputs, in any order, after any number of calls. -/
theorem history_pure (longLived : List ObjId) (calls : List (Call × Summary)) (h : Heap)
    (hall : ∀ cs ∈ calls, within cs.1 cs.2 ∧ PureSummary longLived cs.2) :
    sameObs longLived h (runCalls h (calls.map (·.1))) := by
  induction calls generalizing h with
  | nil => intro o f _; rfl
  | cons cs rest ih =>
    intro o f hobs
    have h1 := call_frame longLived h cs.1 cs.2 (hall cs (by simp)).1 (hall cs (by simp)).2 o f hobs
    have h2 := ih (applyCall h cs.1) (fun x hx => hall x (by simp [hx])) o f hobs
    simp only [List.map_cons, runCalls]
    rw [h1]
    exact h2

/-- Slot assignment on an object that is NOT one of the long-lived objects never reaches them
    (field assignment on a fresh copy or on an object created by fetch is local). -/
theorem field_assignment_local (longLived : List ObjId) (h : Heap) (o : ObjId) (f : Field) (v : Val)
    (hfresh : o ∉ longLived) : sameObs longLived h (applyCall h ⟨[((o, f), v)]⟩) := by
  intro o' f' hobs
  unfold applyCall
  simp only [List.foldl_cons, List.foldl_nil]
  have : (o', f') ≠ (o, f) := by
    intro heq
    have : o' = o := by simpa using congrArg Prod.fst heq
    exact hfresh (this ▸ hobs.1)
  simp [this]

/-- Aliasing witness (finding D21): when the result of a call SHARES a long-lived object — as the
    template copy emitted by fetch for a `.multiple` scope shares the master's children — assigning an
    observable field through the result changes the long-lived object. -/
theorem shared_object_assignment_leaks (longLived : List ObjId) (h : Heap) (o : ObjId) (f : Field) (v : Val)
    (hshared : o ∈ longLived) (hf : f ≠ "tmp") (hv : h o f ≠ v) :
    ¬ sameObs longLived h (applyCall h ⟨[((o, f), v)]⟩) := by
  intro hs
  have := hs o f ⟨hshared, hf⟩
  unfold applyCall at this
  simp at this
  exact hv this

/-- non-vacuity: a two-call history (fetch marking `tmp` on a source, then an assignment on a fresh
    result object) over long-lived objects {1, 2} -/
example : sameObs [1, 2] (fun _ _ => 0)
    (runCalls (fun _ _ => 0) [⟨[((2, "tmp"), 1)]⟩, ⟨[((7, "name"), 5)]⟩]) := by
  have := history_pure [1, 2]
    [(⟨[((2, "tmp"), 1)]⟩, ⟨[(2, "tmp")], []⟩), (⟨[((7, "name"), 5)]⟩, ⟨[(7, "name")], []⟩)] (fun _ _ => 0)
    (by
      intro cs hcs
      simp at hcs
      rcases hcs with h | h <;> subst h <;> refine ⟨?_, ?_⟩ <;> simp [within, PureSummary])
  simpa using this

end Phil.C17
