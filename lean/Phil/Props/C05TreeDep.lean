/-
  C05 / C04 — `.deprecated` definitions inside the closed form of fetch for masters WITH `.multiple`
  scopes (namespace `Phil.C05`).  Lemmas: Phil/Proofs/FetchDepMS.lean (on top of
  Phil/Proofs/FetchTreeMS.lean and Phil/Proofs/FetchChoice.lean).

  Class `MSMasterD` (decidable: `msMasterDB`): `MSMaster` — nested masters with `.multiple` definitions
  and `.multiple` scopes — plus DEPRECATED definitions (`.deprecated` truthy, not `.multiple`, not a
  choice) at every level that is not inside a `.multiple` scope.  (Inside a `.multiple` scope the class
  is the old one: the keys of the list rule are renderings of whole blocks; deprecated definitions of
  masters without `.multiple`, choices included, are in Phil/Props/C11Tree.lean.)
  Specification `msResultD`: `msResult` where a deprecated definition contributes `depBlock` — the `dep`
  early exit of `definition.fetch_value`: NOTHING without a source or when the LAST source re-states
  the default (same word values, both `None`, or both `Auto`); otherwise the definition with the words
  of the last source.
  Validation: 1000 random (master with `.multiple` scopes/definitions and deprecated definitions,
  source) inputs: `msResultD` = the real `master.fetch(source)` (names, `is_template`, words) on all.
-/
import Phil.Proofs.FetchDepMS
import Phil.Props.C05TreeMS
import Phil.Props.C06Tree
set_option linter.unusedVariables false

namespace Phil.C05
open Phil

/-- **Closed form of fetch with `.multiple` scopes and deprecated definitions**: with fuel beyond the
    depth and defined keys the fetch succeeds exactly when there is no clash of kinds; its result is
    `msResultD`, the consumed ids are `msUsed` (a deprecated definition consumes its sources like any
    other); a clash fails with RuntimeError ("incompatible"). -/
theorem fetch_ms_dep_total (e : Envs) (fuel : Nat) (sm : Meta) (mkids srcs : List Obj)
    (hf : MSMasterD mkids) (hfuel : depthL mkids + 1 ≤ fuel) (hsd : sm.disabled = false)
    (hsrc : SrcTree srcs) (hkeys : KeysDefinedMS e mkids srcs) :
    fetchScope e fuel false sm mkids srcs =
      if msNoClash mkids srcs then
        .ok (.scope { sm with tmpl := 0 } (msResultD e mkids srcs), msUsed mkids srcs)
      else .error incompatibleErr :=
  Phil.fetch_ms_dep_total e fuel sm mkids srcs hf hfuel hsd hsrc hkeys

/-- `master.fetch(sources)` on parsed roots, side conditions in executable form -/
theorem fetchRoot_ms_dep_checked (e : Envs) (master : List Obj) (ss : List (List Obj))
    (hm : msMasterDB master = true) (hs : srcCheck ss.flatten = true)
    (hk : keysDefinedMSB e master ss.flatten = true) :
    fetchRoot e false master ss =
      if msNoClash master ss.flatten then
        .ok (.scope { name := [], id := some 0 } (msResultD e master ss.flatten), msUsed master ss.flatten)
      else .error incompatibleErr :=
  have hM := msMasterDB_sound master hm
  fetchRoot_ms_dep e master ss hM.1 hM.2 (srcCheck_sound _ hs).tree (keysDefinedMSB_sound e master _ hk)

/-- the class extends `MSMaster`, and on `MSMaster` the specification is the old one -/
theorem msMaster_is_msMasterD {mkids : List Obj} (h : MSMaster mkids) : MSMasterD mkids := h.toD
theorem msResultD_on_msMaster (e : Envs) (mkids srcs : List Obj) (h : MSMaster mkids) :
    msResultD e mkids srcs = msResult e mkids srcs := msResultD_eq_ms e mkids srcs h.kids

/-- **a deprecated definition without a source is not in the result** -/
theorem deprecated_block_no_source (mm : Meta) (mws : List Word) (srcs : List Obj) (hp : DepMeta mm)
    (h : lastDef srcs mm.name = none) : depBlock mm mws srcs = [] :=
  depBlock_no_source mm mws srcs hp h

/-- **… with sources, the LAST one decides**: dropped when it re-states the default, kept with the
    source's words otherwise -/
theorem deprecated_block_last_source (mm : Meta) (mws : List Word) (srcs : List Obj) (hp : DepMeta mm)
    (sm : Meta) (sws : List Word) (h : lastDef srcs mm.name = some (.defn sm sws)) :
    depBlock mm mws srcs =
      if (isPlainNone (Obj.defn sm sws).srcWords && isPlainNone mws) ||
         (isPlainAuto (Obj.defn sm sws).srcWords && isPlainAuto mws) ||
         (!isPlainNone (Obj.defn sm sws).srcWords && !isPlainAuto (Obj.defn sm sws).srcWords &&
           !isPlainNone mws && !isPlainAuto mws &&
           (Obj.defn sm sws).srcWords.map (fun (w : Word) => w.value) == mws.map (fun (w : Word) => w.value))
      then [] else [.defn { mm with tmpl := 0 } (Obj.defn sm sws).srcWords] :=
  depBlock_last mm mws srcs hp sm sws h

/-! ### an instance through the parser (replayed on the Python library) -/

/-- the names (with `#is_template` and `=words`) of a tree, depth first -/
def obsD (pre : String) : Nat → List Obj → List String
  | 0, _ => []
  | f + 1, l => l.flatMap (fun o => match o with
    | .defn m ws => [pre ++ String.ofList m.name ++ (if m.tmpl == 0 then "" else "#" ++ toString m.tmpl) ++ "=" ++
        " ".intercalate (ws.map (fun w => String.ofList w.value))]
    | .scope m kids => (pre ++ String.ofList m.name ++ (if m.tmpl == 0 then "" else "#" ++ toString m.tmpl)) ::
        obsD (pre ++ String.ofList m.name ++ ".") f kids)

/-- master: a deprecated int `old`, a `.multiple` scope `s { b = x }`, a scope `g` with a deprecated
    `gone` and a plain `keep` -/
def depMS : List Obj :=
  C06.objsOf "old = 1\n.type=int\n.deprecated=True\ns\n.multiple=True\n{\n  b = x\n}\ng {\n  gone = a\n  .deprecated=True\n  keep = 2\n}\n"
def depS1 : List Obj := C06.objsOf "old = 5\ns { b = y }\ns { b = z }\ng.gone = a\n"
def depS2 : List Obj := C06.objsOf "old = 5\nold = 1\ng.gone = q\n"

/-- the instance satisfies every executable hypothesis, for both source texts and for no source -/
theorem depMS_in_class :
    (msMasterDB depMS && srcCheck depS1 && srcCheck depS2 && keysDefinedMSB env12 depMS depS1 &&
     keysDefinedMSB env12 depMS depS2 && keysDefinedMSB env12 depMS [] && msNoClash depMS depS1 &&
     msNoClash depMS depS2) = true := by decide +kernel

/-- without sources both deprecated definitions are gone; `old = 5` is kept, `g.gone = a` (the
    default) is dropped; `old = 5` then `old = 1` (the default, LAST) is dropped, `g.gone = q` kept.
    (Python `master.fetch(...)`: exactly these three lists.) -/
theorem depMS_evaluated :
    (obsD "" 5 (msResultD env12 depMS []), obsD "" 5 (msResultD env12 depMS depS1),
     obsD "" 5 (msResultD env12 depMS depS2)) =
    (["s#1", "s.b=x", "g", "g.keep=2"],
     ["old=5", "s#-1", "s.b=x", "s", "s.b=y", "s", "s.b=z", "g", "g.keep=2"],
     ["s#1", "s.b=x", "g", "g.gone=q", "g.keep=2"]) := by decide +kernel

/-- the closed form applied to the instance: that is what the real entry point returns -/
example : fetchRoot env12 false depMS [depS1] =
    .ok (.scope { name := [], id := some 0 } (msResultD env12 depMS depS1), msUsed depMS depS1) := by
  have hc := depMS_in_class
  simp only [Bool.and_eq_true] at hc
  have hfl : ([depS1] : List (List Obj)).flatten = depS1 := by simp
  have h := fetchRoot_ms_dep_checked env12 depMS [depS1] hc.1.1.1.1.1.1.1 (by rw [hfl]; exact hc.1.1.1.1.1.1.2)
    (by rw [hfl]; exact hc.1.1.1.1.2)
  rw [hfl, hc.1.2] at h
  exact h

end Phil.C05

#print axioms Phil.C05.fetch_ms_dep_total
#print axioms Phil.C05.fetchRoot_ms_dep_checked
#print axioms Phil.C05.msMaster_is_msMasterD
#print axioms Phil.C05.msResultD_on_msMaster
#print axioms Phil.C05.deprecated_block_no_source
#print axioms Phil.C05.deprecated_block_last_source
#print axioms Phil.C05.depMS_in_class
#print axioms Phil.C05.depMS_evaluated
