/-
  C05 / C04 / C07 (masters that REPEAT the name of a `.multiple` object — further master occurrences):
  the OPERATIONAL closed form of the non-diff fetch on the class `MSMaster2`.

  Model: Phil/Fetch.lean (`fetchScope`/`fetchRoot`).  Lemmas: Phil/Proofs/FetchTreeMS3.lean (candidate
  loop with a non-empty `fromMasterOf`, `masterActiveObjects` on masters with repeated names), on top
  of Phil/Proofs/FetchTreeMS2.lean (specification `ms2Result`) and Phil/Proofs/FetchTreeMS.lean.

  Class covered (unbounded: every such master, every such source list, every adequate fuel):
    * master: `MSMaster2` (executable `ms2MasterB`) — as `MSMaster` (a tree of scopes to any depth,
      `.multiple` or not, optional or mandatory, `.multiple` in `.multiple`; definitions not
      `.deprecated`, not choices; names non-empty and dot-free), EXCEPT that objects may be disabled
      and the name of a `.multiple` object (definition or scope) may be repeated by later enabled
      siblings, at every level; a non-multiple name still occurs once among the enabled siblings
      (`non_multiple_repeat_outside`: sharp).  `MSMaster ⊆ MSMaster2` (`msMaster_is_msMaster2`).
    * master definitions are variable-free and carry no recorded resolution (`SrcTree mkids`; follows
      from `RefetchTree`, true of every parsed variable-free master): the further occurrences are read
      exactly like sources.  Sharp IN THE MODEL (`master_variable_outside`): the model does not resolve
      `$var` inside a master's further occurrence (the real library does — outside the model).
    * sources: arbitrary `SrcTree` lists;  keys: `KeysDefinedMS2` (sharp: `keysDefined_ms2_needed`);
    * fuel: `depthL mkids + 1 ≤ fuel`; `fetchRoot` provides it for masters nested ≤ 1000 deep.
  Facts:
    * C05 `fetch_ms2_total` (TOTAL: result `ms2Result` + consumed ids `ms2Used`, or "incompatible"
      exactly when `ms2NoClash` fails — a clash may sit among the master's own further occurrences:
      `master_own_clash`), `fetchRoot_ms2`, `fetchRoot_ms2_checked`;
      the list rule in the property's wording: `multiple_scope_list_rule_ms2`,
      `multiple_defn_list_rule_ms2`, `list_rule_spelled_ms2`, `further_occurrence_no_block`,
      `further_occurrences_mark_nothing`;
    * C04 `ms2_result_blocks`, `ms2_block_members`, `ms2_result_depth`;
    * C07 `ms2_refetch_idempotent` (FULL strength: no hypothesis beyond those of the first fetch — no
      witness that idempotence needs one exists), `ms2Result_idempotent`, `master_as_source_ms2`,
      `ms2_fetch_master_itself` (needs the master not to clash with itself — else both sides fail,
      `master_own_clash`), `refetch_hypotheses_ms2`, `fetchRoot_ms2_idempotent`.
  Validation: the specification `ms2Result`/`ms2NoClash` was validated against the real library before
  proving (Props/C05TreeMS2.lean: 400 random instances, 254 with repeated names, 0 mismatches).  With
  `ms2Used` (new here) and the class checks, after proving (harness/validation/ms2_val_gen.py, seed
  20260930; `.multiple` scopes and definitions repeated at every level, disabled objects, clashes inside
  the master and in the sources, dotted / braced / disabled / unknown sources): 600 random instances, 500
  in the class (371 outside the old class `MSMaster`), keys defined on all: 408 results equal WITH the
  reported unused list equal to the one computed from `ms2Used`, 92 clash errors agree with
  `ms2NoClash`, 0 mismatches; Python re-fetch of the result: fixed point on 408 of 408;
  `M.fetch(M) = M.fetch()`: equal on 462 masters, both fail on 38 (self-clashing masters), 0 differ.
  The sharpness witnesses below are replayed on the real library (outputs quoted).
-/
import Phil.Proofs.FetchTreeMS3
import Phil.Props.C05TreeMS2
set_option linter.unusedVariables false

namespace Phil.C05
open Phil

/-! ### the closed form -/

/-- **Closed form of the fetch of a master with further master occurrences of `.multiple` objects
    (total).**  On `MSMaster2`, with fuel beyond the nesting depth, variable-free master definitions
    and defined keys, the fetch succeeds exactly when there is no clash of kinds — among the sources
    or among the master's own further occurrences, at every depth and inside every instance
    (`ms2NoClash`); its result is `ms2Result`, the consumed ids are `ms2Used` (in this order);
    otherwise it raises RuntimeError ("incompatible"). -/
theorem fetch_ms2_total (e : Envs) (fuel : Nat) (sm : Meta) (mkids srcs : List Obj)
    (hf : MSMaster2 mkids) (hfuel : depthL mkids + 1 ≤ fuel) (hsd : sm.disabled = false)
    (hsrc : SrcTree srcs) (hmsrc : SrcTree mkids) (hkeys : KeysDefinedMS2 e [] mkids srcs) :
    fetchScope e fuel false sm mkids srcs =
      if ms2NoClash [] mkids srcs then
        .ok (.scope { sm with tmpl := 0 } (ms2Result e [] mkids srcs), ms2Used [] mkids srcs)
      else .error (.runtime "incompatible" none) :=
  Phil.fetch_ms2_total e fuel sm mkids srcs hf hfuel hsd hsrc hmsrc hkeys

/-- **`master.fetch(sources)`** on parsed roots: the fuel `fetchRoot` computes is adequate. -/
theorem fetchRoot_ms2 (e : Envs) (master : List Obj) (ss : List (List Obj))
    (hf : MSMaster2 master) (hd : depthL master ≤ 1000) (hsrc : SrcTree ss.flatten)
    (hmsrc : SrcTree master) (hkeys : KeysDefinedMS2 e [] master ss.flatten) :
    fetchRoot e false master ss =
      if ms2NoClash [] master ss.flatten then
        .ok (.scope { name := [], id := some 0 } (ms2Result e [] master ss.flatten),
             ms2Used [] master ss.flatten)
      else .error (.runtime "incompatible" none) :=
  Phil.fetchRoot_ms2 e master ss hf hd hsrc hmsrc hkeys

/-- … with the side conditions in executable form (`masterCheck_ms2`, `srcCheck`, `keysDefinedMS2B`) -/
theorem fetchRoot_ms2_checked (e : Envs) (master : List Obj) (ss : List (List Obj))
    (hm : masterCheck_ms2 master = true) (hs : srcCheck ss.flatten = true)
    (hk : keysDefinedMS2B e [] master ss.flatten = true) :
    fetchRoot e false master ss =
      if ms2NoClash [] master ss.flatten then
        .ok (.scope { name := [], id := some 0 } (ms2Result e [] master ss.flatten),
             ms2Used [] master ss.flatten)
      else .error (.runtime "incompatible" none) :=
  have hM := masterCheck_ms2_sound master hm
  Phil.fetchRoot_ms2 e master ss hM.tree hM.depth (srcCheck_sound ss.flatten hs).tree hM.srcTree
    (keysDefinedMS2B_sound e master [] _ hk)

/-- the class extends that of Props/C05TreeMS.lean (where `ms2Result` is `msResult`: `ms2_conservative`) -/
theorem msMaster_is_msMaster2 (mkids : List Obj) (h : MSMaster mkids) : MSMaster2 mkids := h.toMS2

/-- the executable form of the class is sound -/
theorem ms2MasterB_is_msMaster2 (mkids : List Obj) (h : ms2MasterB mkids = true) : MSMaster2 mkids :=
  ms2MasterB_sound mkids h

/-- **`master_active_objects` on the class**: the first enabled occurrence of every name (with its
    index among the scope's objects) — further occurrences of `.multiple` objects are not visited -/
theorem master_active_objects_ms2 (mkids : List Obj) (hf : MSMaster2 mkids) :
    masterActiveObjects mkids = .ok (firstsIdx_ms3 0 [] mkids) :=
  masterActive_ms3 mkids hf.firsts

/-- the master-provided candidates of a first occurrence are its later enabled same-name siblings -/
theorem master_candidates_ms2 (pre : List Obj) (o : Obj) (os : List Obj)
    (hpre : ∀ x ∈ pre, x.meta.disabled = false → x.name ≠ o.name) :
    fromMasterOf (pre ++ o :: os) pre.length o = (activeNamed o.name os).map (fun x => (true, x)) :=
  fromMasterOf_ms3 pre o os hpre

/-! ### C05: the list rule, in the property's wording -/

/-- **The list rule for a `.multiple` scope with further master occurrences.**  The block of the first
    occurrence `.scope mm kids` is `msMultiBlock` — the master's first occurrence (its own fetched body,
    live) only if `.optional = False`, then always first; else the template — over the candidates
    built from the FURTHER MASTER OCCURRENCES (`scopesNamed mm.name rest`) followed by ALL SOURCE
    OCCURRENCES (`scopesNamed mm.name srcs`), in order, each candidate being the fetch of the body
    against that ONE block; the rest of the master goes on with the name marked as seen. -/
theorem multiple_scope_list_rule_ms2 (e : Envs) (seen : List Str) (mm : Meta) (kids rest srcs : List Obj)
    (hen : mm.disabled = false) (hs : seen.contains mm.name = false)
    (hmult : (mm.attrs.get "multiple").truthy = true) :
    ms2Result e seen (.scope mm kids :: rest) srcs =
      msMultiBlock (.scope mm kids) (ms2Cand e mm kids [])
        (keyMS e (.scope mm kids) (ms2Cand e mm kids []))
        ((scopesNamed mm.name rest ++ scopesNamed mm.name srcs).map (fun s =>
          (ms2Cand e mm kids s.children, keyMS e (.scope mm kids) (ms2Cand e mm kids s.children)))) ++
      ms2Result e (mm.name :: seen) rest srcs := by
  rw [ms2Result_cons e seen (.scope mm kids) rest srcs hen hs, ms2Block]
  simp only [hmult, if_true]
  rw [show (Obj.scope mm kids).name = mm.name from rfl, scopesNamed_cands_ms3]

/-- **The list rule for a `.multiple` definition with further master occurrences**: `multiBlock` — the
    template (flag `0` if `.optional = False`: the master's first occurrence, live and first) followed
    by the survivors among the candidates built from the further master occurrences
    (`defsNamed mm.name rest`) and then all source occurrences (`defsNamed mm.name srcs`), in order. -/
theorem multiple_defn_list_rule_ms2 (e : Envs) (seen : List Str) (mm : Meta) (mws : List Word)
    (rest srcs : List Obj) (hen : mm.disabled = false) (hs : seen.contains mm.name = false)
    (hmult : isMultiple (.defn mm mws) = true) :
    ms2Result e seen (.defn mm mws :: rest) srcs =
      multiBlock (.defn mm mws) (keyOf e 0 (.defn mm mws) (.defn mm mws))
        (candsOf e 0 (.defn mm mws) (defsNamed mm.name rest ++ defsNamed mm.name srcs)) ++
      ms2Result e (mm.name :: seen) rest srcs := by
  rw [ms2Result_cons e seen (.defn mm mws) rest srcs hen hs, ms2Block, tmBlock]
  simp only [hmult, if_true]
  rw [show (Obj.defn mm mws).name = mm.name from rfl, defsNamed_cands_ms3]

/-- **"instances equal to the template dropped and exact duplicates collapsed onto the later copy"**:
    the survivors of `msMultiBlock` / `multiBlock` are `dedupKeepLast` (of equal renderings only the
    LAST stays) of the candidates whose rendering differs from the master's (`k0`); the head is the
    master's own instance, live (flag 0), exactly when `.optional = False`, else the template flagged
    `1` (nothing survives) or `-1` -/
theorem list_rule_spelled_ms2 (mo self : Obj) (k0 : Str) (cks : List (Obj × Str)) :
    msMultiBlock mo self k0 cks =
      (if (mo.attr "optional").mandatory then withTmpl self 0
       else withTmpl mo (if (dedupKeepLast (cks.filter (fun y => y.2 != k0))).isEmpty then 1 else -1)) ::
      (dedupKeepLast (cks.filter (fun y => y.2 != k0))).map (·.1) ∧
    multiBlock mo k0 cks =
      withTmpl mo (if (mo.attr "optional").mandatory then 0
        else if (dedupKeepLast (cks.filter (fun y => y.2 != k0))).isEmpty then 1 else -1) ::
      (dedupKeepLast (cks.filter (fun y => y.2 != k0))).map (·.1) := ⟨rfl, rfl⟩

/-- a further occurrence contributes no block of its own -/
theorem further_occurrence_no_block (e : Envs) (seen : List Str) (mo : Obj) (rest srcs : List Obj)
    (hs : seen.contains mo.name = true) :
    ms2Result e seen (mo :: rest) srcs = ms2Result e seen rest srcs :=
  ms2Result_further e seen mo rest srcs hs

/-- a non-multiple first occurrence has no further occurrences in the class: its block is built from
    the sources alone -/
theorem non_multiple_single_ms2 (mkids : List Obj) (hf : MSMaster2 mkids) (p : Obj × List Obj)
    (hp : p ∈ firstsT_ms3 [] mkids) (hnm : isMultiple p.1 = false) : p.2 = [] :=
  firstsT_nonmulti_ms3 mkids [] [] (fun _ => rfl) hf.firsts p hp hnm

/-- **the consumed ids come from the sources only**: `ms2Used` does not look at the further master
    occurrences (a master-provided candidate marks nothing), and on masters with one occurrence per
    name it unfolds like `msUsed` -/
theorem further_occurrences_mark_nothing (seen : List Str) (mo : Obj) (rest srcs : List Obj)
    (hen : mo.meta.disabled = false) (hs : seen.contains mo.name = false) :
    ms2Used seen (mo :: rest) srcs = ms2UsedObj mo srcs ++ ms2Used (mo.name :: seen) rest srcs := by
  rw [ms2Used]
  simp only [hen, hs, Bool.or_self, Bool.false_eq_true, if_false]

/-! ### non-vacuity and sharpness (instances through the parser) -/

/-- the parsed instance of Props/C05TreeMS2.lean (a `.multiple` scope repeated, a `.multiple`
    definition repeated inside it and at top level) satisfies every hypothesis -/
example : (masterCheck_ms2 ms2M && srcCheck ms2S && keysDefinedMS2B envTm [] ms2M ms2S &&
    ms2NoClash [] ms2M ms2S && !msMasterB ms2M && depthL ms2M == 1) = true := by
  decide +kernel

/-- the theorem applied to the instance (hypotheses discharged by kernel evaluation): the model's
    fetch IS the specification; the ids of the sources are consumed, none for the master-provided
    candidates -/
example : fetchRoot envTm false ms2M [ms2S] =
    .ok (.scope { name := [], id := some 0 } (ms2Result envTm [] ms2M ms2S), ms2Used [] ms2M ms2S) := by
  have hfl : ([ms2S] : List (List Obj)).flatten = ms2S := by simp
  have h := fetchRoot_ms2_checked envTm ms2M [ms2S] (by decide +kernel) (by rw [hfl]; decide +kernel)
    (by rw [hfl]; decide +kernel)
  rw [hfl] at h
  rw [h, show ms2NoClash [] ms2M ms2S = true by decide +kernel]
  rfl

example : (ms2Used [] ms2M ms2S, (C06.unusedOf ms2S (ms2Used [] ms2M ms2S)).length) =
    ([1, 2, 4, 5, 6, 7, 8], 0) := by
  decide +kernel

/-- **the class is sharp: a NON-multiple name must not be repeated.**  Master `s { a = 1 } s { a = 2 }`
    (`s` not `.multiple`): it is outside `MSMaster2`; the fetch visits BOTH scopes and returns two
    blocks, the specification one (replayed on the real library: `s { a = 1 } s { a = 2 }`); a repeated
    non-multiple DEFINITION makes `master_active_objects` fail (real library: `RuntimeError: Duplicate
    definitions in master (first not marked with .multiple=True)`) -/
theorem non_multiple_repeat_outside :
    ms2MasterB (tmObjs "s {\n a = 1\n}\ns {\n a = 2\n}\n") = false ∧
    dumpListMS "" (kidsOfMS2 (fetchRoot envTm false (tmObjs "s {\n a = 1\n}\ns {\n a = 2\n}\n") [])) =
      ["S s 0", "D s.a 0 1", "S s 0", "D s.a 0 2"] ∧
    dumpListMS "" (ms2Result envTm [] (tmObjs "s {\n a = 1\n}\ns {\n a = 2\n}\n") []) =
      ["S s 0", "D s.a 0 2"] ∧
    ms2MasterB (tmObjs "a = 1\na = 2\n") = false ∧
    errOf (fetchRoot envTm false (tmObjs "a = 1\na = 2\n") []) = some (.runtime "duplicate_master" (some 2)) := by
  decide +kernel

/-- **the hypothesis `KeysDefinedMS2` is sharp — already for a master-provided candidate**: the further
    occurrence `d = maybe` of the `.multiple` bool `d = yes` does not convert; the master is in the
    class, nothing clashes, the executable check says the keys are not defined, and the fetch (with
    no source at all) raises the converter's error (replayed on the real library: `RuntimeError: One
    True or False value expected, d="maybe" found (input line 4)`) -/
theorem keysDefined_ms2_needed :
    masterCheck_ms2 (tmObjs "d = yes\n.type=bool\n.multiple=True\nd = maybe\n") = true ∧
    keysDefinedMS2B envTm [] (tmObjs "d = yes\n.type=bool\n.multiple=True\nd = maybe\n") [] = false ∧
    ms2NoClash [] (tmObjs "d = yes\n.type=bool\n.multiple=True\nd = maybe\n") [] = true ∧
    errOf (fetchRoot envTm false (tmObjs "d = yes\n.type=bool\n.multiple=True\nd = maybe\n") []) =
      some (.runtime "bool_expected" (some 4)) := by
  decide +kernel

/-- **a clash among the master's OWN further occurrences**: the `.multiple` scope `s` followed by the
    definition `s = 3` — in the class, `ms2NoClash` is false with no source at all, and the fetch
    fails (replayed on the real library: `RuntimeError: Incompatible parameter objects: scope "s"
    (input line 1) vs. definition "s" (input line 6)`) -/
theorem master_own_clash :
    masterCheck_ms2 (tmObjs "s\n.multiple=True\n{\n a = 1\n}\ns = 3\n") = true ∧
    ms2NoClash [] (tmObjs "s\n.multiple=True\n{\n a = 1\n}\ns = 3\n") [] = false ∧
    errOf (fetchRoot envTm false (tmObjs "s\n.multiple=True\n{\n a = 1\n}\ns = 3\n") []) =
      some (.runtime "incompatible" none) := by
  decide +kernel

/-- **the hypothesis `SrcTree mkids` is sharp in the model**: a further occurrence `d = $v` carries a
    live variable; the master is in the class (`ms2MasterB`), keys and clash test are fine, but the
    model answers `unsupported` (it does not resolve variables of master-provided candidates; the
    real library substitutes `$v` and returns `d = 5` — outside the model, not a defect) -/
theorem master_variable_outside :
    ms2MasterB (tmObjs "v = 5\nd = 1\n.multiple=True\nd = $v\n") = true ∧
    masterCheck_ms2 (tmObjs "v = 5\nd = 1\n.multiple=True\nd = $v\n") = false ∧
    ms2NoClash [] (tmObjs "v = 5\nd = 1\n.multiple=True\nd = $v\n") [] = true ∧
    errOf (fetchRoot envTm false (tmObjs "v = 5\nd = 1\n.multiple=True\nd = $v\n") []) =
      some (.unsupported "variable in source") := by
  decide +kernel

end Phil.C05

namespace Phil.C04
open Phil

/-- **C04 with further master occurrences: the result is the blocks of the master's FIRST enabled
    occurrences, in the master's order** (a further occurrence adds instances to the block of its
    first occurrence, never a block of its own), and every object of a block is a copy of its master
    object: same name, same kind, enabled, same attributes. -/
theorem ms2_result_blocks (e : Envs) (fuel : Nat) (sm : Meta) (mkids srcs : List Obj)
    (hf : MSMaster2 mkids) (hfuel : depthL mkids + 1 ≤ fuel) (hsd : sm.disabled = false)
    (hsrc : SrcTree srcs) (hmsrc : SrcTree mkids) (hkeys : KeysDefinedMS2 e [] mkids srcs)
    (ro : Obj) (used : List Nat) (h : fetchScope e fuel false sm mkids srcs = .ok (ro, used)) :
    ro.children = (firstsT_ms3 [] mkids).flatMap (fun p => ms2Block e p.1 (p.2 ++ srcs)) ∧
      ∀ p ∈ firstsT_ms3 [] mkids, p.1 ∈ mkids ∧ ∀ o ∈ ms2Block e p.1 (p.2 ++ srcs),
        o.name = p.1.name ∧ o.isDefn = p.1.isDefn ∧ o.meta.disabled = false ∧
          o.meta.attrs = p.1.meta.attrs := by
  obtain ⟨_, hro, _⟩ := fetch_ms2_ok e fuel sm mkids srcs hf hfuel hsd hsrc hmsrc hkeys ro used h
  subst hro
  refine ⟨ms2Result_eq_flatMap_ms3 e srcs mkids [], ?_⟩
  intro p hp
  obtain ⟨hmem, hen, _⟩ := mem_firstsT_ms3 mkids [] p hp
  refine ⟨hmem, ?_⟩
  intro o ho
  have hm := ms2Block_member_ms3 e p.1 _ o ho
  exact ⟨hm.1, hm.2.2.1, by rw [hm.2.1]; exact hen, hm.2.2.2⟩

/-- the same holds at every depth (the children of a result scope are `ms2Result` of the master
    scope's body) -/
theorem ms2_block_members (e : Envs) (mo : Obj) (cands : List Obj) (o : Obj) (ho : o ∈ ms2Block e mo cands) :
    o.name = mo.name ∧ o.isDefn = mo.isDefn ∧ o.meta.disabled = mo.meta.disabled ∧
      o.meta.attrs = mo.meta.attrs :=
  have hm := ms2Block_member_ms3 e mo cands o ho
  ⟨hm.1, hm.2.2.1, hm.2.1, hm.2.2.2⟩

/-- the result is nested no deeper than the master -/
theorem ms2_result_depth (e : Envs) (mkids srcs : List Obj) :
    depthL (ms2Result e [] mkids srcs) ≤ depthL mkids :=
  depthL_ms2Result e mkids [] srcs

/-- **what stands under the name of a first occurrence in the result**: exactly its block -/
theorem ms2_result_view (e : Envs) (fuel : Nat) (sm : Meta) (mkids srcs : List Obj)
    (hf : MSMaster2 mkids) (hfuel : depthL mkids + 1 ≤ fuel) (hsd : sm.disabled = false)
    (hsrc : SrcTree srcs) (hmsrc : SrcTree mkids) (hkeys : KeysDefinedMS2 e [] mkids srcs)
    (ro : Obj) (used : List Nat) (h : fetchScope e fuel false sm mkids srcs = .ok (ro, used))
    (p : Obj × List Obj) (hp : p ∈ firstsT_ms3 [] mkids) :
    activeNamed p.1.name ro.children = ms2Block e p.1 (p.2 ++ srcs) := by
  obtain ⟨_, hro, _⟩ := fetch_ms2_ok e fuel sm mkids srcs hf hfuel hsd hsrc hmsrc hkeys ro used h
  subst hro
  exact view_ms3 e mkids srcs hf p hp

/-- **every non-multiple name stands exactly once per enclosing instance** -/
theorem ms2_plain_exactly_once (e : Envs) (fuel : Nat) (sm : Meta) (mkids srcs : List Obj)
    (hf : MSMaster2 mkids) (hfuel : depthL mkids + 1 ≤ fuel) (hsd : sm.disabled = false)
    (hsrc : SrcTree srcs) (hmsrc : SrcTree mkids) (hkeys : KeysDefinedMS2 e [] mkids srcs)
    (ro : Obj) (used : List Nat) (h : fetchScope e fuel false sm mkids srcs = .ok (ro, used))
    (p : Obj × List Obj) (hp : p ∈ firstsT_ms3 [] mkids) (hnm : isMultiple p.1 = false) :
    (activeNamed p.1.name ro.children).length = 1 := by
  rw [ms2_result_view e fuel sm mkids srcs hf hfuel hsd hsrc hmsrc hkeys ro used h p hp]
  exact ms2Block_plain_length e p.1 _ hnm

end Phil.C04

namespace Phil.C07
open Phil

/-- **C07 at the level of the specification: fetching is idempotent** on masters with further master
    occurrences of `.multiple` objects.  NO hypothesis on the renderings is needed: re-running the list
    rule over the master-provided candidates, the template and the survivors gives the survivors
    (`listRule_refetch_ms3`). -/
theorem ms2Result_idempotent (e : Envs) (mkids srcs : List Obj) (hf : MSMaster2 mkids)
    (hr : RefetchTree mkids) :
    ms2Result e [] mkids (ms2Result e [] mkids srcs) = ms2Result e [] mkids srcs :=
  ms2Result_idem e mkids srcs hf hr

/-- **the master's own body as a source changes nothing** (`M.fetch(M) = M.fetch()`), further
    occurrences included: they are candidates a second time and collapse onto the later copies -/
theorem master_as_source_ms2 (e : Envs) (mkids : List Obj) (hf : MSMaster2 mkids) (hr : RefetchTree mkids) :
    ms2Result e [] mkids mkids = ms2Result e [] mkids [] :=
  ms2Result_self e mkids hf hr

/-- **C07 for masters with further master occurrences: fetching is idempotent.**  Whenever the fetch
    succeeds, fetching its result again — as the only source — succeeds and returns the same result.
    Full strength: no hypothesis beyond those of the first fetch (`RefetchTree` / `SrcNoDollar`: master
    definitions not template-marked, variable-free words — true of every parsed, variable-free input). -/
theorem ms2_refetch_idempotent (e : Envs) (fuel : Nat) (sm : Meta) (mkids srcs : List Obj)
    (hf : MSMaster2 mkids) (hfuel : depthL mkids + 1 ≤ fuel) (hsd : sm.disabled = false)
    (hr : RefetchTree mkids) (hsrc : SrcTree srcs) (hdol : SrcNoDollar srcs)
    (hkeys : KeysDefinedMS2 e [] mkids srcs) (ro : Obj) (used : List Nat)
    (h : fetchScope e fuel false sm mkids srcs = .ok (ro, used)) :
    ∃ used', fetchScope e fuel false sm mkids ro.children = .ok (ro, used') := by
  obtain ⟨hnc, hro, _⟩ := fetch_ms2_ok e fuel sm mkids srcs hf hfuel hsd hsrc
    (srcTree_of_refetch_ms2 mkids hf hr) hkeys ro used h
  subst hro
  exact ⟨_, Phil.ms2_refetch_idempotent e fuel sm mkids srcs hf hfuel hsd hr hdol hnc hkeys⟩

/-- the re-fetch needs no further hypotheses: the result never clashes with its master, is a
    well-formed source tree, and its keys are defined -/
theorem refetch_hypotheses_ms2 (e : Envs) (mkids srcs : List Obj) (hf : MSMaster2 mkids)
    (hr : RefetchTree mkids) (hdol : SrcNoDollar srcs) (hnc : ms2NoClash [] mkids srcs = true)
    (hkeys : KeysDefinedMS2 e [] mkids srcs) :
    ms2NoClash [] mkids (ms2Result e [] mkids srcs) = true ∧ SrcTree (ms2Result e [] mkids srcs) ∧
      KeysDefinedMS2 e [] mkids (ms2Result e [] mkids srcs) :=
  ⟨(ms2Side_result e mkids srcs hf hr hnc hkeys).1, srcTree_ms2Result e mkids srcs hf hr hdol,
    (ms2Side_result e mkids srcs hf hr hnc hkeys).2⟩

/-- **adding the master itself as the source gives the fetch with no source** (`M.fetch(M) = M.fetch()`),
    operationally: both succeed with the same tree — provided the master does not clash with itself
    (`ms2NoClash [] mkids []`; else both fail: `C05.master_own_clash`) -/
theorem ms2_fetch_master_itself (e : Envs) (fuel : Nat) (sm : Meta) (mkids : List Obj)
    (hf : MSMaster2 mkids) (hfuel : depthL mkids + 1 ≤ fuel) (hsd : sm.disabled = false)
    (hr : RefetchTree mkids) (hnc : ms2NoClash [] mkids [] = true) (hkeys : KeysDefinedMS2 e [] mkids []) :
    ∃ u1 u2, fetchScope e fuel false sm mkids mkids =
        .ok (.scope { sm with tmpl := 0 } (ms2Result e [] mkids []), u1) ∧
      fetchScope e fuel false sm mkids [] =
        .ok (.scope { sm with tmpl := 0 } (ms2Result e [] mkids []), u2) := by
  refine ⟨ms2Used [] mkids mkids, ms2Used [] mkids [],
    ms2_fetch_self e fuel sm mkids hf hfuel hsd hr hnc hkeys, ?_⟩
  rw [Phil.fetch_ms2_total e fuel sm mkids [] hf hfuel hsd SrcTree.nil_ms
    (srcTree_of_refetch_ms2 mkids hf hr) hkeys, hnc]
  rfl

/-- **`master.fetch(source=master.fetch(sources))`** on parsed roots, side conditions in executable form -/
theorem fetchRoot_ms2_idempotent (e : Envs) (master : List Obj) (ss : List (List Obj))
    (hm : masterCheck_ms2 master = true) (hs : srcCheck ss.flatten = true)
    (hk : keysDefinedMS2B e [] master ss.flatten = true)
    (ro : Obj) (used : List Nat)
    (h : fetchRoot e false master ss = .ok (ro, used)) :
    ∃ used', fetchRoot e false master [ro.children] = .ok (ro, used') := by
  have hM := masterCheck_ms2_sound master hm
  have hS := srcCheck_sound ss.flatten hs
  have hfl : ([ro.children] : List (List Obj)).flatten = ro.children := by simp
  unfold fetchRoot
  rw [hfl]
  exact ms2_refetch_idempotent e _ _ master ss.flatten hM.tree (fetchRoot_fuel_tree master hM.depth) rfl
    hM.refetch hS.tree hS.noDollar (keysDefinedMS2B_sound e master [] _ hk) ro used h

/-- the theorem applied to the instance of Props/C05TreeMS2.lean (hypotheses discharged by kernel
    evaluation) — the unbounded statement behind `ms2_instance_idempotent` -/
example (ro : Obj) (used : List Nat) (h : fetchRoot C05.envTm false C05.ms2M [C05.ms2S] = .ok (ro, used)) :
    ∃ used', fetchRoot C05.envTm false C05.ms2M [ro.children] = .ok (ro, used') :=
  fetchRoot_ms2_idempotent C05.envTm C05.ms2M [C05.ms2S] (by decide +kernel) (by decide +kernel)
    (by decide +kernel) ro used h

/-- **`master.fetch(source=master) = master.fetch()`** on parsed roots, side conditions in executable form -/
theorem fetchRoot_ms2_master_itself (e : Envs) (master : List Obj)
    (hm : masterCheck_ms2 master = true) (hnc : ms2NoClash [] master [] = true)
    (hk : keysDefinedMS2B e [] master [] = true) :
    ∃ u1 u2, fetchRoot e false master [master] =
        .ok (.scope { name := [], id := some 0 } (ms2Result e [] master []), u1) ∧
      fetchRoot e false master [] =
        .ok (.scope { name := [], id := some 0 } (ms2Result e [] master []), u2) := by
  have hM := masterCheck_ms2_sound master hm
  have hfl : ([master] : List (List Obj)).flatten = master := by simp
  have hfl0 : ([] : List (List Obj)).flatten = ([] : List Obj) := rfl
  unfold fetchRoot
  rw [hfl, hfl0]
  exact ms2_fetch_master_itself e _ _ master hM.tree (fetchRoot_fuel_tree master hM.depth) rfl hM.refetch
    hnc (keysDefinedMS2B_sound e master [] [] hk)

/-- `M.fetch(M) = M.fetch()` on the instance, from the theorem -/
example : ∃ u1 u2, fetchRoot C05.envTm false C05.ms2M [C05.ms2M] =
      .ok (.scope { name := [], id := some 0 } (ms2Result C05.envTm [] C05.ms2M []), u1) ∧
    fetchRoot C05.envTm false C05.ms2M [] =
      .ok (.scope { name := [], id := some 0 } (ms2Result C05.envTm [] C05.ms2M []), u2) :=
  fetchRoot_ms2_master_itself C05.envTm C05.ms2M (by decide +kernel) (by decide +kernel) (by decide +kernel)

/-- **the hypothesis `ms2NoClash [] mkids []` of `ms2_fetch_master_itself` is sharp**: the master
    `s (.multiple) { a = 1 } ; s = 3` is in the class but clashes with itself — `M.fetch(M)` and
    `M.fetch()` BOTH fail (replayed on the real library: both raise `RuntimeError: Incompatible
    parameter objects: scope "s" (input line 1) vs. definition "s" (input line 6)`), so the two sides
    still agree -/
theorem master_itself_needs_noclash :
    masterCheck_ms2 (C05.tmObjs "s\n.multiple=True\n{\n a = 1\n}\ns = 3\n") = true ∧
    ms2NoClash [] (C05.tmObjs "s\n.multiple=True\n{\n a = 1\n}\ns = 3\n") [] = false ∧
    errOf (fetchRoot C05.envTm false (C05.tmObjs "s\n.multiple=True\n{\n a = 1\n}\ns = 3\n")
      [C05.tmObjs "s\n.multiple=True\n{\n a = 1\n}\ns = 3\n"]) = some (.runtime "incompatible" none) ∧
    errOf (fetchRoot C05.envTm false (C05.tmObjs "s\n.multiple=True\n{\n a = 1\n}\ns = 3\n") []) =
      some (.runtime "incompatible" none) := by
  decide +kernel

end Phil.C07

#print axioms Phil.C05.fetch_ms2_total
#print axioms Phil.C05.fetchRoot_ms2
#print axioms Phil.C05.fetchRoot_ms2_checked
#print axioms Phil.C05.msMaster_is_msMaster2
#print axioms Phil.C05.ms2MasterB_is_msMaster2
#print axioms Phil.C05.master_active_objects_ms2
#print axioms Phil.C05.master_candidates_ms2
#print axioms Phil.C05.multiple_scope_list_rule_ms2
#print axioms Phil.C05.multiple_defn_list_rule_ms2
#print axioms Phil.C05.list_rule_spelled_ms2
#print axioms Phil.C05.further_occurrence_no_block
#print axioms Phil.C05.non_multiple_single_ms2
#print axioms Phil.C05.further_occurrences_mark_nothing
#print axioms Phil.C05.non_multiple_repeat_outside
#print axioms Phil.C05.keysDefined_ms2_needed
#print axioms Phil.C05.master_own_clash
#print axioms Phil.C05.master_variable_outside
#print axioms Phil.C04.ms2_result_blocks
#print axioms Phil.C04.ms2_block_members
#print axioms Phil.C04.ms2_result_depth
#print axioms Phil.C04.ms2_result_view
#print axioms Phil.C04.ms2_plain_exactly_once
#print axioms Phil.C07.ms2Result_idempotent
#print axioms Phil.C07.master_as_source_ms2
#print axioms Phil.C07.ms2_refetch_idempotent
#print axioms Phil.C07.refetch_hypotheses_ms2
#print axioms Phil.C07.ms2_fetch_master_itself
#print axioms Phil.C07.fetchRoot_ms2_idempotent
#print axioms Phil.C07.fetchRoot_ms2_master_itself
#print axioms Phil.C07.master_itself_needs_noclash
