/-
  C17 / finding D21, stated positively on the object-identity model: what the template entry that
  `scope.fetch` emits for a `.multiple` object shares with the master.

  `fetchTemplate h x t` is `obj = master_object.copy(); obj.is_template = t` (Phil/HeapFetch.lean).
  * exactly ONE new object is created (the template entry); no existing cell is written;
  * the new cell has the slots and words of the master object with `is_template = t`, the SAME parent and the
    SAME child objects: every child of the template entry is an object of the master (id below the old heap
    size), still pointing to the master object as its parent;
  * hence: assignments to the template entry itself are invisible in the master (`fetchTemplate_own_fields_private`),
    assignments to an object reached THROUGH it are assignments to the master's own children
    (`fetchTemplate_children_are_masters`) — the sharp edge is C17Heap.template_copy_shares_master_children;
  * a definition has no children: its template entry shares nothing mutable of this heap (its `words` list is
    a value here; see Phil/Heap.lean, stated assumptions).
-/
import Phil.Props.C17Heap
import Phil.HeapFetch
namespace Phil.C17FetchTemplate
open Phil Phil.Heap

theorem fetchTemplate_eq {h : Heap} {x : Nat} {t : Int} {h' : Heap} {c : Nat}
    (hf : fetchTemplate h x t = some (h', c)) :
    ∃ n, h[x]? = some n ∧ c = h.length ∧
      h' = h ++ [n.assign (.slot fun m => { m with tmpl := t })] := by
  unfold fetchTemplate at hf
  cases hc : copy h x with
  | none => rw [hc] at hf; cases hf
  | some r =>
    obtain ⟨h1, c1⟩ := r
    rw [hc] at hf
    obtain ⟨n, hn, rfl, rfl⟩ := copy_eq hc
    simp only [Option.some.injEq, Prod.mk.injEq] at hf
    obtain ⟨rfl, rfl⟩ := hf
    refine ⟨n, hn, rfl, ?_⟩
    unfold assign
    rw [List.getElem?_append_right (Nat.le_refl _), Nat.sub_self]
    simp

/-- **What the template entry shares.**  One new object `c = h.length`; every old cell untouched; the new
    cell is the master object's cell with `is_template = t`: same kind, same parent, same child ids. -/
theorem fetchTemplate_shares (h : Heap) (x : Nat) (t : Int) (h' : Heap) (c : Nat)
    (hf : fetchTemplate h x t = some (h', c)) :
    c = h.length ∧ h'.length = h.length + 1 ∧ (∀ i, i < h.length → h'[i]? = h[i]?) ∧
    ∃ n n', h[x]? = some n ∧ h'[c]? = some n' ∧
      n'.kids = n.kids ∧ n'.parent = n.parent ∧ n'.isScope = n.isScope ∧
      n'.meta = { n.meta with tmpl := t } := by
  obtain ⟨n, hn, rfl, rfl⟩ := fetchTemplate_eq hf
  refine ⟨rfl, by simp, fun i hi => List.getElem?_append_left hi, n,
    n.assign (.slot fun m => { m with tmpl := t }), hn, ?_, ?_, ?_, ?_, ?_⟩
  · rw [List.getElem?_append_right (Nat.le_refl _), Nat.sub_self]; rfl
  all_goals cases n <;> rfl

/-- **The children of a template entry are the master's own objects**: each is an object that existed
    before (`k < h.length`), is a child of the master object `x`, and — in a heap whose children point to
    their scope (`kidsLinkedB`, every parsed document) — still has the MASTER object as its parent, not the
    template entry. -/
theorem fetchTemplate_children_are_masters (h : Heap) (x : Nat) (t : Int) (h' : Heap) (c : Nat)
    (hf : fetchTemplate h x t = some (h', c)) (hc : closedB h = true) (hl : kidsLinkedB h = true)
    (n' : Node) (hn' : h'[c]? = some n') :
    ∀ k ∈ n'.kids, k < h.length ∧ (∃ n, h[x]? = some n ∧ k ∈ n.kids) ∧
      ∃ nk, h'[k]? = some nk ∧ h[k]? = some nk ∧ nk.parent = some x := by
  obtain ⟨_, _, hold, n, n'', hn, hn'', hk, _⟩ := fetchTemplate_shares h x t h' c hf
  rw [hn'] at hn''
  cases hn''
  intro k hkk
  rw [hk] at hkk
  have hlt : k < h.length := closedB_sound hc x n hn k (mem_succs_of_kid hkk)
  obtain ⟨nk, hnk, hp⟩ := kidsLinkedB_sound hl x n hn k hkk
  exact ⟨hlt, ⟨n, hn, hkk⟩, nk, by rw [hold k hlt]; exact hnk, hnk, hp⟩

/-- **Assigning a field of an object reached through the template entry IS assigning the master's object**:
    for a child `k` of the template entry, `template.objects[j].f = v` rewrites cell `k`, which is the cell the
    master object `x` lists — afterwards the master's child holds the assigned state. -/
theorem fetchTemplate_child_assignment_hits_master (h : Heap) (x : Nat) (t : Int) (h' : Heap) (c : Nat)
    (hf : fetchTemplate h x t = some (h', c)) (hc : closedB h = true) (hl : kidsLinkedB h = true)
    (n' : Node) (hn' : h'[c]? = some n') (k : Nat) (hk : k ∈ n'.kids) (a : Assign) :
    ∃ n nk, h[x]? = some n ∧ k ∈ n.kids ∧ h[k]? = some nk ∧ (assign h' k a)[k]? = some (nk.assign a) ∧
      (assign h' k a)[x]? = (if x = k then some (nk.assign a) else some n) := by
  obtain ⟨hlt, ⟨n, hn, hkn⟩, nk, hnk', hnk, _⟩ :=
    fetchTemplate_children_are_masters h x t h' c hf hc hl n' hn' k hk
  obtain ⟨_, _, hold, _⟩ := fetchTemplate_shares h x t h' c hf
  refine ⟨n, nk, hn, hkn, hnk, assign_get_self h' k a nk hnk', ?_⟩
  by_cases hxk : x = k
  · subst hxk
    rw [if_pos rfl]
    exact assign_get_self h' x a nk hnk'
  · rw [if_neg hxk, assign_get_ne h' k x a hxk]
    have hx : x < h.length := (List.getElem?_eq_some_iff.mp hn).1
    rw [hold x hx]; exact hn

/-- **Assigning any field of the template entry itself never changes the master** (nor any other existing
    object): any history of assignments to the entry or to later objects leaves every old cell and every
    old abstract tree unchanged. -/
theorem fetchTemplate_own_fields_private (h : Heap) (x : Nat) (t : Int) (h' : Heap) (c : Nat)
    (hf : fetchTemplate h x t = some (h', c)) (hc : closedB h = true)
    (ops : List (Nat × Assign)) (hops : ∀ op ∈ ops, c ≤ op.1) :
    (∀ i, i < h.length → (assignMany h' ops)[i]? = h[i]?) ∧
    (∀ f i, i < h.length → absF f (assignMany h' ops) i = absF f h i) := by
  obtain ⟨rfl, _, hold, _⟩ := fetchTemplate_shares h x t h' c hf
  have hag : ∀ i, i < h.length → (assignMany h' ops)[i]? = h[i]? := fun i hi => by
    rw [assignMany_get_below h.length ops _ hops i hi, hold i hi]
  exact ⟨hag, fun f i hi => absF_agree _ h h.length hag (closedB_sound hc).below f i hi⟩

/-- the template entry prints like the master object except for `is_template`: it denotes the master's tree
    with `tmpl := t` at the root, the children being the very same objects -/
theorem fetchTemplate_denotes (h : Heap) (x : Nat) (t : Int) (h' : Heap) (c : Nat)
    (hf : fetchTemplate h x t = some (h', c)) (hc : closedB h = true) (f : Nat) :
    absF f h' c = (absF f h x).map (fun o => o.withMeta (fun m => { m with tmpl := t })) := by
  obtain ⟨n, hn, rfl, rfl⟩ := fetchTemplate_eq hf
  cases f with
  | zero => rfl
  | succ f =>
    simp only [absF]
    rw [List.getElem?_append_right (Nat.le_refl _), Nat.sub_self, hn]
    simp only [List.getElem?_cons_zero]
    cases n with
    | defn m ws p => rfl
    | scope m ks p =>
      simp only [Node.assign]
      have := mapOpt_congr (l := ks) (fun k hk =>
        absF_agree (h ++ [Node.scope { m with tmpl := t } ks p]) h h.length
          (fun i hi => List.getElem?_append_left hi) (closedB_sound hc).below f k
          (closedB_sound hc x _ hn k (mem_succs_of_kid hk)))
      rw [this]
      cases mapOpt (absF f h) ks <;> rfl

/-- **The result scope** `self.customized_copy(objects = result_objects)`: one more new object, listing
    exactly the given objects; no existing cell written (instance of `customizedCopy_frame`) -/
theorem fetchResult_frame (h : Heap) (self : Nat) (ros : List Nat) (h' : Heap) (r : Nat)
    (hf : fetchResult h self ros = some (h', r)) :
    r = h.length ∧ ∀ i, i < h.length → h'[i]? = h[i]? :=
  C17Heap.customizedCopy_frame h self none none (some ros) h' r hf

/-! ### the sharp edge and a concrete instance -/

/-- master `s .multiple=True { a = 1 }` (0 = root, 1 = s, 2 = a): the template entry is object 3, its only
    child is the master's object 2 whose parent is still 1; a definition's template entry (of `a`) has no
    child at all -/
theorem template_entry_concrete :
    (fetchTemplate (C17Heap.heapOfText "s\n  .multiple = True\n{\n  a = 1\n}\n") 1 1).map (fun r =>
      (r.2, (graph r.1).drop 1)) =
      some (3, [⟨true, "s".toList, some 0, [2]⟩, ⟨false, "a".toList, some 1, []⟩, ⟨true, "s".toList, some 0, [2]⟩]) ∧
    (fetchTemplate (C17Heap.heapOfText "s\n  .multiple = True\n{\n  a = 1\n}\n") 2 1).map (fun r =>
      (r.2, (graph r.1).drop 3)) = some (3, [⟨false, "a".toList, some 1, []⟩]) := by
  decide +kernel

/-- the hypotheses hold on every parsed document (`ofObjs`), for every object -/
example (objs : List Obj) (x : Nat) (hx : x < (ofObjs objs).length) (t : Int) :
    ∃ r, fetchTemplate (ofObjs objs) x t = some r := by
  unfold fetchTemplate copy
  rw [List.getElem?_eq_getElem hx]
  exact ⟨_, rfl⟩

end Phil.C17FetchTemplate

#print axioms Phil.C17FetchTemplate.fetchTemplate_shares
#print axioms Phil.C17FetchTemplate.fetchTemplate_children_are_masters
#print axioms Phil.C17FetchTemplate.fetchTemplate_child_assignment_hits_master
#print axioms Phil.C17FetchTemplate.fetchTemplate_own_fields_private
#print axioms Phil.C17FetchTemplate.fetchTemplate_denotes
#print axioms Phil.C17FetchTemplate.fetchResult_frame
#print axioms Phil.C17FetchTemplate.template_entry_concrete
