/-
  C05 (NESTED masters WITH `.multiple` SCOPES) — "multiples accumulate": the list rule for `.multiple`
  scopes, at every depth and for `.multiple` scopes nested in `.multiple` scopes; with the companions
  for the same class of C04, C06 and C07 (namespaces `Phil.C05`, `Phil.C04`, `Phil.C06`, `Phil.C07`).

  Model: Phil/Fetch.lean (`fetchScope`/`fetchRoot`).  Lemmas: Phil/Proofs/FetchTreeMS.lean, which extends
  Phil/Proofs/FetchTreeMulti.lean (nested masters whose DEFINITIONS may be `.multiple`).

  Class covered (unbounded: every such master, every such source list, every adequate fuel):
    * master: `MSMaster` — a TREE of enabled scopes to any depth, each `.multiple` or not, a
      `.multiple` one optional or mandatory (`.optional = False`), `.multiple` scopes nested in
      `.multiple` scopes allowed; definitions enabled, not `.deprecated`, not choices, typed or not,
      `.multiple` or not; names non-empty and dot-free, sibling names pairwise distinct — hence ONE
      master occurrence per name (further master occurrences of a `.multiple` object stay outside).
      Non-diff mode; fetched at the root or as a sub-scope.
    * sources: arbitrary lists of definitions and scopes to any depth, enabled or disabled, repeated
      or not, dotted or braced, unknown names (`SrcTree`).
    * keys: `KeysDefinedMS e mkids srcs` — `extract_format` succeeds on every rendering the list rule
      compares (it fails e.g. on `x` for an `int`); `eval` and `"%.10g"` stay abstract (`Envs`).
      The rendering of a block does not depend on the fuel (`rendering_fuel_independent`), so the
      specification is fuel-free (`keyMS`).
    * fuel: `depthL mkids + 1 ≤ fuel`; `fetchRoot` provides it for masters nested ≤ 1000 deep.
  Specification (structural recursion on the master tree):
    `msBlock e mo srcs` — what the master child `mo` contributes, given the source objects at its level:
        a definition — as in Props/C05TreeMulti.lean (`tmBlock`);
        a non-multiple scope — itself, rebuilt from the children of ALL enabled source scopes of its
        name (`srcStep`);
        a `.multiple` scope — `msMultiBlock`: the template (the master scope itself with flag `1` if
        nothing survives, else `-1`; for a mandatory scope the master's own fetched block
        `msResult e kids []`, flag `0`, first) followed by the `dedupKeepLast` survivors among the
        candidates whose key differs from the key of the master's own fetched block, the candidates
        being `msResult e kids s.children` for the enabled source scopes `s` of its name in document
        order — each instance is the recursive fetch of the body against that ONE source block;
    `msResult e mkids srcs` — the concatenation of the blocks in master order;
    `msUsed`, `msNoClash` — consumed ids and the clash test, instance by instance.
  Facts:
    * C05 `fetch_ms_total` (a TOTAL description: result + consumed ids, or "incompatible"),
      `multiple_scope_list_rule`, `multiple_scope_candidate`, `result_view`; sharpness of
      `KeysDefinedMS`: `keysDefined_needed` (kernel-checked, replayed on Python);
    * C04 `ms_result_blocks`, `ms_block_members`, `ms_plain_exactly_once`, `ms_result_paths`;
    * C06 `ms_used_exact`, `ms_unused_exact`, `reported_iff_ms`, `fetchRoot_ms_unused_exact`;
    * C07 `ms_refetch_idempotent` (full strength, no hypothesis on renderings), `msResult_idempotent`,
      `master_as_source`, `ms_fetch_master_itself`, `refetch_hypotheses_ms`.
  Not covered: further master occurrences of a `.multiple` object (sibling names are pairwise
  distinct here), diff mode.
  Validation of the specification against the real library BEFORE proving: 500 random instances
  (scratch generator: depth ≤ 3, `.multiple` scopes nested in each other, mandatory ones, `.multiple`
  definitions, bool/int/str/untyped values with non-canonical spellings; sources dotted/braced,
  repeated, disabled, unknown names, clashes): 425 results equal (225 of them with the reported unused
  list compared as well), 75 clash errors agree, 0 mismatches; the model agreed with the specification
  on all of them.  Python idempotence probe on the same generator: 510 of 510 fetched results are
  fixed points (as object and as re-parsed text).  After proving: 300 fresh instances, 264 results
  equal (147 with the unused list), 36 clash errors agree, 0 mismatches; `M.fetch(M) = M.fetch()` on
  400 of 400 random masters of the class.
-/
import Phil.Proofs.FetchTreeMS
import Phil.Props.C05TreeMulti
set_option linter.unusedVariables false

namespace Phil.C05
open Phil

/-! ### the closed form -/

/-- **Closed form of the fetch of a nested master with `.multiple` scopes (total).**  With fuel beyond
    the nesting depth and defined keys, the fetch succeeds exactly when no enabled source scope sits
    where the master has a definition and no enabled source definition where the master has a scope —
    at every depth and inside every instance of a `.multiple` scope (`msNoClash`); its result is
    `msResult`, the consumed ids are `msUsed` (in this order); otherwise it raises RuntimeError
    ("incompatible"). -/
theorem fetch_ms_total (e : Envs) (fuel : Nat) (sm : Meta) (mkids srcs : List Obj)
    (hf : MSMaster mkids) (hfuel : depthL mkids + 1 ≤ fuel) (hsd : sm.disabled = false)
    (hsrc : SrcTree srcs) (hkeys : KeysDefinedMS e mkids srcs) :
    fetchScope e fuel false sm mkids srcs =
      if msNoClash mkids srcs then
        .ok (.scope { sm with tmpl := 0 } (msResult e mkids srcs), msUsed mkids srcs)
      else .error (.runtime "incompatible" none) :=
  Phil.fetch_ms_total e fuel sm mkids srcs hf hfuel hsd hsrc hkeys

/-- **`master.fetch(sources)`** on parsed roots: the fuel `fetchRoot` computes is adequate. -/
theorem fetchRoot_ms (e : Envs) (master : List Obj) (ss : List (List Obj))
    (hf : MSMaster master) (hd : depthL master ≤ 1000) (hsrc : SrcTree ss.flatten)
    (hkeys : KeysDefinedMS e master ss.flatten) :
    fetchRoot e false master ss =
      if msNoClash master ss.flatten then
        .ok (.scope { name := [], id := some 0 } (msResult e master ss.flatten), msUsed master ss.flatten)
      else .error (.runtime "incompatible" none) :=
  Phil.fetchRoot_ms e master ss hf hd hsrc hkeys

/-- … with the side conditions in executable form (`masterCheck_ms`, `srcCheck`, `keysDefinedMSB`) -/
theorem fetchRoot_ms_checked (e : Envs) (master : List Obj) (ss : List (List Obj))
    (hm : masterCheck_ms master = true) (hs : srcCheck ss.flatten = true)
    (hk : keysDefinedMSB e master ss.flatten = true) :
    fetchRoot e false master ss =
      if msNoClash master ss.flatten then
        .ok (.scope { name := [], id := some 0 } (msResult e master ss.flatten), msUsed master ss.flatten)
      else .error (.runtime "incompatible" none) :=
  have hM := masterCheck_ms_sound master hm
  Phil.fetchRoot_ms e master ss hM.tree hM.depth (srcCheck_sound ss.flatten hs).tree
    (keysDefinedMSB_sound e master _ hk)

/-- the class extends that of Props/C05TreeMulti.lean -/
theorem treeMultiMaster_is_msMaster (mkids : List Obj) (h : TreeMultiMaster mkids) : MSMaster mkids :=
  h.toMS

/-- **the rendering `master.extract_format(source=c).as_str()` does not depend on the fuel** beyond the
    nesting depths of master and candidate — why the specification can be fuel-free -/
theorem rendering_fuel_independent (e : Envs) (f1 f2 : Nat) (mo c : Obj)
    (hm1 : depthT mo < f1) (hm2 : depthT mo < f2) (hc1 : depthT c < f1) (hc2 : depthT c < f2) :
    extractFormatStr e f1 mo c = extractFormatStr e f2 mo c :=
  extractFormatStr_fuel_ms e f1 f2 mo c hm1 hm2 hc1 hc2

/-- the result is nested no deeper than the master -/
theorem result_depth (e : Envs) (mkids srcs : List Obj) : depthL (msResult e mkids srcs) ≤ depthL mkids :=
  depthL_msResult e mkids srcs

/-! ### C05: the list rule for `.multiple` scopes -/

/-- **The list rule for a `.multiple` scope** (the specification spelled out).  The block of the
    `.multiple` master scope `.scope mm kids` is: the template — for a mandatory scope
    (`.optional = False`) the master's own fetched block, live (flag 0), else the master scope itself
    flagged `1` (nothing survives) or `-1` — followed by the survivors of the candidates
    `msResult e kids s.children`, `s` ranging over the enabled source scopes of that name in document
    order: candidates whose rendering equals that of the master's own fetched block are dropped, of
    candidates with equal renderings only the LAST stays (`dedupKeepLast`). -/
theorem multiple_scope_list_rule (e : Envs) (mm : Meta) (kids srcs : List Obj)
    (hmult : (mm.attrs.get "multiple").truthy = true) :
    msBlock e (.scope mm kids) srcs =
      (if ((Obj.scope mm kids).attr "optional").mandatory
        then withTmpl (.scope { mm with tmpl := 0 } (msResult e kids [])) 0
        else withTmpl (.scope mm kids)
          (if (dedupKeepLast (((scopesNamed mm.name srcs).map (msCK e mm kids)).filter
                (fun y => y.2 != keyMS e (.scope mm kids) (.scope { mm with tmpl := 0 } (msResult e kids [])))
              )).isEmpty then 1 else -1)) ::
      (dedupKeepLast (((scopesNamed mm.name srcs).map (msCK e mm kids)).filter
        (fun y => y.2 != keyMS e (.scope mm kids) (.scope { mm with tmpl := 0 } (msResult e kids []))))).map
        (·.1) := by
  rw [msBlock_multi_eq e mm kids srcs hmult]
  rfl

/-- each candidate is the recursive fetch of the body against ONE source block, with its rendering -/
theorem multiple_scope_candidate (e : Envs) (mm : Meta) (kids : List Obj) (s : Obj) :
    msCK e mm kids s =
      (.scope { mm with tmpl := 0 } (msResult e kids s.children),
       keyMS e (.scope mm kids) (.scope { mm with tmpl := 0 } (msResult e kids s.children))) := rfl

/-- a non-multiple scope: rebuilt from the children of ALL enabled source scopes of its name -/
theorem plain_scope_block (e : Envs) (mm : Meta) (kids srcs : List Obj)
    (hmult : (mm.attrs.get "multiple").truthy = false) :
    msBlock e (.scope mm kids) srcs =
      [.scope { mm with tmpl := 0 } (msResult e kids (srcStep srcs mm.name))] := by
  rw [msBlock]; simp only [hmult, Bool.false_eq_true, if_false]

/-- a definition: as for masters without `.multiple` scopes -/
theorem defn_block (e : Envs) (mm : Meta) (mws : List Word) (srcs : List Obj) :
    msBlock e (.defn mm mws) srcs = tmBlock e (.defn mm mws) srcs := by
  rw [msBlock]

/-- the whole result: the blocks in master order -/
theorem msResult_eq (e : Envs) (mkids srcs : List Obj) :
    msResult e mkids srcs = mkids.flatMap (fun mo => msBlock e mo srcs) :=
  msResult_eq_flatMap e srcs mkids

/-- **what stands under the name of a master child in the result**: exactly its block (so every
    non-multiple name stands exactly once per enclosing instance, `.multiple` ones as the rule says) -/
theorem result_view (e : Envs) (fuel : Nat) (sm : Meta) (mkids srcs : List Obj)
    (hf : MSMaster mkids) (hfuel : depthL mkids + 1 ≤ fuel) (hsd : sm.disabled = false)
    (hsrc : SrcTree srcs) (hkeys : KeysDefinedMS e mkids srcs) (ro : Obj) (used : List Nat)
    (h : fetchScope e fuel false sm mkids srcs = .ok (ro, used)) (mo : Obj) (hmo : mo ∈ mkids) :
    activeNamed mo.name ro.children = msBlock e mo srcs := by
  obtain ⟨_, hro, _⟩ := fetch_ms_ok e fuel sm mkids srcs hf hfuel hsd hsrc hkeys ro used h
  subst hro
  exact view_ms e mkids srcs hf mo hmo

/-! ### non-vacuity: a nested instance through the parser -/

/-- master: `a = 1 (int)`; `s` — a `.multiple` scope holding `b = yes (bool)` and a `.multiple`
    scope `t` holding the `.multiple` definition `c = x`; `u` — a mandatory `.multiple` scope
    holding `d = 2 (int)` -/
def msM : List Obj := tmObjs "a = 1\n.type=int\ns\n.multiple=True\n{\n  b = yes\n  .type=bool\n  t\n  .multiple=True\n  {\n    c = x\n    .multiple=True\n  }\n}\nu\n.multiple=True\n.optional=False\n{\n  d = 2\n  .type=int\n}\n"

/-- sources: `s` three times enabled (the first and the third differ only by a repeated inner
    instance, so they collapse onto the third; the second, `b = True`, is the default `yes` and
    contributes only through the dotted `s.t.c = z` — a separate block) and once disabled; `u` twice,
    the second equal to the default; unknown names `zz`, `s.q` -/
def msS : List Obj :=
  tmObjs "s {\n  b = no\n  t { c = y }\n  t { c = y }\n}\ns { b = True }\ns.t.c = z\ns {\n  b = no\n  t { c = y }\n}\nu { d = 3 }\nu.d = 2\nzz = 1\ns.q = 1\n!s { b = no }\n"

mutual
def dumpObjMS (pre : String) : Obj → List String
  | .defn m ws => ["D " ++ pre ++ String.ofList m.name ++ " " ++ toString m.tmpl ++ " " ++
      "|".intercalate (ws.map (fun w => String.ofList w.value))]
  | .scope m kids => ("S " ++ pre ++ String.ofList m.name ++ " " ++ toString m.tmpl) ::
      dumpListMS (pre ++ String.ofList m.name ++ ".") kids
/-- every object of a tree in document order: kind, dotted path, template flag, words -/
def dumpListMS (pre : String) : List Obj → List String
  | [] => []
  | o :: os => dumpObjMS pre o ++ dumpListMS pre os
end

/-- the parsed instance satisfies every hypothesis -/
example : (msM.length == 3 && msS.length == 9 && masterCheck_ms msM && srcCheck msS &&
    keysDefinedMSB envTm msM msS && msNoClash msM msS && depthL msM == 2) = true := by
  decide +kernel

/-- the specification on the instance — the real library returns exactly this tree (replayed) -/
example : dumpListMS "" (msResult envTm msM msS) =
    ["D a 0 1",
     "S s -1", "D s.b 0 yes", "S s.t 0", "D s.t.c 0 x",
     "S s 0", "D s.b 0 yes", "S s.t -1", "D s.t.c 0 x", "S s.t 0", "D s.t.c -1 x", "D s.t.c 0 z",
     "S s 0", "D s.b 0 no", "S s.t -1", "D s.t.c 0 x", "S s.t 0", "D s.t.c -1 x", "D s.t.c 0 y",
     "S u 0", "D u.d 0 2", "S u 0", "D u.d 0 3"] := by
  decide +kernel

/-- the theorem applied to the instance (hypotheses discharged by kernel evaluation): the model's
    fetch is the specification, and the reported unused list is `zz`, `s.q` -/
example : fetchRoot envTm false msM [msS] =
    .ok (.scope { name := [], id := some 0 } (msResult envTm msM msS), msUsed msM msS) := by
  have hfl : ([msS] : List (List Obj)).flatten = msS := by simp
  have h := fetchRoot_ms_checked envTm msM [msS] (by decide +kernel) (by rw [hfl]; decide +kernel)
    (by rw [hfl]; decide +kernel)
  rw [hfl] at h
  rw [h, show msNoClash msM msS = true by decide +kernel]
  rfl

example : (C06.unusedOf msS (msUsed msM msS)).map (fun x => String.ofList x.1) = ["zz", "s.q"] := by
  decide +kernel

/-- a source definition where the master has a `.multiple` scope, and a source scope where the body
    of a `.multiple` scope has a definition: `msNoClash` is false and the fetch fails -/
example : (msNoClash msM (tmObjs "s = 1\n"), errOf (fetchRoot envTm false msM [tmObjs "s = 1\n"]),
    msNoClash msM (tmObjs "s { b { x = 1 } }\n"),
    errOf (fetchRoot envTm false msM [tmObjs "s { b { x = 1 } }\n"])) =
      (false, some (.runtime "incompatible" none), false, some (.runtime "incompatible" none)) := by
  decide +kernel

/-- **the hypothesis `KeysDefinedMS` is sharp**: a source value that does not convert (`maybe` for
    the `bool` inside the `.multiple` scope `s`) makes a rendering undefined — the executable check
    says so, nothing clashes, and the fetch raises the converter's RuntimeError instead of returning
    the specification (replayed on the real library: `RuntimeError: One True or False value expected,
    s.b="maybe" found (input line 1)`) -/
theorem keysDefined_needed :
    keysDefinedMSB envTm msM (tmObjs "s.b = maybe\n") = false ∧
      msNoClash msM (tmObjs "s.b = maybe\n") = true ∧
      errOf (fetchRoot envTm false msM [tmObjs "s.b = maybe\n"]) = some (.runtime "bool_expected" (some 1)) := by
  decide +kernel

end Phil.C05

namespace Phil.C04
open Phil

/-- **C04: the result is the master's blocks in the master's order**, and every object of a block
    is a copy of its master object: same name, same kind, enabled, same attributes (so the result
    contains no parameter, scope or attribute the master does not declare). -/
theorem ms_result_blocks (e : Envs) (fuel : Nat) (sm : Meta) (mkids srcs : List Obj)
    (hf : MSMaster mkids) (hfuel : depthL mkids + 1 ≤ fuel) (hsd : sm.disabled = false)
    (hsrc : SrcTree srcs) (hkeys : KeysDefinedMS e mkids srcs) (ro : Obj) (used : List Nat)
    (h : fetchScope e fuel false sm mkids srcs = .ok (ro, used)) :
    ro.children = mkids.flatMap (fun mo => msBlock e mo srcs) ∧
      ∀ mo ∈ mkids, ∀ o ∈ msBlock e mo srcs,
        o.name = mo.name ∧ o.isDefn = mo.isDefn ∧ o.meta.disabled = false ∧ o.meta.attrs = mo.meta.attrs := by
  obtain ⟨_, hro, _⟩ := fetch_ms_ok e fuel sm mkids srcs hf hfuel hsd hsrc hkeys ro used h
  subst hro
  refine ⟨msResult_eq_flatMap e srcs mkids, ?_⟩
  intro mo hmo o ho
  have hm := msBlock_member_ms e mo srcs o ho
  exact ⟨hm.1, hm.2.2, by rw [hm.2.1]; exact (hf.obj mo hmo).enabled, msBlock_member_attrs_ms e mo srcs o ho⟩

/-- the same holds at every depth: the children of a result scope are `msResult` of the master
    scope's body (unfold `msBlock`), to which `ms_result_blocks`' second half applies again -/
theorem ms_block_members (e : Envs) (mo : Obj) (srcs : List Obj) (o : Obj) (ho : o ∈ msBlock e mo srcs) :
    o.name = mo.name ∧ o.isDefn = mo.isDefn ∧ o.meta.disabled = mo.meta.disabled ∧
      o.meta.attrs = mo.meta.attrs :=
  have hm := msBlock_member_ms e mo srcs o ho
  ⟨hm.1, hm.2.2, hm.2.1, msBlock_member_attrs_ms e mo srcs o ho⟩

/-- **every non-multiple name stands exactly once per enclosing instance** -/
theorem ms_plain_exactly_once (e : Envs) (fuel : Nat) (sm : Meta) (mkids srcs : List Obj)
    (hf : MSMaster mkids) (hfuel : depthL mkids + 1 ≤ fuel) (hsd : sm.disabled = false)
    (hsrc : SrcTree srcs) (hkeys : KeysDefinedMS e mkids srcs) (ro : Obj) (used : List Nat)
    (h : fetchScope e fuel false sm mkids srcs = .ok (ro, used)) (mo : Obj) (hmo : mo ∈ mkids)
    (hnm : isMultiple mo = false) :
    (activeNamed mo.name ro.children).length = 1 := by
  rw [C05.result_view e fuel sm mkids srcs hf hfuel hsd hsrc hkeys ro used h mo hmo]
  exact msBlock_plain_length e mo srcs hnm

/-- the result declares exactly the master's parameter paths (inside `.multiple` objects possibly
    several times): no path is lost, none is invented -/
theorem ms_result_paths (e : Envs) (fuel : Nat) (sm : Meta) (mkids srcs : List Obj)
    (hf : MSMaster mkids) (hfuel : depthL mkids + 1 ≤ fuel) (hsd : sm.disabled = false)
    (hsrc : SrcTree srcs) (hkeys : KeysDefinedMS e mkids srcs) (ro : Obj) (used : List Nat)
    (h : fetchScope e fuel false sm mkids srcs = .ok (ro, used)) (q : Str) :
    q ∈ defPaths ro.children [] ↔ q ∈ defPaths mkids [] := by
  obtain ⟨_, hro, _⟩ := fetch_ms_ok e fuel sm mkids srcs hf hfuel hsd hsrc hkeys ro used h
  subst hro
  exact mem_defPaths_msResult e mkids srcs [] q

example : ((defPaths C05.msM []).map String.ofList,
    ((defPaths (msResult C05.envTm C05.msM C05.msS) []).eraseDups).map String.ofList) =
    (["a", "s.b", "s.t.c", "u.d"], ["a", "s.b", "s.t.c", "u.d"]) := by
  decide +kernel

end Phil.C04

namespace Phil.C06
open Phil

/-- **Consumed ids, exactly.**  Whenever the fetch succeeds, `i` is consumed iff it is the id of an
    entry of `all_definitions(sources)` whose dotted path is the path of a master definition —
    inside `.multiple` scopes too, whichever instance it belongs to and whether or not that instance
    survives the list rule. -/
theorem ms_used_exact (e : Envs) (fuel : Nat) (sm : Meta) (mkids srcs : List Obj)
    (hf : MSMaster mkids) (hfuel : depthL mkids + 1 ≤ fuel) (hsd : sm.disabled = false)
    (hinc : NoIncludeTree mkids) (hsrc : SrcTree srcs) (hs : SrcPlain srcs)
    (hkeys : KeysDefinedMS e mkids srcs) (ro : Obj) (used : List Nat)
    (h : fetchScope e fuel false sm mkids srcs = .ok (ro, used)) (i : Nat) :
    i ∈ used ↔ ∃ x ∈ allDefinitions srcs, x.2.1.id = some i ∧ x.1 ∈ defPaths mkids [] := by
  obtain ⟨_, _, hu⟩ := fetch_ms_ok e fuel sm mkids srcs hf hfuel hsd hsrc hkeys ro used h
  subst hu
  exact Phil.ms_used_exact mkids srcs hf hinc hs i

/-- **The reported list, exactly.**  Whenever the fetch succeeds and the entries of
    `all_definitions(sources)` carry pairwise distinct ids, the reported list is the list of the
    entries of `all_definitions(sources)` (in order) whose full path is not the path of an active
    master parameter. -/
theorem ms_unused_exact (e : Envs) (fuel : Nat) (sm : Meta) (mkids srcs : List Obj)
    (hf : MSMaster mkids) (hfuel : depthL mkids + 1 ≤ fuel) (hsd : sm.disabled = false)
    (hinc : NoIncludeTree mkids) (hsrc : SrcTree srcs) (hs : SrcPlain srcs)
    (hkeys : KeysDefinedMS e mkids srcs)
    (hsome : ∀ x ∈ allDefinitions srcs, x.2.1.id ≠ none)
    (hids : ((allDefinitions srcs).map (fun x => x.2.1.id)).Nodup)
    (ro : Obj) (used : List Nat)
    (h : fetchScope e fuel false sm mkids srcs = .ok (ro, used)) :
    unusedOf srcs used =
      (allDefinitions srcs).filter (fun x => !((allDefinitions mkids).map (·.1)).contains x.1) := by
  rw [← defPaths_eq_allDefinitions_ms mkids hf hinc]
  exact Phil.ms_unused_exact e fuel sm mkids srcs hf hfuel hsd hinc hsrc hs hkeys hsome hids ro used h

/-- membership form: an entry of `all_definitions(sources)` is reported iff its path names no active
    master parameter -/
theorem reported_iff_ms (e : Envs) (fuel : Nat) (sm : Meta) (mkids srcs : List Obj)
    (hf : MSMaster mkids) (hfuel : depthL mkids + 1 ≤ fuel) (hsd : sm.disabled = false)
    (hinc : NoIncludeTree mkids) (hsrc : SrcTree srcs) (hs : SrcPlain srcs)
    (hkeys : KeysDefinedMS e mkids srcs)
    (hsome : ∀ x ∈ allDefinitions srcs, x.2.1.id ≠ none)
    (hids : ((allDefinitions srcs).map (fun x => x.2.1.id)).Nodup)
    (ro : Obj) (used : List Nat)
    (h : fetchScope e fuel false sm mkids srcs = .ok (ro, used))
    (x : Str × Meta × List Word) :
    x ∈ unusedOf srcs used ↔
      x ∈ allDefinitions srcs ∧ x.1 ∉ (allDefinitions mkids).map (·.1) := by
  rw [ms_unused_exact e fuel sm mkids srcs hf hfuel hsd hinc hsrc hs hkeys hsome hids ro used h,
    List.mem_filter]
  simp

/-- **`master.fetch(sources, track_unused_definitions=True)`** on parsed roots, with the side
    conditions in their executable form. -/
theorem fetchRoot_ms_unused_exact (e : Envs) (master : List Obj) (ss : List (List Obj))
    (hm : masterCheck_ms master = true) (hs : srcCheck ss.flatten = true)
    (hk : keysDefinedMSB e master ss.flatten = true)
    (hsome : ∀ x ∈ allDefinitions ss.flatten, x.2.1.id ≠ none)
    (hids : ((allDefinitions ss.flatten).map (fun x => x.2.1.id)).Nodup)
    (ro : Obj) (used : List Nat)
    (h : fetchRoot e false master ss = .ok (ro, used)) :
    unusedOf ss.flatten used =
      (allDefinitions ss.flatten).filter
        (fun x => !((allDefinitions master).map (·.1)).contains x.1) := by
  have hM := masterCheck_ms_sound master hm
  have hS := srcCheck_sound ss.flatten hs
  exact ms_unused_exact e _ _ master ss.flatten hM.tree (fetchRoot_fuel_tree master hM.depth) rfl
    hM.noInclude hS.tree hS.plain (keysDefinedMSB_sound e master _ hk) hsome hids ro used h

/-- the theorem applied to the instance of `Phil.C05`: the reported list follows from
    `fetchRoot_ms_unused_exact` (hypotheses discharged by kernel evaluation) -/
example (ro : Obj) (used : List Nat) (h : fetchRoot C05.envTm false C05.msM [C05.msS] = .ok (ro, used)) :
    (unusedOf C05.msS used).map (fun x => String.ofList x.1) = ["zz", "s.q"] := by
  have hfl : ([C05.msS] : List (List Obj)).flatten = C05.msS := by simp
  have := fetchRoot_ms_unused_exact C05.envTm C05.msM [C05.msS] (by decide +kernel)
    (by rw [hfl]; decide +kernel) (by rw [hfl]; decide +kernel)
    (by
      rw [hfl]
      intro x hx
      have hall : ((allDefinitions C05.msS).all (fun x => x.2.1.id.isSome)) = true := by decide +kernel
      have := List.all_eq_true.mp hall x hx
      intro hn; rw [hn] at this; cases this)
    (by rw [hfl]; decide +kernel)
    ro used h
  rw [hfl] at this
  rw [this]
  decide +kernel

end Phil.C06

namespace Phil.C07
open Phil

/-- **C07 at the level of the specification: fetching is idempotent** on masters with `.multiple`
    scopes nested at will.  NO hypothesis on the renderings (canonical or not) is needed: the
    candidate rebuilt from a surviving instance is that instance, the one rebuilt from the template
    is the master's own fetched block, whose rendering is the master key — it is dropped again.
    (`RefetchTree`: master definitions are not template-marked and carry variable-free words — true of
    every parsed master.) -/
theorem msResult_idempotent (e : Envs) (mkids srcs : List Obj) (hf : MSMaster mkids)
    (hr : RefetchTree mkids) :
    msResult e mkids (msResult e mkids srcs) = msResult e mkids srcs :=
  msResult_idem e mkids srcs hf hr

/-- **the master's own body as a source changes nothing** (`M.fetch(M) = M.fetch()`): every
    candidate built from the master's own objects renders like the master and is dropped -/
theorem master_as_source (e : Envs) (mkids : List Obj) (hf : MSMaster mkids) (hr : RefetchTree mkids) :
    msResult e mkids mkids = msResult e mkids [] :=
  msResult_self e mkids hf hr

/-- the instance: the second fetch reproduces the first -/
example :
    (match fetchRoot C05.envTm false C05.msM [C05.msS] with
     | .ok (ro, _) =>
       (match fetchRoot C05.envTm false C05.msM [ro.children] with
        | .ok (ro2, _) => some (C05.dumpListMS "" ro.children == C05.dumpListMS "" ro2.children,
            (C05.dumpListMS "" ro2.children).length)
        | .error _ => none)
     | .error _ => none) = some (true, 23) := by
  decide +kernel


/-- **C07 for masters with `.multiple` scopes, nested at will: fetching is idempotent.**  Whenever the
    fetch succeeds, fetching its result again — as the only source — succeeds and returns the same
    result.  Full strength: no hypothesis on the renderings; `RefetchTree` / `SrcNoDollar` (master
    definitions not template-marked, variable-free words) hold for every parsed, variable-free input. -/
theorem ms_refetch_idempotent (e : Envs) (fuel : Nat) (sm : Meta) (mkids srcs : List Obj)
    (hf : MSMaster mkids) (hfuel : depthL mkids + 1 ≤ fuel) (hsd : sm.disabled = false)
    (hr : RefetchTree mkids) (hsrc : SrcTree srcs) (hdol : SrcNoDollar srcs)
    (hkeys : KeysDefinedMS e mkids srcs) (ro : Obj) (used : List Nat)
    (h : fetchScope e fuel false sm mkids srcs = .ok (ro, used)) :
    ∃ used', fetchScope e fuel false sm mkids ro.children = .ok (ro, used') := by
  obtain ⟨_, hro, _⟩ := fetch_ms_ok e fuel sm mkids srcs hf hfuel hsd hsrc hkeys ro used h
  subst hro
  exact ⟨_, Phil.ms_refetch_idempotent e fuel sm mkids srcs hf hfuel hsd hr hdol hkeys⟩

/-- the re-fetch needs no further hypotheses: the result never clashes with its master, is a
    well-formed source tree, and its keys are defined -/
theorem refetch_hypotheses_ms (e : Envs) (mkids srcs : List Obj) (hf : MSMaster mkids)
    (hr : RefetchTree mkids) (hdol : SrcNoDollar srcs) (hkeys : KeysDefinedMS e mkids srcs) :
    msNoClash mkids (msResult e mkids srcs) = true ∧ SrcTree (msResult e mkids srcs) ∧
      KeysDefinedMS e mkids (msResult e mkids srcs) :=
  ⟨(msSide_result e mkids srcs hf hr hkeys).1, srcTree_msResult e mkids srcs hf hr hdol,
    (msSide_result e mkids srcs hf hr hkeys).2⟩

/-- **adding the master itself as the source gives the fetch with no source** (`M.fetch(M) = M.fetch()`),
    operationally: both succeed with the same tree -/
theorem ms_fetch_master_itself (e : Envs) (fuel : Nat) (sm : Meta) (mkids : List Obj)
    (hf : MSMaster mkids) (hfuel : depthL mkids + 1 ≤ fuel) (hsd : sm.disabled = false)
    (hr : RefetchTree mkids) (hkeys : KeysDefinedMS e mkids []) :
    ∃ u1 u2, fetchScope e fuel false sm mkids mkids =
        .ok (.scope { sm with tmpl := 0 } (msResult e mkids []), u1) ∧
      fetchScope e fuel false sm mkids [] =
        .ok (.scope { sm with tmpl := 0 } (msResult e mkids []), u2) := by
  refine ⟨msUsed mkids mkids, msUsed mkids [], ms_fetch_self e fuel sm mkids hf hfuel hsd hr hkeys, ?_⟩
  rw [Phil.fetch_ms_total e fuel sm mkids [] hf hfuel hsd SrcTree.nil_ms hkeys, msNoClash_nil_src]
  rfl

/-- **`master.fetch(source=master.fetch(sources))`** on parsed roots, side conditions in executable
    form -/
theorem fetchRoot_ms_idempotent (e : Envs) (master : List Obj) (ss : List (List Obj))
    (hm : masterCheck_ms master = true) (hs : srcCheck ss.flatten = true)
    (hk : keysDefinedMSB e master ss.flatten = true)
    (ro : Obj) (used : List Nat)
    (h : fetchRoot e false master ss = .ok (ro, used)) :
    ∃ used', fetchRoot e false master [ro.children] = .ok (ro, used') := by
  have hM := masterCheck_ms_sound master hm
  have hS := srcCheck_sound ss.flatten hs
  have hfl : ([ro.children] : List (List Obj)).flatten = ro.children := by simp
  unfold fetchRoot
  rw [hfl]
  exact ms_refetch_idempotent e _ _ master ss.flatten hM.tree (fetchRoot_fuel_tree master hM.depth) rfl
    hM.refetch hS.tree hS.noDollar (keysDefinedMSB_sound e master _ hk) ro used h

/-- the theorem applied to the instance of `Phil.C05` (hypotheses discharged by kernel evaluation) -/
example (ro : Obj) (used : List Nat) (h : fetchRoot C05.envTm false C05.msM [C05.msS] = .ok (ro, used)) :
    ∃ used', fetchRoot C05.envTm false C05.msM [ro.children] = .ok (ro, used') :=
  fetchRoot_ms_idempotent C05.envTm C05.msM [C05.msS] (by decide +kernel) (by decide +kernel)
    (by decide +kernel) ro used h

end Phil.C07

#print axioms Phil.C05.fetch_ms_total
#print axioms Phil.C05.fetchRoot_ms
#print axioms Phil.C05.fetchRoot_ms_checked
#print axioms Phil.C05.treeMultiMaster_is_msMaster
#print axioms Phil.C05.rendering_fuel_independent
#print axioms Phil.C05.result_depth
#print axioms Phil.C05.multiple_scope_list_rule
#print axioms Phil.C05.multiple_scope_candidate
#print axioms Phil.C05.plain_scope_block
#print axioms Phil.C05.defn_block
#print axioms Phil.C05.msResult_eq
#print axioms Phil.C05.result_view
#print axioms Phil.C05.keysDefined_needed
#print axioms Phil.C07.msResult_idempotent
#print axioms Phil.C07.master_as_source
#print axioms Phil.C04.ms_result_blocks
#print axioms Phil.C04.ms_block_members
#print axioms Phil.C04.ms_plain_exactly_once
#print axioms Phil.C04.ms_result_paths
#print axioms Phil.C06.ms_used_exact
#print axioms Phil.C06.ms_unused_exact
#print axioms Phil.C06.reported_iff_ms
#print axioms Phil.C06.fetchRoot_ms_unused_exact
#print axioms Phil.C07.ms_refetch_idempotent
#print axioms Phil.C07.refetch_hypotheses_ms
#print axioms Phil.C07.ms_fetch_master_itself
#print axioms Phil.C07.fetchRoot_ms_idempotent
