/-
  C06 (exact form) on masters with FURTHER MASTER OCCURRENCES of `.multiple` objects (`MSMaster2`, the class
  of Props/C05TreeMS3.lean) — "every source definition is either consumed or reported as unused: the reported
  list is EXACTLY the set of enabled source definitions whose dotted path names no master parameter".

  Model: Phil/Fetch.lean (`fetchScope`/`fetchRoot`); closed form `fetch_ms2_total` (Props/C05TreeMS3.lean);
  lemmas: Phil/Proofs/FetchTreeMS4.lean.
  What a "master parameter" is on this class (`ms2Paths`, structural recursion, fuel-free): the definitions
  reached through the FIRST ENABLED occurrence of every name, at every level.  A further occurrence of a
  `.multiple` object is a candidate — a provider of values, like a source — and declares nothing; a disabled
  master object declares nothing.  So the list is NOT "paths of `all_definitions(master)`" any more
  (`further_occurrence_declares_no_parameter`, replayed on the real library); on masters with one enabled
  occurrence per name the two coincide (Props/C05TreeMS.lean `reported_iff_ms`).
  Class: master `MSMaster2` + `NoIncludeTree` + `SrcTree` (variable-free definitions), keys `KeysDefinedMS2`,
  sources `SrcTree` + `SrcPlain` (variable-free, dot-free names: every parsed variable-free source), entries of
  `all_definitions(sources)` with pairwise distinct ids (true of every parsed source), fuel beyond the depth.
  Facts: `ms2_used_exact`, `ms2_unused_exact`, `reported_iff_ms2`, `fetchRoot_ms2_unused_exact` (side
  conditions executable), `consumed_iff_ms2`.
  Validation of `ms2Paths` against the real library BEFORE proving the Props (generator of
  harness/validation/ms2_val_gen.py, seed 20261001: `.multiple` scopes and definitions repeated at every level,
  disabled objects, dotted / braced / disabled / unknown sources): 700 random instances, 466 in the class with a
  successful fetch: the list reported by `fetch(track_unused_definitions=True)` equals
  `all_definitions(S)` filtered by "path not in `ms2Paths`" on 466 of 466 (157 non-empty lists; on 3 the list
  differs from the one computed with the paths of `all_definitions(master)`), 0 mismatches.
-/
import Phil.Proofs.FetchTreeMS4
import Phil.Props.C05TreeMS3
import Phil.Props.C06
set_option linter.unusedVariables false

namespace Phil.C06
open Phil

/-- **C06 (consumed ids, exactly) with further master occurrences.**  The consumed ids are exactly the ids of
    the entries of `all_definitions(sources)` whose full path is the path of a master parameter
    (`ms2Paths`) — inside `.multiple` scopes too, whichever instance they belong to and whether that
    instance survives; the further master occurrences contribute nothing. -/
theorem ms2_used_exact (mkids srcs : List Obj) (hf : MSMaster2 mkids)
    (hinc : NoIncludeTree mkids) (hs : SrcPlain srcs) (i : Nat) :
    i ∈ ms2Used [] mkids srcs ↔
      ∃ x ∈ allDefinitions srcs, x.2.1.id = some i ∧ x.1 ∈ ms2Paths [] mkids [] :=
  Phil.ms2_used_exact mkids srcs hf hinc hs i

/-- **C06 (unused list, exactly) with further master occurrences.**  Whenever the fetch succeeds and the
    entries of `all_definitions(sources)` carry pairwise distinct ids, the reported list is
    `all_definitions(sources)` filtered by "the path is not the path of a master parameter". -/
theorem ms2_unused_exact (e : Envs) (fuel : Nat) (sm : Meta) (mkids srcs : List Obj)
    (hf : MSMaster2 mkids) (hfuel : depthL mkids + 1 ≤ fuel) (hsd : sm.disabled = false)
    (hinc : NoIncludeTree mkids) (hsrc : SrcTree srcs) (hmsrc : SrcTree mkids) (hs : SrcPlain srcs)
    (hkeys : KeysDefinedMS2 e [] mkids srcs)
    (hsome : ∀ x ∈ allDefinitions srcs, x.2.1.id ≠ none)
    (hids : ((allDefinitions srcs).map (fun x => x.2.1.id)).Nodup)
    (ro : Obj) (used : List Nat)
    (h : fetchScope e fuel false sm mkids srcs = .ok (ro, used)) :
    unusedOf srcs used =
      (allDefinitions srcs).filter (fun x => !(ms2Paths [] mkids []).contains x.1) :=
  Phil.ms2_unused_exact e fuel sm mkids srcs hf hfuel hsd hinc hsrc hmsrc hs hkeys hsome hids ro used h

/-- membership form: an entry of `all_definitions(sources)` is reported iff its path names no master
    parameter -/
theorem reported_iff_ms2 (e : Envs) (fuel : Nat) (sm : Meta) (mkids srcs : List Obj)
    (hf : MSMaster2 mkids) (hfuel : depthL mkids + 1 ≤ fuel) (hsd : sm.disabled = false)
    (hinc : NoIncludeTree mkids) (hsrc : SrcTree srcs) (hmsrc : SrcTree mkids) (hs : SrcPlain srcs)
    (hkeys : KeysDefinedMS2 e [] mkids srcs)
    (hsome : ∀ x ∈ allDefinitions srcs, x.2.1.id ≠ none)
    (hids : ((allDefinitions srcs).map (fun x => x.2.1.id)).Nodup)
    (ro : Obj) (used : List Nat)
    (h : fetchScope e fuel false sm mkids srcs = .ok (ro, used))
    (x : Str × Meta × List Word) :
    x ∈ unusedOf srcs used ↔ x ∈ allDefinitions srcs ∧ x.1 ∉ ms2Paths [] mkids [] := by
  rw [ms2_unused_exact e fuel sm mkids srcs hf hfuel hsd hinc hsrc hmsrc hs hkeys hsome hids ro used h,
    List.mem_filter]
  simp

/-- the complementary form: an entry is consumed (its id is marked) iff its path names a master parameter -/
theorem consumed_iff_ms2 (mkids srcs : List Obj) (hf : MSMaster2 mkids)
    (hinc : NoIncludeTree mkids) (hs : SrcPlain srcs)
    (hids : ((allDefinitions srcs).map (fun x => x.2.1.id)).Nodup)
    (x : Str × Meta × List Word) (hx : x ∈ allDefinitions srcs) (i : Nat) (hi : x.2.1.id = some i) :
    i ∈ ms2Used [] mkids srcs ↔ x.1 ∈ ms2Paths [] mkids [] := by
  rw [ms2_used_exact mkids srcs hf hinc hs i]
  constructor
  · rintro ⟨y, hy, hyid, hyp⟩
    have := eq_of_nodup_map _ _ hids x hx y hy (by rw [hi, hyid])
    rw [this]; exact hyp
  · intro hp
    exact ⟨x, hx, hi, hp⟩

/-- **the master-provided candidates mark nothing**: no source at all — nothing consumed, whatever the
    master repeats -/
theorem ms2_used_nosrc (mkids : List Obj) (hf : MSMaster2 mkids) (hinc : NoIncludeTree mkids) :
    ms2Used [] mkids [] = [] := by
  apply List.eq_nil_iff_forall_not_mem.mpr
  intro i hi
  have hs : SrcPlain [] := ⟨fun x hx => (not_activeIn_nil_ms hx).elim, fun x hx => (not_activeIn_nil_ms hx).elim⟩
  obtain ⟨x, hx, _⟩ := (ms2_used_exact mkids [] hf hinc hs i).mp hi
  have : allDefinitions [] = [] := by decide
  rw [this] at hx
  cases hx

/-- **`master.fetch(sources, track_unused_definitions=True)`** on parsed roots, with the side conditions in
    their executable form -/
theorem fetchRoot_ms2_unused_exact (e : Envs) (master : List Obj) (ss : List (List Obj))
    (hm : masterCheck_ms2 master = true) (hs : srcCheck ss.flatten = true)
    (hk : keysDefinedMS2B e [] master ss.flatten = true)
    (hsome : ∀ x ∈ allDefinitions ss.flatten, x.2.1.id ≠ none)
    (hids : ((allDefinitions ss.flatten).map (fun x => x.2.1.id)).Nodup)
    (ro : Obj) (used : List Nat)
    (h : fetchRoot e false master ss = .ok (ro, used)) :
    unusedOf ss.flatten used =
      (allDefinitions ss.flatten).filter (fun x => !(ms2Paths [] master []).contains x.1) := by
  have hM := masterCheck_ms2_sound master hm
  have hS := srcCheck_sound ss.flatten hs
  exact ms2_unused_exact e _ _ master ss.flatten hM.tree (fetchRoot_fuel_tree master hM.depth) rfl
    hM.noInclude hS.tree hM.srcTree hS.plain (keysDefinedMS2B_sound e master [] _ hk) hsome hids ro used h

/-! ### non-vacuity and sharpness -/

/-- master: the `.multiple` scope `s` with the parameter `a`, a further occurrence of `s` that mentions `b`,
    and a disabled definition `c` -/
def fo2M : List Obj := C05.tmObjs "s\n.multiple=True\n{\n a = 1\n}\ns {\n b = 2\n}\n!c = 1\n"
/-- sources: `s.b`, `s.a`, `c` -/
def fo2S : List Obj := C05.tmObjs "s.b = 3\ns.a = 5\nc = 2\n"

example : (masterCheck_ms2 fo2M && srcCheck fo2S && keysDefinedMS2B C05.envTm [] fo2M fo2S &&
    ms2NoClash [] fo2M fo2S && !msMasterB fo2M) = true := by
  decide +kernel

/-- the theorem applied to the parsed instance (hypotheses discharged by kernel evaluation): `s.b` and `c` are
    reported, `s.a` is consumed -/
example (ro : Obj) (used : List Nat) (h : fetchRoot C05.envTm false fo2M [fo2S] = .ok (ro, used)) :
    (unusedOf fo2S used).map (fun x => String.ofList x.1) = ["s.b", "c"] := by
  have hfl : ([fo2S] : List (List Obj)).flatten = fo2S := by simp
  have := fetchRoot_ms2_unused_exact C05.envTm fo2M [fo2S] (by decide +kernel)
    (by rw [hfl]; decide +kernel) (by rw [hfl]; decide +kernel)
    (by
      rw [hfl]
      intro x hx
      have hall : ((allDefinitions fo2S).all (fun x => x.2.1.id.isSome)) = true := by decide +kernel
      have := List.all_eq_true.mp hall x hx
      intro hn; rw [hn] at this; cases this)
    (by rw [hfl]; decide +kernel)
    ro used h
  rw [hfl] at this
  rw [this]
  decide +kernel

/-- **a further occurrence declares no parameter; a disabled master object declares none** — the
    characterisation by `all_definitions(master)` of the classes with one occurrence per name is FALSE here.
    Master `s (.multiple) { a = 1 }  s { b = 2 }  !c = 1`, sources `s.b = 3  s.a = 5  c = 2`: `s.b` IS a path
    of `all_definitions(master)`, yet the model's fetch reports `s.b` (and `c`) as unused — the further
    occurrence `s { b = 2 }` is fetched against `{ a = 1 }` like a source.  Replayed on the real library:
    `M.fetch(sources=[S], track_unused_definitions=True)` reports `['s.b', 'c']`, and
    `[d.path for d in M.all_definitions()] = ['s.a', 's.b']`. -/
theorem further_occurrence_declares_no_parameter :
    (ms2Paths [] fo2M []).map String.ofList = ["s.a"] ∧
    (allDefinitions fo2M).map (fun x => String.ofList x.1) = ["s.a", "s.b"] ∧
    (match fetchRoot C05.envTm false fo2M [fo2S] with
      | .ok (_, used) => (unusedOf fo2S used).map (fun x => String.ofList x.1)
      | .error _ => []) = ["s.b", "c"] := by
  decide +kernel

/-- on the instance of Props/C05TreeMS2.lean (a `.multiple` scope repeated, a `.multiple` definition repeated
    inside it and at top level) every source definition names a parameter: nothing is reported -/
example : ((allDefinitions C05.ms2S).filter
    (fun x => !(ms2Paths [] C05.ms2M []).contains x.1)).length = 0 := by
  decide +kernel

end Phil.C06

#print axioms Phil.C06.ms2_used_exact
#print axioms Phil.C06.ms2_unused_exact
#print axioms Phil.C06.reported_iff_ms2
#print axioms Phil.C06.consumed_iff_ms2
#print axioms Phil.C06.ms2_used_nosrc
#print axioms Phil.C06.fetchRoot_ms2_unused_exact
#print axioms Phil.C06.further_occurrence_declares_no_parameter
