/-
  C02 (closed form, `!` on definitions of flat documents) — "a `!` prefix disables exactly the one
  construct it precedes and nothing else".

  Setting: the flat documents of Phil/Props/C02Layout.lean (a list of definitions `name = w1 … wk`,
  each with a layout: filler lines, indentation, blanks around `=` and between the words, the way the
  definition ends).  Every definition now carries one more bit: `bang : Bool` — the text `!` glued
  directly in front of its name (`!name = …`; indentation and filler stay in front of the `!`).

    * `renderB_l2 ds post`  — the text of the flagged document (`ds : List (DefSpec × DefLayout × Bool)`),
    * `unbang_l2 ds`        — the same definitions and layouts without the flags,
    * `bangs_l2 ds`         — the list of flags,
    * `Obj.setDisabled_l2 o b` — `o` with `is_disabled := b` (every other field — name, primary id,
                              source line, attributes, `merge_names`, words or children — unchanged),
    * `setFlags_l2 bs objs` — position by position.

  Property theorems only; lemmas are in Phil/Proofs/Layout2.lean.  Every sharp edge below was replayed
  on the Python library (`freephil.parse(input_string=…)`); model and library agree on all of them.
-/
import Phil.Proofs.Layout2
import Phil.Props.C02Layout
import Phil.Props.C01RoundTrip
set_option linter.unusedSimpArgs false
namespace Phil.C02
open Phil

attribute [local instance] Phil.C01.objDecEqInst Phil.C01.exceptDecEqRT

/-- **C02, `!` on definitions.**  Take any well-formed layout of a flat document and glue `!` in
    front of the names of an arbitrary subset of its definitions (`bangs_l2 ds`).  Then both texts
    parse, and the tree of the text with the `!`s is *exactly* the tree `objs` of the text without
    them in which the `k`-th definition has `is_disabled = True` iff the `k`-th flag is set:
    names, primary ids, source lines of the definitions and of every word, word values and quote
    styles, order — all identical (`setFlags_l2` only touches `disabled`).  `objs` itself is the tree
    of `layout_independent`: no object of it is disabled, it is the abstract tree of the definitions
    up to ids and lines, with ids `1..n`. -/
theorem bang_disables_exactly_one (ds : List (DefSpec × DefLayout × Bool)) (post : Pre)
    (h : wfDoc (unbang_l2 ds) post = true) :
    ∃ objs, parseObjs (render (unbang_l2 ds) post) = .ok objs ∧
      parseObjs (renderB_l2 ds post) = .ok (setFlags_l2 (bangs_l2 ds) objs) ∧
      objs.length = ds.length ∧ (∀ o ∈ objs, o.meta.disabled = false) ∧
      eraseList objs = eraseList (flatTree ((unbang_l2 ds).map Prod.fst)) ∧
      objs.map (fun x => x.meta.id) = (List.range' 1 ds.length).map some := by
  refine ⟨parsedLay 1 1 (unbang_l2 ds), parseObjs_render _ post h, ?_, ?_, ?_, ?_, ?_⟩
  · rw [parseObjs_renderB_l2 ds post h, parsedLayB_eq_l2]
  · have : ∀ (xs : List (DefSpec × DefLayout)) l i, (parsedLay l i xs).length = xs.length := by
      intro xs
      induction xs with
      | nil => intro l i; rfl
      | cons x rest ih => obtain ⟨d, L⟩ := x; intro l i; simp [parsedLay, ih]
    rw [this]; simp [unbang_l2]
  · have : ∀ (xs : List (DefSpec × DefLayout)) l i, ∀ o ∈ parsedLay l i xs, o.meta.disabled = false := by
      intro xs
      induction xs with
      | nil => intro l i o ho; simp [parsedLay] at ho
      | cons x rest ih =>
        obtain ⟨d, L⟩ := x
        intro l i o ho
        simp only [parsedLay, List.mem_cons] at ho
        rcases ho with rfl | ho
        · rfl
        · exact ih _ _ o ho
    exact this _ 1 1
  · rw [parsedLay_erase, erase_flatTree]
  · have := parsedLay_ids (unbang_l2 ds) 1 1
    simpa [unbang_l2] using this

/-- `setFlags_l2`, position by position -/
theorem setFlags_get (bs : List Bool) (objs : List Obj) (k : Nat) (b : Bool) (o : Obj)
    (hb : bs[k]? = some b) (ho : objs[k]? = some o) :
    (setFlags_l2 bs objs)[k]? = some (o.setDisabled_l2 b) := by
  induction bs generalizing objs k with
  | nil => simp at hb
  | cons b0 bs ih =>
    cases objs with
    | nil => simp at ho
    | cons o0 os =>
      cases k with
      | zero =>
        simp only [List.getElem?_cons_zero, Option.some.injEq] at hb ho
        subst hb; subst ho
        simp [setFlags_l2]
      | succ k =>
        simp only [List.getElem?_cons_succ] at hb ho
        simp only [setFlags_l2, List.getElem?_cons_succ]
        exact ih os k hb ho

/-- an enabled object stays what it is when its flag is not set -/
theorem setDisabled_false (o : Obj) (h : o.meta.disabled = false) : o.setDisabled_l2 false = o := by
  cases o with
  | defn m ws => simp only [Obj.meta] at h; simp only [Obj.setDisabled_l2, Obj.withMeta, ← h]
  | scope m os => simp only [Obj.meta] at h; simp only [Obj.setDisabled_l2, Obj.withMeta, ← h]

/-- **Nothing else is touched.**  The object at position `k` of the text with `!`s is the object at
    position `k` of the text without them if the `k`-th definition carries no `!`, and that object
    with `is_disabled = True` (and no other difference) if it does. -/
theorem bang_pointwise (ds : List (DefSpec × DefLayout × Bool)) (post : Pre)
    (h : wfDoc (unbang_l2 ds) post = true) :
    ∃ objs objsB, parseObjs (render (unbang_l2 ds) post) = .ok objs ∧
      parseObjs (renderB_l2 ds post) = .ok objsB ∧ objsB.length = objs.length ∧
      ∀ (k : Nat) (d : DefSpec) (L : DefLayout) (b : Bool), ds[k]? = some (d, L, b) →
        ∃ o, objs[k]? = some o ∧ o.meta.disabled = false ∧
          objsB[k]? = some (if b then o.setDisabled_l2 true else o) := by
  obtain ⟨objs, h1, h2, hlen, hdis, _, _⟩ := bang_disables_exactly_one ds post h
  have hlen2 : ∀ (bs : List Bool) (os : List Obj), bs.length = os.length →
      (setFlags_l2 bs os).length = os.length := by
    intro bs
    induction bs with
    | nil => intro os e; cases os <;> simp_all [setFlags_l2]
    | cons b bs ih =>
      intro os e
      cases os with
      | nil => simp at e
      | cons o os => simp [setFlags_l2, ih os (by simpa using e)]
  refine ⟨objs, _, h1, h2, hlen2 _ _ (by simp [bangs_l2, hlen]), ?_⟩
  intro k d L b hk
  have hk' : k < objs.length := by
    rw [hlen]
    exact (List.getElem?_eq_some_iff.mp hk).1
  refine ⟨objs[k], List.getElem?_eq_getElem hk', hdis _ (List.getElem_mem hk'), ?_⟩
  have hb : (bangs_l2 ds)[k]? = some b := by simp [bangs_l2, hk]
  rw [setFlags_get _ _ k b objs[k] hb (List.getElem?_eq_getElem hk')]
  cases b with
  | true => rfl
  | false => simp [setDisabled_false _ (hdis _ (List.getElem_mem hk'))]

/-- **Flipping one `!`.**  Two flagged documents with the same definitions and layouts whose flags
    differ at most at position `k` parse to trees that agree at every position other than `k`. -/
theorem bang_flip_one (ds1 ds2 : List (DefSpec × DefLayout × Bool)) (post : Pre) (k : Nat)
    (hsame : unbang_l2 ds1 = unbang_l2 ds2)
    (hflags : ∀ j, j ≠ k → (bangs_l2 ds1)[j]? = (bangs_l2 ds2)[j]?)
    (h : wfDoc (unbang_l2 ds1) post = true) :
    ∃ o1 o2, parseObjs (renderB_l2 ds1 post) = .ok o1 ∧ parseObjs (renderB_l2 ds2 post) = .ok o2 ∧
      o1.length = o2.length ∧ ∀ j, j ≠ k → o1[j]? = o2[j]? := by
  obtain ⟨objs, hp1, h1, hl1, _, _, _⟩ := bang_disables_exactly_one ds1 post h
  obtain ⟨objs', hp', h2, hl2, _, _, _⟩ := bang_disables_exactly_one ds2 post (hsame ▸ h)
  have hobjs : objs' = objs := by
    rw [← hsame, hp1] at hp'
    injection hp' with e
    exact e.symm
  subst hobjs
  have key : ∀ (bs1 bs2 : List Bool) (os : List Obj), bs1.length = os.length → bs2.length = os.length →
      (∀ j, j ≠ k → bs1[j]? = bs2[j]?) →
      (setFlags_l2 bs1 os).length = (setFlags_l2 bs2 os).length ∧
      ∀ j, j ≠ k → (setFlags_l2 bs1 os)[j]? = (setFlags_l2 bs2 os)[j]? := by
    intro bs1 bs2 os e1 e2 hf
    have len : ∀ (bs : List Bool) (os : List Obj), bs.length = os.length →
        (setFlags_l2 bs os).length = os.length := by
      intro bs
      induction bs with
      | nil => intro os e; cases os <;> simp_all [setFlags_l2]
      | cons b bs ih =>
        intro os e
        cases os with
        | nil => simp at e
        | cons o os => simp [setFlags_l2, ih os (by simpa using e)]
    refine ⟨by rw [len _ _ e1, len _ _ e2], ?_⟩
    intro j hj
    by_cases hjl : j < os.length
    · have hb1 : bs1[j]? = some bs1[j] := List.getElem?_eq_getElem (by omega)
      have hb2 : bs2[j]? = some bs2[j] := List.getElem?_eq_getElem (by omega)
      have ho : os[j]? = some os[j] := List.getElem?_eq_getElem hjl
      rw [setFlags_get _ _ j _ _ hb1 ho, setFlags_get _ _ j _ _ hb2 ho]
      have := hf j hj
      rw [hb1, hb2] at this
      rw [Option.some.inj this]
    · have g1 : (setFlags_l2 bs1 os).length ≤ j := by rw [len _ _ e1]; omega
      have g2 : (setFlags_l2 bs2 os).length ≤ j := by rw [len _ _ e2]; omega
      rw [List.getElem?_eq_none g1, List.getElem?_eq_none g2]
  have hlen1 : (bangs_l2 ds1).length = objs'.length := by simp [bangs_l2, hl1]
  have hlen2 : (bangs_l2 ds2).length = objs'.length := by simp [bangs_l2, hl2]
  obtain ⟨a, b⟩ := key _ _ objs' hlen1 hlen2 hflags
  exact ⟨_, _, h1, h2, a, b⟩

/-! ### non-vacuity: the airy layout of C02Layout with `!` on the first and the third definition -/

/-- `exAiry` with flags `true, false, true` -/
def exAiryB : List (DefSpec × DefLayout × Bool) :=
  (exAiry.zip [true, false, true]).map (fun x => (x.1.1, x.1.2, x.2))

example : unbang_l2 exAiryB = exAiry := by decide +kernel

example : renderB_l2 exAiryB exPost =
    ("\n # it's {x}; ok\\n\n\t!a \t=  1\r\n" ++
     "# a stand-alone comment read by the value collector\n #'quote\n\t\n" ++
     "b_2 = x*y\t\t\"p q\" it's # trailing; {comment}\n" ++
     "#\n  !c = '''l1\nl2''' ';#'\n" ++
     "\n# the end\n ").toList := by decide +kernel

/-- through the theorem: the flagged text parses to the tree of the plain text with the first and
    third definition disabled -/
example : ∃ objs, parseObjs (render exAiry exPost) = .ok objs ∧
    parseObjs (renderB_l2 exAiryB exPost) = .ok (setFlags_l2 [true, false, true] objs) := by
  obtain ⟨objs, h1, h2, _⟩ := bang_disables_exactly_one exAiryB exPost (by decide +kernel)
  exact ⟨objs, h1, h2⟩

/-! ### sharp edges: what `!` does outside the layout language (model = Python on every line) -/

/-- reference: `!` glued to the name disables that definition only -/
example : parseObjs "!a = 1\nb = 2".toList = .ok
    [.defn { name := ['a'], id := some 1, disabled := true, line := some 1 } [{ value := ['1'], line := some 1 }],
     .defn { name := ['b'], id := some 2, line := some 2 } [{ value := ['2'], line := some 2 }]] := by
  decide +kernel

/-- a blank between `!` and the name: the lead word is the lone `!`, its name is empty — refused
    (Python: `Syntax error: improper definition name "" (input line 1)`).  `!` must be glued. -/
example : parseObjs "! a = 1\nb = 2".toList = .error (.runtime "improper_definition_name" (some 1)) := by
  decide +kernel

/-- two `!`: only one is stripped, `!a` is not a name (Python: `improper definition name "!a"`) -/
example : parseObjs "!!a = 1\nb = 2".toList = .error (.runtime "improper_definition_name" (some 1)) := by
  decide +kernel

/-- **`!` in front of a dottedName name disables the innermost object only**: `!a.b = 1` yields an ENABLED
    scope `a` (built by `scope.adopt`) holding the disabled definition `b` — whereas `!a {` / `b = 1` /
    `}` yields a DISABLED scope `a` holding an enabled `b`.  So with `!` the dottedName and the nested
    spelling are not interchangeable (they are without, see `dotted_equals_nested`). -/
theorem bang_dotted_versus_nested :
    parseObjs "!a.b = 1\n".toList = .ok
      [.scope { name := ['a'], id := some 1 }
        [.defn { name := ['b'], id := some 1, disabled := true, line := some 1, mergeNames := true }
          [{ value := ['1'], line := some 1 }]]] ∧
    parseObjs "!a {\n  b = 1\n}\n".toList = .ok
      [.scope { name := ['a'], id := some 1, disabled := true, line := some 1 }
        [.defn { name := ['b'], id := some 2, line := some 2 } [{ value := ['1'], line := some 2 }]]] := by
  decide +kernel

/-- `!` in the middle of a line is an ordinary character of a word of the value -/
example : parseObjs "a = 1 !b = 2".toList = .ok
    [.defn { name := ['a'], id := some 1, line := some 1 }
      [{ value := ['1'], line := some 1 }, { value := "!b".toList, line := some 1 },
       { value := ['='], line := some 1 }, { value := ['2'], line := some 1 }]] := by decide +kernel

/-- … but after `;` a new definition starts and `!` disables it -/
example : parseObjs "!a = 1;!b = 2".toList = .ok
    [.defn { name := ['a'], id := some 1, disabled := true, line := some 1 } [{ value := ['1'], line := some 1 }],
     .defn { name := ['b'], id := some 2, disabled := true, line := some 1 } [{ value := ['2'], line := some 1 }]] := by
  decide +kernel

/-- `!` inside the value does nothing: `!1` is a word -/
example : parseObjs "!a = !1".toList = .ok
    [.defn { name := ['a'], id := some 1, disabled := true, line := some 1 }
      [{ value := "!1".toList, line := some 1 }]] := by decide +kernel

/-- **`!` on one attribute**: `!.help = x` is read (name, `=`, value) and dropped; the definition and
    its other attributes are untouched.  Without the `!` the attribute is set. -/
theorem bang_on_attribute :
    parseObjs "a = 1\n!.help = x\n.caption = y\nb = 2".toList = .ok
      [.defn { name := ['a'], id := some 1, line := some 1, attrs := [("caption", .str ['y'])] }
         [{ value := ['1'], line := some 1 }],
       .defn { name := ['b'], id := some 2, line := some 4 } [{ value := ['2'], line := some 4 }]] ∧
    parseObjs "a = 1\n.help = x\n.caption = y\nb = 2".toList = .ok
      [.defn { name := ['a'], id := some 1, line := some 1,
               attrs := [("help", .str ['x']), ("caption", .str ['y'])] }
         [{ value := ['1'], line := some 1 }],
       .defn { name := ['b'], id := some 2, line := some 4 } [{ value := ['2'], line := some 4 }]] := by
  decide +kernel

/-- **`!` on a whole scope**: the scope is disabled with header attributes and body kept as they are
    (the children are NOT flagged themselves); the definition after the scope is untouched. -/
theorem bang_on_scope :
    parseObjs "!s\n.help = h\n{\n  b = 1\n  !c = 2\n}\nd = 3".toList = .ok
      [.scope { name := ['s'], id := some 1, disabled := true, line := some 1,
                attrs := [("help", .str ['h'])] }
         [.defn { name := ['b'], id := some 2, line := some 4 } [{ value := ['1'], line := some 4 }],
          .defn { name := ['c'], id := some 3, disabled := true, line := some 5 }
            [{ value := ['2'], line := some 5 }]],
       .defn { name := ['d'], id := some 4, line := some 7 } [{ value := ['3'], line := some 7 }]] := by
  decide +kernel

/-- a disabled attribute of a scope header: `!.help` is dropped, the scope stays enabled -/
example : parseObjs "s\n!.help = h\n{\n}\n".toList = .ok
    [.scope { name := ['s'], id := some 1, line := some 1 } []] := by decide +kernel

/-- a lone `!` on its own line is an error, not "nothing" -/
example : parseObjs "a = 1\n!\nb = 2".toList = .error (.runtime "improper_definition_name" (some 2)) := by
  decide +kernel

/-- `!include x` is a disabled `include` definition (no `=`), not an include directive -/
example : parseObjs "!include x".toList = .ok
    [.defn { name := "include".toList, id := some 1, disabled := true, line := some 1 }
      [{ value := ['x'], line := some 1 }]] := by decide +kernel

#print axioms bang_disables_exactly_one
#print axioms setFlags_get
#print axioms setDisabled_false
#print axioms bang_pointwise
#print axioms bang_flip_one
#print axioms bang_dotted_versus_nested
#print axioms bang_on_attribute
#print axioms bang_on_scope

end Phil.C02
