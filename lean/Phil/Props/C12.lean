/-
  C12 — "$variables resolve lexically, backwards only, and never inside single quotes: text in single
  quotes and text without '$' is passed through untouched; a word that is exactly one unquoted
  variable takes over the referenced words as they are, any other mixture becomes one double-quoted
  string; definitions appearing later in the file, and the environment when an earlier definition
  exists, never influence the result; resolution always terminates."

  Property theorems only; lemmas and the auxiliary definitions (`vis`, `visiblePrefix`, `pruneBeforeObj`,
  `pruneBeforeList`, `EnvLe`, `plainFrags`) are in Phil/Proofs/VarsLemmas.lean.  All statements hold for all
  inputs (every environment, every object tree — also trees no parser produces —, every fuel).

  Model: Phil/Vars.lean with `resolveWords` calling
  `lexicalGet (2 * name.length + chain.length + 1) chain name id true` (lookup fuel independent of the
  resolution fuel; adequacy is `lexicalGet_fuel_adequate` below).
-/
import Phil.Proofs.VarsLemmas
set_option linter.unusedVariables false
namespace Phil.C12
open Phil

/-! ### 1. text without '$' has no variables -/

/-- A value without '$' is one literal fragment (none for the empty value) and has no variables. -/
theorem no_dollar_no_vars (value : Str) (h : '$' ∉ value) :
    fragments value = .ok (if value.isEmpty then [] else [.lit value], false) :=
  Phil.no_dollar_no_vars value h

/-! ### 2. single-quoted text and text without '$' pass through untouched -/

/-- If every word is single-quoted or free of '$', resolution returns the words unchanged — for every
    environment, enclosing chain, primary id and `diff` mode. -/
theorem untouched (env : Env) (fuel : Nat) (chain : Chain) (id : Nat) (words : List Word)
    (diff : Bool) (h : ∀ w ∈ words, w.quote = some .s1 ∨ '$' ∉ w.value) :
    resolveWords env (fuel + 1) chain id words diff = .ok words :=
  Phil.untouched env fuel chain id words diff h

/-! ### 3. a mixture becomes one double-quoted word, a sole variable keeps the referenced words -/

/-- A word with variables that is quoted (not single-quoted: those are covered by `untouched`) or has
    more than one fragment resolves, when it resolves, to exactly one double-quoted word. -/
theorem mixture_is_one_dq_word (env : Env) (fuel : Nat) (chain : Chain) (id : Nat) (diff : Bool)
    (w : Word) (frags : List Fragment) (r : List Word) (hq : w.quote ≠ some .s1)
    (hf : fragments w.value = .ok (frags, true))
    (hmix : w.quote.isSome ∨ frags.length > 1)
    (hr : resolveWords env (fuel + 1) chain id [w] diff = .ok r) :
    ∃ s, r = [{ value := s, quote := some .d1 }] :=
  Phil.mixture_is_one_dq_word env fuel chain id diff w frags r hq hf hmix hr

/-- An unquoted word that is exactly one variable takes over the resolved words of the referenced
    definition as they are (number of words, quotes and line numbers included). -/
theorem sole_variable_keeps_words (env : Env) (fuel : Nat) (chain : Chain) (id : Nat) (diff : Bool)
    (w : Word) (name : Str) (m : Meta) (ws vws : List Word) (ch : Chain) (sid : Nat)
    (hq : w.quote = none) (hf : fragments w.value = .ok ([.var name], true))
    (hl : lexicalGet (2 * name.length + chain.length + 1) chain name id true = some (.defn m ws, ch))
    (hid : m.id = some sid)
    (hv : resolveWords env fuel ch sid ws false = .ok vws) :
    resolveWords env (fuel + 1) chain id [w] diff = .ok vws :=
  Phil.sole_variable_keeps_words env fuel chain id diff w name m ws vws ch sid hq hf hl hid hv

/-- `$name` with a simple identifier is exactly one variable fragment. -/
theorem dollar_ident_is_one_variable (name : Str) (h : isSimpleIdent name = true) :
    fragments ('$' :: name) = .ok ([.var name], true) :=
  Phil.fragments_dollar_ident name h

/-! ### 4. backwards only; later definitions never influence the result -/

/-- **Backwards only.**  Whatever a lookup finds has an id strictly smaller than the id of the
    definition being resolved. -/
theorem backwards_only (fuel : Nat) (c : Chain) (path : Str) (stopId : Nat) (up : Bool)
    (o : Obj) (ch : Chain) (i : Nat) (h : lexicalGet fuel c path stopId up = some (o, ch))
    (hi : o.meta.id = some i) : i < stopId :=
  Phil.lexicalGet_id_lt fuel c path stopId up o ch i h hi

/-- **Frame property of lookup (shallow).**  Two chains with the same number of levels whose levels
    agree on the visible prefix (`visiblePrefix stopId`: the objects before the first one with id
    ≥ `stopId`) find the same object, in enclosing chains that again agree on visible prefixes.
    `c1.map (visiblePrefix stopId) = c2.map (visiblePrefix stopId)` says exactly "same length and
    level-wise equal visible prefixes".  No side condition is needed: the nested descent
    `o.children :: objs :: outer` and the re-rooting by a leading '.' both preserve the relation. -/
theorem lexicalGet_frame (fuel : Nat) (c1 c2 : Chain) (path : Str) (stopId : Nat) (up : Bool)
    (h : c1.map (visiblePrefix stopId) = c2.map (visiblePrefix stopId)) :
    (lexicalGet fuel c1 path stopId up).map (fun r => (r.1, r.2.map (visiblePrefix stopId)))
      = (lexicalGet fuel c2 path stopId up).map (fun r => (r.1, r.2.map (visiblePrefix stopId))) :=
  Phil.lexicalGet_frame fuel c1 c2 path stopId up h

/-- the object found is the same -/
theorem lexicalGet_frame_obj (fuel : Nat) (c1 c2 : Chain) (path : Str) (stopId : Nat) (up : Bool)
    (h : c1.map (visiblePrefix stopId) = c2.map (visiblePrefix stopId)) :
    (lexicalGet fuel c1 path stopId up).map (·.1) = (lexicalGet fuel c2 path stopId up).map (·.1) :=
  Phil.lexicalGet_frame_obj fuel c1 c2 path stopId up h

/-- **Frame property of lookup (deep).**  The shallow form cannot be applied when a later definition
    sits inside an *enclosing* scope, because that scope is itself a (visible) object of the next
    level.  `pruneBeforeList stopId` cuts every level at the first object with id ≥ `stopId`, recursively in
    all scopes that remain.  Chains that agree after pruning find the same object up to pruning. -/
theorem lexicalGet_frame_deep (fuel : Nat) (c1 c2 : Chain) (path : Str) (stopId : Nat) (up : Bool)
    (h : c1.map (pruneBeforeList stopId) = c2.map (pruneBeforeList stopId)) :
    (lexicalGet fuel c1 path stopId up).map (fun r => (pruneBeforeObj stopId r.1, r.2.map (pruneBeforeList stopId)))
      = (lexicalGet fuel c2 path stopId up).map (fun r => (pruneBeforeObj stopId r.1, r.2.map (pruneBeforeList stopId))) :=
  Phil.lexicalGet_frame_deep fuel c1 c2 path stopId up h

/-- **Later objects are irrelevant to lookup** (append form).  Appending to every level `k` of the
    chain arbitrary objects `extras[k]`, all with ids ≥ `stopId`, does not change the object found. -/
theorem later_irrelevant (fuel : Nat) (c : Chain) (extras : List (List Obj)) (path : Str)
    (stopId : Nat) (up : Bool) (hlen : extras.length = c.length)
    (hx : ∀ e ∈ extras, ∀ o ∈ e, vis stopId o = false) :
    (lexicalGet fuel (List.zipWith (· ++ ·) c extras) path stopId up).map (·.1)
      = (lexicalGet fuel c path stopId up).map (·.1) :=
  Phil.later_irrelevant fuel c extras path stopId up hlen hx

/-- **Later definitions never influence the result.**  If two enclosing chains agree after cutting —
    at every level and at every depth — everything from the first object with id ≥ `id` onwards, the
    definition with primary id `id` resolves to the same words or the same error in both, for every
    environment and fuel.  (The whole transitive resolution is covered: referenced definitions have
    smaller ids, and pruning at a smaller id sees even less.) -/
theorem later_definitions_irrelevant (env : Env) (fuel : Nat) (c1 c2 : Chain) (id : Nat)
    (ws : List Word) (diff : Bool) (h : c1.map (pruneBeforeList id) = c2.map (pruneBeforeList id)) :
    resolveWords env fuel c1 id ws diff = resolveWords env fuel c2 id ws diff :=
  Phil.resolveWords_frame env fuel c1 c2 id ws diff h

/-- append form of `later_definitions_irrelevant` -/
theorem later_definitions_irrelevant_append (env : Env) (fuel : Nat) (c : Chain)
    (extras : List (List Obj)) (id : Nat) (ws : List Word) (diff : Bool)
    (hlen : extras.length = c.length) (hx : ∀ e ∈ extras, ∀ o ∈ e, vis id o = false) :
    resolveWords env fuel (List.zipWith (· ++ ·) c extras) id ws diff
      = resolveWords env fuel c id ws diff :=
  Phil.later_irrelevant_resolve env fuel c extras id ws diff hlen hx

/-- Document level: the same definition (same words, same id) at the same index path in two
    documents whose enclosing chains agree after pruning.  A successful resolution in the smaller
    document is the resolution in the larger one. -/
theorem resolveAt_later_irrelevant (env : Env) (root1 root2 : List Obj) (p : List Nat) (diff : Bool)
    (m : Meta) (ws : List Word) (c1 c2 : Chain) (id : Nat) (r : List Word)
    (h1 : chainAt root1 p [] = some (.defn m ws, c1))
    (h2 : chainAt root2 p [] = some (.defn m ws, c2))
    (hid : m.id = some id)
    (hc : c1.map (pruneBeforeList id) = c2.map (pruneBeforeList id))
    (hle : countObjs root1 ≤ countObjs root2)
    (hr : resolveAt env root1 p diff = .ok r) :
    resolveAt env root2 p diff = .ok r := by
  unfold resolveAt at hr ⊢
  simp only [h1, h2, hid] at hr ⊢
  rw [← Phil.resolveWords_frame env _ c1 c2 id ws diff hc]
  exact Phil.resolveWords_mono_fuel env _ _ c1 id ws diff r (by omega) hr

/-! ### 5. the environment is only a fallback -/

/-- One unquoted `$name`: when an earlier definition is found, the environment does not matter at
    this word (it can act only through the referenced definition's own resolution). -/
theorem env_only_fallback (env1 env2 : Env) (fuel : Nat) (chain : Chain) (id : Nat)
    (w : Word) (name : Str) (m : Meta) (ws : List Word) (ch : Chain) (sid : Nat) (r : List Word)
    (hq : w.quote = none) (hv : w.value = '$' :: name) (hn : isSimpleIdent name = true)
    (h1 : resolveWords env1 (fuel + 1) chain id [w] false = .ok r)
    (hl : lexicalGet (2 * name.length + chain.length + 1) chain name id true = some (.defn m ws, ch))
    (hid : m.id = some sid)
    (hnested : resolveWords env1 fuel ch sid ws false = resolveWords env2 fuel ch sid ws false) :
    resolveWords env2 (fuel + 1) chain id [w] false = .ok r :=
  Phil.env_only_fallback env1 env2 fuel chain id w name m ws ch sid r hq hv hn h1 hl hid hnested

/-- Global form: if the words resolve with the *empty* environment (every variable, transitively,
    is found lexically), they resolve to the same result in every environment. -/
theorem env_irrelevant_when_closed (env : Env) (fuel : Nat) (chain : Chain) (id : Nat)
    (ws : List Word) (diff : Bool) (r : List Word)
    (h : resolveWords (fun _ => none) fuel chain id ws diff = .ok r) :
    resolveWords env fuel chain id ws diff = .ok r :=
  Phil.resolveWords_env_closed env fuel chain id ws diff r h

/-- Adding variables to the environment never changes a successful resolution. -/
theorem env_monotone (env1 env2 : Env) (henv : ∀ name v, env1 name = some v → env2 name = some v)
    (fuel : Nat) (chain : Chain) (id : Nat) (ws : List Word) (diff : Bool) (r : List Word)
    (h : resolveWords env1 fuel chain id ws diff = .ok r) :
    resolveWords env2 fuel chain id ws diff = .ok r :=
  Phil.resolveWords_mono env1 env2 henv fuel fuel chain id ws diff r (Nat.le_refl _) h

/-! ### 6. termination / fuel -/

/-- Results are stable once enough fuel is given. -/
theorem resolveWords_mono_fuel (env : Env) (f f' : Nat) (chain : Chain) (id : Nat) (ws : List Word)
    (diff : Bool) (r : List Word) (hle : f ≤ f')
    (h : resolveWords env f chain id ws diff = .ok r) :
    resolveWords env f' chain id ws diff = .ok r :=
  Phil.resolveWords_mono_fuel env f f' chain id ws diff r hle h

/-- Every reference goes to a strictly smaller id, so fuel `id + 1` is enough: resolution never
    reports `outOfFuel` … -/
theorem terminates (env : Env) (f : Nat) (chain : Chain) (id : Nat) (ws : List Word) (diff : Bool)
    (h : id < f) : resolveWords env f chain id ws diff ≠ .error .outOfFuel :=
  Phil.resolveWords_not_outOfFuel env f chain id ws diff h

/-- … and beyond that the fuel does not matter at all (errors included). -/
theorem fuel_irrelevant (env : Env) (f f' : Nat) (chain : Chain) (id : Nat) (ws : List Word)
    (diff : Bool) (h : id < f) (h' : id < f') :
    resolveWords env f chain id ws diff = resolveWords env f' chain id ws diff :=
  Phil.resolveWords_fuel_irrelevant env f f' chain id ws diff h h'

/-- **Lookup fuel adequacy.**  The measure `2*|path| + |chain|` strictly decreases in every recursive
    call of `lexicalGet`; with fuel ≥ `2*|path| + |chain| + 1` (what `resolveWords` passes) the
    result does not depend on the fuel. -/
theorem lexicalGet_fuel_adequate (f : Nat) (c : Chain) (path : Str) (stopId : Nat) (up : Bool)
    (h : 2 * path.length + c.length + 1 ≤ f) :
    lexicalGet f c path stopId up = lexicalGet (2 * path.length + c.length + 1) c path stopId up :=
  Phil.lexicalGet_fuel_adequate f c path stopId up h

/-! ### concrete instances (kernel-checked; they show the hypotheses above are satisfiable) -/

/-- unquoted word -/
def uw (s : String) : Word := { value := s.toList }
/-- quoted word -/
def qw (q : Quote) (s : String) : Word := { value := s.toList, quote := some q }
def dfn (n : String) (i : Nat) (ws : List Word) : Obj := .defn { name := n.toList, id := some i } ws
def scp (n : String) (i : Nat) (k : List Obj) : Obj := .scope { name := n.toList, id := some i } k
def envEmpty : Env := fun _ => none
/-- an environment that defines every variable as `ENV` -/
def envAll : Env := fun _ => some "ENV".toList

/-- ```
a = 1
x = $a
a = 2
``` -/
def docA : List Obj := [dfn "a" 0 [uw "1"], dfn "x" 1 [uw "$a"], dfn "a" 2 [uw "2"]]

/-- `x = $a` resolves to the earlier `a`, not the later one — and not to the environment. -/
example : resolveAt envEmpty docA [1] false = .ok [uw "1"] := by rfl
example : resolveAt envAll docA [1] false = .ok [uw "1"] := by rfl

/-- the later `a = 2` may be changed or removed: the chains agree after pruning at id 1 -/
def docA' : List Obj := [dfn "a" 0 [uw "1"], dfn "x" 1 [uw "$a"]]
example : [docA].map (pruneBeforeList 1) = [docA'].map (pruneBeforeList 1) := by rfl
example : resolveAt envAll docA' [1] false = .ok [uw "1"] := by rfl

/-- ```
x = $a
a = 2
```
only a *later* `a`: the lookup fails, the environment is the fallback. -/
def docB : List Obj := [dfn "x" 0 [uw "$a"], dfn "a" 1 [uw "2"]]
example : resolveAt envAll docB [0] false = .ok [qw .d1 "ENV"] := by rfl
example : resolveAt envEmpty docB [0] false = .error (.runtime "undefined_variable" none) := by rfl
example : (lexicalGet 10 [docB] "a".toList 0 true).map (·.1) = none := by rfl

/-- ```
a = 1 "two words"
x = $a pre$a 'lit $a' "q $a" plain
```
sole variable: the words of `a` as they are; mixtures: one double-quoted word; single quotes and
text without '$': untouched. -/
def docC : List Obj :=
  [dfn "a" 0 [uw "1", qw .d1 "two words"],
   dfn "x" 1 [uw "$a", uw "pre$a", qw .s1 "lit $a", qw .d1 "q $a", uw "plain"]]
example : resolveAt envEmpty docC [1] false =
    .ok [uw "1", qw .d1 "two words", qw .d1 "pre1 two words", qw .s1 "lit $a",
         qw .d1 "q 1 two words", uw "plain"] := by rfl

example : fragments "plain".toList = .ok ([.lit "plain".toList], false) := by rfl
example : fragments "".toList = .ok ([], false) := by rfl
example : fragments "pre$a".toList = .ok ([.lit "pre".toList, .var "a".toList], true) := by rfl

/-- The hypothesis `w.quote ≠ some .s1` of `mixture_is_one_dq_word` cannot be dropped: a
    single-quoted word with a '$' has fragments with variables but stays single-quoted. -/
example : fragments (qw .s1 "lit $a").value = .ok ([.lit "lit ".toList, .var "a".toList], true) ∧
    resolveWords envEmpty 1 [] 0 [qw .s1 "lit $a"] false = .ok [qw .s1 "lit $a"] := ⟨by rfl, by rfl⟩

/-- ```
a { b { c { d {
  y = 1
  x = $(a.b.c.d.y)
  y = 2
} } e = 5 } }
```
four scopes deep: five steps outward, four descents — nine lookup steps (the fuel
`countObjs + 2 = 10` of `resolveAt` shared with the lookup gave only 8 in the model before the fix). -/
def docDeep : List Obj :=
  [scp "a" 0 [scp "b" 1 [scp "c" 2 [scp "d" 3
    [dfn "y" 4 [uw "1"], dfn "x" 5 [uw "$(a.b.c.d.y)"], dfn "y" 6 [uw "2"]]],
    dfn "e" 7 [uw "5"]]]]

example : resolveAt envEmpty docDeep [0, 0, 0, 0, 1] false = .ok [uw "1"] := by rfl
example : resolveAt envAll docDeep [0, 0, 0, 0, 1] false = .ok [uw "1"] := by rfl

/-- the same document without anything after `x` (also nothing after the enclosing scopes) -/
def docDeep' : List Obj :=
  [scp "a" 0 [scp "b" 1 [scp "c" 2 [scp "d" 3
    [dfn "y" 4 [uw "1"], dfn "x" 5 [uw "$(a.b.c.d.y)"]]]]]]

/-- The deep frame hypothesis holds for the two documents although no level of the outer chain has
    equal visible prefixes (scope `a` itself differs): this is the case the shallow form misses. -/
example : [docDeep].map (visiblePrefix 5) ≠ [docDeep'].map (visiblePrefix 5) := by
  intro h
  have := congrArg (fun c => c.map (fun l => l.map (fun o => o.children.map (fun o' => o'.children.length)))) h
  exact absurd this (by decide)
example : ((chainAt docDeep [0, 0, 0, 0, 1] []).map (fun r => r.2.map (pruneBeforeList 5)))
    = ((chainAt docDeep' [0, 0, 0, 0, 1] []).map (fun r => r.2.map (pruneBeforeList 5))) := by rfl
example : resolveAt envEmpty docDeep' [0, 0, 0, 0, 1] false = .ok [uw "1"] := by rfl

/-- `resolveAt_later_irrelevant` applied: the result for `docDeep` follows from the one for the
    truncated document `docDeep'`; all hypotheses are discharged by computation. -/
example : resolveAt envAll docDeep [0, 0, 0, 0, 1] false = .ok [uw "1"] := by
  refine resolveAt_later_irrelevant envAll docDeep' docDeep [0, 0, 0, 0, 1] false _ _ _ _ 5 _
    (by rfl) (by rfl) (by rfl) (by rfl) ?_ (by rfl)
  simp [docDeep, docDeep', scp, dfn, countObjs]

/-- `lexicalGet` itself is NOT monotone in its fuel on arbitrary trees (a definition with a dotted
    name next to a scope path): with fuel 2 the nested descent gives up and the dotted definition is
    found, with fuel 3 the nested `c`.  Hence the adequacy bound in `lexicalGet_fuel_adequate`. -/
def docDotted : List Obj :=
  [dfn "a.b.c" 0 [uw "1"], scp "a" 1 [scp "b" 2 [dfn "c" 3 [uw "2"]]]]
example : (lexicalGet 2 [docDotted] "a.b.c".toList 4 true).map (·.1) = some (dfn "a.b.c" 0 [uw "1"]) := by rfl
example : (lexicalGet 3 [docDotted] "a.b.c".toList 4 true).map (·.1) = some (dfn "c" 3 [uw "2"]) := by rfl
example : (lexicalGet (2 * 5 + 1 + 1) [docDotted] "a.b.c".toList 4 true).map (·.1) = some (dfn "c" 3 [uw "2"]) := by rfl

end Phil.C12
