/-
  C08 (NESTED masters WITH `.multiple` SCOPES) — "fetch_diff is a faithful and minimal difference":
  the closed form of `scope.fetch(diff=True)` on `MSMaster` masters (the class of Props/C05TreeMS.lean:
  enabled scopes to any depth, `.multiple` or not, optional or mandatory, nested in each other at will;
  `.multiple` or plain typed definitions; sibling names pairwise distinct) with arbitrary sources.

  Model: Phil/Fetch.lean (`fetchScope … true …`).  Lemmas: Phil/Proofs/DiffTreeMS.lean.
  Specification (structural recursion on the master tree, fuel-free):
    `mdBlock e mo srcs` — what the master child `mo` contributes to the difference:
        a definition — `diffBlockL` (Props/C08Tree.lean);
        a non-multiple scope — itself with `msDiff` of its body against the children of ALL enabled source
        scopes of its name, dropped if that is empty;
        a `.multiple` scope — NO template; per enabled source scope `s` of its name the candidate "the
        scope with `msDiff` of the body against the children of `s`"; EMPTY candidates are skipped; the
        others go through the list rule (`survivorsOf`) with the keys
        `mo.extract_format(source=candidate).as_str()` of the DIFFERENCE candidates — dropped when equal to
        the key of the master's own fetched block, of equal keys the last one stays;
    `msDiff e mkids srcs` — the concatenation of the blocks in master order.
  Hypotheses: `KeysDiffMS` (every rendering the difference compares is defined), fuel
  `depthL mkids + 1 < fuel`, `SrcTree srcs`.
  Facts (sections below):
    1. `fetch_diff_ms_total` (TOTAL: difference + consumed ids, or "incompatible"), `fetchRoot_diff_ms(_checked)`;
    2. `diff_ms_minimal`, `diff_ms_no_empty_scope`, `self_diff_ms_empty_nosrc`;
    3. `master_as_source_diff_empty`, `diff_of_working_ms(_spec,_minimal)` (`M.fetch_diff(M.fetch(S)) = M.fetch_diff(S)`),
       `self_diff_ms_empty` — the working-set laws need `CohMS` (coherence of the working-set rendering and the
       difference rendering of the blocks of a `.multiple` scope; trivially true without sources; sharp for
       arbitrary environments: `cohMS_needed`);
    4. `diff_ms_idempotent`, `restore_ms_closed` (closed form `msRestoredS` of `M.fetch(M.fetch_diff(S))`),
       `restore_ms_same_instances` (same template, same instances in the same order), `restore_ms_exact`,
       `diff_restore_ms_fixed_point(_spec,_checked)`, `restore_ms_twice`;
    witnesses: `keysDiff_needed`, `diff_ms_fuel_needed`, `restore_ms_not_tree_equal`, `cohMS_needed`,
    `restore_ms_further_occurrence_reorders` (finding D10 on `.multiple` SCOPES: one occurrence per name is sharp).
  Not covered: further master occurrences in diff mode (the `-1` marker), values equal after restoring (D42).
  After proving: 500 fresh instances — `msDiff`, `msRestoredS` and the difference of the restored set equal the
  real library's `D`, `M.fetch(D)`, `M.fetch_diff(M.fetch(D))` on all 500; `cohMSB` true on the sources and on
  the difference for all 500.  Python probe of the four laws of C08 on 1500 random inputs of the class: 0 failures.
  Validation of the specification against the real library BEFORE proving: 750 random instances
  (scratch generator: depth ≤ 3, `.multiple` scopes nested in each other, mandatory ones, `.multiple`
  definitions, int/bool/str/untyped values with non-canonical spellings; sources dotted/braced, repeated
  blocks, disabled objects, unknown names, clashes): 693 differences equal to `msDiff` (315 non-empty),
  57 clash errors agree with `msNoClash`, 0 mismatches; the model agreed with Python on all 750.
-/
import Phil.Proofs.DiffTreeMS
import Phil.Props.C05TreeMS
import Phil.Props.C08Tree
set_option linter.unusedVariables false

namespace Phil.C08
open Phil

/-! ### 1. the closed form -/

/-- **The difference in closed form, masters with `.multiple` scopes (total).**  With fuel beyond the
    nesting depth plus one and defined keys, `master.fetch_diff(sources)` succeeds exactly when no kinds
    clash (`msNoClash`, the test of the non-diff fetch); its children are `msDiff`; the consumed ids are
    those of the non-diff fetch (`msUsed`); a clash makes it fail with RuntimeError ("incompatible"). -/
theorem fetch_diff_ms_total (e : Envs) (fuel : Nat) (sm : Meta) (mkids srcs : List Obj)
    (hf : MSMaster mkids) (hfuel : depthL mkids + 1 < fuel) (hsd : sm.disabled = false)
    (hsrc : SrcTree srcs) (hkeys : KeysDiffMS e mkids srcs) :
    fetchScope e fuel true sm mkids srcs =
      if msNoClash mkids srcs then
        .ok (.scope { sm with tmpl := 0 } (msDiff e mkids srcs), msUsed mkids srcs)
      else .error (.runtime "incompatible" none) :=
  Phil.diff_ms_total e fuel sm mkids srcs hf hfuel hsd hsrc hkeys

/-- a successful difference is the specification -/
theorem fetch_diff_ms_ok (e : Envs) (fuel : Nat) (sm : Meta) (mkids srcs : List Obj)
    (hf : MSMaster mkids) (hfuel : depthL mkids + 1 < fuel) (hsd : sm.disabled = false)
    (hsrc : SrcTree srcs) (hkeys : KeysDiffMS e mkids srcs) (rm : Meta) (D : List Obj) (used : List Nat)
    (h : fetchScope e fuel true sm mkids srcs = .ok (.scope rm D, used)) :
    msNoClash mkids srcs = true ∧ rm = { sm with tmpl := 0 } ∧ D = msDiff e mkids srcs ∧
      used = msUsed mkids srcs :=
  Phil.diff_ms_ok e fuel sm mkids srcs hf hfuel hsd hsrc hkeys rm D used h

/-- **`master.fetch_diff(sources=…)`** on parsed roots: the fuel `fetchRoot` computes is adequate -/
theorem fetchRoot_diff_ms (e : Envs) (master : List Obj) (ss : List (List Obj))
    (hf : MSMaster master) (hd : depthL master ≤ 1000) (hsrc : SrcTree ss.flatten)
    (hkeys : KeysDiffMS e master ss.flatten) :
    fetchRoot e true master ss =
      if msNoClash master ss.flatten then
        .ok (.scope { name := [], id := some 0 } (msDiff e master ss.flatten), msUsed master ss.flatten)
      else .error (.runtime "incompatible" none) :=
  Phil.fetchRoot_diff_ms e master ss hf hd hsrc hkeys

/-- … with the side conditions in executable form (`masterCheck_ms`, `srcCheck`, `keysDiffMSB`) -/
theorem fetchRoot_diff_ms_checked (e : Envs) (master : List Obj) (ss : List (List Obj))
    (hm : masterCheck_ms master = true) (hs : srcCheck ss.flatten = true)
    (hk : keysDiffMSB e master ss.flatten = true) :
    fetchRoot e true master ss =
      if msNoClash master ss.flatten then
        .ok (.scope { name := [], id := some 0 } (msDiff e master ss.flatten), msUsed master ss.flatten)
      else .error (.runtime "incompatible" none) :=
  have hM := masterCheck_ms_sound master hm
  Phil.fetchRoot_diff_ms e master ss hM.tree hM.depth (srcCheck_sound ss.flatten hs).tree
    (keysDiffMSB_sound e master _ hk)

/-- **the block of a `.multiple` scope in a difference** (the specification spelled out): no
    template; the survivors of the list rule among the NON-EMPTY difference candidates, one per enabled
    source scope of that name in document order, compared by the renderings of the difference
    candidates -/
theorem diff_multiple_scope_rule (e : Envs) (mm : Meta) (kids srcs : List Obj)
    (hmult : (mm.attrs.get "multiple").truthy = true) :
    mdBlock e (.scope mm kids) srcs =
      (dedupKeepLast
        ((((scopesNamed mm.name srcs).filter (fun s => !(msDiff e kids s.children).isEmpty)).map
            (fun s => (Obj.scope { mm with tmpl := 0 } (msDiff e kids s.children),
              keyMS e (.scope mm kids) (Obj.scope { mm with tmpl := 0 } (msDiff e kids s.children))))).filter
          (fun y => y.2 != keyMS e (.scope mm kids) (.scope { mm with tmpl := 0 } (msResult e kids []))))).map
        (·.1) := by
  rw [mdBlock_multi_eq e mm kids srcs hmult]
  rfl

/-- a non-multiple scope: itself with the difference of its body, dropped when empty -/
theorem diff_plain_scope_block (e : Envs) (mm : Meta) (kids srcs : List Obj)
    (hmult : (mm.attrs.get "multiple").truthy = false) :
    mdBlock e (.scope mm kids) srcs =
      if (msDiff e kids (srcStep srcs mm.name)).isEmpty then []
      else [.scope { mm with tmpl := 0 } (msDiff e kids (srcStep srcs mm.name))] :=
  mdBlock_plain_eq e mm kids srcs hmult

/-- a definition: as for masters without `.multiple` scopes (`tdBlock`) -/
theorem diff_defn_block (e : Envs) (mm : Meta) (mws : List Word) (srcs : List Obj) :
    mdBlock e (.defn mm mws) srcs = tdBlock e (.defn mm mws) srcs := by
  rw [mdBlock, tdBlock]

/-- the whole difference: the blocks in master order -/
theorem msDiff_eq (e : Envs) (mkids srcs : List Obj) :
    msDiff e mkids srcs = mkids.flatMap (fun mo => mdBlock e mo srcs) :=
  msDiff_eq_flatMap e srcs mkids

/-- the difference is nested no deeper than the master -/
theorem diff_ms_depth (e : Envs) (mkids srcs : List Obj) : depthL (msDiff e mkids srcs) ≤ depthL mkids :=
  depthL_msDiff e mkids srcs

/-! ### 2. minimality; no empty scopes; no sources -/

/-- **Minimality.**  Every definition `x` of `master.fetch_diff(sources)`, at any depth — inside the
    instances of `.multiple` scopes too — is the candidate built from an enabled source definition for a
    master definition `mo`, and its key `mo.extract_format(source=x).as_str()` differs from
    `mo.extract_format().as_str()`: it renders differently from the master default. -/
theorem diff_ms_minimal (e : Envs) (fuel : Nat) (sm : Meta) (mkids srcs : List Obj)
    (hf : MSMaster mkids) (hfuel : depthL mkids + 1 < fuel) (hsd : sm.disabled = false)
    (hsrc : SrcTree srcs) (hkeys : KeysDiffMS e mkids srcs) (rm : Meta) (D : List Obj) (used : List Nat)
    (h : fetchScope e fuel true sm mkids srcs = .ok (.scope rm D, used)) :
    ∀ x, ActiveIn x D → x.isDefn = true →
      ∃ mo, ActiveIn mo mkids ∧ mo.isDefn = true ∧ (∃ d, ActiveIn d srcs ∧ x = candOfSrc mo d) ∧
        keyOf e 0 mo x ≠ keyOf e 0 mo mo := by
  obtain ⟨_, _, rfl, _⟩ := Phil.diff_ms_ok e fuel sm mkids srcs hf hfuel hsd hsrc hkeys rm D used h
  exact msDiff_minimal_md e mkids srcs hf.kids

/-- **No empty scopes.**  Every scope of a difference, at any depth — every kept instance of a
    `.multiple` scope included — has children. -/
theorem diff_ms_no_empty_scope (e : Envs) (fuel : Nat) (sm : Meta) (mkids srcs : List Obj)
    (hf : MSMaster mkids) (hfuel : depthL mkids + 1 < fuel) (hsd : sm.disabled = false)
    (hsrc : SrcTree srcs) (hkeys : KeysDiffMS e mkids srcs) (rm : Meta) (D : List Obj) (used : List Nat)
    (h : fetchScope e fuel true sm mkids srcs = .ok (.scope rm D, used)) :
    ∀ m kids, ActiveIn (.scope m kids) D → kids ≠ [] := by
  obtain ⟨_, _, rfl, _⟩ := Phil.diff_ms_ok e fuel sm mkids srcs hf hfuel hsd hsrc hkeys rm D used h
  exact msDiff_no_empty_md e mkids srcs

/-- **No sources: empty difference** (nothing consumed). -/
theorem self_diff_ms_empty_nosrc (e : Envs) (fuel : Nat) (sm : Meta) (mkids : List Obj)
    (hf : MSMaster mkids) (hfuel : depthL mkids + 1 < fuel) (hsd : sm.disabled = false)
    (hk : KeysDiffMS e mkids []) :
    fetchScope e fuel true sm mkids [] = .ok (.scope { sm with tmpl := 0 } [], []) := by
  rw [Phil.diff_ms_total e fuel sm mkids [] hf hfuel hsd SrcTree.nil_ms hk, msNoClash_nil_src,
    msDiff_nil_md, msUsed_nil_md]
  rfl

/-! ### 3. empty self-difference; the difference of a working set -/

/-- **The master itself as the source: empty difference** (`M.fetch_diff(M)` has no children), on the
    specification; no hypothesis on the renderings.  (`RefetchTree`: master definitions are not
    template-marked and carry variable-free words — true of every parsed master.) -/
theorem master_as_source_diff_empty (e : Envs) (mkids : List Obj) (hf : MSMaster mkids)
    (hr : RefetchTree mkids) : msDiff e mkids mkids = [] :=
  msDiff_self e mkids hf hr

/-- **`M.fetch_diff(M.fetch(S)) = M.fetch_diff(S)`** on the specification, for masters with `.multiple`
    scopes nested at will, under the coherence hypothesis `CohMS e mkids srcs` (the working-set
    rendering and the difference rendering of the source blocks of a `.multiple` scope identify the
    same blocks; see `CohMS`; executable form `cohMSB`; sharp: `cohMS_needed`). -/
theorem diff_of_working_ms_spec (e : Envs) (mkids srcs : List Obj) (hf : MSMaster mkids)
    (hr : RefetchTree mkids) (hc : CohMS e mkids srcs) :
    msDiff e mkids (msResult e mkids srcs) = msDiff e mkids srcs :=
  msDiff_working e mkids srcs hf hr hc

/-- the side conditions of the second difference follow from those of the first: the working set never
    clashes with its master, is a well-formed source tree, and its difference keys are defined -/
theorem diff_of_working_hypotheses_ms (e : Envs) (mkids srcs : List Obj) (hf : MSMaster mkids)
    (hr : RefetchTree mkids) (hdol : SrcNoDollar srcs) (hkeys : KeysDefinedMS e mkids srcs)
    (hkd : KeysDiffMS e mkids srcs) (hc : CohMS e mkids srcs) :
    msNoClash mkids (msResult e mkids srcs) = true ∧ SrcTree (msResult e mkids srcs) ∧
      KeysDiffMS e mkids (msResult e mkids srcs) :=
  ⟨(msSide_result e mkids srcs hf hr hkeys).1, srcTree_msResult e mkids srcs hf hr hdol,
    keysDiff_msResult e mkids srcs hf hr hkd hc⟩

/-- **`master.fetch_diff(master.fetch(sources))` has the children of `master.fetch_diff(sources)`**
    (and never fails), operationally. -/
theorem diff_of_working_ms (e : Envs) (fuel : Nat) (sm : Meta) (mkids srcs : List Obj)
    (hf : MSMaster mkids) (hfuel : depthL mkids + 1 < fuel) (hsd : sm.disabled = false)
    (hr : RefetchTree mkids) (hsrc : SrcTree srcs) (hdol : SrcNoDollar srcs)
    (hkeys : KeysDefinedMS e mkids srcs) (hkd : KeysDiffMS e mkids srcs) (hc : CohMS e mkids srcs)
    (rm : Meta) (W : List Obj) (u : List Nat)
    (hW : fetchScope e fuel false sm mkids srcs = .ok (.scope rm W, u)) :
    ∃ ud ud', fetchScope e fuel true sm mkids W = .ok (.scope rm (msDiff e mkids srcs), ud) ∧
      fetchScope e fuel true sm mkids srcs = .ok (.scope rm (msDiff e mkids srcs), ud') := by
  obtain ⟨hnc, hro, _⟩ := fetch_ms_ok e fuel sm mkids srcs hf (by omega) hsd hsrc hkeys _ u hW
  injection hro with hrm hWe
  subst hrm; subst hWe
  refine ⟨_, msUsed mkids srcs, diff_working_ms e fuel sm mkids srcs hf hfuel hsd hr hdol hkeys hkd hc, ?_⟩
  rw [Phil.diff_ms_total e fuel sm mkids srcs hf hfuel hsd hsrc hkd, hnc]
  rfl

/-- **The difference of the master's own defaults is empty**: `W₀ = master.fetch()`,
    `master.fetch_diff(W₀)` succeeds and has no children.  No hypothesis on the renderings. -/
theorem self_diff_ms_empty (e : Envs) (fuel : Nat) (sm : Meta) (mkids : List Obj)
    (hf : MSMaster mkids) (hr : RefetchTree mkids) (hfuel : depthL mkids + 1 < fuel)
    (hsd : sm.disabled = false) (hkeys : KeysDefinedMS e mkids []) (hkd : KeysDiffMS e mkids [])
    (rm : Meta) (W0 : List Obj) (u : List Nat)
    (hW : fetchScope e fuel false sm mkids [] = .ok (.scope rm W0, u)) :
    ∃ u', fetchScope e fuel true sm mkids W0 = .ok (.scope rm [], u') := by
  obtain ⟨ud, _, h, _⟩ := diff_of_working_ms e fuel sm mkids [] hf hfuel hsd hr SrcTree.nil_ms
    SrcNoDollar.nil_ms hkeys hkd (cohMS_nil e mkids) rm W0 u hW
  rw [msDiff_nil_md] at h
  exact ⟨ud, h⟩

/-- minimality for the difference of a working set (the wording of C08): every definition of
    `D = master.fetch_diff(W)`, `W = master.fetch(sources)`, at any depth, renders differently from its
    master default; no scope of `D` is empty -/
theorem diff_of_working_ms_minimal (e : Envs) (fuel : Nat) (sm : Meta) (mkids srcs : List Obj)
    (hf : MSMaster mkids) (hfuel : depthL mkids + 1 < fuel) (hsd : sm.disabled = false)
    (hr : RefetchTree mkids) (hsrc : SrcTree srcs) (hdol : SrcNoDollar srcs)
    (hkeys : KeysDefinedMS e mkids srcs) (hkd : KeysDiffMS e mkids srcs) (hc : CohMS e mkids srcs)
    (rm : Meta) (W : List Obj) (u : List Nat)
    (hW : fetchScope e fuel false sm mkids srcs = .ok (.scope rm W, u))
    (rd : Meta) (D : List Obj) (ud : List Nat)
    (hD : fetchScope e fuel true sm mkids W = .ok (.scope rd D, ud)) :
    (∀ x, ActiveIn x D → x.isDefn = true →
      ∃ mo, ActiveIn mo mkids ∧ mo.isDefn = true ∧ x.name = mo.name ∧ keyOf e 0 mo x ≠ keyOf e 0 mo mo) ∧
    (∀ m kids, ActiveIn (.scope m kids) D → kids ≠ []) := by
  obtain ⟨ud', _, h, _⟩ := diff_of_working_ms e fuel sm mkids srcs hf hfuel hsd hr hsrc hdol hkeys hkd hc
    rm W u hW
  rw [h] at hD
  injection hD with hD
  injection hD with hD1 hD2
  injection hD1 with _ hDk
  subst hDk
  refine ⟨?_, msDiff_no_empty_md e mkids srcs⟩
  intro x hx hdef
  obtain ⟨mo, hmo, hmd, ⟨d, _, hxd⟩, hne⟩ := msDiff_minimal_md e mkids srcs hf.kids x hx hdef
  refine ⟨mo, hmo, hmd, ?_, hne⟩
  rw [hxd]
  rfl

/-! ### 4. the difference as a source; the restored working set -/

/-- **the difference of a difference is that difference** (no hypothesis on the renderings) -/
theorem diff_ms_idempotent (e : Envs) (mkids srcs : List Obj) (hf : MSMaster mkids) (hr : RefetchTree mkids) :
    msDiff e mkids (msDiff e mkids srcs) = msDiff e mkids srcs :=
  msDiff_idem e mkids srcs hf hr

/-- **Closed form of the restored working set** `W' = master.fetch(master.fetch_diff(sources))`:
    `msRestoredS`, by structural recursion on the master (blocks: `restore_ms_defn_block`,
    `restore_ms_plain_scope_block`, `restore_ms_multiple_scope_block`). -/
theorem restore_ms_closed (e : Envs) (mkids srcs : List Obj) (hf : MSMaster mkids) (hr : RefetchTree mkids) :
    msResult e mkids (msDiff e mkids srcs) = msRestoredS e mkids srcs :=
  msRestored_closed e mkids srcs hf hr

/-- a definition of `W'`: `restoredBlockL` (Props/C08Tree.lean) — a `.multiple` definition gets the
    block of the working set back; another one the working value, except that a value merely
    re-spelling the default comes back in the master's spelling -/
theorem restore_ms_defn_block (e : Envs) (mm : Meta) (mws : List Word) (srcs : List Obj) :
    mrBlock e (.defn mm mws) srcs = restoredBlockL e 0 (.defn mm mws) (defsNamed mm.name srcs) := by
  rw [mrBlock]

/-- a non-multiple scope of `W'`: itself, restored -/
theorem restore_ms_plain_scope_block (e : Envs) (mm : Meta) (kids srcs : List Obj)
    (hmult : (mm.attrs.get "multiple").truthy = false) :
    mrBlock e (.scope mm kids) srcs =
      [.scope { mm with tmpl := 0 } (msRestoredS e kids (srcStep srcs mm.name))] := by
  rw [mrBlock]; simp only [hmult, Bool.false_eq_true, if_false]

/-- a `.multiple` scope of `W'`: the template as in any fetch, then the list rule over the restored
    instances of exactly those source blocks that survive in the difference (`diffSurv`: visible — a
    non-empty difference whose rendering is not the master's — and last of their difference
    rendering), in document order: the difference keeps instance boundaries and order -/
theorem restore_ms_multiple_scope_block (e : Envs) (mm : Meta) (kids srcs : List Obj)
    (hmult : (mm.attrs.get "multiple").truthy = true) :
    mrBlock e (.scope mm kids) srcs =
      msMultiBlock (.scope mm kids) (.scope { mm with tmpl := 0 } (msResult e kids []))
        (keyMS e (.scope mm kids) (.scope { mm with tmpl := 0 } (msResult e kids [])))
        ((diffSurv e mm kids (scopesNamed mm.name srcs)).map (fun s =>
          (Obj.scope { mm with tmpl := 0 } (msRestoredS e kids s.children),
           keyMS e (.scope mm kids) (Obj.scope { mm with tmpl := 0 } (msRestoredS e kids s.children))))) := by
  rw [mrBlock]; simp only [hmult, if_true]

/-- **Merging the difference back keeps instance boundaries and order.**  Under `StrongCohAt` (the three
    renderings — working-set instance, difference candidate, restored instance — identify the same
    source blocks of this `.multiple` scope; executable `strongCohAtB`), the block of the scope in the
    working set `W` and its block in the restored working set `W'` are: the SAME template, followed by
    one instance per source scope of `workSurv` (the sources surviving the working set's list rule), in
    the same order — in `W` the fetched instance, in `W'` the restored instance of the same source. -/
theorem restore_ms_same_instances (e : Envs) (mm : Meta) (kids srcs : List Obj)
    (hmult : (mm.attrs.get "multiple").truthy = true)
    (h : StrongCohAt e mm kids (scopesNamed mm.name srcs)) :
    msBlock e (.scope mm kids) srcs =
      tmplOfMS e mm kids (workSurv e mm kids (scopesNamed mm.name srcs)) ::
        (workSurv e mm kids (scopesNamed mm.name srcs)).map
          (fun s => Obj.scope { mm with tmpl := 0 } (msResult e kids s.children)) ∧
    mrBlock e (.scope mm kids) srcs =
      tmplOfMS e mm kids (workSurv e mm kids (scopesNamed mm.name srcs)) ::
        (workSurv e mm kids (scopesNamed mm.name srcs)).map
          (fun s => Obj.scope { mm with tmpl := 0 } (msRestoredS e kids s.children)) :=
  ⟨msBlock_multi_surv e mm kids srcs hmult, mrBlock_multi_surv e mm kids srcs hmult h⟩

/-- **Exact restoration.**  If no non-multiple working value merely re-spells its default and the
    renderings are coherent at every `.multiple` scope (`ExactMS`, at every depth and inside every
    surviving instance), merging the difference back gives the working set itself — as a tree. -/
theorem restore_ms_exact (e : Envs) (mkids srcs : List Obj) (hf : MSMaster mkids) (hr : RefetchTree mkids)
    (hx : ExactMS e mkids srcs) :
    msResult e mkids (msDiff e mkids srcs) = msResult e mkids srcs := by
  rw [restore_ms_closed e mkids srcs hf hr]
  exact msRestoredS_eq_msResult e mkids srcs hx

/-- **The difference of the restored working set is the difference again** (on the specification):
    `D' = M.fetch_diff(M.fetch(D)) = D` for `D = M.fetch_diff(S)`.  Hypothesis: `CohMS` on the difference
    taken as the source (executable: `cohMSB e mkids (msDiff e mkids srcs)`). -/
theorem diff_restore_ms_fixed_point_spec (e : Envs) (mkids srcs : List Obj) (hf : MSMaster mkids)
    (hr : RefetchTree mkids) (hc : CohMS e mkids (msDiff e mkids srcs)) :
    msDiff e mkids (msResult e mkids (msDiff e mkids srcs)) = msDiff e mkids srcs :=
  msDiff_restored e mkids srcs hf hr hc

/-- restoring twice changes nothing -/
theorem restore_ms_twice (e : Envs) (mkids srcs : List Obj) (hf : MSMaster mkids) (hr : RefetchTree mkids)
    (hc : CohMS e mkids (msDiff e mkids srcs)) :
    msResult e mkids (msDiff e mkids (msResult e mkids (msDiff e mkids srcs))) =
      msResult e mkids (msDiff e mkids srcs) :=
  msRestored_twice e mkids srcs hf hr hc

/-- **The chain `D = M.fetch_diff(S)`, `W' = M.fetch(D)`, `D' = M.fetch_diff(W')` on `fetchScope`**:
    all three succeed, `W'` is `msRestoredS`, and `D' = D`.  The hypotheses on `D` (it is a well-formed
    source, its keys are defined, it is coherent) are stated on `msDiff e mkids srcs`; each has an
    executable form (`srcCheck`, `keysDefinedMSB`, `keysDiffMSB`, `cohMSB`, `msNoClash`). -/
theorem diff_restore_ms_fixed_point (e : Envs) (fuel : Nat) (sm : Meta) (mkids srcs : List Obj)
    (hf : MSMaster mkids) (hfuel : depthL mkids + 1 < fuel) (hsd : sm.disabled = false)
    (hr : RefetchTree mkids) (hsrc : SrcTree srcs) (hkd : KeysDiffMS e mkids srcs)
    (hnc : msNoClash mkids srcs = true)
    (hDsrc : SrcTree (msDiff e mkids srcs)) (hDdol : SrcNoDollar (msDiff e mkids srcs))
    (hDnc : msNoClash mkids (msDiff e mkids srcs) = true)
    (hDk : KeysDefinedMS e mkids (msDiff e mkids srcs)) (hDkd : KeysDiffMS e mkids (msDiff e mkids srcs))
    (hDc : CohMS e mkids (msDiff e mkids srcs)) :
    ∃ u1 u2 u3,
      fetchScope e fuel true sm mkids srcs = .ok (.scope { sm with tmpl := 0 } (msDiff e mkids srcs), u1) ∧
      fetchScope e fuel false sm mkids (msDiff e mkids srcs) =
        .ok (.scope { sm with tmpl := 0 } (msRestoredS e mkids srcs), u2) ∧
      fetchScope e fuel true sm mkids (msRestoredS e mkids srcs) =
        .ok (.scope { sm with tmpl := 0 } (msDiff e mkids srcs), u3) := by
  have hcl := msRestored_closed e mkids srcs hf hr
  unfold msRestored at hcl
  rw [← hcl]
  refine ⟨msUsed mkids srcs, msUsed mkids (msDiff e mkids srcs),
    msUsed mkids (msResult e mkids (msDiff e mkids srcs)), ?_, ?_, ?_⟩
  · rw [Phil.diff_ms_total e fuel sm mkids srcs hf hfuel hsd hsrc hkd, hnc]; rfl
  · rw [Phil.fetch_ms_total e fuel sm mkids _ hf (by omega) hsd hDsrc hDk, hDnc]
    rfl
  · have h := diff_working_ms e fuel sm mkids (msDiff e mkids srcs) hf hfuel hsd hr hDdol hDk hDkd hDc
    rw [msDiff_idem e mkids srcs hf hr] at h
    exact h

/-- … with every side condition in executable form -/
theorem diff_restore_ms_fixed_point_checked (e : Envs) (fuel : Nat) (sm : Meta) (mkids srcs : List Obj)
    (hm : masterCheck_ms mkids = true) (hfuel : depthL mkids + 1 < fuel) (hsd : sm.disabled = false)
    (hs : srcCheck srcs = true) (hkd : keysDiffMSB e mkids srcs = true) (hnc : msNoClash mkids srcs = true)
    (hDs : srcCheck (msDiff e mkids srcs) = true) (hDnc : msNoClash mkids (msDiff e mkids srcs) = true)
    (hDk : keysDefinedMSB e mkids (msDiff e mkids srcs) = true)
    (hDkd : keysDiffMSB e mkids (msDiff e mkids srcs) = true)
    (hDc : cohMSB e mkids (msDiff e mkids srcs) = true) :
    ∃ u1 u2 u3,
      fetchScope e fuel true sm mkids srcs = .ok (.scope { sm with tmpl := 0 } (msDiff e mkids srcs), u1) ∧
      fetchScope e fuel false sm mkids (msDiff e mkids srcs) =
        .ok (.scope { sm with tmpl := 0 } (msRestoredS e mkids srcs), u2) ∧
      fetchScope e fuel true sm mkids (msRestoredS e mkids srcs) =
        .ok (.scope { sm with tmpl := 0 } (msDiff e mkids srcs), u3) :=
  have hM := masterCheck_ms_sound mkids hm
  have hS := srcCheck_sound srcs hs
  have hD := srcCheck_sound (msDiff e mkids srcs) hDs
  diff_restore_ms_fixed_point e fuel sm mkids srcs hM.tree hfuel hsd hM.refetch hS.tree
    (keysDiffMSB_sound e mkids srcs hkd) hnc hD.tree hD.noDollar hDnc (keysDefinedMSB_sound e mkids _ hDk)
    (keysDiffMSB_sound e mkids _ hDkd) (cohMSB_sound e mkids _ hDc)

/-! ### non-vacuity: the nested instance of Props/C05TreeMS.lean (through the parser) -/

/-- the parsed instance (`C05.msM`: `a`; `.multiple` scope `s { b ; .multiple scope t { .multiple c } }`;
    mandatory `.multiple` scope `u { d }` — `C05.msS`: `s` three times + dotted, `u` twice, unknown
    names, a disabled block) satisfies every hypothesis -/
example : (masterCheck_ms C05.msM && srcCheck C05.msS && keysDiffMSB C05.envTm C05.msM C05.msS &&
    msNoClash C05.msM C05.msS) = true := by
  decide +kernel

/-- the specification on the instance — the real library returns exactly this tree (replayed):
    the second `s` block (`b = True`, the default) has an empty difference and is skipped; the dotted
    `s.t.c = z` is an instance of its own; the first and the fourth block have the same difference, the
    later one stays; of `u` only `d = 3` -/
example : C05.dumpListMS "" (msDiff C05.envTm C05.msM C05.msS) =
    ["S s 0", "S s.t 0", "D s.t.c 0 z", "S s 0", "D s.b 0 no", "S s.t 0", "D s.t.c 0 y",
     "S u 0", "D u.d 0 3"] := by
  decide +kernel

/-- the theorem applied to the instance (hypotheses discharged by kernel evaluation) -/
example : fetchRoot C05.envTm true C05.msM [C05.msS] =
    .ok (.scope { name := [], id := some 0 } (msDiff C05.envTm C05.msM C05.msS), msUsed C05.msM C05.msS) := by
  have hfl : ([C05.msS] : List (List Obj)).flatten = C05.msS := by simp
  have h := fetchRoot_diff_ms_checked C05.envTm C05.msM [C05.msS] (by decide +kernel)
    (by rw [hfl]; decide +kernel) (by rw [hfl]; decide +kernel)
  rw [hfl] at h
  rw [h, show msNoClash C05.msM C05.msS = true by decide +kernel]
  rfl

/-- **the hypothesis `KeysDiffMS` is sharp**: a source value that does not convert (`maybe` for the
    `bool` inside the `.multiple` scope `s`) makes a rendering undefined — the executable check says so,
    nothing clashes, and the difference raises the converter's RuntimeError instead of returning the
    specification (replayed on the real library: `RuntimeError: One True or False value expected,
    s.b="maybe" found (input line 1)`) -/
theorem keysDiff_needed :
    keysDiffMSB C05.envTm C05.msM (C05.tmObjs "s.b = maybe\n") = false ∧
      msNoClash C05.msM (C05.tmObjs "s.b = maybe\n") = true ∧
      errOf (fetchRoot C05.envTm true C05.msM [C05.tmObjs "s.b = maybe\n"]) =
        some (.runtime "bool_expected" (some 1)) := by
  decide +kernel

/-- **the fuel bound is sharp**: with `fuel = depthL mkids + 1` (enough for the non-diff fetch) the
    difference runs out of fuel at the deepest definition -/
theorem diff_ms_fuel_needed :
    depthL C05.msM = 2 ∧
      errOf (fetchScope C05.envTm 3 true { name := [], id := some 0 } C05.msM C05.msS) = some .outOfFuel ∧
      errOf (fetchScope C05.envTm 3 false { name := [], id := some 0 } C05.msM C05.msS) = none ∧
      errOf (fetchScope C05.envTm 4 true { name := [], id := some 0 } C05.msM C05.msS) = none := by
  decide +kernel

/-! ### the chain on the instance; sharp edges -/

/-- the listings `[W, D, W', D']` of a chain evaluated on the model's `fetchRoot` -/
def chainViewsMS (e : Envs) (master source : List Obj) : Option (List (List String)) :=
  (chain_dt e master source).map (fun c =>
    [C05.dumpListMS "" c.1, C05.dumpListMS "" c.2.1, C05.dumpListMS "" c.2.2.1, C05.dumpListMS "" c.2.2.2])

/-- the instance satisfies the hypotheses of `diff_of_working_ms` and `diff_restore_ms_fixed_point`:
    coherence on the sources and on the difference, the difference is a well-formed source whose keys
    are defined and which does not clash -/
example : (cohMSB C05.envTm C05.msM C05.msS && cohMSB C05.envTm C05.msM (msDiff C05.envTm C05.msM C05.msS) &&
    srcCheck (msDiff C05.envTm C05.msM C05.msS) && msNoClash C05.msM (msDiff C05.envTm C05.msM C05.msS) &&
    keysDefinedMSB C05.envTm C05.msM (msDiff C05.envTm C05.msM C05.msS) &&
    keysDiffMSB C05.envTm C05.msM (msDiff C05.envTm C05.msM C05.msS) &&
    keysDefinedMSB C05.envTm C05.msM C05.msS) = true := by
  decide +kernel

/-- the meta of a parsed root -/
def rootMetaMS : Meta := { name := [], id := some 0 }

theorem msInst_master : masterCheck_ms C05.msM = true := by decide +kernel
theorem msInst_src : srcCheck C05.msS = true := by decide +kernel
theorem msInst_depth : depthL C05.msM = 2 := by decide +kernel
theorem msInst_keysDiff : keysDiffMSB C05.envTm C05.msM C05.msS = true := by decide +kernel
theorem msInst_noClash : msNoClash C05.msM C05.msS = true := by decide +kernel
theorem msInst_srcD : srcCheck (msDiff C05.envTm C05.msM C05.msS) = true := by decide +kernel
theorem msInst_noClashD : msNoClash C05.msM (msDiff C05.envTm C05.msM C05.msS) = true := by decide +kernel
theorem msInst_keysD : keysDefinedMSB C05.envTm C05.msM (msDiff C05.envTm C05.msM C05.msS) = true := by
  decide +kernel
theorem msInst_keysDiffD : keysDiffMSB C05.envTm C05.msM (msDiff C05.envTm C05.msM C05.msS) = true := by
  decide +kernel
theorem msInst_cohD : cohMSB C05.envTm C05.msM (msDiff C05.envTm C05.msM C05.msS) = true := by decide +kernel

/-- `diff_restore_ms_fixed_point` applied to the instance (hypotheses discharged by kernel evaluation,
    `msInst_…`) -/
example : ∃ u1 u2 u3,
    fetchScope C05.envTm 4 true rootMetaMS C05.msM C05.msS =
      .ok (.scope { rootMetaMS with tmpl := 0 } (msDiff C05.envTm C05.msM C05.msS), u1) ∧
    fetchScope C05.envTm 4 false rootMetaMS C05.msM (msDiff C05.envTm C05.msM C05.msS) =
      .ok (.scope { rootMetaMS with tmpl := 0 } (msRestoredS C05.envTm C05.msM C05.msS), u2) ∧
    fetchScope C05.envTm 4 true rootMetaMS C05.msM (msRestoredS C05.envTm C05.msM C05.msS) =
      .ok (.scope { rootMetaMS with tmpl := 0 } (msDiff C05.envTm C05.msM C05.msS), u3) :=
  diff_restore_ms_fixed_point_checked C05.envTm 4 rootMetaMS C05.msM C05.msS msInst_master
    (by rw [msInst_depth]; decide) rfl msInst_src msInst_keysDiff msInst_noClash msInst_srcD msInst_noClashD
    msInst_keysD msInst_keysDiffD msInst_cohD

/-- `StrongCohAt` holds at the two top-level `.multiple` scopes of the instance (`s`: first child,
    `u`: third child of `C05.msM`), on all the source blocks of their names -/
example : (match C05.msM with
    | [_, .scope ms ks, .scope mu ku] =>
      strongCohAtB C05.envTm ms ks (scopesNamed ms.name C05.msS) &&
        strongCohAtB C05.envTm mu ku (scopesNamed mu.name C05.msS) &&
        (scopesNamed ms.name C05.msS).length == 5 && (workSurv C05.envTm ms ks (scopesNamed ms.name C05.msS)).length == 2
    | _ => false) = true := by
  decide +kernel

/-- the whole chain evaluated on the model (Python gives the same four listings): the restored
    working set `W'` has the instances of `W`, `D' = D` -/
example : (chainViewsMS C05.envTm C05.msM C05.msS).map (fun l => (l.map List.length, l[1]? == l[3]?,
    l[0]? == l[2]?)) = some ([23, 9, 23, 9], true, true) := by
  decide +kernel

/-- **Restoring is not tree equality** (inside the class): the instance `s { b = True ; t { c = y } }`
    keeps `b = True` in `W` (a re-spelling of the default `yes`), the difference keeps only `s.t.c = y`,
    and merging it back gives the instance with `b = yes`: `W' ≠ W` as trees, while `D' = D`.
    Replayed on the real library (same four listings). -/
theorem restore_ms_not_tree_equal :
    chainViewsMS C05.envTm C05.msM (C05.tmObjs "s {\n  b = True\n  t { c = y }\n}\n") =
      some [["D a 0 1", "S s -1", "D s.b 0 yes", "S s.t 0", "D s.t.c 0 x", "S s 0", "D s.b 0 True", "S s.t -1",
             "D s.t.c 0 x", "S s.t 0", "D s.t.c -1 x", "D s.t.c 0 y", "S u 0", "D u.d 0 2"],
            ["S s 0", "S s.t 0", "D s.t.c 0 y"],
            ["D a 0 1", "S s -1", "D s.b 0 yes", "S s.t 0", "D s.t.c 0 x", "S s 0", "D s.b 0 yes", "S s.t -1",
             "D s.t.c 0 x", "S s.t 0", "D s.t.c -1 x", "D s.t.c 0 y", "S u 0", "D u.d 0 2"],
            ["S s 0", "S s.t 0", "D s.t.c 0 y"]] := by
  decide +kernel

/-- an ARTIFICIAL environment whose `"%.10g"` answers contain line breaks: `2 ↦ "1⏎  b = 7"`,
    `3 ↦ "7⏎  b = 5"` (no Python float renders like that; the environment is a parameter of the
    theorems, and this instance shows what the coherence hypothesis excludes) -/
def envIncoherent : Envs :=
  { eval := fun s => match s with
      | [c] => if c.isDigit then some (.num (.flt (c.toNat - 48) 1)) else none
      | _ => none,
    fmt := fun n => match n with
      | .flt 2 1 => some "1\n  b = 7".toList
      | .flt 3 1 => some "7\n  b = 5".toList
      | .flt 1 1 => some "1".toList
      | .flt 5 1 => some "5".toList
      | _ => none }

/-- **the hypothesis `CohMS` is sharp** (for the theorems as stated, i.e. for every environment): master
    `s .multiple { a = 1 float ; b = 5 float }`, sources `s { a = 2 }`, `s { b = 3 }`.  Under
    `envIncoherent` the two full instances have the SAME rendering (`a = 1⏎b = 7⏎b = 5`) but different
    difference renderings; every other hypothesis holds, the executable coherence check says no, and
    `M.fetch_diff(M.fetch(S))` (one instance) differs from `M.fetch_diff(S)` (two) — on the
    specification and on the model.  Not replayable on Python: needs a float whose `%.10g` text contains
    a line break. -/
theorem cohMS_needed :
    let M := C05.tmObjs "s\n.multiple=True\n{\n  a = 1\n  .type=float\n  b = 5\n  .type=float\n}\n"
    let S := C05.tmObjs "s { a = 2 }\ns { b = 3 }\n"
    (masterCheck_ms M && srcCheck S && keysDiffMSB envIncoherent M S && keysDefinedMSB envIncoherent M S &&
        keysDiffMSB envIncoherent M (msResult envIncoherent M S)) = true ∧
      cohMSB envIncoherent M S = false ∧
      C05.dumpListMS "" (msDiff envIncoherent M S) = ["S s 0", "D s.a 0 2", "S s 0", "D s.b 0 3"] ∧
      C05.dumpListMS "" (msDiff envIncoherent M (msResult envIncoherent M S)) = ["S s 0", "D s.b 0 3"] ∧
      (chain_dt envIncoherent M S).map (fun c => C05.dumpListMS "" c.2.1) = some ["S s 0", "D s.b 0 3"] := by
  decide +kernel

/-- **"one master occurrence per name" is sharp for restoring — finding D10 on `.multiple` SCOPES**
    (outside `MSMaster`: `masterCheck_ms` says no).  Master `s .multiple { h = 1 int }` followed by the
    further occurrence `s { h = 2 }`; sources `s.h = 3`, `s.h = 2`.  `W` lists the instances `3, 2` (the
    source instance `2` repeats the master-provided one and moves to the end), the difference keeps
    only `3` (the instance `2` is master-provided: marker `-1`), and merging it back gives `2, 3`: the
    restored working set has the instances in another order, although `D' = D`.  Replayed on the real
    library: `[x.h for x in W.extract().s] == [3, 2]`, `[x.h for x in W2.extract().s] == [2, 3]`. -/
theorem restore_ms_further_occurrence_reorders :
    let M := C05.tmObjs "s\n.multiple=True\n{\n  h = 1\n  .type=int\n}\ns {\n  h = 2\n}\n"
    masterCheck_ms M = false ∧
    chainViewsMS C05.envTm M (C05.tmObjs "s.h = 3\ns.h = 2\n") =
      some [["S s -1", "D s.h 0 1", "S s 0", "D s.h 0 3", "S s 0", "D s.h 0 2"],
            ["S s 0", "D s.h 0 3"],
            ["S s -1", "D s.h 0 1", "S s 0", "D s.h 0 2", "S s 0", "D s.h 0 3"],
            ["S s 0", "D s.h 0 3"]] := by
  decide +kernel

end Phil.C08

#print axioms Phil.C08.fetch_diff_ms_total
#print axioms Phil.C08.fetch_diff_ms_ok
#print axioms Phil.C08.fetchRoot_diff_ms
#print axioms Phil.C08.fetchRoot_diff_ms_checked
#print axioms Phil.C08.diff_multiple_scope_rule
#print axioms Phil.C08.diff_plain_scope_block
#print axioms Phil.C08.diff_defn_block
#print axioms Phil.C08.msDiff_eq
#print axioms Phil.C08.diff_ms_depth
#print axioms Phil.C08.diff_ms_minimal
#print axioms Phil.C08.diff_ms_no_empty_scope
#print axioms Phil.C08.self_diff_ms_empty_nosrc
#print axioms Phil.C08.master_as_source_diff_empty
#print axioms Phil.C08.diff_of_working_ms_spec
#print axioms Phil.C08.diff_of_working_hypotheses_ms
#print axioms Phil.C08.diff_of_working_ms
#print axioms Phil.C08.self_diff_ms_empty
#print axioms Phil.C08.diff_of_working_ms_minimal
#print axioms Phil.C08.diff_ms_idempotent
#print axioms Phil.C08.restore_ms_closed
#print axioms Phil.C08.restore_ms_defn_block
#print axioms Phil.C08.restore_ms_plain_scope_block
#print axioms Phil.C08.restore_ms_multiple_scope_block
#print axioms Phil.C08.restore_ms_same_instances
#print axioms Phil.C08.restore_ms_exact
#print axioms Phil.C08.diff_restore_ms_fixed_point_spec
#print axioms Phil.C08.restore_ms_twice
#print axioms Phil.C08.diff_restore_ms_fixed_point
#print axioms Phil.C08.diff_restore_ms_fixed_point_checked
#print axioms Phil.C08.restore_ms_not_tree_equal
#print axioms Phil.C08.cohMS_needed
#print axioms Phil.C08.restore_ms_further_occurrence_reorders
#print axioms Phil.C08.keysDiff_needed
#print axioms Phil.C08.diff_ms_fuel_needed
