/-
  C15 (closed form, flat documents, extended layout grammar) — every definition and every word
  reports the 1-based source line on which it actually starts, whatever precedes it: blank lines,
  comments, multi-line quoted strings, backslash continuations, quoted continuations over blank lines,
  `;`-separated items on one line, switched-off `#phil __OFF__` regions of any admissible content.
  Setting and vocabulary: Phil/Props/C02Layout3.lean (`Gap`, `OffRegion`, `Pre3`, `DocEnd`,
  `DefLayout3`, `wfDoc3`, `render3`).

  As in Phil/Props/C15Layout.lean the statement is not circular: the line of a definition / word is
  compared with `1 + (number of newlines in the text in front of it)`, the text in front being an
  explicit function of the definitions and the layout (`beforeName3`, `beforeWord3`, defined without
  any reference to the parser); `beforeName3_is_prefix` / `beforeWord3_is_prefix` show that these are
  the prefixes of the rendered text that end where the name / the word begins.

  Property theorems only; lemmas are in Phil/Proofs/Layout3.lean.
-/
import Phil.Props.C02Layout3
set_option linter.unusedSimpArgs false
namespace Phil.C15
open Phil

/-- `beforeName3 ds k` is the part of the text that ends exactly where the name of definition `k`
    begins -/
theorem beforeName3_is_prefix (ds : List (DefSpec × DefLayout3)) (post : Pre3) (e : DocEnd) (k : Nat)
    (d : DefSpec) (L : DefLayout3) (hk : ds[k]? = some (d, L)) :
    ∃ tail, render3 ds post e = beforeName3 ds k ++ (d.1 ++ tail) :=
  beforeName3_prefix post e ds k d L hk

/-- `beforeWord3 ds k j` is the part of the text that ends exactly where word `j` of definition `k`
    begins (`w.str` is the spelling of the word) -/
theorem beforeWord3_is_prefix (ds : List (DefSpec × DefLayout3)) (post : Pre3) (e : DocEnd)
    (h : wfDoc3 ds post e = true) (k j : Nat) (d : DefSpec) (L : DefLayout3) (w : Word)
    (hk : ds[k]? = some (d, L)) (hj : d.2[j]? = some w) :
    ∃ tail, render3 ds post e = beforeWord3 ds k j ++ (w.str ++ tail) :=
  beforeWord3_prefix post e ds k j d L w hk (wfDef3_gaps_length (wfDoc3_get post e ds k d L h hk).2) hj

/-- **C15, flat documents under the extended layout.**  For every well-formed layout `parse` returns
    one definition per definition of the document, and for every `k`: the `k`-th object is a
    definition with the `k`-th name, id `k + 1`, and its source line is `1 +` the number of newlines in
    the text in front of its name; its `j`-th word is the `j`-th word (value and quote style) with
    source line `1 +` the number of newlines in the text in front of that word.  The text in front may
    contain continuation backslashes, blank lines inside a continuation, multi-line quoted words,
    switched-off regions (whose lines are counted by `scan_for_start`, a code path of its own) and
    `;`-separated definitions. -/
theorem lines3_correct (ds : List (DefSpec × DefLayout3)) (post : Pre3) (e : DocEnd)
    (h : wfDoc3 ds post e = true) :
    ∃ objs, parseObjs (render3 ds post e) = .ok objs ∧ objs.length = ds.length ∧
      ∀ (k : Nat) (d : DefSpec) (L : DefLayout3), ds[k]? = some (d, L) →
        ∃ ws, objs[k]? = some (.defn
            { name := d.1, id := some (1 + k), line := some (1 + nlCount (beforeName3 ds k)) } ws) ∧
          ws.length = d.2.length ∧
          ∀ (j : Nat) (w' : Word), ws[j]? = some w' →
            ∃ w : Word, d.2[j]? = some w ∧ w'.value = w.value ∧ w'.quote = w.quote ∧
              w'.line = some (1 + nlCount (beforeWord3 ds k j)) := by
  refine ⟨linedObjs3 [] 1 ds, parseObjs_render3_lined ds post e h, linedObjs3_length ds [] 1, ?_⟩
  intro k d L hk
  obtain ⟨ws, h1, h2, h3⟩ := linedObjs3_spec post e ds h k d L hk
  refine ⟨ws, h1, h2, ?_⟩
  intro j w' hj
  obtain ⟨w, hw, e'⟩ := h3 j w' hj
  exact ⟨w, hw, by rw [e'], by rw [e'], by rw [e']⟩

/-- the same in one equation: the parse result is `linedObjs3 [] 1 ds` -/
theorem lines3_closed_form (ds : List (DefSpec × DefLayout3)) (post : Pre3) (e : DocEnd)
    (h : wfDoc3 ds post e = true) : parseObjs (render3 ds post e) = .ok (linedObjs3 [] 1 ds) :=
  parseObjs_render3_lined ds post e h

/-- **A switched-off region advances the line counter by exactly its number of lines**: the newlines
    of the text of a well-formed region are its opening line, its body lines and its closing line,
    and that is what `scan_for_start` adds (`Phil.C02.off_region_scan`). -/
theorem off_region_line_count (r : OffRegion) (hwf : r.wf = true) :
    nlCount r.text = r.nl ∧ r.nl = r.body.length + 2 :=
  ⟨nlCount_region r hwf, rfl⟩

/-- **Continuations advance the line of the next word by the newlines of the gap**: the `j`-th word of
    a value that starts on line `l` is reported on `l +` the newlines of everything between (gaps —
    backslash or not — and multi-line quoted words); `relineG` / `endLineG` in closed form. -/
theorem value_lines_closed_form (ws : List Word) (gaps : List Gap) (b : Str) :
    relineG (1 + nlCount b) gaps ws = linedWords3 b gaps ws :=
  relineG_eq_linedWords3 ws gaps b

/-! ### non-vacuity: the layout `exCont3` of C02Layout3 -/

open Phil.C02 in
/-- the text in front of the names and words of `exCont3`: `a` stands on line 9 (after an 6-line
    region and a blank line), its word on line 10 (backslash continuation); `b_2` on line 13 (after a
    second region) with words on lines 13, 15 (quoted continuation over a blank line) and 16
    (backslash); `c` on line 17 with words on 18 and 20 (after a two-line quoted word) -/
example : (List.range 3).map (fun k => (1 + nlCount (beforeName3 exCont3 k),
      (List.range 3).map (fun j => 1 + nlCount (beforeWord3 exCont3 k j))))
    = [(9, [10, 10, 10]), (13, [13, 15, 16]), (17, [18, 20, 20])] := by decide +kernel

open Phil.C02 in
example : beforeWord3 exCont3 1 2 =
    ("# header\n#phil __OFF__ junk { \"\nb = '\n\n #phil __ON__\n}\n#philxx\t__ON__ \n\n a=\\\n  1;" ++
     "\n#phil __OFF__\n#phil __ON__\nb_2 = x*y\n\n\t\"p q\" \\ \n ").toList := by decide +kernel

open Phil.C02 in
/-- through the theorem: `b_2` of `exCont3` is on line 13, its third word on line 16 -/
example : ∃ objs ws w', parseObjs (render3 exCont3 exPost3 exEnd3) = .ok objs ∧
    objs[1]? = some (.defn { name := "b_2".toList, id := some 2, line := some 13 } ws) ∧
    ws[2]? = some w' ∧ w'.line = some 16 := by
  obtain ⟨objs, hp, _, hk⟩ := lines3_correct exCont3 exPost3 exEnd3 exCont3_wf
  obtain ⟨ws, h1, h2, h3⟩ := hk 1 _ _ rfl
  have hlen : 2 < ws.length := by rw [h2]; decide
  obtain ⟨w, _, _, _, hl⟩ := h3 2 ws[2] (List.getElem?_eq_getElem hlen)
  refine ⟨objs, ws, ws[2], hp, ?_, List.getElem?_eq_getElem hlen, ?_⟩
  · rw [h1]
    have : 1 + nlCount (beforeName3 exCont3 1) = 13 := by decide +kernel
    rw [this]; rfl
  · rw [hl]
    have : 1 + nlCount (beforeWord3 exCont3 1 2) = 16 := by decide +kernel
    rw [this]

end Phil.C15

#print axioms Phil.C15.beforeName3_is_prefix
#print axioms Phil.C15.beforeWord3_is_prefix
#print axioms Phil.C15.lines3_correct
#print axioms Phil.C15.lines3_closed_form
#print axioms Phil.C15.off_region_line_count
#print axioms Phil.C15.value_lines_closed_form
