/-
  C01 (part) — printing a PHIL tree and re-parsing the text reproduces the tree, whatever print width
  is used: the unbounded sub-theorems for *flat documents of definitions* (any number of definitions,
  any number of words per definition, plain unquoted words and quoted words of any content, every
  print width).  Property theorems only; lemmas are in Phil/Proofs/PrintParse.lean.

  What is covered: the root scope holding definitions `name = w1 … wk` that are enabled, carry no
  attributes, are printed at attributes level 0 with the empty prefix.
  What is not covered: nested scopes, attributes (level > 0), disabled definitions, a non-empty prefix.
-/
import Phil.Proofs.PrintParse
set_option linter.unusedSimpArgs false
namespace Phil.C01
open Phil

mutual
/-- equality test on trees; used by the concrete examples only (`decide +kernel`) -/
def objDecEq : (a b : Obj) → Decidable (a = b)
  | .defn m ws, .defn m' ws' =>
    if h : m = m' ∧ ws = ws' then isTrue (by rw [h.1, h.2])
    else isFalse (fun e => h (by cases e; exact ⟨rfl, rfl⟩))
  | .scope m os, .scope m' os' =>
    if h : m = m' then
      match objsDecEq os os' with
      | isTrue h2 => isTrue (by rw [h, h2])
      | isFalse h2 => isFalse (fun e => h2 (by cases e; rfl))
    else isFalse (fun e => h (by cases e; rfl))
  | .defn _ _, .scope _ _ => isFalse (fun e => by cases e)
  | .scope _ _, .defn _ _ => isFalse (fun e => by cases e)
def objsDecEq : (a b : List Obj) → Decidable (a = b)
  | [], [] => isTrue rfl
  | [], _ :: _ => isFalse (fun e => by cases e)
  | _ :: _, [] => isFalse (fun e => by cases e)
  | x :: xs, y :: ys =>
    match objDecEq x y with
    | isTrue h1 =>
      match objsDecEq xs ys with
      | isTrue h2 => isTrue (by rw [h1, h2])
      | isFalse h2 => isFalse (fun e => h2 (by cases e; rfl))
    | isFalse h1 => isFalse (fun e => h1 (by cases e; rfl))
end

local instance objDecEqInst : DecidableEq Obj := objDecEq

/-- used by the concrete examples only (`decide +kernel`) -/
local instance exceptDecEqRT {ε α : Type} [DecidableEq ε] [DecidableEq α] : DecidableEq (Except ε α) := fun a b =>
  match a, b with
  | .ok x, .ok y => if h : x = y then isTrue (by rw [h]) else isFalse (fun e => h (by cases e; rfl))
  | .error x, .error y => if h : x = y then isTrue (by rw [h]) else isFalse (fun e => h (by cases e; rfl))
  | .ok _, .error _ => isFalse (fun e => by cases e)
  | .error _, .ok _ => isFalse (fun e => by cases e)

/-! ### the domain

  * `goodName nm`: `nm` is accepted by the parser as the name of an ordinary definition
    (`plainDefName`: a standard identifier, not `include`, not reserved) and has no dot.
  * `goodWord w`: `w` is quoted (any of the four styles, ANY content), or an unquoted word that the
    value tokenizer reads as one ordinary word (`plainWord`: non-empty, no white space, none of
    `{ } ;`, not starting with a quote character, not the lone `\` and not the lone `#`).
  * `PlainDefn x`: `x` is a definition with `disabled = False`, no attributes, `is_template = 0`;
    its `primary_id` and source line are arbitrary.
  * `Obj.spec x` = (name, words). -/

/-- the hypotheses on one definition of the document -/
structure RTDefn (x : Obj) : Prop where
  plain : PlainDefn x
  name : goodName x.spec.1 = true
  nonempty : x.spec.2 ≠ []
  words : ∀ w ∈ x.spec.2, goodWord w = true

/-! ### Stage 1 — one definition, no wrapping -/

/-- **One definition.**  `d` is an enabled definition without attributes whose name is a plain
    undotted definition name and whose words (at least one) are plain unquoted words or quoted words
    of any content without a newline character.  If the complete line `name = w1 … wk` fits into
    `width - 2` columns (so nothing is wrapped), printing at attributes level 0 gives exactly that
    one line, and parsing it gives back one definition with the same name and the same words —
    values and quote styles — with id 1, on line 1. -/
theorem print_parse_defn (w : Int) (e : Option Int) (nm : Str) (i l : Option Nat) (ws : List Word)
    (hname : goodName nm = true) (hne : ws ≠ [])
    (hwords : ∀ x ∈ ws, goodWord x = true) (hnl : ∀ x ∈ ws, '\n' ∉ x.value)
    (hfit : ((nm ++ " =".toList ++ wordsText ws).length : Int) ≤ w - 2) :
    ∃ lines, showDefn { level := 0, width := w, expert := e } { name := nm, id := i, line := l } ws [] []
        = .ok lines ∧
      lines = [nm ++ " =".toList ++ wordsText ws] ∧
      parseObjs (unlines lines)
        = .ok [.defn { name := nm, id := some 1, line := some 1 }
                 (ws.map (fun x => { x with line := some 1 }))] := by
  have htxt : nm ++ " =".toList ++ wordsText ws = defnText (nm, ws) := by
    have : " =".toList = [' ', '='] := rfl
    simp [defnText, this]
  have hnl' : ∀ x ∈ ws, nlCount x.value = 0 := fun x hx => nlCount_of_not_mem (hnl x hx)
  refine ⟨_, showDefn_plain _ (Int.le_refl 0) nm i l ws (goodName_not_include hname)
    (by rw [lineFits, ← htxt]; exact hfit), by rw [htxt], ?_⟩
  have hgd : ∀ d ∈ [((nm, ws) : DefSpec)], GoodDefn d := by
    intro d hd
    simp only [List.mem_singleton] at hd
    subst hd
    exact ⟨hname, hne, hwords, chainOK_noNl true ws (Or.inl rfl) hnl'⟩
  have h := parseObjs_docText [(nm, ws)] hgd
  have hdoc : unlines [defnText (nm, ws)] = docText [(nm, ws)] := unlines_defnText [(nm, ws)]
  rw [hdoc, h, parsedDefs_noNl _ (by
    intro d hd; simp only [List.mem_singleton] at hd; subst hd; exact hnl')]
  rfl

/-- what is printed for a word list: a blank and `str(word)` per word -/
example : wordsText [{ value := "x".toList }, { value := "y z".toList, quote := some .d1 },
      { value := "q\\".toList, quote := some .s1 }] = " x \"y z\" 'q\\\\'".toList := by decide +kernel

/-- non-vacuity: `a = x "y z" 'q\\'` through the theorem -/
example : parseObjs "a = x \"y z\" 'q\\\\'\n".toList
    = .ok [.defn { name := ['a'], id := some 1, line := some 1 }
        [{ value := "x".toList, quote := none, line := some 1 },
         { value := "y z".toList, quote := some .d1, line := some 1 },
         { value := "q\\".toList, quote := some .s1, line := some 1 }]] := by
  obtain ⟨lines, _, hl, hp⟩ := print_parse_defn 79 none ['a'] none none
    [{ value := "x".toList }, { value := "y z".toList, quote := some .d1 },
     { value := "q\\".toList, quote := some .s1 }]
    (by decide +kernel) (by simp) (by decide +kernel) (by decide +kernel) (by decide +kernel)
  rw [hl] at hp
  exact hp

/-! ### Stage 2 — a flat document, no wrapping, words without newlines -/

/-- **A flat document.**  For any list of definitions as in stage 1 (names arbitrary, duplicates
    allowed), when every line fits into `width - 2` columns: printing the root scope gives one line
    per definition, and parsing that text gives the same definitions in the same order — names, word
    values, quote styles — definition `k` with id `k` on line `k`, all its words on line `k`. -/
theorem print_parse_flat (o : ShowOpts) (hl : o.level = 0) (objs : List Obj)
    (h : ∀ x ∈ objs, RTDefn x) (hnl : ∀ x ∈ objs, ∀ w ∈ x.spec.2, '\n' ∉ w.value)
    (hfit : ∀ x ∈ objs, lineFits o.width x.spec) :
    asStr o (rootOf objs) = .ok (unlines (objs.map (fun x => defnText x.spec))) ∧
    parseObjs (unlines (objs.map (fun x => defnText x.spec)))
      = .ok (numbered 1 (objs.map Obj.spec)) := by
  have hl' : o.level ≤ 0 := by omega
  have htext : unlines (objs.map (fun x => defnText x.spec)) = docText (objs.map Obj.spec) := by
    rw [← unlines_defnText, List.map_map]; rfl
  constructor
  · rw [asStr_root, showObjs_flat o hl' objs (fun x hx => ⟨(h x hx).plain, (h x hx).name, hfit x hx⟩)]
    rfl
  · have hnl' : ∀ d ∈ objs.map Obj.spec, ∀ w ∈ d.2, nlCount w.value = 0 := by
      intro d hd w hw
      obtain ⟨x, hx, rfl⟩ := List.mem_map.mp hd
      exact nlCount_of_not_mem (hnl x hx w hw)
    rw [htext, parseObjs_docText _ (by
      intro d hd
      obtain ⟨x, hx, rfl⟩ := List.mem_map.mp hd
      exact ⟨(h x hx).name, (h x hx).nonempty, (h x hx).words,
        chainOK_noNl true _ (Or.inl rfl) (hnl' _ hd)⟩), parsedDefs_noNl _ hnl']

/-- the document of the examples: `a = x "y z" 'q\\'` / `b = 1` / `a = "#{;}"` (a name may repeat) -/
def exDoc : List Obj :=
  [ .defn { name := ['a'] } [{ value := "x".toList }, { value := "y z".toList, quote := some .d1 },
                             { value := "q\\".toList, quote := some .s1 }],
    .defn { name := ['b'], id := some 7, line := some 40 } [{ value := ['1'], line := some 40 }],
    .defn { name := ['a'] } [{ value := "#{;}".toList, quote := some .d3 }] ]

theorem exDoc_ok : ∀ x ∈ exDoc, RTDefn x := by
  intro x hx
  simp only [exDoc, List.mem_cons, List.not_mem_nil, or_false] at hx
  rcases hx with rfl | rfl | rfl <;>
    exact ⟨⟨_, _, _, _, rfl⟩, by decide +kernel, by simp [Obj.spec], by decide +kernel⟩

/-- non-vacuity: the example document through the theorem (ids and lines 1, 2, 3) -/
example : parseObjs "a = x \"y z\" 'q\\\\'\nb = 1\na = \"\"\"#{;}\"\"\"\n".toList
    = .ok [ .defn { name := ['a'], id := some 1, line := some 1 }
              [{ value := "x".toList, quote := none, line := some 1 },
               { value := "y z".toList, quote := some .d1, line := some 1 },
               { value := "q\\".toList, quote := some .s1, line := some 1 }],
            .defn { name := ['b'], id := some 2, line := some 2 }
              [{ value := ['1'], quote := none, line := some 2 }],
            .defn { name := ['a'], id := some 3, line := some 3 }
              [{ value := "#{;}".toList, quote := some .d3, line := some 3 }] ] := by
  have h := (print_parse_flat {} rfl exDoc exDoc_ok (by decide +kernel) (by
    intro x hx
    simp only [exDoc, List.mem_cons, List.not_mem_nil, or_false] at hx
    rcases hx with rfl | rfl | rfl <;> (unfold lineFits; decide +kernel))).2
  have e : unlines (exDoc.map (fun x => defnText x.spec))
      = "a = x \"y z\" 'q\\\\'\nb = 1\na = \"\"\"#{;}\"\"\"\n".toList := by decide +kernel
  rw [e] at h
  exact h

/-! ### Stage 3 — quoted words that contain newlines (no wrapping)

  `#eval` of the model and the Python library agree on what is true without wrapping:
  a quoted word containing newlines may stand anywhere, and it may be followed on the same physical
  line by further *quoted* words; an *unquoted* word directly after it is NOT read back (see
  `unquoted_after_multiline_fails`).  `chainOK true ws` says exactly that no unquoted word directly
  follows a word containing a newline. -/

/-- **A flat document with multi-line quoted words.**  As stage 2, the words now being arbitrary
    (`goodWord`) with `chainOK`.  The parser's result is `parsedDefs 1 1`: ids 1..n in order, every
    definition on the line after the line on which the previous one *ends* (`endLine`: its line plus
    the newlines inside its words), every word on the line on which it *starts* (`reline`: shifted
    by the newlines inside the words before it). -/
theorem print_parse_flat_multiline (o : ShowOpts) (hl : o.level = 0) (objs : List Obj)
    (h : ∀ x ∈ objs, RTDefn x) (hchain : ∀ x ∈ objs, chainOK true x.spec.2 = true)
    (hfit : ∀ x ∈ objs, lineFits o.width x.spec) :
    asStr o (rootOf objs) = .ok (unlines (objs.map (fun x => defnText x.spec))) ∧
    parseObjs (unlines (objs.map (fun x => defnText x.spec)))
      = .ok (parsedDefs 1 1 (objs.map Obj.spec)) := by
  have hl' : o.level ≤ 0 := by omega
  have htext : unlines (objs.map (fun x => defnText x.spec)) = docText (objs.map Obj.spec) := by
    rw [← unlines_defnText, List.map_map]; rfl
  constructor
  · rw [asStr_root, showObjs_flat o hl' objs (fun x hx => ⟨(h x hx).plain, (h x hx).name, hfit x hx⟩)]
    rfl
  · rw [htext, parseObjs_docText _ (by
      intro d hd
      obtain ⟨x, hx, rfl⟩ := List.mem_map.mp hd
      exact ⟨(h x hx).name, (h x hx).nonempty, (h x hx).words, hchain x hx⟩)]

/-- the line arithmetic of `parsedDefs`, spelled out -/
theorem parsedDefs_cons (l i : Nat) (d : DefSpec) (ds : List DefSpec) :
    parsedDefs l i (d :: ds)
      = .defn { name := d.1, id := some i, line := some l } (reline l d.2)
        :: parsedDefs (l + nlCount (d.2.flatMap (·.value)) + 1) (i + 1) ds := by
  rw [parsedDefs, endLine_eq]

/-- what comes back is the original tree up to ids and source positions -/
theorem parsedDefs_same_tree (objs : List Obj) (h : ∀ x ∈ objs, RTDefn x) :
    eraseList (parsedDefs 1 1 (objs.map Obj.spec)) = eraseList objs :=
  parsedDefs_erase objs (fun x hx => (h x hx).plain) 1 1

/-- non-vacuity: `a = x "y⏎z" 'q'` / `b = 1` — the quoted word after the multi-line word is on line 2,
    `b` on line 3 -/
example : parseObjs "a = x \"y\nz\" 'q'\nb = 1\n".toList
    = .ok [ .defn { name := ['a'], id := some 1, line := some 1 }
              [{ value := "x".toList, quote := none, line := some 1 },
               { value := "y\nz".toList, quote := some .d1, line := some 1 },
               { value := "q".toList, quote := some .s1, line := some 2 }],
            .defn { name := ['b'], id := some 2, line := some 3 }
              [{ value := ['1'], quote := none, line := some 3 }] ] := by
  have hok : ∀ x ∈ [Obj.defn { name := ['a'] } [{ value := "x".toList },
        { value := "y\nz".toList, quote := some .d1 }, { value := "q".toList, quote := some .s1 }],
      Obj.defn { name := ['b'] } [{ value := ['1'] }]], RTDefn x := by
    intro x hx
    simp only [List.mem_cons, List.not_mem_nil, or_false] at hx
    rcases hx with rfl | rfl <;>
      exact ⟨⟨_, _, _, _, rfl⟩, by decide +kernel, by simp [Obj.spec], by decide +kernel⟩
  have h := (print_parse_flat_multiline {} rfl _ hok (by decide +kernel) (by
    intro x hx
    simp only [List.mem_cons, List.not_mem_nil, or_false] at hx
    rcases hx with rfl | rfl <;> (unfold lineFits; decide +kernel))).2
  have e : unlines ([Obj.defn { name := ['a'] } [{ value := "x".toList },
        { value := "y\nz".toList, quote := some .d1 }, { value := "q".toList, quote := some .s1 }],
      Obj.defn { name := ['b'] } [{ value := ['1'] }]].map (fun x => defnText x.spec))
      = "a = x \"y\nz\" 'q'\nb = 1\n".toList := by decide +kernel
  rw [e] at h
  exact h.trans (by decide +kernel)

/-- **Counterexample (a defect of the library, confirmed with the Python code).**  A tree whose
    definition holds the words `x`, `"y⏎z"` (quoted, with a newline) and `q` (unquoted) prints, at the
    default width and without any wrapping, as `a = x "y⏎z" q`; the parser ends the value in front of
    `q` (it compares the line of `q` with the line on which the previous word *started*) and then
    fails on `q` / `b`: `Syntax error: expected "=", found "b" (input line 3)`. -/
theorem unquoted_after_multiline_fails :
    asStr {} (rootOf [.defn { name := ['a'] } [{ value := "x".toList },
        { value := "y\nz".toList, quote := some .d1 }, { value := "q".toList }],
      .defn { name := ['b'] } [{ value := ['1'] }]]) = .ok "a = x \"y\nz\" q\nb = 1\n".toList ∧
    parseObjs "a = x \"y\nz\" q\nb = 1\n".toList = .error (.runtime "expected" (some 3)) := by
  decide +kernel

/-! ### Every print width

  With wrapping `definition.show` ends a line with ` \` and continues on the next line, indented by
  the width of `name =`.  `wrapOK width indent ws line same` follows the printer's wrapping decisions
  and says: no continuation ` \` directly after a word containing a newline (finding D6: the parser
  then does not accept the backslash as a continuation), and no unquoted word directly after such a
  word on the same printed line.  `wrapTail` is the printed text after `name =`, `wrapWords` /
  `wrapEnd` the words with their source lines / the line on which the value ends. -/

/-- **A flat document at any width, exact condition.**  For every print width (also widths at which
    every word is wrapped, zero and negative widths): if every definition satisfies `wrapOK` for that
    width, the printed text parses, and the result is the list of the definitions in order with ids
    1..n, every word with its value and quote style (source lines as laid out by the wrapping). -/
theorem print_parse_any_width_exact (o : ShowOpts) (hl : o.level = 0) (objs : List Obj)
    (h : ∀ x ∈ objs, RTDefn x)
    (hok : ∀ x ∈ objs, wrapOK o.width (defIndent x.spec.1) x.spec.2 (defHead x.spec.1) true = true) :
    ∃ text objs', asStr o (rootOf objs) = .ok text ∧ parseObjs text = .ok objs' ∧
      objs' = parsedLines 1 1 ((objs.map Obj.spec).map (wrappedLine o.width)) ∧
      eraseList objs' = eraseList objs ∧
      objs'.map (fun x => x.meta.id) = (List.range' 1 objs.length).map some := by
  have hl' : o.level ≤ 0 := by omega
  obtain ⟨h1, h2⟩ := print_parse_lines o hl' objs
    (fun x hx => ⟨(h x hx).plain, (h x hx).name, (h x hx).nonempty, (h x hx).words, hok x hx⟩)
  refine ⟨_, _, h1, h2, rfl, parsedLines_erase o.width objs (fun x hx => (h x hx).plain) 1 1, ?_⟩
  rw [parsedLines_ids]
  simp

/-- **C01 for flat documents, whatever print width is used.**  If in every definition only the LAST
    word may contain a newline character (all other words: plain unquoted words or quoted words of
    any content without a newline), then for EVERY print width printing the root scope and parsing
    the text succeeds and reproduces the tree: the same definitions in the same order, the same
    names, the same words with the same values and quote styles (everything except ids and source
    positions, which the parser assigns afresh: ids 1..n). -/
theorem print_parse_any_width (o : ShowOpts) (hl : o.level = 0) (objs : List Obj)
    (h : ∀ x ∈ objs, RTDefn x)
    (hnl : ∀ x ∈ objs, ∀ w ∈ x.spec.2.dropLast, '\n' ∉ w.value) :
    ∃ text objs', asStr o (rootOf objs) = .ok text ∧ parseObjs text = .ok objs' ∧
      eraseList objs' = eraseList objs ∧
      objs'.map (fun x => x.meta.id) = (List.range' 1 objs.length).map some := by
  obtain ⟨text, objs', h1, h2, _, h4, h5⟩ := print_parse_any_width_exact o hl objs h (by
    intro x hx
    exact wrapOK_of_noNl o.width _ _ _ true (fun _ => rfl)
      (fun w hw => nlCount_of_not_mem (hnl x hx w hw)))
  exact ⟨text, objs', h1, h2, h4, h5⟩

/-- non-vacuity: the example document at width 12 (every word wrapped) through the theorem -/
example : ∃ objs', parseObjs
      "a = x \\\n    \"y z\" \\\n    'q\\\\'\nb = 1\na = \"\"\"#{;}\"\"\"\n".toList = .ok objs' ∧
    eraseList objs' = eraseList exDoc := by
  obtain ⟨text, objs', h1, h2, h3, _⟩ := print_parse_any_width { width := 12 } rfl exDoc exDoc_ok
    (by decide +kernel)
  have e : asStr { width := 12 } (rootOf exDoc)
      = .ok "a = x \\\n    \"y z\" \\\n    'q\\\\'\nb = 1\na = \"\"\"#{;}\"\"\"\n".toList := by
    decide +kernel
  rw [e] at h1
  cases h1
  exact ⟨objs', h2, h3⟩

/-- **Counterexample (finding D6, in the model).**  `a = xxxxx "y⏎z" "zzzzzzz"` printed at width 12
    puts ` \` after the multi-line word; the text does not parse. -/
theorem continuation_after_multiline_fails :
    asStr { width := 12 } (rootOf [.defn { name := ['a'] } [{ value := "xxxxx".toList },
        { value := "y\nz".toList, quote := some .d1 }, { value := "zzzzzzz".toList, quote := some .d1 }]])
      = .ok "a = xxxxx \\\n    \"y\nz\" \\\n    \"zzzzzzz\"\n".toList ∧
    parseObjs "a = xxxxx \\\n    \"y\nz\" \\\n    \"zzzzzzz\"\n".toList
      = .error (.runtime "improper_definition_name" (some 3)) := by
  decide +kernel

/-- … while at the default width (no wrapping) the same tree round-trips: the condition depends on
    the width, `wrapOK` is the exact statement -/
example : wrapOK 79 (defIndent ['a']) [{ value := "xxxxx".toList },
      { value := "y\nz".toList, quote := some .d1 }, { value := "zzzzzzz".toList, quote := some .d1 }]
      (defHead ['a']) true = true ∧
    wrapOK 12 (defIndent ['a']) [{ value := "xxxxx".toList },
      { value := "y\nz".toList, quote := some .d1 }, { value := "zzzzzzz".toList, quote := some .d1 }]
      (defHead ['a']) true = false := by decide +kernel

/-- a dotted name is outside the domain: `a.b = x` is read back as a scope `a` holding `b` -/
theorem dotted_name_reparses_as_scope :
    asStr {} (rootOf [.defn { name := "a.b".toList } [{ value := ['x'] }]]) = .ok "a.b = x\n".toList ∧
    parseObjs "a.b = x\n".toList
      = .ok [.scope { name := ['a'], id := some 1 }
          [.defn { name := ['b'], id := some 1, line := some 1, mergeNames := true }
            [{ value := ['x'], line := some 1 }]]] := by
  decide +kernel

/-! ### Stage 4 — the second print is byte-identical -/

/-- **The printer ignores ids and source positions.**  For every tree (scopes, attributes, any
    level, width, prefix): erasing `primary_id` and the source line of every object and the source
    line of every word does not change what is printed. -/
theorem show_ignores_positions (o : ShowOpts) (t : Obj) (merged : List Str) (pre : Str) :
    showObj o t.erase merged pre = showObj o t merged pre :=
  showObj_erase o t merged pre

/-- hence two trees that agree up to ids and source positions print identically -/
theorem show_congr_positions (o : ShowOpts) (t t' : Obj) (h : t.erase = t'.erase) (pre : Str) :
    asStr o t pre = asStr o t' pre := by
  unfold asStr
  rw [showObj_congr_erase o t t' h]

/-- **Print, parse, print again.**  In the setting of `print_parse_any_width` (any width; the words
    of the original tree may carry any `line` fields, the objects any ids): the re-parsed root prints
    byte-identically to the original root — at the same width and at every other width, level and
    prefix. -/
theorem second_print_identical (o : ShowOpts) (hl : o.level = 0) (objs : List Obj)
    (h : ∀ x ∈ objs, RTDefn x)
    (hnl : ∀ x ∈ objs, ∀ w ∈ x.spec.2.dropLast, '\n' ∉ w.value) :
    ∃ text root', asStr o (rootOf objs) = .ok text ∧ parse text = .ok root' ∧
      asStr o root' = .ok text ∧
      ∀ (o' : ShowOpts) (pre : Str), asStr o' root' pre = asStr o' (rootOf objs) pre := by
  obtain ⟨text, objs', h1, h2, h3, _⟩ := print_parse_any_width o hl objs h hnl
  have herase : (rootOf objs').erase = (rootOf objs).erase := by
    simp only [rootOf, Obj.erase_scope, h3]
  refine ⟨text, rootOf objs', h1, by rw [parse_eq, h2]; rfl, ?_, fun o' pre => ?_⟩
  · rw [show_congr_positions o _ _ herase, h1]
  · exact show_congr_positions o' _ _ herase pre

/-- non-vacuity: the example document at width 12 -/
example : ∃ text root', asStr { width := 12 } (rootOf exDoc) = .ok text ∧ parse text = .ok root' ∧
    asStr { width := 12 } root' = .ok text :=
  let ⟨text, root', h1, h2, h3, _⟩ := second_print_identical { width := 12 } rfl exDoc exDoc_ok
    (by decide +kernel)
  ⟨text, root', h1, h2, h3⟩

end Phil.C01
