/-
  C01 / C19 (part) — the attribute round trip with DISABLED DEFINITIONS.  Property theorems only; the
  lemmas are in Phil/Proofs/AttrRoundTrip3Dis.lean.  Continues Phil/Props/C01Attrs3.lean.

  The class: `RTTreeAttrD L w x` — the tree `x` with the disabled flag of every DEFINITION cleared
  (`x.enableD`) is in the attribute round-trip class `RTTreeAttr`.  So `!name = …` may stand anywhere:
  at top level, inside scopes, as the leaf of a dotted name (`!a.b = 1`: the scope `a` enabled — it is
  only the dotted prefix — and the definition `b` disabled), with attribute lines, deprecated or not,
  next to deprecated definitions.  Scopes are enabled (`!scope { … }` is not covered).
  `kidsTextB`: `kidsTextA` with `!` glued in front of the printed (dotted) name of every disabled
  definition (the continuation lines of a wrapped value are indented one column more).
-/
import Phil.Proofs.AttrRoundTrip3Dis
import Phil.Props.C01Attrs3
set_option linter.unusedSimpArgs false
set_option linter.unusedVariables false
namespace Phil.C01
open Phil

attribute [local instance] objDecEqInst exceptDecEqRT

/-- the attribute round-trip class with disabled definitions -/
def RTTreeAttrD (L w : Int) (x : Obj) : Prop := RTNode [] x.enableD.stripAttrs ∧ x.attrsOKAt L w [] = true

instance (L w : Int) (x : Obj) : Decidable (RTTreeAttrD L w x) := by unfold RTTreeAttrD; exact inferInstance

theorem rtAllAttrD_of_forall {L w : Int} {objs : List Obj} (h : ∀ x ∈ objs, RTTreeAttrD L w x) :
    RTAll (stripAttrsList (enableDList objs)) ∧ attrsOKsAt L w objs [] = true := by
  constructor
  · induction objs with
    | nil => rw [enableDList, stripAttrsList_nil]; unfold RTAll; trivial
    | cons x xs ih =>
      rw [enableDList, stripAttrsList_cons]
      unfold RTAll
      exact ⟨(h x (by simp)).1, ih (fun y hy => h y (by simp [hy]))⟩
  · exact (attrsOKsAt_iff_art L w objs []).mpr (fun x hx => (h x hx).2)

/-- a tree without disabled definitions: the class is `RTTreeAttr` -/
theorem RTTreeAttr.toD {L w : Int} {x : Obj} (h : RTTreeAttr L w x) (he : x.enableD = x) : RTTreeAttrD L w x :=
  ⟨by rw [he]; exact h.1, h.2⟩

/-- **what is printed**: `!` in front of the name of every disabled definition, everything else as for
    enabled objects -/
theorem print_tree_attrs_disabled (o : ShowOpts) (he : o.expert = none) (objs : List Obj)
    (h : ∀ x ∈ objs, RTTreeAttrD o.level o.width x) :
    asStr o (rootOf objs) = .ok (kidsTextB o.level o.width objs [] []) := by
  obtain ⟨h1, h2⟩ := rtAllAttrD_of_forall h
  exact asStr_treesB_ar3d o he objs [] (by intro d hd; cases hd) h1 h2

/-- **Print → parse with disabled definitions** (any attributes level, any width, deprecated definitions
    anywhere): the text parses and the parser returns the forest — names, nesting, order, words, quote
    styles, the DISABLED FLAGS (`erase` keeps them), every object with exactly the attributes shown at
    the level — ids as expected. -/
theorem print_parse_tree_attrs_disabled (o : ShowOpts) (he : o.expert = none) (objs : List Obj)
    (h : ∀ x ∈ objs, RTTreeAttrD o.level o.width x) (hnl : ∀ x ∈ objs, x.allDefns NlOnlyLast) :
    ∃ text objs', asStr o (rootOf objs) = .ok text ∧ text = kidsTextB o.level o.width objs [] [] ∧
      parseObjs text = .ok objs' ∧ eraseList objs' = eraseList (normAList o.level objs) ∧
      idsList objs' = (expIdsSeq 1 objs).map some := by
  obtain ⟨h1, h2⟩ := rtAllAttrD_of_forall h
  obtain ⟨objs', e1, e2, e3⟩ := parseObjs_treesB_ar3d o.level o.width objs [] (by intro d hd; simp at hd)
    h1 ((allDefnsList_iff NlOnlyLast objs).mpr hnl) h2
  exact ⟨_, objs', print_tree_attrs_disabled o he objs h, rfl, e1, e2, e3⟩

/-- **Print, parse, print again with disabled definitions: byte-identical text.** -/
theorem second_print_identical_attrs_disabled (o : ShowOpts) (he : o.expert = none) (objs : List Obj)
    (h : ∀ x ∈ objs, RTTreeAttrD o.level o.width x) (hnl : ∀ x ∈ objs, x.allDefns NlOnlyLast) :
    ∃ text root', asStr o (rootOf objs) = .ok text ∧ parse text = .ok root' ∧
      asStr o root' = .ok text := by
  obtain ⟨text, objs', h1, ht, h2, h3, _⟩ := print_parse_tree_attrs_disabled o he objs h hnl
  obtain ⟨r1, r2⟩ := rtAllAttrD_of_forall h
  obtain ⟨n1, _, _⟩ := normAList_props_art o.level o.width objs [] r2
  have herase : (rootOf objs').erase = (rootOf (normAList o.level objs)).erase := by
    simp only [rootOf, Obj.erase_scope, h3]
  refine ⟨text, rootOf objs', h1, by rw [parse_eq, h2]; rfl, ?_⟩
  rw [show_congr_positions o _ _ herase,
    asStr_treesB_ar3d o he (normAList o.level objs) [] (by intro d hd; cases hd)
      (by rw [normAList_enableD_ar3d]; exact r1) n1,
    normAList_textB_ar3d o.level o.width objs [] r2, ht]

/-- **C19 with disabled definitions: the tree re-parsed from any attributes level is the same once
    attributes are ignored** (names, nesting, order, disabled flags, words, quote styles) -/
theorem any_level_reparses_to_same_tree_disabled (o : ShowOpts) (he : o.expert = none) (objs : List Obj)
    (h : ∀ x ∈ objs, RTTreeAttrD o.level o.width x) (hnl : ∀ x ∈ objs, x.allDefns NlOnlyLast) :
    ∃ text objs', asStr o (rootOf objs) = .ok text ∧ parseObjs text = .ok objs' ∧
      eraseAttrsList objs' = eraseAttrsList objs := by
  obtain ⟨text, objs', h1, _, h2, h3, _⟩ := print_parse_tree_attrs_disabled o he objs h hnl
  exact ⟨text, objs', h1, h2, by
    rw [eraseAttrsList_of_eraseList_ert h3, eraseAttrsList_normAList_art]⟩

/-- one turn of `collect_objects` for `!name = value…` (the core lemma) -/
theorem bang_definition_one_turn (fuel : Nat) (st : PState) (stop : Option Word) (prevLine : Nat)
    (acc : List Obj) (pending : Option Obj) (lead eq : Word) (nm : Str) (ci1 ci2 ci4 : CI) (ws : List Word)
    (h1 : nextWord structSettings st.ci = .ok (some (lead, ci1)))
    (hlq : lead.quote = none) (hv : lead.value = '!' :: nm) (hname : plainDefName nm = true)
    (h2 : nextWord structSettings ci1 = .ok (some (eq, ci2)))
    (heq : eq.quote = none) (heqv : eq.value = ['='])
    (h3 : collectAssigned ci2 { lead with value := nm } = .ok (ws, ci4)) :
    collectObjects (fuel + 1) st stop prevLine acc pending
      = collectObjects fuel { ci := ci4, nextId := st.nextId + 1 } stop (lead.line.getD 0)
          (flush acc pending)
          (some (.defn { name := nm, id := some st.nextId, disabled := true, line := lead.line } ws)) :=
  collectObjects_defn_bang_step_ar3d fuel st stop prevLine acc pending lead eq nm ci1 ci2 ci4 ws h1 hlq hv hname
    h2 heq heqv h3

/-- **One turn of `collect_objects` on the printed header of a DISABLED scope** `!name`, its attribute
    lines, `{` (the core lemma for `!scope { … }`; the lift through the tree induction is not done —
    the class above has enabled scopes): the scope is opened with `is_disabled = True`, the attributes
    shown at the level, and the body is collected by the recursive call. -/
theorem bang_scope_header_one_turn (fuel : Nat) (stop : Option Word) (prevLine : Nat)
    (acc : List Obj) (pending : Option Obj) (pre nm V ind : Str) (l i : Nat) (L w : Int) (attrs : Attrs)
    (hpre : ∀ d ∈ pre, isSpace d = true) (hn : ItemName nm) (hb : ∀ c ∈ ind, c = ' ')
    (hok : attrsOK false ind L w attrs = true) :
    ∃ l' bl, collectObjects (fuel + 1) { ci := ⟨pre ++ ('!' :: nm) ++ headTail ind L w attrs V, l⟩, nextId := i } stop
        prevLine acc pending
      = scopeCont fuel stop (l + nlCount pre) acc pending
          { name := nm, id := some i, disabled := true, line := some (l + nlCount pre), attrs := shownAttrs false L attrs }
          (collectObjects fuel { ci := ⟨V, l'⟩, nextId := i + 1 }
            (some { value := ['{'], quote := none, line := some bl }) 0 [] none) :=
  collectObjects_open_scope_bang_ar3d fuel stop prevLine acc pending pre nm V ind l i L w attrs hpre hn hb hok

/-- non-vacuity of the header lemma, and the whole construct on an instance (Python, replayed:
    `!s⏎  .help = h⏎{⏎  x = 1⏎}` re-parses with `s` disabled, second print identical) -/
theorem bang_scope_instance :
    (parseObjs "!s\n  .help = h\n{\n  x = 1\n}\n".toList).map eraseList
      = .ok [.scope { name := ['s'], disabled := true, attrs := [("help", .str ['h'])] }
              [.defn { name := ['x'] } [{ value := ['1'] }]]] ∧
    asStr { level := 2 } (rootOf [.scope { name := ['s'], disabled := true, attrs := [("help", .str ['h'])] }
              [.defn { name := ['x'] } [{ value := ['1'] }]]])
      = .ok "!s\n  .help = h\n{\n  x = 1\n}\n".toList := by
  decide +kernel

/-! ### non-vacuity (replayed on the Python library: second print identical at levels 0, 2, 3, width 60; the flags of
    the re-parsed tree are `a`, `c`, `q` disabled, `b`, `s`, `p`, `d` enabled; second print identical)

  ```
  !a = 1
    .help = "x y"
  b = 2
    .deprecated = True
  s {
    !c = 3
    !p.q = 5
      .deprecated = True
    d = 6
  }
  ``` -/

def exDisSrc : Str :=
  ("!a = 1\n  .help = \"x y\"\nb = 2\n  .deprecated = True\ns {\n  !c = 3\n  !p.q = 5\n    .deprecated = True\n" ++
   "  d = 6\n}\n").toList

def exDisForest : List Obj :=
  [ .defn { name := ['a'], disabled := true, attrs := [("help", .str "x y".toList)] } [{ value := ['1'] }],
    .defn { name := ['b'], attrs := [("deprecated", .bool true)] } [{ value := ['2'] }],
    .scope { name := ['s'] }
      [ .defn { name := ['c'], disabled := true } [{ value := ['3'] }],
        .scope { name := ['p'] }
          [.defn { name := ['q'], disabled := true, mergeNames := true, attrs := [("deprecated", .bool true)] }
            [{ value := ['5'] }]],
        .defn { name := ['d'] } [{ value := ['6'] }] ] ]

theorem exDis_facts :
    (parseObjs exDisSrc).map eraseList = .ok exDisForest ∧
    (∀ x ∈ exDisForest, RTTreeAttrD 3 60 x) ∧
    (∀ x ∈ exDisForest, x.allDefns NlOnlyLast) ∧
    ¬ (∀ x ∈ exDisForest, RTTreeAttr 3 60 x) ∧
    asStr { level := 0, width := 60 } (rootOf exDisForest)
      = .ok "!a = 1\ns {\n  !c = 3\n  d = 6\n}\n".toList := by
  decide +kernel

/-- the round trip of the example at level 3, through the theorems; the flags come back -/
example : ∃ text objs' root', asStr { level := 3, width := 60 } (rootOf exDisForest) = .ok text ∧
    parseObjs text = .ok objs' ∧ eraseList objs' = eraseList (normAList 3 exDisForest) ∧
    parse text = .ok root' ∧ asStr { level := 3, width := 60 } root' = .ok text := by
  obtain ⟨_, h2, h4, _⟩ := exDis_facts
  obtain ⟨text, objs', h1, _, e2, e3, _⟩ :=
    print_parse_tree_attrs_disabled { level := 3, width := 60 } rfl exDisForest h2 h4
  obtain ⟨text', root', g1, g2, g3⟩ :=
    second_print_identical_attrs_disabled { level := 3, width := 60 } rfl exDisForest h2 h4
  have : text' = text := by rw [h1] at g1; cases g1; rfl
  subst this
  exact ⟨text', objs', root', h1, e2, e3, g2, g3⟩

/-- `erase` keeps the disabled flags: the flags of the forest the parser returns -/
example : (eraseList (normAList 3 exDisForest)).map (fun x => (x.name, x.meta.disabled))
    = [(['a'], true), (['b'], false), (['s'], false)] := by
  decide +kernel

/-! ### sharp edges -/

/-- **a disabled scope that is only a dotted prefix loses its flag** (why the class clears the flags of
    definitions only and leaves prefix scopes enabled): `definition.show` prints `!` by the flag of the
    DEFINITION; the flag of the prefix scope `a` of `a.b = 1` is not printed.  (Not producible by the
    parser: `!a.b = 1` disables `b`.) -/
theorem disabled_prefix_scope_is_lost :
    let t : List Obj := [.scope { name := ['a'], disabled := true }
      [.defn { name := ['b'], mergeNames := true } [{ value := ['1'] }]]]
    asStr {} (rootOf t) = .ok "a.b = 1\n".toList ∧ ¬ (∀ x ∈ t, RTTreeAttrD 0 79 x) := by
  decide +kernel

#print axioms rtAllAttrD_of_forall
#print axioms RTTreeAttr.toD
#print axioms print_tree_attrs_disabled
#print axioms print_parse_tree_attrs_disabled
#print axioms second_print_identical_attrs_disabled
#print axioms bang_definition_one_turn
#print axioms bang_scope_header_one_turn
#print axioms bang_scope_instance
#print axioms any_level_reparses_to_same_tree_disabled
#print axioms exDis_facts
#print axioms disabled_prefix_scope_is_lost

end Phil.C01
