/-
  C17, the `format` clause, abstraction level: the heap-level model `formatH` (Phil/HeapFormat.lean — what
  `scope.format(python_object)` / `definition.format` ALLOCATE, WRITE and SHARE) REFINES the pure model `formatObj`
  (Phil/Fetch.lean — WHAT the result is).  Simulation lemmas: Phil/Proofs/HeapFormatAbs.lean (`formatH_sim`, via the
  named pure loop bodies `fstepP` / `finnerP` / `fmtAppP` and `fstep_xt_eq_fstepP`).

  * `formatH_abs`          — if the master object `x` denotes the tree `o` and `formatH` returns `(h', r)`, then
                              `formatObj` returns on `(o, v)` with the same fuel and `r` denotes its result in `h'`;
  * `formatH_abs_eq`       — the executable abstraction of the result cell, whenever it answers, is the pure result;
  * `formatH_denotes`      — no hypothesis at all: a run that returns was a run on a master that denotes a tree;
  * `formatH_grows`        — the heap only grows and every object keeps its denotation (here WITHOUT the closedness
                              hypothesis of `C17FormatHeap.formatH_frame`: `Abs h x o` is enough);
  * `formatH_representation_independent` — two masters (in any two heaps) that denote the same tree give results that
                              denote the same tree: sharing / identity of the master's cells is not observable in WHAT
                              `format` returns;
  * `formatRootH_abs`      — the same for `master.format(python_object)` of a parsed master (no hypothesis left).

  Input class: EVERY heap, every object id `x` that denotes a tree (`Abs h x o`: reachable part acyclic and without
  dangling child ids — every object of every parsed document), EVERY python value `v`, every fuel, outcome `ok`.
  Not proved here: the converse (pure `ok` ⇒ heap `ok`), which needs adequacy of the fuel `h.length + 1` of `abs`.
-/
import Phil.Proofs.HeapFormatAbs
import Phil.Props.C17FormatHeap
import Phil.Props.C17HeapTotal
namespace Phil.C17FormatAbs
open Phil Phil.Heap

/-- **The heap-level `format` refines the pure model.**  Let the master object `x` denote the tree `o`.  Whenever
    `formatH` returns `(h', r)`, the pure `formatObj` returns on `(o, v)` with the same fuel, and `r` denotes its
    result in the new heap. -/
theorem formatH_abs (e : Envs) (fuel x : Nat) (v : PVal) (h h' : Heap) (r : Nat) (o : Obj)
    (ha : Abs h x o) (hf : formatH e fuel x v h = .ok (h', r)) :
    ∃ ro, formatObj e fuel o v = .ok ro ∧ Abs h' r ro :=
  (formatH_sim e fuel x v h h' r o ha hf).2

/-- `abs` form: the executable abstraction of the result, whenever it answers, is the pure result -/
theorem formatH_abs_eq (e : Envs) (fuel x : Nat) (v : PVal) (h h' : Heap) (r : Nat) (o : Obj)
    (ha : Abs h x o) (hf : formatH e fuel x v h = .ok (h', r)) (ro : Obj) (hr : abs h' r = some ro) :
    formatObj e fuel o v = .ok ro := by
  obtain ⟨ro', h1, h2⟩ := formatH_abs e fuel x v h h' r o ha hf
  rw [h1, Abs_unique ⟨_, hr⟩ h2]

/-- **The heap only grows, denotations are kept** — for every master that denotes a tree, closed heap or not. -/
theorem formatH_grows (e : Envs) (fuel x : Nat) (v : PVal) (h h' : Heap) (r : Nat) (o : Obj)
    (ha : Abs h x o) (hf : formatH e fuel x v h = .ok (h', r)) :
    (∃ ext, h' = h ++ ext) ∧ (∀ i, i < h.length → h'[i]? = h[i]?) ∧ (∀ y oy, Abs h y oy → Abs h' y oy) := by
  have g := (formatH_sim e fuel x v h h' r o ha hf).1
  exact ⟨g, fun i hi => g.get_lt hi, fun y oy hy => hy.grows g⟩

/-- **No hypothesis**: a run of `formatH` that returns was a run on a master object that denotes a tree; the pure
    model returns on that tree and the result cell denotes the pure result. -/
theorem formatH_denotes (e : Envs) (fuel x : Nat) (v : PVal) (h h' : Heap) (r : Nat)
    (hf : formatH e fuel x v h = .ok (h', r)) :
    ∃ o ro, Abs h x o ∧ formatObj e fuel o v = .ok ro ∧ Abs h' r ro := by
  have hden : ∃ o, Abs h x o := by
    cases fuel with
    | zero => simp only [formatH] at hf; cases hf
    | succ fuel =>
      simp only [formatH] at hf
      split at hf
      · cases hf
      · rename_i m ws p hx
        exact ⟨_, Abs_defn_intro hx⟩
      · rename_i m mk p hx
        split at hf
        · cases hf
        · rename_i mobjs hm
          exact ⟨_, Abs_scope_intro hx (AbsL_of_mapOpt hm)⟩
  obtain ⟨o, ha⟩ := hden
  obtain ⟨ro, h1, h2⟩ := formatH_abs e fuel x v h h' r o ha hf
  exact ⟨o, ro, ha, h1, h2⟩

/-- **What `format` returns does not depend on the representation of the master.**  Two master objects, in any two
    heaps, that denote the same tree: the two results denote the same tree. -/
theorem formatH_representation_independent (e : Envs) (fuel x1 x2 : Nat) (v : PVal) (h1 h1' h2 h2' : Heap)
    (r1 r2 : Nat) (o : Obj) (a1 : Abs h1 x1 o) (a2 : Abs h2 x2 o)
    (f1 : formatH e fuel x1 v h1 = .ok (h1', r1)) (f2 : formatH e fuel x2 v h2 = .ok (h2', r2)) :
    ∃ ro, Abs h1' r1 ro ∧ Abs h2' r2 ro := by
  obtain ⟨ro1, p1, q1⟩ := formatH_abs e fuel x1 v h1 h1' r1 o a1 f1
  obtain ⟨ro2, p2, q2⟩ := formatH_abs e fuel x2 v h2 h2' r2 o a2 f2
  rw [p1] at p2
  cases p2
  exact ⟨ro1, q1, q2⟩

/-- **Parsed masters**: `master.format(python_object)` on the heap of a parsed document returns a cell that denotes
    what the pure model computes for the document (no hypothesis left). -/
theorem formatRootH_abs (e : Envs) (master : List Obj) (v : PVal) (h' : Heap) (r : Nat)
    (hf : (formatRootH e master v).2 = .ok (h', r)) :
    ∃ ro, formatObj e ((master.foldl (fun a k => Nat.max a (depthObj 1000 k)) 0) + 3)
        (.scope { name := [] } master) v = .ok ro ∧ Abs h' r ro ∧
      Abs h' 0 (.scope { name := [] } master) := by
  have hroot := C17HeapTotal.ofObjs_root master
  obtain ⟨ro, h1, h2⟩ := formatH_abs e _ 0 v (ofObjs master) h' r _ hroot hf
  exact ⟨ro, h1, h2, (formatH_grows e _ 0 v (ofObjs master) h' r _ hroot hf).2.2 _ _ hroot⟩

/-! ### the hypotheses are satisfiable: the run of Phil/Props/C17FormatHeap.lean (a `.multiple` scope with a template
    copy, a definition, a plain scope; the python object comes from `fetch` + `extract`) -/

open Phil.C17FormatHeap Phil.C17FetchHeap

/-- the run returns (so `formatH_denotes` / `formatRootH_abs` apply), and on it the executable abstraction of the
    result cell answers -/
example : fRun.map (fun x => (abs x.2.1 x.2.2).isSome) = some true := by
  decide +kernel

/-- … and the pure model, run on the same master and python object, returns a tree with exactly the children the
    heap result denotes: template copy of `s`, the instance, `b`, `t` -/
theorem format_witness_abs :
    fRun.map (fun x => (abs x.2.1 x.2.2).map (fun o => o.children.map (fun k => (k.name, k.meta.tmpl)))) =
      some (some [("s".toList, -1), ("s".toList, 0), ("b".toList, 0), ("t".toList, 0)]) ∧
    (match parseObjs fMaster.toList, parseObjs fSource.toList with
     | .ok m, .ok s =>
       (match fetchRoot envNone false m [s] with
        | .ok (ro, _) =>
          (match extractObj envNone 1000 ro with
           | .ok v =>
             (match formatObj envNone ((m.foldl (fun a k => Nat.max a (depthObj 1000 k)) 0) + 3)
                 (.scope { name := [] } m) v with
              | .ok fo => some (fo.children.map (fun k => (k.name, k.meta.tmpl)))
              | .error _ => none)
           | _ => none)
        | _ => none)
     | _, _ => none) = some [("s".toList, -1), ("s".toList, 0), ("b".toList, 0), ("t".toList, 0)] := by
  decide +kernel

#print axioms formatH_abs
#print axioms formatH_abs_eq
#print axioms formatH_grows
#print axioms formatH_denotes
#print axioms formatH_representation_independent
#print axioms formatRootH_abs
#print axioms format_witness_abs

end Phil.C17FormatAbs
