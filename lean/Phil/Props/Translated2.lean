/-
  Phil.Props.Translated2 — the converters' decision logic as harness/translate.py regenerates it from
  src/freephil/converters.py on every run (Phil/Generated/Translated.lean; semantics of the subset — objects as
  `PVal`, raising as `Except Err` with the SITE name — in Phil/Generated/PyPrelude.lean) is EQUAL, on all inputs, to
  the pieces of the hand-written converter model `fromWords` is built from (Phil/Conv.lean).  (C10, C09, C16)
-/
import Phil.Generated.Translated
import Phil.Conv
namespace Phil.Translated2

/-! ### converters.bool_from_words -/

theorem boolFalse_lit : boolFalseSpellings = [['f', 'a', 'l', 's', 'e'], ['n', 'o'], ['o', 'f', 'f'], ['0']] := by decide
theorem boolTrue_lit : boolTrueSpellings = [['t', 'r', 'u', 'e'], ['y', 'e', 's'], ['o', 'n'], ['1']] := by decide

theorem len_pos (ws : List Word) : decide (Py.len ws > 0) = !ws.isEmpty := by
  cases ws with
  | nil => simp [Py.len]
  | cons w r => simp [Py.len]

/-- the translated `bool_from_words` is the `bool` branch of the model's `fromWords` (all word lists) -/
theorem bool_from_words_eq (env : EvalEnv) (opt : AttrVal) (ws : List Word) :
    Gen.bool_from_words ws = fromWords .bool env opt ws := by
  unfold Gen.bool_from_words fromWords boolFromWords Py.str_from_words strFromWords
  rw [boolFalse_lit, boolTrue_lit, len_pos]
  by_cases h1 : isPlainNone ws = true
  · simp [h1, Py.isNone]
  · by_cases h2 : isPlainAuto ws = true
    · simp [h1, h2, Py.isNone, Py.isAuto]
    · simp only [h1, h2, Bool.false_eq_true, if_false, Bool.or_self, Bool.or_false, Py.isNone, Py.isAuto, Py.strOf, Py.lower, Py.where_]
      generalize lower (joinWith [' '] (List.map (fun x => x.value) ws)) = l
      split
      · rfl
      · split
        · rfl
        · cases ws <;> simp

/-- the translated `bool_from_words` is the model's `boolFromWords` read as an object -/
theorem bool_from_words_model (ws : List Word) :
    Gen.bool_from_words ws = (match boolFromWords ws with
      | .error e => .error e | .ok .none => .ok .none | .ok .auto => .ok .auto | .ok (.bool b) => .ok (.bool b)
      | .ok _ => .error (.unsupported "boolFromWords")) :=
  bool_from_words_eq (fun _ => Option.none) .none ws

example : Gen.bool_from_words [{ value := "Yes".toList }] = .ok (.bool true) := by rfl
example : Gen.bool_from_words [{ value := "maybe".toList, line := some 3 }] = .error (.runtime "bool_expected" (some 3)) := by rfl

/-! ### _check_value_base._check_value -/

def optWords (withLine : Bool) (ws : List Word) : Option (List Word) := if withLine then some ws else Option.none

theorem ge_num (x : PVal) (n m : PNum) (hx : Py.numOf x = some n) : Py.ge x (.num m) = pyLe m n := by
  unfold Py.ge; rw [hx]; rfl
theorem le_num (x : PVal) (n m : PNum) (hx : Py.numOf x = some n) : Py.le x (.num m) = pyLe n m := by
  unfold Py.le; rw [hx]; rfl

/-- the translated `_check_value` on an object that compares as the number `n` (a number, or a bool as 0/1) is the
    model's `checkValue` -/
theorem check_value_eq (lo hi : Option PNum) (ws : List Word) (withLine : Bool) (x : PVal) (n : PNum)
    (hx : Py.numOf x = some n) :
    Gen._check_value lo hi x (optWords withLine ws) = checkValue lo hi ws withLine n := by
  unfold Gen._check_value checkValue optWords
  rcases lo with _ | m <;> rcases hi with _ | M <;> cases withLine <;>
    simp only [Py.ofOptNum, ge_num x n _ hx, le_num x n _ hx, Py.where_opt, Option.isNone_none, Option.isNone_some,
      Bool.not_true, Bool.not_false, Bool.false_and, Bool.true_and, Bool.false_eq_true, if_false, if_true] <;>
    first
      | rfl
      | (cases pyLe n M <;> rfl)
      | (cases pyLe m n <;> rfl)
      | (cases pyLe m n <;> cases pyLe n M <;> rfl)

theorem check_value_num (lo hi : Option PNum) (ws : List Word) (withLine : Bool) (n : PNum) :
    Gen._check_value lo hi (.num n) (optWords withLine ws) = checkValue lo hi ws withLine n :=
  check_value_eq lo hi ws withLine (.num n) n rfl

theorem check_value_bool (lo hi : Option PNum) (ws : List Word) (withLine : Bool) (b : Bool) :
    Gen._check_value lo hi (.bool b) (optWords withLine ws) = checkValue lo hi ws withLine (.int (if b then 1 else 0)) :=
  check_value_eq lo hi ws withLine (.bool b) _ rfl

/-- sharpness of `numOf x = some n`: on a non-number Python raises TypeError (outside the subset); the translated
    function refuses, the model has no such case -/
theorem check_value_non_number :
    Gen._check_value (some (.int 0)) Option.none (.str []) Option.none = .error (.runtime "value_min" Option.none) := by rfl

example : Gen._check_value (some (.int 0)) (some (.flt 5 2)) (.num .nan) (some [{ value := "nan".toList, line := some 2 }])
    = .error (.runtime "value_min" (some 2)) := by rfl

/-! ### numbers_converters_base._check_size -/

/-- the translated `_check_size` is the model's `checkSize` (all bounds, all sizes) -/
theorem check_size_eq (smin smax : Option Int) (ws : List Word) (withLine : Bool) (n : Nat) :
    Gen._check_size smin smax (n : Int) (optWords withLine ws) = checkSize smin smax ws withLine n := by
  unfold Gen._check_size checkSize optWords
  cases smin <;> cases smax <;> cases withLine <;>
    simp only [Py.getInt, Py.where_opt, Option.isNone_none, Option.isNone_some, Option.getD_some,
      Bool.not_true, Bool.not_false, Bool.false_and, Bool.true_and, Bool.false_eq_true, if_false, if_true] <;>
    (repeat' split) <;> simp_all <;> omega

example : Gen._check_size (some 2) (some 2) 3 (some [{ value := "1".toList, line := some 4 }])
    = .error (.runtime "too_many" (some 4)) := by rfl

/-! ### converters.int_from_number / float_from_number -/

theorem roundRatio_mul (n : Int) (d : Nat) (hd : d ≠ 0) :
    (Py.roundRatio n d * (d : Int) == n) = (n % (d : Int) == 0) := by
  have hd' : (0 : Int) < d := by omega
  by_cases h : n % (d : Int) = 0
  · have h2 : Py.roundRatio n d = n / (d : Int) := by
      unfold Py.roundRatio
      simp only [h]
      rw [if_pos (by omega)]
    rw [h2, Int.ediv_mul_cancel (Int.dvd_of_emod_eq_zero h), h]; simp
  · have : ¬ Py.roundRatio n d * (d : Int) = n := by
      intro e; apply h; rw [← e]; exact Int.mul_emod_left _ _
    rw [show (Py.roundRatio n d * (d : Int) == n) = false from by simpa using this,
      show (n % (d : Int) == 0) = false from by simpa using h]

/-- the translated `int_from_number` is the model's `intFromNumber` (all objects) -/
theorem int_from_number_eq (ws : List Word) (v : PVal) : Gen.int_from_number v ws = intFromNumber ws v := by
  unfold Gen.int_from_number
  cases v with
  | num n =>
    cases n with
    | int i => rfl
    | flt n d =>
      simp only [Py.isinstance_int, Py.isinstance_float, Py.isfinite, Py.round, Py.veq, Py.numOf, Py.numEq, Py.int,
        intFromNumber, wordsErr, Py.where_, Bool.false_eq_true, if_false, Bool.true_and]
      by_cases hd : d = 0
      · subst hd; simp
      · rw [roundRatio_mul n d hd]
        have hd' : (d != 0) = true := by simpa using hd
        rw [hd']
        by_cases h : n % (d : Int) = 0
        · have hdv : (d : Int) ∣ n := Int.dvd_of_emod_eq_zero h
          simp [h, Int.tdiv_eq_ediv, hdv]
        · simp [h]
    | inf => rfl
    | ninf => rfl
    | nan => rfl
  | bool b => rfl
  | none => rfl
  | auto => rfl
  | str s => rfl
  | list l => rfl
  | words w => rfl
  | record f => rfl
  | multi o l => rfl

/-- the translated `float_from_number` is the model's `floatFromNumber` (all objects) -/
theorem float_from_number_eq (ws : List Word) (v : PVal) : Gen.float_from_number v ws = floatFromNumber ws v := by
  unfold Gen.float_from_number
  cases v with
  | num n =>
    cases n with
    | int i =>
      simp only [Py.isinstance_int, Py.isinstance_float, Py.float, floatFromNumber, Bool.false_eq_true, if_false, if_true]
      by_cases hi : i.natAbs ≤ 9007199254740992 <;> simp [hi, Py.isExc]
    | flt n d => rfl
    | inf => rfl
    | ninf => rfl
    | nan => rfl
  | bool b => rfl
  | none => rfl
  | auto => rfl
  | str s => rfl
  | list l => rfl
  | words w => rfl
  | record f => rfl
  | multi o l => rfl

example : Gen.int_from_number (.num (.flt 6 2)) [] = .ok (.num (.int 3)) := by rfl
example : Gen.int_from_number (.num (.flt 5 2)) [{ value := "2.5".toList, line := some 1 }]
    = .error (.runtime "integer_expected" (some 1)) := by rfl
example : Gen.float_from_number (.bool true) [] = .ok (.num (.flt 1 1)) := by rfl

/-! ### number_converters_base.from_words: the None / Auto gates and the range check -/

/-- hand-written reading of `int_from_words` / `float_from_words` (`number_from_words`, then `int_/float_from_number`
    unless None / Auto) in the model's terms — the `_value_from_words` the gate is applied to -/
def valueFromWords (isInt : Bool) (env : EvalEnv) (ws : List Word) : R PVal :=
  match strFromWords ws with
  | .none => .ok .none
  | .auto => .ok .auto
  | .str s =>
    (match numberFromValueString env ws s with
     | .error e => .error e
     | .ok .none => .ok .none
     | .ok .auto => .ok .auto
     | .ok raw => if isInt then intFromNumber ws raw else floatFromNumber ws raw)
  | _ => .error (.unsupported "strFromWords")

theorem intFromNumber_ok (ws : List Word) (raw v : PVal) (h : intFromNumber ws raw = .ok v) :
    (∃ n, v = .num n) ∨ (∃ b, v = .bool b) := by
  unfold intFromNumber at h
  split at h
  · cases h; exact Or.inl ⟨_, rfl⟩
  · cases h; exact Or.inr ⟨_, rfl⟩
  · split at h
    · cases h; exact Or.inl ⟨_, rfl⟩
    · cases h
  · cases h

theorem floatFromNumber_ok (ws : List Word) (raw v : PVal) (h : floatFromNumber ws raw = .ok v) :
    (∃ n, v = .num n) ∨ (∃ b, v = .bool b) := by
  unfold floatFromNumber at h
  split at h
  · cases h; exact Or.inl ⟨_, rfl⟩
  · cases h; exact Or.inl ⟨_, rfl⟩
  · cases h; exact Or.inl ⟨_, rfl⟩
  · cases h; exact Or.inl ⟨_, rfl⟩
  · split at h
    · cases h; exact Or.inl ⟨_, rfl⟩
    · cases h
  · cases h; exact Or.inl ⟨_, rfl⟩
  · cases h

/-- the range check after a conversion that yields a number or a bool: translated form = model form -/
theorem gate_tail (lo hi : Option PNum) (ws : List Word) (r : R PVal)
    (hr : ∀ v, r = .ok v → (∃ n, v = .num n) ∨ (∃ b, v = .bool b)) (x : PVal → R PVal) :
    ((match (generalizing := false) r with
      | .error e => .error e
      | .ok value =>
        if Py.isNone value then x value
        else if Py.isAuto value then .ok value
        else match Gen._check_value lo hi value (some ws) with
          | .error e => .error e
          | .ok _ => .ok value) : R PVal)
    = (match (generalizing := false) r with
      | .error e => .error e
      | .ok (.num v) => (checkValue lo hi ws true v).map (fun _ => .num v)
      | .ok (.bool b) => (checkValue lo hi ws true (.int (if b then 1 else 0))).map (fun _ => .bool b)
      | .ok v => .ok v) := by
  cases r with
  | error e => rfl
  | ok v =>
    rcases hr v rfl with ⟨n, rfl⟩ | ⟨b, rfl⟩
    · have := check_value_num lo hi ws true n
      simp only [optWords, if_true] at this
      simp only [Py.isNone, Py.isAuto, Bool.false_eq_true, if_false, this]
      cases checkValue lo hi ws true n <;> rfl
    · have := check_value_bool lo hi ws true b
      simp only [optWords, if_true] at this
      simp only [Py.isNone, Py.isAuto, Bool.false_eq_true, if_false, this]
      cases checkValue lo hi ws true (.int (if b then 1 else 0)) <;> rfl

/-- the translated `number_converters_base.from_words`, applied to the model's reading of `int_from_words` /
    `float_from_words`, is the model's `fromWords` of an `int` / `float` type (all arguments, all word lists) -/
theorem number_gate_eq (isInt : Bool) (a : NumArgs) (env : EvalEnv) (opt : AttrVal) (ws : List Word) :
    Gen.number_from_words_gate a.valueMin a.valueMax a.allowNone (valueFromWords isInt env) ws
      = fromWords (if isInt then .int a else .float a) env opt ws := by
  have hfw : fromWords (if isInt then .int a else .float a) env opt ws =
      (match strFromWords ws with
       | .none => if a.allowNone then .ok .none else .error (.runtime "cannot_be_none" Option.none)
       | .auto => .ok .auto
       | .str s =>
         (match numberFromValueString env ws s with
          | .error e => .error e
          | .ok .none => if a.allowNone then .ok .none else .error (.runtime "cannot_be_none" Option.none)
          | .ok .auto => .ok .auto
          | .ok raw =>
            (match (if isInt then intFromNumber ws raw else floatFromNumber ws raw) with
             | .error e => .error e
             | .ok (.num v) => (checkValue a.valueMin a.valueMax ws true v).map (fun _ => .num v)
             | .ok (.bool b) =>
               (checkValue a.valueMin a.valueMax ws true (.int (if b then 1 else 0))).map (fun _ => .bool b)
             | .ok v => .ok v))
       | _ => .error (.unsupported "strFromWords")) := by
    cases isInt <;> rfl
  rw [hfw]
  unfold Gen.number_from_words_gate valueFromWords
  have hok : ∀ raw v, (if isInt then intFromNumber ws raw else floatFromNumber ws raw) = .ok v →
      (∃ n, v = .num n) ∨ (∃ b, v = .bool b) := by
    intro raw v h
    cases isInt
    · exact floatFromNumber_ok ws raw v h
    · exact intFromNumber_ok ws raw v h
  cases strFromWords ws with
  | none => simp only [Py.isNone]; cases a.allowNone <;> rfl
  | auto => simp only [Py.isNone, Py.isAuto]; rfl
  | str s =>
    simp only
    cases numberFromValueString env ws s with
    | error e => rfl
    | ok raw =>
      cases raw with
      | none => simp only [Py.isNone]; cases a.allowNone <;> rfl
      | auto => simp only [Py.isNone, Py.isAuto]; rfl
      | bool b => dsimp only; exact gate_tail _ _ ws _ (hok _) (fun value => if a.allowNone = true then .ok value else .error (.runtime "cannot_be_none" Option.none))
      | num n => dsimp only; exact gate_tail _ _ ws _ (hok _) (fun value => if a.allowNone = true then .ok value else .error (.runtime "cannot_be_none" Option.none))
      | str s => dsimp only; exact gate_tail _ _ ws _ (hok _) (fun value => if a.allowNone = true then .ok value else .error (.runtime "cannot_be_none" Option.none))
      | list l => dsimp only; exact gate_tail _ _ ws _ (hok _) (fun value => if a.allowNone = true then .ok value else .error (.runtime "cannot_be_none" Option.none))
      | words w => dsimp only; exact gate_tail _ _ ws _ (hok _) (fun value => if a.allowNone = true then .ok value else .error (.runtime "cannot_be_none" Option.none))
      | record f => dsimp only; exact gate_tail _ _ ws _ (hok _) (fun value => if a.allowNone = true then .ok value else .error (.runtime "cannot_be_none" Option.none))
      | multi o l => dsimp only; exact gate_tail _ _ ws _ (hok _) (fun value => if a.allowNone = true then .ok value else .error (.runtime "cannot_be_none" Option.none))
  | bool b => rfl
  | int i => rfl
  | conv c => rfl

/-! ### numbers_converters_base.from_words: None / Auto, size check, element gates and range checks -/

/-- the model's `numbersFromWords` read as an object: `None` | `Auto` | the list of raw numbers -/
def numbersObj (env : EvalEnv) (ws : List Word) : R PVal :=
  match numbersFromWords env ws with
  | .error e => .error e
  | .ok (.inr ()) => .ok .auto
  | .ok (.inl Option.none) => .ok .none
  | .ok (.inl (some l)) => .ok (.list l)

theorem step_tail (lo hi : Option PNum) (ws : List Word) (acc : List PVal) (r : R PVal)
    (hr : ∀ v, r = .ok v → (∃ n, v = .num n) ∨ (∃ b, v = .bool b)) :
    ((match (generalizing := false) r with
      | .error e => .error e
      | .ok value =>
        match Gen._check_value lo hi value (some ws) with
          | .error e => .error e
          | .ok _ => .ok (acc ++ [value])) : R (List PVal))
    = (match (generalizing := false) r with
      | .error e => .error e
      | .ok (.num v) => (checkValue lo hi ws true v).map (fun _ => acc ++ [.num v])
      | .ok (.bool b) => (checkValue lo hi ws true (.int (if b then 1 else 0))).map (fun _ => acc ++ [.bool b])
      | .ok v => .ok (acc ++ [v])) := by
  cases r with
  | error e => rfl
  | ok v =>
    rcases hr v rfl with ⟨n, rfl⟩ | ⟨b, rfl⟩
    · have := check_value_num lo hi ws true n
      simp only [optWords, if_true] at this
      simp only [this]
      cases checkValue lo hi ws true n <;> rfl
    · have := check_value_bool lo hi ws true b
      simp only [optWords, if_true] at this
      simp only [this]
      cases checkValue lo hi ws true (.int (if b then 1 else 0)) <;> rfl

/-- the translated `numbers_converters_base.from_words`, applied to the model's `numbersFromWords` and
    `intFromNumber` / `floatFromNumber`, is the model's `fromWords` of an `ints` / `floats` type -/
theorem numbers_gate_eq (isInt : Bool) (a : ListArgs) (env : EvalEnv) (opt : AttrVal) (ws : List Word) :
    Gen.numbers_from_words_gate a.sizeMin a.sizeMax a.valueMin a.valueMax a.allowNoneEl a.allowAutoEl
        (fun n ws => if isInt then intFromNumber ws n else floatFromNumber ws n) (numbersObj env) ws
      = fromWords (if isInt then .ints a else .floats a) env opt ws := by
  have hfw : fromWords (if isInt then .ints a else .floats a) env opt ws =
    (match numbersFromWords env ws with
     | .error e => .error e
     | .ok (.inr ()) => .ok .auto
     | .ok (.inl Option.none) => .ok .none
     | .ok (.inl (some raws)) =>
       (match checkSize a.sizeMin a.sizeMax ws true raws.length with
        | .error e => .error e
        | .ok () =>
          let r : R (List PVal) := raws.foldlM (init := ([] : List PVal)) (fun (acc : List PVal) (raw : PVal) =>
            match (generalizing := false) raw with
            | .none => if a.allowNoneEl then .ok (acc ++ [.none]) else .error (wordsErr "element_none" ws)
            | .auto => if a.allowAutoEl then .ok (acc ++ [.auto]) else .error (wordsErr "element_auto" ws)
            | raw =>
              (match (if isInt then intFromNumber ws raw else floatFromNumber ws raw) with
               | .error e => .error e
               | .ok (.num v) => (checkValue a.valueMin a.valueMax ws true v).map (fun _ => acc ++ [.num v])
               | .ok (.bool b) =>
                 (checkValue a.valueMin a.valueMax ws true (.int (if b then 1 else 0))).map (fun _ => acc ++ [.bool b])
               | .ok v => .ok (acc ++ [v])))
          r.map PVal.list)) := by
    cases isInt <;> rfl
  rw [hfw]
  unfold Gen.numbers_from_words_gate numbersObj
  have hok : ∀ raw v, (if isInt then intFromNumber ws raw else floatFromNumber ws raw) = .ok v →
      (∃ n, v = .num n) ∨ (∃ b, v = .bool b) := by
    intro raw v h
    cases isInt
    · exact floatFromNumber_ok ws raw v h
    · exact intFromNumber_ok ws raw v h
  cases numbersFromWords env ws with
  | error e => rfl
  | ok r =>
    rcases r with (_ | raws) | ⟨⟨⟩⟩
    · rfl
    · have hs := check_size_eq a.sizeMin a.sizeMax ws true raws.length
      simp only [optWords, if_true] at hs
      have h0 : (Py.isNone (PVal.list raws) || Py.isAuto (PVal.list raws)) = false := rfl
      simp only [h0, Py.vlen, Py.items, Bool.false_eq_true, if_false, hs]
      cases checkSize a.sizeMin a.sizeMax ws true raws.length with
      | error e => rfl
      | ok u =>
        have hstep : (fun (result : List PVal) (number : PVal) =>
            (if Py.isNone number = true then
              if a.allowNoneEl = true then Except.ok (result ++ [number]) else Except.error (Err.runtime "element_none" (Py.where_ ws))
            else if Py.isAuto number = true then
              if a.allowAutoEl = true then Except.ok (result ++ [number]) else Except.error (Err.runtime "element_auto" (Py.where_ ws))
            else
              match (if isInt = true then intFromNumber ws number else floatFromNumber ws number) with
              | .error e => .error e
              | .ok value =>
                match Gen._check_value a.valueMin a.valueMax value (some ws) with
                | .error e => .error e
                | .ok _ => .ok (result ++ [value]) : R (List PVal)))
          = (fun (acc : List PVal) (raw : PVal) =>
            match (generalizing := false) raw with
            | .none => if a.allowNoneEl then .ok (acc ++ [.none]) else .error (wordsErr "element_none" ws)
            | .auto => if a.allowAutoEl then .ok (acc ++ [.auto]) else .error (wordsErr "element_auto" ws)
            | raw =>
              (match (if isInt then intFromNumber ws raw else floatFromNumber ws raw) with
               | .error e => .error e
               | .ok (.num v) => (checkValue a.valueMin a.valueMax ws true v).map (fun _ => acc ++ [.num v])
               | .ok (.bool b) =>
                 (checkValue a.valueMin a.valueMax ws true (.int (if b then 1 else 0))).map (fun _ => acc ++ [.bool b])
               | .ok v => .ok (acc ++ [v]))) := by
          funext acc raw
          cases raw with
          | none => rfl
          | auto => rfl
          | bool b => exact step_tail _ _ ws acc _ (hok _)
          | num n => exact step_tail _ _ ws acc _ (hok _)
          | str s => exact step_tail _ _ ws acc _ (hok _)
          | list l => exact step_tail _ _ ws acc _ (hok _)
          | words w => exact step_tail _ _ ws acc _ (hok _)
          | record f => exact step_tail _ _ ws acc _ (hok _)
          | multi o l => exact step_tail _ _ ws acc _ (hok _)
        have hmap : ∀ F : R (List PVal), ((match F with
            | .error e => .error e
            | .ok result => .ok (PVal.list result)) : R PVal) = F.map PVal.list := by
          intro F; cases F <;> rfl
        refine (hmap _).trans ?_
        exact congrArg (Except.map PVal.list) (congrArg (fun f => List.foldlM f ([] : List PVal) raws) hstep)
    · rfl

end Phil.Translated2

#print axioms Phil.Translated2.bool_from_words_eq
#print axioms Phil.Translated2.bool_from_words_model
#print axioms Phil.Translated2.check_value_eq
#print axioms Phil.Translated2.check_value_num
#print axioms Phil.Translated2.check_value_bool
#print axioms Phil.Translated2.check_value_non_number
#print axioms Phil.Translated2.check_size_eq
#print axioms Phil.Translated2.int_from_number_eq
#print axioms Phil.Translated2.float_from_number_eq
#print axioms Phil.Translated2.number_gate_eq
#print axioms Phil.Translated2.numbers_gate_eq
