/-
  C20 (concrete kernel, NESTED masters) — the kernel laws of Phil/Props/C20.lean discharged for the
  fetch model on nested masters whose definitions may be `.multiple`.

    "… popping a state restores exactly the working parameters that were current at the matching
     push.  Applying the same edit twice in a row leaves the working parameters as after the first
     application."

  Phil/Props/C20Concrete.lean proves both laws of the generic machine for `concreteKernel c` on FLAT
  masters.  Here the same is done on NESTED masters with the closed forms of
  Phil/Proofs/FetchTreeMulti.lean; no law hypothesis is left.  Lemmas: Phil/Proofs/IndexTreeLemmas.lean
  (suffix `_itl`).

  Class covered (unbounded: every such context, every history, every edit of the class):
    * contexts `TreeCtx c`: the master is a `TreeMultiMaster` — enabled NON-multiple scopes to any
      depth ≤ 1000, definitions of any type that are `.multiple` or not (not `.deprecated`, not
      choices), sibling names distinct, non-empty, dot-free — fit for re-fetching (`masterCheck_tm`
      is the executable test); the theorems hold for every `Envs`.  `.multiple` SCOPES stay outside
      (as in the closed form of the fetch itself);
    * working sets `ReachedT c w`: `w` is the closed-form result `treeMultiResult` of fetching the
      master against some good source tree (equivalently, by `reached_tree_is_fetch_result`, the
      result of an actual `master.fetch(source = D)`); the initial working set is reached;
    * `pop_restores_tree`: EVERY balanced inner history (any edits, `update_from_python` included);
    * `reached_invariant_tree`, `same_edit_twice_tree`: edits `TreeEdit` (if the text parses, it
      parses to a good source tree whose candidate keys are defined) that are `PlainEdit` /
      `NoMultiEdit`: they name no `.multiple` parameter, so `merge_phil` deletes nothing.  Edits of
      `.multiple` parameters of a nested master go through `delete_phil_objects` on a nested tree;
      that path is NOT covered here (on flat masters it is: `same_edit_twice_concrete`).  These two
      hypotheses restrict the class; they are not claimed to be sharp.

    1. `reached_tree_is_fetch_result`, `reached_tree_is_good_source`
    2. `refetch_exact_tree`
    3. `merge_closed_form_tree`, `merge_reached_tree`, `init_reached_tree`, `reached_invariant_tree`
    4. `pop_restores_tree` (+ `_stack`, `_reachable`), `set_state_exact_tree`
    5. `same_edit_twice_tree` (+ `_state`, `_reachable`), `absorption_tree`
    6. kernel-checked instances on a literal nested context
-/
import Phil.Props.C20Concrete
import Phil.Proofs.IndexTreeLemmas
set_option linter.unusedVariables false
namespace Phil.C20
open Phil Phil.Index

/-! ### 1. reached working sets -/

/-- a reached working set is exactly the result of an actual fetch of a good source tree -/
theorem reached_tree_is_fetch_result (c : IndexCtx) (hc : TreeCtx c) (w : List Obj) :
    ReachedT c w ↔ ∃ D u, GoodTreeSrc D ∧ KeysDefinedTree c.envs c.master D ∧
      fetchRoot c.envs false c.master [D] = .ok (rootOf w, u) :=
  reachedT_iff_fetch_itl hc w

/-- taken as a source, a reached working set is good, has defined keys, does not clash with the
    master, and is a fixed point of the closed form -/
theorem reached_tree_is_good_source (c : IndexCtx) (hc : TreeCtx c) (w : List Obj) (h : ReachedT c w) :
    GoodTreeSrc w ∧ KeysDefinedTree c.envs c.master w ∧ noClash c.master w = true ∧
      treeMultiResult c.envs c.master w = w :=
  reachedT_good_itl hc h

/-! ### 2. `push_state`'s re-fetch is the identity on reached working sets -/

/-- **refetch law (nested masters).**  `master.fetch(source = w) = w` for every reached working set. -/
theorem refetch_exact_tree (c : IndexCtx) (hc : TreeCtx c) (w : List Obj) (h : ReachedT c w) :
    (concreteKernel c).refetch w = w :=
  refetch_exact_itl hc h

/-! ### 3. `ReachedT` is an invariant -/

/-- what a successful merge of a plain edit computes: the edit alone fetches (refusal check), there is
    no clash of kinds, and the new working set is the closed form on `w ++ edit` -/
theorem merge_closed_form_tree (c : IndexCtx) (hc : TreeCtx c) (w : List Obj) (hw : ReachedT c w)
    (e : Str) (edit : List Obj) (hp : parseObjs e = .ok edit) (he : GoodTreeSrc edit)
    (hke : KeysDefinedTree c.envs c.master edit) (hpl : redundantOf c edit = []) (w' : List Obj)
    (h : (concreteKernel c).merge w e = some w') :
    (∃ r, fetchRoot c.envs false c.master [edit] = .ok r) ∧ noClash c.master (w ++ edit) = true ∧
      w' = treeMultiResult c.envs c.master (w ++ edit) :=
  merge_some_itl hc hw hp he hke hpl h

theorem merge_reached_tree (c : IndexCtx) (hc : TreeCtx c) (w : List Obj) (hw : ReachedT c w)
    (e : Str) (he : TreeEdit c e) (hpl : PlainEdit c e) (w' : List Obj)
    (h : (concreteKernel c).merge w e = some w') : ReachedT c w' :=
  merge_reachedT_itl hc hw he hpl h

/-- the initial working set `master.fetch()` is reached -/
theorem init_reached_tree (c : IndexCtx) (hc : TreeCtx c) (hk : KeysDefinedTree c.envs c.master [])
    (r : Obj) (u : List Nat) (h : fetchRoot c.envs false c.master [] = .ok (r, u)) :
    ReachedT c r.children :=
  init_reachedT_itl hc hk h

/-- **the invariant (nested masters).**  From a state whose working set and saved states are reached,
    every history of `update` (plain tree edits), `push`, `pop`, `set_state`, `get_python_object`
    leads to such a state. -/
theorem reached_invariant_tree (c : IndexCtx) (hc : TreeCtx c) (s : State (List Obj) PVal)
    (ops : List (Op PVal Str)) (hg : GoodOpsT c ops) (hs : StateReachedT c s) :
    StateReachedT c (run (concreteKernel c) s ops) :=
  run_reachedT_itl hc ops s hg hs

theorem reached_invariant_tree_init (c : IndexCtx) (hc : TreeCtx c) (w : List Obj) (hw : ReachedT c w)
    (ops : List (Op PVal Str)) (hg : GoodOpsT c ops) :
    ReachedT c (run (concreteKernel c) (init (concreteKernel c) w) ops).working :=
  (run_reachedT_itl hc ops _ hg (init_stateReachedT_itl hw)).1

/-! ### 4. pop restores exactly — no law hypothesis left -/

/-- **C20, pop restores (concrete kernel, nested masters).**  From any state whose working set is
    reached, for EVERY balanced inner history (any edits, `update_from_python` included), the working
    set after the matching `pop` EQUALS the working set at the `push`. -/
theorem pop_restores_tree (c : IndexCtx) (hc : TreeCtx c) (s : State (List Obj) PVal)
    (hs : ReachedT c s.working) (inner : List (Op PVal Str)) (hb : Balanced inner) :
    (run (concreteKernel c) s (.push :: (inner ++ [.pop]))).working = s.working :=
  pop_restores_exact (concreteKernel c) s inner hb (refetch_exact_itl hc hs)

theorem pop_restores_tree_stack (c : IndexCtx) (s : State (List Obj) PVal)
    (inner : List (Op PVal Str)) (hb : Balanced inner) :
    (run (concreteKernel c) s (.push :: (inner ++ [.pop]))).states = s.states :=
  (pop_restores (concreteKernel c) s inner hb).2.1

/-- anywhere in a history from the initial state -/
theorem pop_restores_tree_reachable (c : IndexCtx) (hc : TreeCtx c) (w : List Obj) (hw : ReachedT c w)
    (pre inner : List (Op PVal Str)) (hg : GoodOpsT c pre) (hb : Balanced inner) :
    (run (concreteKernel c) (init (concreteKernel c) w) (pre ++ .push :: (inner ++ [.pop]))).working
      = (run (concreteKernel c) (init (concreteKernel c) w) pre).working := by
  rw [run_append]
  exact pop_restores_tree c hc _ (reached_invariant_tree_init c hc w hw pre hg) inner hb

/-- `set_state i` makes the `i`-th saved state itself current -/
theorem set_state_exact_tree (c : IndexCtx) (hc : TreeCtx c) (s : State (List Obj) PVal)
    (hs : StateReachedT c s) (i : Nat) (w : List Obj) (hi : s.states[i]? = some w) :
    (step (concreteKernel c) s (.setState i)).1.working = w := by
  rw [step_setState_some _ s i w hi]
  exact refetch_exact_itl hc (hs.2 w (List.mem_of_getElem? hi))

/-! ### 5. the same edit twice — the kernel law proved -/

/-- the absorption law of the closed form behind it: the result of `S ++ A`, merged with `A` once
    more, is reproduced (last value wins at every depth; the blocks of `.multiple` definitions `A`
    does not mention are fixed points of the list rule) -/
theorem absorption_tree (e : Envs) (l S A : List Obj) (hf : TreeMultiMaster l) (hr : RefetchTree l)
    (hnm : noMulti l A = true) :
    treeMultiResult e l (treeMultiResult e l (S ++ A) ++ A) = treeMultiResult e l (S ++ A) :=
  treeMultiResult_absorb_itl e _ l S A (Nat.le_refl _) hf hr hnm

/-- **C20, edit idempotence (the kernel law of the concrete kernel, nested masters).**  For every
    plain tree edit: merging the edit into the result of merging it into a reached working set
    changes nothing. -/
theorem same_edit_twice_tree (c : IndexCtx) (hc : TreeCtx c) (e : Str) (he : TreeEdit c e)
    (hpl : PlainEdit c e) (hnm : NoMultiEdit c e) :
    IdemKernelOn (concreteKernel c) (ReachedT c) e :=
  fun _ _ hw h => merge_idem_itl hc hw he hpl hnm h

theorem same_edit_twice_tree_state (c : IndexCtx) (hc : TreeCtx c) (e : Str) (he : TreeEdit c e)
    (hpl : PlainEdit c e) (hnm : NoMultiEdit c e) (s : State (List Obj) PVal) (hs : ReachedT c s.working) :
    run (concreteKernel c) s [.update e, .update e] = run (concreteKernel c) s [.update e] := by
  simp only [run_cons, run_nil]
  cases h : (concreteKernel c).merge s.working e with
  | none => rw [update_refused h, update_refused h]
  | some w' =>
    rw [update_accepted h]
    rw [update_accepted (w := w') (merge_idem_itl hc hs he hpl hnm h)]

/-- anywhere in a history from the initial state -/
theorem same_edit_twice_tree_reachable (c : IndexCtx) (hc : TreeCtx c) (w : List Obj)
    (hw : ReachedT c w) (pre : List (Op PVal Str)) (hg : GoodOpsT c pre) (e : Str) (he : TreeEdit c e)
    (hpl : PlainEdit c e) (hnm : NoMultiEdit c e) :
    (run (concreteKernel c) (init (concreteKernel c) w) (pre ++ [.update e, .update e])).working =
    (run (concreteKernel c) (init (concreteKernel c) w) (pre ++ [.update e])).working := by
  rw [run_append, run_append,
    same_edit_twice_tree_state c hc e he hpl hnm _ (reached_invariant_tree_init c hc w hw pre hg)]

/-! ### 6. a literal nested context -/

/-- executable tests of the edit classes -/
def treeEditB (c : IndexCtx) (text : Str) : Bool :=
  match parseObjs text with
  | .ok edit => srcCheck edit && keysDefinedTreeB c.envs c.master edit
  | .error _ => true

def plainEditB (c : IndexCtx) (text : Str) : Bool :=
  match parseObjs text with
  | .ok edit => (redundantOf c edit).isEmpty && noMulti c.master edit
  | .error _ => true

theorem treeEdit_of_B {c : IndexCtx} {text : Str} (h : treeEditB c text = true) : TreeEdit c text := by
  intro edit hp
  unfold treeEditB at h
  rw [hp] at h
  simp only [Bool.and_eq_true] at h
  have hS := srcCheck_sound edit h.1
  exact ⟨⟨hS.tree, hS.noDollar⟩, keysDefinedTreeB_sound _ _ _ h.2⟩

theorem plainEdit_of_B {c : IndexCtx} {text : Str} (h : plainEditB c text = true) :
    PlainEdit c text ∧ NoMultiEdit c text := by
  constructor
  · intro edit hp
    unfold plainEditB at h
    rw [hp] at h
    simp only [Bool.and_eq_true] at h
    simpa using h.1
  · intro edit hp
    unfold plainEditB at h
    rw [hp] at h
    simp only [Bool.and_eq_true] at h
    exact h.2

theorem treeCtx_of_B {c : IndexCtx} (h : masterCheck_tm c.master = true) : TreeCtx c :=
  ⟨masterCheck_tm_sound c.master h⟩

/-- the initial working tree `master.fetch()` of a context -/
def initW (c : IndexCtx) : List Obj :=
  match fetchRoot c.envs false c.master [] with | .ok (r, _) => r.children | .error _ => []

/-- executable test: the master is in the class, its own keys are defined, `master.fetch()` succeeds -/
def initChecksB (c : IndexCtx) : Bool :=
  masterCheck_tm c.master && keysDefinedTreeB c.envs c.master [] &&
    (errOf (fetchRoot c.envs false c.master [])).isNone

/-- from the executable test: the context is in the class and its initial working set is reached -/
theorem init_reached_of_B (c : IndexCtx) (h : initChecksB c = true) : TreeCtx c ∧ ReachedT c (initW c) := by
  unfold initChecksB at h
  simp only [Bool.and_eq_true] at h
  have hc : TreeCtx c := ⟨masterCheck_tm_sound c.master h.1.1⟩
  have hk : KeysDefinedTree c.envs c.master [] := keysDefinedTreeB_sound c.envs c.master [] h.1.2
  obtain ⟨⟨r, u⟩, hr⟩ := ok_of_errOf_none h.2
  refine ⟨hc, ?_⟩
  unfold initW
  rw [hr]
  exact init_reached_tree c hc hk r u hr

/-- ```
    n = 1
      .type = int
    g {
      s = a
        .type = str
        .multiple = True
      b = True
        .type = bool
      h {
        t = 2
          .type = int
      }
    }
    ``` -/
def tMasterText : Str :=
  ("n = 1\n  .type = int\ng {\n  s = a\n    .type = str\n    .multiple = True\n  b = True\n    .type = bool\n" ++
   "  h {\n    t = 2\n      .type = int\n  }\n}\n").toList

def tMaster : List Obj := match parseObjs tMasterText with | .ok m => m | .error _ => []

/-- the context: `multiple` is what `build_index(collect_multiple=True)` records (checked below) -/
def tC : IndexCtx := { envs := env12, master := tMaster, multiple := ["g.s".toList] }

/-- the initial working tree `master.fetch()` -/
def tW0 : List Obj := initW tC

local notation "K₂" => concreteKernel tC

/-- what is compared: name, template flag, words of every object, each followed by its children and
    grandchildren (dotted names) -/
def obs2 (w : List Obj) : List (String × Int × List String) :=
  w.flatMap (fun k => (String.ofList k.name, k.meta.tmpl, k.words.map (fun x => String.ofList x.value)) ::
    k.children.flatMap (fun k2 =>
      (String.ofList (k.name ++ '.' :: k2.name), k2.meta.tmpl, k2.words.map (fun x => String.ofList x.value)) ::
      k2.children.map (fun k3 => (String.ofList (k.name ++ '.' :: k2.name ++ '.' :: k3.name), k3.meta.tmpl,
        k3.words.map (fun x => String.ofList x.value)))))

def te1 : Str := "n = 2\ng.b = False".toList
def te2 : Str := "g {\n  h {\n    t = 1\n  }\n  b = False\n}\n".toList
/-- an edit of the `.multiple` definition `g.s` (outside `PlainEdit`) -/
def te3 : Str := "g.s = x".toList

example : (multiplePaths 1000 [] tW0).map String.ofList = ["g.s"] := by decide +kernel
example : depthL tMaster = 2 := by decide +kernel

theorem tC_checks : initChecksB tC = true := by decide +kernel

theorem tC_tree : TreeCtx tC := (init_reached_of_B tC tC_checks).1

theorem te1_tree : TreeEdit tC te1 := treeEdit_of_B (by decide +kernel)
theorem te2_tree : TreeEdit tC te2 := treeEdit_of_B (by decide +kernel)
theorem te1_plain : PlainEdit tC te1 ∧ NoMultiEdit tC te1 := plainEdit_of_B (by decide +kernel)
theorem te2_plain : PlainEdit tC te2 ∧ NoMultiEdit tC te2 := plainEdit_of_B (by decide +kernel)

/-- the edit of the `.multiple` definition is a tree edit but not a plain one -/
example : treeEditB tC te3 = true ∧ plainEditB tC te3 = false := by decide +kernel

theorem tW0_reached : ReachedT tC tW0 := (init_reached_of_B tC tC_checks).2

/-- the history before the bracket, and a balanced inner history with a nested bracket, an edit of the
    `.multiple` definition, `update_from_python(None)`-free `get_python_object` -/
def tPre : List (Op PVal Str) := [.update te1]
def tInner : List (Op PVal Str) := [.update te2, .push, .update te3, .pop, .getPython, .update te3]

theorem tPre_good : GoodOpsT tC tPre := ⟨⟨te1_tree, te1_plain.1⟩, trivial⟩

theorem tInner_balanced : Balanced tInner :=
  .update te2 (.push (inner := [.update te3]) (.update te3 .nil) (.getPython (.update te3 .nil)))

/-- the working set really moved inside the bracket (values at depth 2 and 3, an instance of `g.s`) … -/
example : obs2 (run K₂ (init K₂ tW0) (tPre ++ .push :: tInner)).working =
    [("n", 0, ["2"]), ("g", 0, []), ("g.s", -1, ["a"]), ("g.s", 0, ["x"]), ("g.b", 0, ["False"]),
     ("g.h", 0, []), ("g.h.t", 0, ["1"])] := by
  decide +kernel

/-- … and the matching pop restores it: by evaluation (what `obs2` shows) … -/
example : obs2 (run K₂ (init K₂ tW0) (tPre ++ .push :: (tInner ++ [.pop]))).working =
    [("n", 0, ["2"]), ("g", 0, []), ("g.s", 1, ["a"]), ("g.b", 0, ["False"]), ("g.h", 0, []),
     ("g.h.t", 0, ["2"])] := by
  decide +kernel

/-- … and by the theorem (equality of the working sets themselves) -/
example : (run K₂ (init K₂ tW0) (tPre ++ .push :: (tInner ++ [.pop]))).working =
    (run K₂ (init K₂ tW0) tPre).working :=
  pop_restores_tree_reachable tC tC_tree tW0 tW0_reached tPre tInner tPre_good tInner_balanced

/-- the same edit twice, at depth 3: by evaluation … -/
example : obs2 (run K₂ (init K₂ tW0) [.update te1, .update te2, .update te2]).working =
    obs2 (run K₂ (init K₂ tW0) [.update te1, .update te2]).working := by decide +kernel

/-- … and by the theorem -/
example : (run K₂ (init K₂ tW0) (tPre ++ [.update te2, .update te2])).working =
    (run K₂ (init K₂ tW0) (tPre ++ [.update te2])).working :=
  same_edit_twice_tree_reachable tC tC_tree tW0 tW0_reached tPre tPre_good te2 te2_tree te2_plain.1 te2_plain.2

/-- the invariant on the instance: the working set after the history is a fixed point of the re-fetch -/
def tHist : List (Op PVal Str) := [.update te1, .push, .update te2, .pop, .setState 0]

theorem tHist_good : GoodOpsT tC tHist := ⟨⟨te1_tree, te1_plain.1⟩, ⟨te2_tree, te2_plain.1⟩, trivial⟩

example : Kernel.refetch K₂ (run K₂ (init K₂ tW0) tHist).working = (run K₂ (init K₂ tW0) tHist).working :=
  refetch_exact_tree tC tC_tree _ (reached_invariant_tree_init tC tC_tree tW0 tW0_reached tHist tHist_good)

/-- **`ReachedT` is needed for the refetch law** (kernel-checked): a working set that is not a fetch
    result — the non-multiple `n` given twice — is NOT a fixed point of `push_state`'s re-fetch (the
    last value wins and one object is left). -/
theorem refetch_needs_reached :
    obs2 (Kernel.refetch K₂ (tW0 ++ tW0)) ≠ obs2 (tW0 ++ tW0) ∧
    Kernel.refetch K₂ (tW0 ++ tW0) ≠ tW0 ++ tW0 := by
  have h1 : obs2 (Kernel.refetch K₂ (tW0 ++ tW0)) ≠ obs2 (tW0 ++ tW0) := by decide +kernel
  exact ⟨h1, fun h => h1 (by rw [h])⟩

end Phil.C20

#print axioms Phil.C20.reached_tree_is_fetch_result
#print axioms Phil.C20.reached_tree_is_good_source
#print axioms Phil.C20.refetch_exact_tree
#print axioms Phil.C20.merge_closed_form_tree
#print axioms Phil.C20.merge_reached_tree
#print axioms Phil.C20.init_reached_tree
#print axioms Phil.C20.reached_invariant_tree
#print axioms Phil.C20.reached_invariant_tree_init
#print axioms Phil.C20.pop_restores_tree
#print axioms Phil.C20.pop_restores_tree_stack
#print axioms Phil.C20.pop_restores_tree_reachable
#print axioms Phil.C20.set_state_exact_tree
#print axioms Phil.C20.absorption_tree
#print axioms Phil.C20.same_edit_twice_tree
#print axioms Phil.C20.same_edit_twice_tree_state
#print axioms Phil.C20.same_edit_twice_tree_reachable
#print axioms Phil.C20.treeEdit_of_B
#print axioms Phil.C20.plainEdit_of_B
#print axioms Phil.C20.treeCtx_of_B
#print axioms Phil.C20.init_reached_of_B
#print axioms Phil.C20.tC_checks
#print axioms Phil.C20.tC_tree
#print axioms Phil.C20.te1_tree
#print axioms Phil.C20.te2_tree
#print axioms Phil.C20.te1_plain
#print axioms Phil.C20.te2_plain
#print axioms Phil.C20.tW0_reached
#print axioms Phil.C20.tPre_good
#print axioms Phil.C20.tInner_balanced
#print axioms Phil.C20.tHist_good
#print axioms Phil.C20.refetch_needs_reached
